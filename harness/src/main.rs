//! Correspondence harness: decodes the same case bytes as coq/Model/Case.v,
//! runs the real gamedig code, prints the same canonical text.
mod alloc;
mod eco;
mod canon;
mod cases;
mod idcheck;
mod master;
mod paths;
mod query;
mod ser;
mod settings;
mod view;
mod rd;
mod real;

use std::io::{BufRead, Write};

#[global_allocator]
static GLOBAL: alloc::Counting = alloc::Counting;

fn unhex(s: &str) -> Vec<u8> {
    let b = s.as_bytes();
    (0 .. b.len() / 2)
        .map(|i| {
            let h = |c: u8| {
                match c {
                    b'0' ..= b'9' => c - 48,
                    b'a' ..= b'f' => c - 87,
                    b'A' ..= b'F' => c - 55,
                    _ => 0,
                }
            };
            h(b[2 * i]) * 16 + h(b[2 * i + 1])
        })
        .collect()
}

fn main() {
    if std::env::args().any(|a| a == "--dump-games") {
        paths::dump_games();
        return;
    }
    // quiet panics: the message goes to stderr only when asked
    let verbose = std::env::var("VERIF_PANIC_MSG").is_ok();
    std::panic::set_hook(Box::new(move |info| {
        cases::LAST_PANIC.with(|p| *p.borrow_mut() = format!("{info}"));
        if verbose {
            eprintln!("{info}");
        }
    }));
    let stdin = std::io::stdin();
    let stdout = std::io::stdout();
    let mut out = std::io::BufWriter::new(stdout.lock());
    for line in stdin.lock().lines() {
        let line = line.unwrap();
        let case = unhex(line.trim());
        let res = cases::run_case(&case);
        out.write_all(res.as_bytes()).unwrap();
        out.write_all(b"\n").unwrap();
        out.flush().unwrap();
    }
}
