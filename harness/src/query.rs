//! Query cases: settings and scripts decoded as in coq/Model/Case.v, the real
//! query run under the scripted transport, result and trace rendered
//! canonically.
use crate::canon::*;
use crate::rd::{Rd, R};
use crate::ser::canon;
use gamedig::protocols::types::{GatherToggle, TimeoutSettings};
use gamedig::protocols::valve;
use gamedig::verif_hook as hook;
use gamedig::verif_hook::{Script, TcpConn, TraceEvent, UdpEvent};
use gamedig::GDResult;
use std::net::{IpAddr, Ipv4Addr, SocketAddr};
use std::panic::{catch_unwind, AssertUnwindSafe};
use std::time::Duration;

pub fn rd_opt<T>(rd: &mut Rd, f: impl FnOnce(&mut Rd) -> R<T>) -> R<Option<T>> {
    if rd.u8()? == 0 {
        Ok(None)
    } else {
        Ok(Some(f(rd)?))
    }
}
fn rd_dur(rd: &mut Rd) -> R<Duration> {
    let s = rd.u64()?;
    let n = rd.u32()?;
    Ok(Duration::new(s, n))
}
/// Err(text) = TimeoutSettings::new refused the values
pub fn rd_tsettings(rd: &mut Rd) -> R<Result<Option<TimeoutSettings>, String>> {
    if rd.u8()? == 0 {
        return Ok(Ok(None));
    }
    let c = rd_opt(rd, rd_dur)?;
    let r = rd_opt(rd, rd_dur)?;
    let w = rd_opt(rd, rd_dur)?;
    let retries = rd.u64()? as usize;
    Ok(match TimeoutSettings::new(r, w, c, retries) {
        Ok(t) => Ok(Some(t)),
        Err(e) => Err(show_err(&e)),
    })
}
pub fn rd_script(rd: &mut Rd) -> R<Script> {
    let mut s = Script::default();
    let nu = rd.u16()?;
    for _ in 0 .. nu {
        if rd.u8()? == 0 {
            s.udp.push_back(UdpEvent::Timeout);
        } else {
            s.udp.push_back(UdpEvent::Datagram(rd.bytes32()?.to_vec()));
        }
    }
    let nt = rd.u16()?;
    for _ in 0 .. nt {
        let t = rd.u8()?;
        if t == 0 {
            s.tcp.push_back(TcpConn::Refused);
        } else {
            s.tcp.push_back(TcpConn::Stream {
                data: rd.bytes32()?.to_vec(),
                stall: t == 2,
            });
        }
    }
    let nf = rd.u8()?;
    for _ in 0 .. nf {
        s.send_fail.push(rd.u16()? as usize);
    }
    Ok(s)
}
pub fn rd_toggle(rd: &mut Rd) -> R<GatherToggle> {
    Ok(match rd.u8()? {
        0 => GatherToggle::Skip,
        1 => GatherToggle::Try,
        _ => GatherToggle::Enforce,
    })
}

fn show_dur(d: &Duration) -> String { format!("{}.{}", d.as_secs(), d.subsec_nanos()) }
fn hex(b: &[u8]) -> String { b.iter().map(|x| format!("{:02x}", x)).collect() }

pub fn show_trace(tr: &[TraceEvent]) -> String {
    tr.iter()
        .map(|e| {
            match e {
                TraceEvent::NewUdp { addr } => format!("U{}", addr.port()),
                TraceEvent::NewTcp { addr, connect } => format!("T{}c{}", addr.port(), show_opt(connect, show_dur)),
                TraceEvent::ApplyTimeout { read, write } => format!("A{}/{}", show_opt(read, show_dur), show_opt(write, show_dur)),
                TraceEvent::Send { addr, data } => format!("S{}:{}", addr.port(), hex(data)),
                TraceEvent::Recv { size } => format!("R{}", show_opt(size, |s| s.to_string())),
            }
        })
        .collect::<Vec<_>>()
        .join(";")
}

pub fn addr(port: u16) -> SocketAddr { SocketAddr::new(IpAddr::V4(Ipv4Addr::LOCALHOST), port) }

/// Run a query under a script: "<result>|<trace>"
pub fn run_scripted<T>(script: Script, show: impl Fn(&T) -> String, f: impl FnOnce() -> GDResult<T>) -> String {
    hook::install(script);
    crate::alloc::reset();
    let r = silenced(|| catch_unwind(AssertUnwindSafe(f)));
    let (maxreq, peak) = crate::alloc::stats();
    let tr = hook::uninstall();
    crate::cases::SIDE.with(|s| s.borrow_mut().push_str(&format!("alloc={maxreq},{peak};")));
    let res = match r {
        Ok(r) => show_res(&r, show),
        Err(_) => "PANIC".to_string(),
    };
    format!("{}|{}", res, show_trace(&tr))
}

fn rd_engine(rd: &mut Rd) -> R<valve::Engine> {
    Ok(match rd.u8()? {
        0 => valve::Engine::Source(None),
        1 => valve::Engine::Source(Some((rd.u32()?, None))),
        2 => {
            let a = rd.u32()?;
            let d = rd.u32()?;
            valve::Engine::Source(Some((a, Some(d))))
        }
        3 => valve::Engine::GoldSrc(false),
        _ => valve::Engine::GoldSrc(true),
    })
}
fn rd_gathering(rd: &mut Rd) -> R<valve::GatheringSettings> {
    let players = rd_toggle(rd)?;
    let rules = rd_toggle(rd)?;
    let check_app_id = rd.u8()? != 0;
    Ok(valve::GatheringSettings {
        players,
        rules,
        check_app_id,
    })
}

pub fn case_valve(rd: &mut Rd) -> R<String> {
    let port = rd.u16()?;
    let engine = rd_engine(rd)?;
    let gather = rd_opt(rd, rd_gathering)?;
    let ts = rd_tsettings(rd)?;
    let script = rd_script(rd)?;
    // the bzip2 oracle table is for the model only
    let ts = match ts {
        Ok(t) => t,
        Err(e) => return Ok(format!("{e}|")),
    };
    Ok(run_scripted(script, |r: &valve::Response| canon(r), || valve::query(&addr(port), engine, gather, ts)))
}

pub fn case_quake(rd: &mut Rd) -> R<String> {
    use gamedig::protocols::quake;
    let port = rd.u16()?;
    let v = rd.u8()?;
    let ts = rd_tsettings(rd)?;
    let script = rd_script(rd)?;
    let ts = match ts {
        Ok(t) => t,
        Err(e) => return Ok(format!("{e}|")),
    };
    Ok(match v {
        1 => run_scripted(script, |r: &quake::Response<quake::one::Player>| canon(r), || quake::one::query(&addr(port), ts)),
        2 => run_scripted(script, |r: &quake::Response<quake::two::Player>| canon(r), || quake::two::query(&addr(port), ts)),
        _ => run_scripted(script, |r: &quake::Response<quake::two::Player>| canon(r), || quake::three::query(&addr(port), ts)),
    })
}


/// Run f with file descriptor 1 pointing at /dev/null: library code that
/// prints to stdout must not corrupt the result protocol. Returns f's value and
/// records in the side channel whether anything was printed.
pub fn silenced<T>(f: impl FnOnce() -> T) -> T {
    use std::io::Write;
    use std::os::unix::io::AsRawFd;
    let _ = std::io::stdout().flush();
    let tmp = std::env::temp_dir().join(format!("gd-harness-stdout-{}", std::process::id()));
    let file = std::fs::OpenOptions::new().create(true).write(true).truncate(true).open(&tmp).ok();
    let saved = unsafe { libc::dup(1) };
    if let Some(file) = &file {
        unsafe { libc::dup2(file.as_raw_fd(), 1) };
    }
    let r = f();
    let _ = std::io::stdout().flush();
    unsafe {
        libc::dup2(saved, 1);
        libc::close(saved);
    }
    let printed = std::fs::metadata(&tmp).map(|m| m.len()).unwrap_or(0);
    if printed > 0 {
        crate::cases::SIDE.with(|s| s.borrow_mut().push_str(&format!("stdout={printed};")));
    }
    r
}

#[derive(serde::Serialize)]
struct U2MutatorsAndRules<'a> {
    mutators: Vec<&'a String>,
    rules: &'a std::collections::HashMap<String, Vec<String>>,
}
#[derive(serde::Serialize)]
struct U2Response<'a> {
    server_info: &'a gamedig::protocols::unreal2::ServerInfo,
    mutators_and_rules: U2MutatorsAndRules<'a>,
    players: &'a gamedig::protocols::unreal2::Players,
}
/// the mutators are a HashSet: print them sorted
pub fn canon_u2(r: &gamedig::protocols::unreal2::Response) -> String {
    let mut m: Vec<&String> = r.mutators_and_rules.mutators.iter().collect();
    m.sort_by(|a, b| show_str(a).as_bytes().cmp(show_str(b).as_bytes()));
    canon(&U2Response {
        server_info: &r.server_info,
        mutators_and_rules: U2MutatorsAndRules {
            mutators: m,
            rules: &r.mutators_and_rules.rules,
        },
        players: &r.players,
    })
}

pub fn case_unreal2(rd: &mut Rd) -> R<String> {
    use gamedig::protocols::unreal2;
    let port = rd.u16()?;
    let g = rd_opt(rd, |rd| {
        let players = rd_toggle(rd)?;
        let mutators_and_rules = rd_toggle(rd)?;
        Ok(unreal2::GatheringSettings {
            players,
            mutators_and_rules,
        })
    })?;
    let ts = rd_tsettings(rd)?;
    let script = rd_script(rd)?;
    let ts = match ts {
        Ok(t) => t,
        Err(e) => return Ok(format!("{e}|")),
    };
    let g = g.unwrap_or_default();
    Ok(run_scripted(script, canon_u2, || unreal2::query(&addr(port), &g, ts)))
}

/// family 41/42/43: gamespy one / two / three; mode 0 = query, 1 = query_vars (one and three)
pub fn case_gamespy(rd: &mut Rd, ver: u8) -> R<String> {
    use gamedig::protocols::gamespy;
    let port = rd.u16()?;
    let mode = rd.u8()?;
    let ts = rd_tsettings(rd)?;
    let script = rd_script(rd)?;
    let ts = match ts {
        Ok(t) => t,
        Err(e) => return Ok(format!("{e}|")),
    };
    Ok(match (ver, mode) {
        (1, 0) => run_scripted(script, |r| canon(r), || gamespy::one::query(&addr(port), ts)),
        (1, _) => run_scripted(script, |r| canon(r), || gamespy::one::query_vars(&addr(port), ts)),
        (2, _) => run_scripted(script, |r| canon(r), || gamespy::two::query(&addr(port), ts)),
        (_, 0) => run_scripted(script, |r| canon(r), || gamespy::three::query(&addr(port), ts)),
        (..) => run_scripted(script, |r| canon(r), || gamespy::three::query_vars(&addr(port), ts)),
    })
}

/// family 50: single-game protocols. 0 ffow, 1 savage2, 2 jc2m, 3 mindustry, 4 theship, 5 battalion1944
pub fn case_game(rd: &mut Rd) -> R<String> {
    use gamedig::games;
    let game = rd.u8()?;
    let port = rd.u16()?;
    let ts = rd_tsettings(rd)?;
    let script = rd_script(rd)?;
    let ts = match ts {
        Ok(t) => t,
        Err(e) => return Ok(format!("{e}|")),
    };
    let ip = IpAddr::V4(Ipv4Addr::LOCALHOST);
    Ok(match game {
        0 => run_scripted(script, |r| canon(r), || games::ffow::query_with_timeout(&ip, Some(port), ts)),
        1 => run_scripted(script, |r| canon(r), || games::savage2::query_with_timeout(&ip, Some(port), ts)),
        2 => run_scripted(script, |r| canon(r), || games::jc2m::query_with_timeout(&ip, Some(port), ts)),
        3 => run_scripted(script, |r| canon(r), || games::mindustry::query(&ip, Some(port), &ts)),
        4 => run_scripted(script, |r| canon(r), || games::theship::query_with_timeout(&ip, Some(port), ts)),
        _ => run_scripted(script, |r| canon(r), || games::battalion1944::query(&ip, Some(port))),
    })
}

/// family 33: minecraft. variant 0 auto, 1 java, 2 bedrock, 3 legacy, 4 legacy 1.6, 5 legacy 1.4, 6 legacy beta 1.8
pub fn case_minecraft(rd: &mut Rd) -> R<String> {
    use gamedig::games::minecraft::{protocol, LegacyGroup, RequestSettings};
    let variant = rd.u8()?;
    let port = rd.u16()?;
    let rs = rd_opt(rd, |rd| {
        let hostname = String::from_utf8(rd.bytes16()?.to_vec()).map_err(|_| ())?;
        let protocol_version = rd.i32()?;
        Ok(RequestSettings {
            hostname,
            protocol_version,
        })
    })?;
    let ts = rd_tsettings(rd)?;
    let script = rd_script(rd)?;
    let ts = match ts {
        Ok(t) => t,
        Err(e) => return Ok(format!("{e}|")),
    };
    let a = addr(port);
    Ok(match variant {
        0 => run_scripted(script, |r| canon(r), || protocol::query(&a, ts, rs)),
        1 => run_scripted(script, |r| canon(r), || protocol::query_java(&a, ts, rs)),
        2 => run_scripted(script, |r| canon(r), || protocol::query_bedrock(&a, ts)),
        3 => run_scripted(script, |r| canon(r), || protocol::query_legacy(&a, ts)),
        4 => run_scripted(script, |r| canon(r), || protocol::query_legacy_specific(LegacyGroup::V1_6, &a, ts)),
        5 => run_scripted(script, |r| canon(r), || protocol::query_legacy_specific(LegacyGroup::V1_4, &a, ts)),
        _ => run_scripted(script, |r| canon(r), || protocol::query_legacy_specific(LegacyGroup::VB1_8, &a, ts)),
    })
}
