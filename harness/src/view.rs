//! Family 15: the protocol-independent view of a generated response value
//! (mirror of case_view in coq/Model/Case.v). The value arrives as a tree and
//! is built through the type's own Deserialize.
use crate::canon::*;
use crate::rd::{Rd, R};
use crate::ser::canon;
use gamedig::protocols::types::{CommonPlayer, CommonResponse};
use serde::de::DeserializeOwned;
use serde::Serialize;
use serde_json::{Map, Number, Value};

fn rd_tree(rd: &mut Rd, fuel: u32) -> R<Value> {
    if fuel == 0 {
        return Err(());
    }
    Ok(match rd.u8()? {
        0 => Value::Null,
        1 => Value::Bool(false),
        2 => Value::Bool(true),
        t @ (3 | 7) => {
            let neg = rd.u8()? != 0;
            let m = rd.u64()?;
            if t == 7 {
                let f = if neg { -(m as f64) } else { m as f64 };
                Value::Number(Number::from_f64(f).ok_or(())?)
            } else if neg {
                Value::Number(Number::from(-(m as i128) as i64))
            } else {
                Value::Number(Number::from(m))
            }
        }
        4 => Value::String(String::from_utf8(rd.bytes16()?.to_vec()).map_err(|_| ())?),
        5 => {
            let n = rd.u16()?;
            let mut l = Vec::new();
            for _ in 0 .. n {
                l.push(rd_tree(rd, fuel - 1)?);
            }
            Value::Array(l)
        }
        6 => {
            let n = rd.u16()?;
            let mut m = Map::new();
            for _ in 0 .. n {
                let k = String::from_utf8(rd.bytes16()?.to_vec()).map_err(|_| ())?;
                let v = rd_tree(rd, fuel - 1)?;
                m.insert(k, v);
            }
            Value::Object(m)
        }
        _ => return Err(()),
    })
}

fn show_value(v: &Value) -> String {
    match v {
        Value::Null => "None".into(),
        Value::Bool(b) => b.to_string(),
        Value::Number(n) => n.to_string(),
        Value::String(s) => show_str(s),
        Value::Array(l) => show_list(l, show_value),
        Value::Object(m) => {
            format!(
                "{{{}}}",
                m.iter()
                    .map(|(k, v)| format!("{}:{}", k, show_value(v)))
                    .collect::<Vec<_>>()
                    .join(",")
            )
        }
    }
}

fn o_str(o: Option<&str>) -> String { o.map(show_str).unwrap_or_else(|| "None".into()) }
fn o_num<T: ToString>(o: Option<T>) -> String { o.map(|x| x.to_string()).unwrap_or_else(|| "None".into()) }

/// `Outer(Inner(<body>))` against `<body>`: the variant path, and whether the wrapped value is the original
fn show_orig(wrapped: &str, body: &str) -> String {
    let mut path = Vec::new();
    let mut rest = wrapped;
    let mut closing = 0;
    loop {
        if rest.len() >= closing && &rest[.. rest.len() - closing] == body {
            return format!("{}:same", path.join("."));
        }
        match rest.find('(') {
            Some(i) if rest[.. i].chars().all(|c| c.is_alphanumeric() || c == '_') && i > 0 => {
                path.push(rest[.. i].to_string());
                rest = &rest[i + 1 ..];
                closing += 1;
            }
            _ => return format!("{}:diff", path.join(".")),
        }
    }
}

fn show_player(p: &dyn CommonPlayer) -> String {
    let orig = p.as_original();
    let body = match &orig {
        gamedig::protocols::types::GenericPlayer::Valve(x) => canon(*x),
        gamedig::protocols::types::GenericPlayer::QuakeOne(x) => canon(*x),
        gamedig::protocols::types::GenericPlayer::QuakeTwo(x) => canon(*x),
        gamedig::protocols::types::GenericPlayer::Unreal2(x) => canon(*x),
        gamedig::protocols::types::GenericPlayer::Epic(x) => canon(*x),
        gamedig::protocols::types::GenericPlayer::Minecraft(x) => canon(*x),
        gamedig::protocols::types::GenericPlayer::TheShip(x) => canon(*x),
        gamedig::protocols::types::GenericPlayer::JCMP2(x) => canon(*x),
        gamedig::protocols::types::GenericPlayer::Eco(x) => canon(*x),
        gamedig::protocols::types::GenericPlayer::Minetest(x) => canon(*x),
        gamedig::protocols::types::GenericPlayer::Gamespy(v) => {
            match v {
                gamedig::protocols::gamespy::VersionedPlayer::One(x) => canon(*x),
                gamedig::protocols::gamespy::VersionedPlayer::Two(x) => canon(*x),
                gamedig::protocols::gamespy::VersionedPlayer::Three(x) => canon(*x),
            }
        }
    };
    // the wrapped player must be the one the view names: same name and score
    let wrapped = canon(&orig);
    format!("{{{},{},{}}}", show_str(p.name()), o_num(p.score()), show_orig(&wrapped, &body))
}

pub fn view_line<T: CommonResponse + Serialize>(key: &str, r: &T) -> String {
    let players = match r.players() {
        None => "None".to_string(),
        Some(l) => show_list(&l, |p| show_player(*p)),
    };
    let json = serde_json::to_value(r.as_json())
        .map(|v| show_value(&v))
        .unwrap_or_else(|e| format!("JSONERR({e})"));
    let orig = show_orig(&canon(&r.as_original()), &canon(r));
    format!(
        "{}|name={}|description={}|game_mode={}|game_version={}|map={}|players_maximum={}|players_online={}|players_bots={}|has_password={}|players={}|json={}|orig={}",
        key,
        o_str(r.name()),
        o_str(r.description()),
        o_str(r.game_mode()),
        o_str(r.game_version()),
        o_str(r.map()),
        r.players_maximum(),
        r.players_online(),
        o_num(r.players_bots()),
        o_num(r.has_password()),
        players,
        json,
        orig
    )
}

fn run<T: CommonResponse + Serialize + DeserializeOwned>(key: &str, v: Value) -> String {
    match serde_json::from_value::<T>(v) {
        Ok(r) => view_line(key, &r),
        Err(e) => format!("NOT-A-{}({})", key, e),
    }
}

pub fn case_view(rd: &mut Rd) -> R<String> {
    let key = String::from_utf8(rd.bytes16()?.to_vec()).map_err(|_| ())?;
    let v = rd_tree(rd, 12)?;
    use gamedig::games as g;
    use gamedig::protocols as p;
    Ok(match key.as_str() {
        "valve" => run::<p::valve::Response>(&key, v),
        "quake1" => run::<p::quake::Response<p::quake::one::Player>>(&key, v),
        "quake2" => run::<p::quake::Response<p::quake::two::Player>>(&key, v),
        "unreal2" => run::<p::unreal2::Response>(&key, v),
        "gamespy1" => run::<p::gamespy::one::Response>(&key, v),
        "gamespy2" => run::<p::gamespy::two::Response>(&key, v),
        "gamespy3" => run::<p::gamespy::three::Response>(&key, v),
        "epic" => run::<p::epic::Response>(&key, v),
        "mindustry" => run::<g::mindustry::types::ServerData>(&key, v),
        "minecraft_java" => run::<g::minecraft::JavaResponse>(&key, v),
        "minecraft_bedrock" => run::<g::minecraft::BedrockResponse>(&key, v),
        "theship" => run::<g::theship::Response>(&key, v),
        "ffow" => run::<g::ffow::Response>(&key, v),
        "jc2m" => run::<g::jc2m::Response>(&key, v),
        "savage2" => run::<g::savage2::Response>(&key, v),
        "eco" => run::<g::eco::Response>(&key, v),
        "minetest" => run::<g::minetest::Response>(&key, v),
        _ => return Err(()),
    })
}
