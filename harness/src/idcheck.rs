//! Family 30: the game-id naming checker (crates/id-tests) on a list of
//! (id, name) pairs; family 31: number_to_words of a digit string (the oracle
//! table of family 30 is built from it).
use crate::canon::*;
use crate::query::silenced;
use crate::rd::{Rd, R};
use gamedig_id_tests::{test_game_name_rules, IDRule};
use std::panic::{catch_unwind, AssertUnwindSafe};

fn rule(r: &IDRule) -> &'static str {
    match r {
        IDRule::IDsMustBeLowerCase => "L",
        IDRule::NumbersAreTheirOwnWord => "N",
        IDRule::IfFirstWordNumberNoDigits => "F",
        IDRule::IfLastWordNumberMustBeAppended => "A",
        IDRule::ConvertRomanNumeralsToArabic => "R",
        IDRule::TwoWordsOrLessUseFullWords => "2",
        IDRule::MoreThanTwoWordsMakeAcronym => "M",
        IDRule::IfIDDuplicateSameGameAppendYearToNewer => "Y",
        IDRule::IfIDDuplicateSameGameAppendProtocol => "P",
        IDRule::IfIDDuplicateNoAcronym => "D",
        IDRule::IfModForQueriesProcessOnlyModName => "m",
        IDRule::NoDuplicates => "X",
    }
}

pub fn case_idcheck(rd: &mut Rd) -> R<String> {
    let nt = rd.u8()?;
    for _ in 0 .. nt {
        rd.bytes16()?;
        rd.bytes16()?;
    }
    let ng = rd.u8()?;
    let mut games = Vec::new();
    for _ in 0 .. ng {
        let id = String::from_utf8(rd.bytes16()?.to_vec()).map_err(|_| ())?;
        let name = String::from_utf8(rd.bytes16()?.to_vec()).map_err(|_| ())?;
        games.push((id, name));
    }
    let r = silenced(|| catch_unwind(AssertUnwindSafe(|| test_game_name_rules(games.iter().map(|(i, n)| (i.as_str(), n.as_str()))))));
    Ok(match r {
        Ok(fails) => {
            format!(
                "Ok({})",
                show_list(&fails, |f| {
                    format!(
                        "{{{},{},{},{}}}",
                        show_str(&f.game_id),
                        show_str(&f.game_name),
                        show_str(&f.expected_id),
                        f.rule_stack.iter().map(rule).collect::<String>()
                    )
                })
            )
        }
        Err(_) => "PANIC".into(),
    })
}

pub fn case_n2w(rd: &mut Rd) -> R<String> {
    let d = String::from_utf8(rd.bytes16()?.to_vec()).map_err(|_| ())?;
    let r = catch_unwind(AssertUnwindSafe(|| number_to_words::number_to_words(d.parse::<f64>().unwrap(), false)));
    Ok(match r {
        Ok(s) => s.bytes().map(|b| format!("{:02x}", b)).collect(),
        Err(_) => "PANIC".into(),
    })
}
