//! Family 52: Eco over HTTP (C07). A one-shot web server on loopback sends the
//! scripted reply to the first request; the real eco::query_with_timeout runs
//! against it and its response is printed field by field.
use crate::canon::*;
use crate::rd::{Rd, R};
use crate::ser::canon;
use std::io::{Read, Write};
use std::net::{IpAddr, Ipv4Addr, Ipv6Addr, SocketAddr, TcpListener};
use std::panic::{catch_unwind, AssertUnwindSafe};
use std::sync::atomic::{AtomicBool, Ordering};
use std::sync::Arc;
use std::time::{Duration, Instant};

pub fn case_eco(rd: &mut Rd) -> R<String> {
    let v6 = rd.u8()? != 0;
    let reply = rd.bytes32()?.to_vec();
    let close = rd.u8()? != 0;
    // the rest of the case (what the JSON reader makes of the body) is for the model
    let ip: IpAddr = if v6 { IpAddr::V6(Ipv6Addr::LOCALHOST) } else { IpAddr::V4(Ipv4Addr::LOCALHOST) };
    let l = TcpListener::bind(SocketAddr::new(ip, 0)).map_err(|_| ())?;
    let port = l.local_addr().map_err(|_| ())?.port();
    l.set_nonblocking(true).map_err(|_| ())?;
    let stop = Arc::new(AtomicBool::new(false));
    let stop2 = stop.clone();
    let h = std::thread::spawn(move || {
        let deadline = Instant::now() + Duration::from_secs(20);
        let mut held = Vec::new();
        while !stop2.load(Ordering::SeqCst) && Instant::now() < deadline {
            if let Ok((mut c, _)) = l.accept() {
                let _ = c.set_nonblocking(false);
                let _ = c.set_read_timeout(Some(Duration::from_millis(2000)));
                let mut got = Vec::new();
                let mut buf = [0u8; 4096];
                while !got.windows(4).any(|w| w == b"\r\n\r\n") {
                    match c.read(&mut buf) {
                        Ok(0) | Err(_) => break,
                        Ok(n) => got.extend_from_slice(&buf[.. n]),
                    }
                }
                let _ = c.write_all(&reply);
                let _ = c.flush();
                if close {
                    let _ = c.shutdown(std::net::Shutdown::Both);
                } else {
                    held.push(c);
                }
            } else {
                std::thread::sleep(Duration::from_millis(2));
            }
        }
    });
    let ts = gamedig::protocols::types::TimeoutSettings::new(
        Some(Duration::from_millis(1500)),
        Some(Duration::from_millis(1500)),
        Some(Duration::from_millis(1500)),
        0,
    )
    .ok();
    // what the query itself (this thread) asks of the allocator (C13)
    crate::alloc::reset();
    let res: Result<String, ()> =
        catch_unwind(AssertUnwindSafe(|| show_res(&gamedig::games::eco::query_with_timeout(&ip, Some(port), &ts), |r| canon(r)))).map_err(|_| ());
    let (maxreq, peak) = crate::alloc::stats();
    crate::cases::SIDE.with(|s| s.borrow_mut().push_str(&format!("alloc={maxreq},{peak};")));
    stop.store(true, Ordering::SeqCst);
    let _ = h.join();
    Ok(res.unwrap_or_else(|_| "PANIC".into()))
}

/// Family 53: timeout settings built by TimeoutSettings::new, then used by an HTTP-based query (Eco) against a
/// loopback port nobody listens on: whatever the durations, the client must be built and the query must return.
pub fn case_http_settings(rd: &mut Rd) -> R<String> {
    let mut dur = |rd: &mut Rd| -> R<Option<Duration>> {
        if rd.u8()? == 0 {
            Ok(None)
        } else {
            let s = rd.u64()?;
            let n = rd.u32()?;
            Ok(Some(Duration::new(s, n.min(999_999_999))))
        }
    };
    let read = dur(rd)?;
    let write = dur(rd)?;
    let connect = dur(rd)?;
    let retries = rd.u64()? as usize;
    let ts = match gamedig::protocols::types::TimeoutSettings::new(read, write, connect, retries) {
        Ok(t) => t,
        Err(e) => return Ok(format!("{};", show_err(&e))),
    };
    // a port that was just free: the connection is refused at once
    let l = TcpListener::bind(SocketAddr::new(IpAddr::V4(Ipv4Addr::LOCALHOST), 0)).map_err(|_| ())?;
    let port = l.local_addr().map_err(|_| ())?.port();
    drop(l);
    let ip = IpAddr::V4(Ipv4Addr::LOCALHOST);
    let res: Result<String, ()> =
        catch_unwind(AssertUnwindSafe(|| show_res(&gamedig::games::eco::query_with_timeout(&ip, Some(port), &Some(ts)), |r| canon(r)))).map_err(|_| ());
    Ok(format!("Ok(settings);{}", res.unwrap_or_else(|_| "PANIC".into())))
}
