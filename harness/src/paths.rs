//! Family 14: one game, queried along every path (C14), each under its own
//! copy of the same scripted server.
//!   a  games::query(def, ip, port)
//!   b  games::query_with_timeout(def, ip, port, ts)
//!   c  games::query_with_timeout_and_extra_settings(def, ip, port, ts, None)
//!   d  the game's dedicated module: <module>::query(ip, port)
//!   e  the protocol's own query function with the definition's parameters
//!      (with ts, and with None)
//! The line printed is path c (what coq/Model/Case.v computes from the
//! translated table); the comparison of the paths goes to the side channel.
use crate::query::*;
use crate::rd::{Rd, R};
use crate::ser::canon;
use gamedig::protocols::types::{CommonResponse, GenericResponse, ProprietaryProtocol, Protocol, TimeoutSettings};
use gamedig::protocols::{gamespy, quake, unreal2, valve};
use gamedig::verif_hook::Script;
use gamedig::{GDResult, Game};
use std::net::{IpAddr, Ipv4Addr};

include!("gen_modules.rs");

const IP: IpAddr = IpAddr::V4(Ipv4Addr::LOCALHOST);

/// the protocol-specific response inside a generic one, rendered as the protocol families render it
pub(crate) fn show_generic(b: &Box<dyn CommonResponse>) -> String {
    match b.as_original() {
        GenericResponse::Valve(r) => canon(r),
        GenericResponse::Unreal2(r) => canon_u2(r),
        GenericResponse::Quake(quake::VersionedResponse::One(r)) => canon(r),
        GenericResponse::Quake(quake::VersionedResponse::TwoAndThree(r)) => canon(r),
        GenericResponse::GameSpy(gamespy::VersionedResponse::One(r)) => canon(r),
        GenericResponse::GameSpy(gamespy::VersionedResponse::Two(r)) => canon(r),
        GenericResponse::GameSpy(gamespy::VersionedResponse::Three(r)) => canon(r),
        GenericResponse::TheShip(r) => canon(r),
        GenericResponse::FFOW(r) => canon(r),
        GenericResponse::JC2M(r) => canon(r),
        GenericResponse::Savage2(r) => canon(r),
        GenericResponse::Mindustry(r) => canon(r),
        GenericResponse::Eco(r) => canon(r),
        GenericResponse::Minecraft(gamedig::games::minecraft::VersionedResponse::Java(r)) => canon(r),
        GenericResponse::Minecraft(gamedig::games::minecraft::VersionedResponse::Bedrock(r)) => canon(r),
        other => canon(&other),
    }
}

/// path e
fn proto_path(game: &Game, port: Option<u16>, ts: Option<TimeoutSettings>, script: Script, as_module: bool) -> Option<String> {
    let a = addr(port.unwrap_or(game.default_port));
    Some(match &game.protocol {
        Protocol::Valve(engine) => {
            let g: valve::GatheringSettings = game.request_settings.clone().into();
            if as_module {
                run_scripted(
                    script,
                    |r: &valve::Response| canon(&valve::game::Response::new_from_valve_response(r.clone())),
                    || valve::query(&a, *engine, Some(g), ts),
                )
            } else {
                run_scripted(script, |r: &valve::Response| canon(r), || valve::query(&a, *engine, Some(g), ts))
            }
        }
        Protocol::Gamespy(v) => {
            match v {
                gamespy::GameSpyVersion::One => run_scripted(script, |r| canon(r), || gamespy::one::query(&a, ts)),
                gamespy::GameSpyVersion::Two => run_scripted(script, |r| canon(r), || gamespy::two::query(&a, ts)),
                gamespy::GameSpyVersion::Three => run_scripted(script, |r| canon(r), || gamespy::three::query(&a, ts)),
            }
        }
        Protocol::Quake(v) => {
            match v {
                quake::QuakeVersion::One => run_scripted(script, |r| canon(r), || quake::one::query(&a, ts)),
                quake::QuakeVersion::Two => run_scripted(script, |r| canon(r), || quake::two::query(&a, ts)),
                quake::QuakeVersion::Three => run_scripted(script, |r| canon(r), || quake::three::query(&a, ts)),
            }
        }
        Protocol::Unreal2 => {
            let g: unreal2::GatheringSettings = game.request_settings.clone().into();
            run_scripted(script, canon_u2, || unreal2::query(&a, &g, ts))
        }
        Protocol::PROPRIETARY(p) => {
            use gamedig::games::*;
            let port = Some(port.unwrap_or(game.default_port));
            match p {
                ProprietaryProtocol::TheShip => run_scripted(script, |r| canon(r), || theship::query_with_timeout(&IP, port, ts)),
                ProprietaryProtocol::FFOW => run_scripted(script, |r| canon(r), || ffow::query_with_timeout(&IP, port, ts)),
                ProprietaryProtocol::JC2M => run_scripted(script, |r| canon(r), || jc2m::query_with_timeout(&IP, port, ts)),
                ProprietaryProtocol::Savage2 => run_scripted(script, |r| canon(r), || savage2::query_with_timeout(&IP, port, ts)),
                ProprietaryProtocol::Mindustry => run_scripted(script, |r| canon(r), || mindustry::query(&IP, port, &ts)),
                ProprietaryProtocol::Minecraft(v) => {
                    match v {
                        Some(minecraft::Server::Java) => run_scripted(script, |r| canon(r), || minecraft::protocol::query_java(&a, ts, None)),
                        Some(minecraft::Server::Bedrock) => run_scripted(script, |r| canon(r), || minecraft::protocol::query_bedrock(&a, ts)),
                        Some(minecraft::Server::Legacy(g)) => {
                            run_scripted(script, |r| canon(r), || minecraft::protocol::query_legacy_specific(*g, &a, ts))
                        }
                        None => run_scripted(script, |r| canon(r), || minecraft::protocol::query(&a, ts, None)),
                    }
                }
                // HTTP based: not under the scripted transport
                _ => return None,
            }
        }
        #[allow(unreachable_patterns)]
        _ => return None,
    })
}

/// path d for the hand-written modules
fn hand_module(id: &str, port: Option<u16>, script: Script) -> Option<String> {
    use gamedig::games::*;
    Some(match id {
        "theship" => run_scripted(script, |r| canon(r), || theship::query(&IP, port)),
        "ffow" => run_scripted(script, |r| canon(r), || ffow::query(&IP, port)),
        "jc2m" => run_scripted(script, |r| canon(r), || jc2m::query(&IP, port)),
        "savage2" => run_scripted(script, |r| canon(r), || savage2::query(&IP, port)),
        "mindustry" => run_scripted(script, |r| canon(r), || mindustry::query(&IP, port, &None)),
        "battalion1944" => run_scripted(script, |r: &gamedig::protocols::valve::game::Response| canon(r), || battalion1944::query(&IP, port)),
        "minecraft" => run_scripted(script, |r| canon(r), || minecraft::query(&IP, port)),
        "minecraftjava" => run_scripted(script, |r| canon(r), || minecraft::query_java(&IP, port, None)),
        "minecraftbedrock" | "minecraftpocket" => run_scripted(script, |r| canon(r), || minecraft::query_bedrock(&IP, port)),
        "minecraftlegacy16" => {
            run_scripted(script, |r| canon(r), || minecraft::query_legacy_specific(minecraft::LegacyGroup::V1_6, &IP, port))
        }
        "minecraftlegacy14" => {
            run_scripted(script, |r| canon(r), || minecraft::query_legacy_specific(minecraft::LegacyGroup::V1_4, &IP, port))
        }
        "minecraftlegacyb18" => {
            run_scripted(script, |r| canon(r), || minecraft::query_legacy_specific(minecraft::LegacyGroup::VB1_8, &IP, port))
        }
        _ => return None,
    })
}

pub fn case_paths(rd: &mut Rd) -> R<String> {
    let id = String::from_utf8(rd.bytes16()?.to_vec()).map_err(|_| ())?;
    let module = String::from_utf8(rd.bytes16()?.to_vec()).map_err(|_| ())?;
    let port = rd_opt(rd, |rd| rd.u16())?;
    let ts = rd_tsettings(rd)?;
    let script = rd_script(rd)?;
    let ts = match ts {
        Ok(t) => t,
        Err(e) => return Ok(format!("{e}|")),
    };
    let game = match gamedig::GAMES.get(id.as_str()) {
        Some(g) => g,
        None => return Ok("NO-SUCH-GAME".into()),
    };
    let generic = |f: &dyn Fn() -> GDResult<Box<dyn CommonResponse>>| run_scripted(script.clone(), show_generic, || f());
    let a = generic(&|| gamedig::games::query::query(game, &IP, port));
    let b = generic(&|| gamedig::games::query::query_with_timeout(game, &IP, port, ts.clone()));
    let c = generic(&|| gamedig::games::query::query_with_timeout_and_extra_settings(game, &IP, port, ts.clone(), None));
    let e_ts = proto_path(game, port, ts.clone(), script.clone(), false);
    let e_none = proto_path(game, port, None, script.clone(), false);
    let is_valve_mod = matches!(game.protocol, Protocol::Valve(_));
    let d = if module.is_empty() {
        None
    } else {
        call_module(&module, &IP, port, script.clone()).or_else(|| hand_module(&module, port, script.clone()))
    };
    let e_mod = if is_valve_mod { proto_path(game, port, None, script.clone(), true) } else { e_none.clone() };
    let mut diffs = Vec::new();
    let mut cmp = |x: &str, lx: &str, y: &str, ly: &Option<String>| {
        if let Some(ly) = ly {
            if lx != ly {
                diffs.push(format!("{x}!={y}[{lx}][{ly}]"));
            }
        }
    };
    cmp("a", &a, "e0", &e_none);
    cmp("b", &b, "e", &e_ts);
    cmp("c", &c, "e", &e_ts);
    if let Some(d) = &d {
        cmp("d", d, "e0m", &e_mod);
    }
    let summary = if diffs.is_empty() { "paths=ok;".to_string() } else { format!("paths=DIFF {};", diffs.join(" ")) };
    crate::cases::SIDE.with(|s| {
        let mut s = s.borrow_mut();
        s.clear();
        s.push_str(&summary);
        s.push_str(if d.is_some() { "module=run;" } else { "module=none;" });
        if let Some(d) = &d {
            // the module's own result and trace (destinations of its connections and requests)
            s.push_str(&format!("d=[{d}];"));
        }
        s.push_str(if e_ts.is_some() { "proto=run;" } else { "proto=none;" });
    });
    Ok(c)
}

pub fn dump_games() {
    for (id, g) in gamedig::GAMES.entries() {
        println!(
            "{}",
            serde_json::json!({"id": id, "name": g.name, "default_port": g.default_port,
                               "protocol": g.protocol, "request_settings": g.request_settings})
        );
    }
}

/// family 34: the generic entry point with explicit extra request settings
pub fn case_generic_extra(rd: &mut Rd) -> R<String> {
    use gamedig::protocols::types::ExtraRequestSettings;
    let id = String::from_utf8(rd.bytes16()?.to_vec()).map_err(|_| ())?;
    let port = rd_opt(rd, |rd| rd.u16())?;
    let extra = rd_opt(rd, |rd| {
        let gather_players = rd_opt(rd, rd_toggle)?;
        let gather_rules = rd_opt(rd, rd_toggle)?;
        let check_app_id = rd_opt(rd, |rd| Ok(rd.u8()? != 0))?;
        let hostname = match rd_opt(rd, |rd| Ok(rd.bytes16()?.to_vec()))? {
            Some(b) => Some(String::from_utf8(b).map_err(|_| ())?),
            None => None,
        };
        let protocol_version = rd_opt(rd, |rd| rd.i32())?;
        Ok(ExtraRequestSettings {
            hostname,
            protocol_version,
            gather_players,
            gather_rules,
            check_app_id,
        })
    })?;
    let ts = rd_tsettings(rd)?;
    let script = rd_script(rd)?;
    let ts = match ts {
        Ok(t) => t,
        Err(e) => return Ok(format!("{e}|")),
    };
    let game = match gamedig::GAMES.get(id.as_str()) {
        Some(g) => g,
        None => return Ok("NO-SUCH-GAME".into()),
    };
    Ok(run_scripted(script, show_generic, || {
        gamedig::games::query::query_with_timeout_and_extra_settings(game, &IP, port, ts, extra)
    }))
}
