//! Family 16: valve master server (mirror of case_master in coq/Model/Case.v).
use crate::canon::*;
use crate::query::*;
use crate::rd::{Rd, R};
use gamedig::valve_master_server::{Filter, Region, SearchFilters, ValveMasterServer};
use gamedig::verif_hook as hook;
use gamedig::verif_hook::TraceEvent;
use std::net::IpAddr;
use std::panic::{catch_unwind, AssertUnwindSafe};

fn rd_string(rd: &mut Rd) -> R<String> { Ok(String::from_utf8_lossy(rd.bytes16()?).into_owned()) }
fn rd_bool(rd: &mut Rd) -> R<bool> { Ok(rd.u8()? != 0) }

fn rd_filter(rd: &mut Rd) -> R<Filter> {
    Ok(match rd.u8()? {
        0 => Filter::IsSecured(rd_bool(rd)?),
        1 => Filter::RunsMap(rd_string(rd)?),
        2 => Filter::CanHavePassword(rd_bool(rd)?),
        3 => Filter::CanBeEmpty(rd_bool(rd)?),
        4 => Filter::IsEmpty(rd_bool(rd)?),
        5 => Filter::CanBeFull(rd_bool(rd)?),
        6 => Filter::RunsAppID(rd.u32()?),
        7 => Filter::NotAppID(rd.u32()?),
        8 => {
            let n = rd.u8()?;
            let mut t = Vec::new();
            for _ in 0 .. n {
                t.push(rd_string(rd)?);
            }
            Filter::HasTags(t)
        }
        9 => Filter::MatchName(rd_string(rd)?),
        10 => Filter::MatchVersion(rd_string(rd)?),
        11 => Filter::RestrictUniqueIP(rd_bool(rd)?),
        12 => Filter::OnAddress(rd_string(rd)?),
        13 => Filter::Whitelisted(rd_bool(rd)?),
        14 => Filter::SpectatorProxy(rd_bool(rd)?),
        15 => Filter::IsDedicated(rd_bool(rd)?),
        16 => Filter::RunsLinux(rd_bool(rd)?),
        _ => Filter::HasGameDir(rd_string(rd)?),
    })
}

fn region_of(b: u8) -> Region {
    match b {
        0 => Region::UsEast,
        1 => Region::UsWest,
        2 => Region::AmericaSouth,
        3 => Region::Europe,
        4 => Region::Asia,
        5 => Region::Australia,
        6 => Region::MiddleEast,
        7 => Region::Africa,
        _ => Region::Others,
    }
}

/// The HashMap iteration order of the filters is not observable: re-render the
/// filter string of a request with the chunks of each group sorted bytewise.
fn canon_payload(p: &[u8]) -> Vec<u8> {
    // 31 region "ip:port" 00 filters 00
    if p.len() < 3 {
        return p.to_vec();
    }
    // the region byte (index 1) may be 0: look for the NUL that ends "ip:port"
    let Some(z) = p[2 ..].iter().position(|&b| b == 0).map(|i| i + 2) else { return p.to_vec() };
    let (head, rest) = p.split_at(z + 1);
    if rest.last() != Some(&0) {
        return p.to_vec();
    }
    let fs = &rest[.. rest.len() - 1];
    if fs.is_empty() {
        return p.to_vec();
    }
    if fs[0] != b'\\' {
        return p.to_vec();
    }
    let toks: Vec<&[u8]> = fs[1 ..].split(|&b| b == b'\\').collect();
    if toks.len() % 2 != 0 {
        return p.to_vec();
    }
    let pairs: Vec<(&[u8], &[u8])> = toks.chunks(2).map(|c| (c[0], c[1])).collect();
    let chunk = |k: &[u8], v: &[u8]| {
        let mut c = vec![b'\\'];
        c.extend(k);
        c.push(b'\\');
        c.extend(v);
        c
    };
    let mut plain: Vec<Vec<u8>> = vec![];
    let mut groups: Vec<(Vec<u8>, Vec<Vec<u8>>)> = vec![];
    let mut i = 0;
    while i < pairs.len() {
        let (k, v) = pairs[i];
        if k == b"nand" || k == b"nor" {
            let n: usize = std::str::from_utf8(v).ok().and_then(|s| s.parse().ok()).unwrap_or(0);
            let mut g = vec![];
            for j in 0 .. n {
                if i + 1 + j < pairs.len() {
                    g.push(chunk(pairs[i + 1 + j].0, pairs[i + 1 + j].1));
                }
            }
            g.sort();
            groups.push((chunk(k, v), g));
            i += 1 + n;
        } else {
            plain.push(chunk(k, v));
            i += 1;
        }
    }
    plain.sort();
    let mut out = head.to_vec();
    for c in plain {
        out.extend(c);
    }
    for (h, g) in groups {
        out.extend(h);
        for c in g {
            out.extend(c);
        }
    }
    out.push(0);
    out
}

pub fn case_master(rd: &mut Rd) -> R<String> {
    let port = rd.u16()?;
    let region = region_of(rd.u8()?);
    let has = rd.u8()? != 0;
    let nops = rd.u8()?;
    let mut sf = SearchFilters::new();
    for _ in 0 .. nops {
        let g = rd.u8()?;
        let f = rd_filter(rd)?;
        sf = match g {
            0 => sf.insert(f),
            1 => sf.insert_nand(f),
            _ => sf.insert_nor(f),
        };
    }
    let mode = rd.u8()?;
    let last_ip = format!("{}.{}.{}.{}", rd.u8()?, rd.u8()?, rd.u8()?, rd.u8()?);
    let last_port = rd.u16()?;
    let script = rd_script(rd)?;
    let filters = if has { Some(sf) } else { None };

    hook::install(script);
    crate::alloc::reset();
    let r = catch_unwind(AssertUnwindSafe(|| {
        let mut ms = ValveMasterServer::new(&addr(port))?;
        if mode == 0 {
            ms.query(region, filters)
        } else {
            ms.query_specific(region, &filters, &last_ip, last_port)
        }
    }));
    let (maxreq, peak) = crate::alloc::stats();
    let mut tr = hook::uninstall();
    crate::cases::SIDE.with(|s| s.borrow_mut().push_str(&format!("alloc={maxreq},{peak};")));
    for e in tr.iter_mut() {
        if let TraceEvent::Send { data, .. } = e {
            *data = canon_payload(data);
        }
    }
    let res = match r {
        Ok(r) => {
            show_res(&r, |l: &Vec<(IpAddr, u16)>| {
                show_list(l, |(ip, p)| format!("{ip}:{p}"))
            })
        }
        Err(_) => "PANIC".to_string(),
    };
    Ok(format!("{}|{}", res, show_trace(&tr)))
}
