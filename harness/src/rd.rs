//! Big-endian case reader (mirror of rd_* in coq/Model/Case.v).
pub struct Rd<'a> {
    pub d: &'a [u8],
    pub p: usize,
}
pub type R<T> = Result<T, ()>;
impl<'a> Rd<'a> {
    pub fn new(d: &'a [u8]) -> Self { Self { d, p: 0 } }
    pub fn take(&mut self, n: usize) -> R<&'a [u8]> {
        if self.d.len() - self.p < n {
            return Err(());
        }
        let s = &self.d[self.p .. self.p + n];
        self.p += n;
        Ok(s)
    }
    pub fn u8(&mut self) -> R<u8> { Ok(self.take(1)?[0]) }
    pub fn u16(&mut self) -> R<u16> { Ok(u16::from_be_bytes(self.take(2)?.try_into().unwrap())) }
    pub fn u32(&mut self) -> R<u32> { Ok(u32::from_be_bytes(self.take(4)?.try_into().unwrap())) }
    pub fn u64(&mut self) -> R<u64> { Ok(u64::from_be_bytes(self.take(8)?.try_into().unwrap())) }
    pub fn i16(&mut self) -> R<i16> { Ok(self.u16()? as i16) }
    pub fn i32(&mut self) -> R<i32> { Ok(self.u32()? as i32) }
    pub fn bytes16(&mut self) -> R<&'a [u8]> {
        let n = self.u16()? as usize;
        self.take(n)
    }
    pub fn bytes32(&mut self) -> R<&'a [u8]> {
        let n = self.u32()? as usize;
        self.take(n)
    }
}
