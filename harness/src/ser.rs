//! A serde Serializer producing the canonical text the Coq model prints:
//! structs `{field:value,...}` in declaration order, maps `{key:value,...}`
//! sorted by rendered key, options `None`/`Some(v)`, strings quoted with \xHH
//! escapes, f32 as `f<bits>`, f64 as `d<bits>`, unit variants by name.
use crate::canon::show_str_bytes;
use serde::ser::{self, Serialize};
use std::fmt;

#[derive(Debug)]
pub struct SerErr(String);
impl fmt::Display for SerErr {
    fn fmt(&self, f: &mut fmt::Formatter) -> fmt::Result { write!(f, "{}", self.0) }
}
impl std::error::Error for SerErr {}
impl ser::Error for SerErr {
    fn custom<T: fmt::Display>(msg: T) -> Self { SerErr(msg.to_string()) }
}

pub fn canon<T: Serialize + ?Sized>(v: &T) -> String { v.serialize(Ser).unwrap_or_else(|e| format!("SERERR({e})")) }

pub struct Ser;
type R = Result<String, SerErr>;

pub struct Seq {
    items: Vec<String>,
    open: String,
    close: &'static str,
}
pub struct Map {
    entries: Vec<(String, String)>,
    key: Option<String>,
}
pub struct Struct {
    items: Vec<String>,
    prefix: String,
}

impl ser::Serializer for Ser {
    type Ok = String;
    type Error = SerErr;
    type SerializeSeq = Seq;
    type SerializeTuple = Seq;
    type SerializeTupleStruct = Seq;
    type SerializeTupleVariant = Seq;
    type SerializeMap = Map;
    type SerializeStruct = Struct;
    type SerializeStructVariant = Struct;

    fn serialize_bool(self, v: bool) -> R { Ok(v.to_string()) }
    fn serialize_i8(self, v: i8) -> R { Ok(v.to_string()) }
    fn serialize_i16(self, v: i16) -> R { Ok(v.to_string()) }
    fn serialize_i32(self, v: i32) -> R { Ok(v.to_string()) }
    fn serialize_i64(self, v: i64) -> R { Ok(v.to_string()) }
    fn serialize_u8(self, v: u8) -> R { Ok(v.to_string()) }
    fn serialize_u16(self, v: u16) -> R { Ok(v.to_string()) }
    fn serialize_u32(self, v: u32) -> R { Ok(v.to_string()) }
    fn serialize_u64(self, v: u64) -> R { Ok(v.to_string()) }
    fn serialize_f32(self, v: f32) -> R { Ok(format!("f{}", v.to_bits())) }
    fn serialize_f64(self, v: f64) -> R { Ok(format!("d{}", v.to_bits())) }
    fn serialize_char(self, v: char) -> R { Ok(show_str_bytes(v.to_string().as_bytes())) }
    fn serialize_str(self, v: &str) -> R { Ok(show_str_bytes(v.as_bytes())) }
    fn serialize_bytes(self, v: &[u8]) -> R { Ok(show_str_bytes(v)) }
    fn serialize_none(self) -> R { Ok("None".into()) }
    fn serialize_some<T: ?Sized + Serialize>(self, v: &T) -> R { Ok(format!("Some({})", v.serialize(Ser)?)) }
    fn serialize_unit(self) -> R { Ok("()".into()) }
    fn serialize_unit_struct(self, name: &'static str) -> R { Ok(name.into()) }
    fn serialize_unit_variant(self, _n: &'static str, _i: u32, variant: &'static str) -> R { Ok(variant.into()) }
    fn serialize_newtype_struct<T: ?Sized + Serialize>(self, _n: &'static str, v: &T) -> R { v.serialize(Ser) }
    fn serialize_newtype_variant<T: ?Sized + Serialize>(
        self,
        _n: &'static str,
        _i: u32,
        variant: &'static str,
        v: &T,
    ) -> R {
        Ok(format!("{}({})", variant, v.serialize(Ser)?))
    }
    fn serialize_seq(self, _len: Option<usize>) -> Result<Seq, SerErr> {
        Ok(Seq {
            items: vec![],
            open: "[".into(),
            close: "]",
        })
    }
    fn serialize_tuple(self, _len: usize) -> Result<Seq, SerErr> {
        Ok(Seq {
            items: vec![],
            open: "(".into(),
            close: ")",
        })
    }
    fn serialize_tuple_struct(self, _n: &'static str, _len: usize) -> Result<Seq, SerErr> {
        Ok(Seq {
            items: vec![],
            open: "(".into(),
            close: ")",
        })
    }
    fn serialize_tuple_variant(self, _n: &'static str, _i: u32, variant: &'static str, _len: usize) -> Result<Seq, SerErr> {
        Ok(Seq {
            items: vec![],
            open: format!("{variant}("),
            close: ")",
        })
    }
    fn serialize_map(self, _len: Option<usize>) -> Result<Map, SerErr> {
        Ok(Map {
            entries: vec![],
            key: None,
        })
    }
    fn serialize_struct(self, _n: &'static str, _len: usize) -> Result<Struct, SerErr> {
        Ok(Struct {
            items: vec![],
            prefix: String::new(),
        })
    }
    fn serialize_struct_variant(self, _n: &'static str, _i: u32, variant: &'static str, _len: usize) -> Result<Struct, SerErr> {
        Ok(Struct {
            items: vec![],
            prefix: variant.into(),
        })
    }
}

impl Seq {
    fn push<T: ?Sized + Serialize>(&mut self, v: &T) -> Result<(), SerErr> {
        self.items.push(v.serialize(Ser)?);
        Ok(())
    }
    fn finish(self) -> R { Ok(format!("{}{}{}", self.open, self.items.join(","), self.close)) }
}
impl ser::SerializeSeq for Seq {
    type Ok = String;
    type Error = SerErr;
    fn serialize_element<T: ?Sized + Serialize>(&mut self, v: &T) -> Result<(), SerErr> { self.push(v) }
    fn end(self) -> R { self.finish() }
}
impl ser::SerializeTuple for Seq {
    type Ok = String;
    type Error = SerErr;
    fn serialize_element<T: ?Sized + Serialize>(&mut self, v: &T) -> Result<(), SerErr> { self.push(v) }
    fn end(self) -> R { self.finish() }
}
impl ser::SerializeTupleStruct for Seq {
    type Ok = String;
    type Error = SerErr;
    fn serialize_field<T: ?Sized + Serialize>(&mut self, v: &T) -> Result<(), SerErr> { self.push(v) }
    fn end(self) -> R { self.finish() }
}
impl ser::SerializeTupleVariant for Seq {
    type Ok = String;
    type Error = SerErr;
    fn serialize_field<T: ?Sized + Serialize>(&mut self, v: &T) -> Result<(), SerErr> { self.push(v) }
    fn end(self) -> R { self.finish() }
}
impl ser::SerializeMap for Map {
    type Ok = String;
    type Error = SerErr;
    fn serialize_key<T: ?Sized + Serialize>(&mut self, k: &T) -> Result<(), SerErr> {
        self.key = Some(k.serialize(Ser)?);
        Ok(())
    }
    fn serialize_value<T: ?Sized + Serialize>(&mut self, v: &T) -> Result<(), SerErr> {
        let k = self.key.take().unwrap_or_default();
        self.entries.push((k, v.serialize(Ser)?));
        Ok(())
    }
    fn end(mut self) -> R {
        self.entries.sort_by(|a, b| a.0.as_bytes().cmp(b.0.as_bytes()));
        Ok(format!(
            "{{{}}}",
            self.entries
                .iter()
                .map(|(k, v)| format!("{k}:{v}"))
                .collect::<Vec<_>>()
                .join(",")
        ))
    }
}
impl ser::SerializeStruct for Struct {
    type Ok = String;
    type Error = SerErr;
    fn serialize_field<T: ?Sized + Serialize>(&mut self, key: &'static str, v: &T) -> Result<(), SerErr> {
        self.items.push(format!("{}:{}", key, v.serialize(Ser)?));
        Ok(())
    }
    fn end(self) -> R { Ok(format!("{}{{{}}}", self.prefix, self.items.join(","))) }
}
impl ser::SerializeStructVariant for Struct {
    type Ok = String;
    type Error = SerErr;
    fn serialize_field<T: ?Sized + Serialize>(&mut self, key: &'static str, v: &T) -> Result<(), SerErr> {
        self.items.push(format!("{}:{}", key, v.serialize(Ser)?));
        Ok(())
    }
    fn end(self) -> R { Ok(format!("{}{{{}}}", self.prefix, self.items.join(","))) }
}
