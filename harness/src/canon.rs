//! Canonical text rendering (mirror of show_* in coq/Base/Prelude.v).
use gamedig::{GDError, GDResult};

pub fn show_str_bytes(b: &[u8]) -> String {
    let mut s = String::with_capacity(b.len() + 2);
    s.push('"');
    for &c in b {
        if (32 .. 127).contains(&c) && c != 34 && c != 92 {
            s.push(c as char);
        } else {
            s.push_str(&format!("\\x{:02x}", c));
        }
    }
    s.push('"');
    s
}
pub fn show_str(v: &str) -> String { show_str_bytes(v.as_bytes()) }

pub fn show_err(e: &GDError) -> String { format!("Err({:?})", e.kind) }

pub fn show_res<T>(r: &GDResult<T>, f: impl Fn(&T) -> String) -> String {
    match r {
        Ok(v) => format!("Ok({})", f(v)),
        Err(e) => show_err(e),
    }
}
pub fn show_opt<T>(r: &Option<T>, f: impl Fn(&T) -> String) -> String {
    match r {
        Some(v) => format!("Some({})", f(v)),
        None => "None".to_string(),
    }
}
pub fn show_list<T>(l: &[T], f: impl Fn(&T) -> String) -> String {
    format!("[{}]", l.iter().map(f).collect::<Vec<_>>().join(","))
}
