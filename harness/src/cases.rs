use crate::canon::*;
use crate::rd::{Rd, R};
use byteorder::{BigEndian, ByteOrder, LittleEndian};
use gamedig::verif_hook as hook;
use gamedig::verif_hook::Buffer;
use std::cell::RefCell;
use std::panic::{catch_unwind, AssertUnwindSafe};

thread_local! {
    pub static LAST_PANIC: RefCell<String> = RefCell::new(String::new());
    pub static SIDE: RefCell<String> = RefCell::new(String::new());
}

pub fn run_case(case: &[u8]) -> String {
    let mut rd = Rd::new(case);
    let r = catch_unwind(AssertUnwindSafe(|| -> R<String> {
        let fam = rd.u8()?;
        match fam {
            1 => case_bufops(&mut rd),
            2 => {
                let v = rd.i32()?;
                Ok(show_list(&hook::minecraft::as_varint(v), |b| b.to_string()))
            }
            3 => {
                let s = rd.bytes32()?;
                match std::str::from_utf8(s) {
                    Ok(st) => {
                        Ok(show_res(&hook::minecraft::as_string(st), |v| {
                            show_list(v, |b| b.to_string())
                        }))
                    }
                    Err(_) => Ok("NOT-UTF8".to_string()),
                }
            }
            4 => {
                let v = rd.u8()?;
                let (a, b) = hook::u8_lower_upper(v);
                Ok(format!("{a},{b}"))
            }
            5 => {
                let a = rd.u32()? as usize;
                let b = rd.u32()? as usize;
                Ok(show_res(&hook::error_by_expected_size(a, b), |_| "()".into()))
            }
            6 => {
                let v = rd.i32()?;
                let enc = hook::minecraft::as_varint(v);
                let mut b = Buffer::<LittleEndian>::new(&enc);
                let r = hook::minecraft::get_varint(&mut b);
                Ok(format!(
                    "{}=>{}@{}",
                    show_list(&enc, |b| b.to_string()),
                    show_res(&r, |v| v.to_string()),
                    b.current_position()
                ))
            }
            7 => {
                let s = rd.bytes32()?;
                match std::str::from_utf8(s) {
                    Ok(st) => {
                        match hook::minecraft::as_string(st) {
                            Ok(enc) => {
                                let mut b = Buffer::<LittleEndian>::new(&enc);
                                let r = hook::minecraft::get_string(&mut b);
                                Ok(format!(
                                    "{}@{}/{}",
                                    show_res(&r, |s| show_str(s)),
                                    b.current_position(),
                                    enc.len()
                                ))
                            }
                            Err(e) => Ok(show_err(&e)),
                        }
                    }
                    Err(_) => Ok("NOT-UTF8".to_string()),
                }
            }
            10 => crate::query::case_valve(&mut rd),
            12 => crate::real::case_real(&mut rd),
            14 => crate::paths::case_paths(&mut rd),
            15 => crate::view::case_view(&mut rd),
            16 => crate::master::case_master(&mut rd),
            18 => crate::settings::case_settings(&mut rd),
            20 => crate::query::case_quake(&mut rd),
            22 => crate::query::case_unreal2(&mut rd),
            41 => crate::query::case_gamespy(&mut rd, 1),
            42 => crate::query::case_gamespy(&mut rd, 2),
            43 => crate::query::case_gamespy(&mut rd, 3),
            50 => crate::query::case_game(&mut rd),
            52 => crate::eco::case_eco(&mut rd),
            53 => crate::eco::case_http_settings(&mut rd),
            33 => crate::query::case_minecraft(&mut rd),
            34 => crate::paths::case_generic_extra(&mut rd),
            30 => crate::idcheck::case_idcheck(&mut rd),
            31 => crate::idcheck::case_n2w(&mut rd),
            _ => Err(()),
        }
    }));
    let mut out = match r {
        Ok(r) => r.unwrap_or_else(|_| "BADCASE".to_string()),
        Err(_) => "PANIC".to_string(),
    };
    let mut side = SIDE.with(|s| std::mem::take(&mut *s.borrow_mut()));
    LAST_PANIC.with(|p| {
        let mut p = p.borrow_mut();
        if !p.is_empty() {
            side.push_str("panic=");
            side.push_str(&p.replace('\n', " "));
            p.clear();
        }
    });
    if !side.is_empty() {
        out.push_str("\t#");
        out.push_str(&side);
    }
    out
}

#[derive(Debug, Clone)]
enum Bop {
    Read(u8),
    Move(i16),
    Utf8(Option<u8>),
    Utf8Lp(Option<u8>),
    Utf16(bool, Option<[u8; 2]>),
    Unreal2,
    RemBytes,
    RemLen,
    Switch(u8),
    Varint,
    McString,
}

fn rd_bop(rd: &mut Rd) -> R<Bop> {
    let c = rd.u8()?;
    Ok(match c {
        0 ..= 9 => Bop::Read(c),
        10 => Bop::Move(rd.i16()?),
        11 => Bop::Utf8(None),
        12 => Bop::Utf8(Some(rd.u8()?)),
        13 => Bop::Utf8Lp(None),
        14 => Bop::Utf8Lp(Some(rd.u8()?)),
        15 => Bop::Utf16(false, None),
        16 => Bop::Utf16(true, None),
        17 => Bop::Utf16(false, Some([rd.u8()?, rd.u8()?])),
        18 => Bop::Utf16(true, Some([rd.u8()?, rd.u8()?])),
        19 => Bop::Unreal2,
        20 => Bop::RemBytes,
        21 => Bop::RemLen,
        22 => Bop::Switch(rd.u8()?),
        23 => Bop::Varint,
        24 => Bop::McString,
        _ => return Err(()),
    })
}

fn run_bop<B: ByteOrder + gamedig_switch::Sw>(b: &mut Buffer<B>, op: &Bop) -> String {
    match op {
        Bop::Read(c) => {
            match c {
                0 => show_res(&b.read::<u8>(), |v| v.to_string()),
                1 => show_res(&b.read::<i8>(), |v| v.to_string()),
                2 => show_res(&b.read::<u16>(), |v| v.to_string()),
                3 => show_res(&b.read::<i16>(), |v| v.to_string()),
                4 => show_res(&b.read::<u32>(), |v| v.to_string()),
                5 => show_res(&b.read::<i32>(), |v| v.to_string()),
                6 => show_res(&b.read::<u64>(), |v| v.to_string()),
                7 => show_res(&b.read::<i64>(), |v| v.to_string()),
                8 => show_res(&b.read::<f32>(), |v| v.to_bits().to_string()),
                _ => show_res(&b.read::<f64>(), |v| v.to_bits().to_string()),
            }
        }
        Bop::Move(o) => show_res(&b.move_cursor(*o as isize), |_| "()".into()),
        Bop::Utf8(d) => show_res(&b.read_string::<hook::Utf8Decoder>(d.map(|x| [x])), |s| show_str(s)),
        Bop::Utf8Lp(d) => {
            show_res(
                &b.read_string::<hook::Utf8LengthPrefixedDecoder>(d.map(|x| [x])),
                |s| show_str(s),
            )
        }
        Bop::Utf16(false, d) => show_res(&b.read_string::<hook::Utf16Decoder<LittleEndian>>(*d), |s| show_str(s)),
        Bop::Utf16(true, d) => show_res(&b.read_string::<hook::Utf16Decoder<BigEndian>>(*d), |s| show_str(s)),
        Bop::Unreal2 => show_res(&b.read_string::<hook::Unreal2StringDecoder>(None), |s| show_str(s)),
        Bop::RemBytes => format!("Ok({})", show_list(b.remaining_bytes(), |x| x.to_string())),
        Bop::RemLen => format!("Ok({})", b.remaining_length()),
        Bop::Switch(n) => B::switch_read_u16(b, *n as usize),
        Bop::Varint => show_res(&hook::minecraft::get_varint(b), |v| v.to_string()),
        Bop::McString => show_res(&hook::minecraft::get_string(b), |s| show_str(s)),
    }
}

/// switch_endian_chunk needs the SwitchEndian bound, which is private to the
/// crate; dispatch on the two concrete byte orders instead.
mod gamedig_switch {
    use super::*;
    pub trait Sw: ByteOrder + Sized {
        fn switch_read_u16(b: &mut Buffer<Self>, n: usize) -> String;
    }
    impl Sw for LittleEndian {
        fn switch_read_u16(b: &mut Buffer<Self>, n: usize) -> String {
            match b.switch_endian_chunk(n) {
                Ok(mut c) => show_res(&c.read::<u16>(), |v| v.to_string()),
                Err(e) => show_err(&e),
            }
        }
    }
    impl Sw for BigEndian {
        fn switch_read_u16(b: &mut Buffer<Self>, n: usize) -> String {
            match b.switch_endian_chunk(n) {
                Ok(mut c) => show_res(&c.read::<u16>(), |v| v.to_string()),
                Err(e) => show_err(&e),
            }
        }
    }
}

fn run_bops<B: ByteOrder + gamedig_switch::Sw>(pkt: &[u8], ops: &[Bop]) -> String {
    let mut b = Buffer::<B>::new(pkt);
    let mut lines = Vec::new();
    for op in ops {
        let r = catch_unwind(AssertUnwindSafe(|| run_bop(&mut b, op)));
        match r {
            Ok(s) => lines.push(format!("{}@{}", s, b.current_position())),
            Err(_) => {
                lines.push(format!("PANIC@{}", b.current_position()));
                break;
            }
        }
    }
    format!("{}:{}", pkt.len(), lines.join(";"))
}

fn case_bufops(rd: &mut Rd) -> R<String> {
    let order = rd.u8()?;
    let pkt = rd.bytes16()?;
    let n = rd.u8()?;
    let mut ops = Vec::new();
    for _ in 0 .. n {
        ops.push(rd_bop(rd)?);
    }
    Ok(if order == 0 {
        run_bops::<LittleEndian>(pkt, &ops)
    } else {
        run_bops::<BigEndian>(pkt, &ops)
    })
}
