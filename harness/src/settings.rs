//! Family 18: the public ways of constructing TimeoutSettings, then a query.
use crate::canon::*;
use crate::query::*;
use crate::rd::{Rd, R};
use crate::ser::canon;
use clap::Parser;
use gamedig::protocols::types::TimeoutSettings;
use gamedig::protocols::valve;
use std::time::Duration;

#[derive(Debug, Parser)]
#[command(no_binary_name = true)]
struct Flags {
    #[command(flatten)]
    timeout_settings: Option<TimeoutSettings>,
}

fn rd_dur(rd: &mut Rd) -> R<Duration> {
    let s = rd.u64()?;
    let n = rd.u32()?;
    Ok(Duration::new(s, n))
}
fn rd_text(rd: &mut Rd) -> R<String> { Ok(String::from_utf8_lossy(rd.bytes16()?).into_owned()) }

fn show_dur(d: &Duration) -> String { format!("{}.{}", d.as_secs(), d.subsec_nanos()) }
fn show_ts(t: &Option<TimeoutSettings>) -> String {
    show_opt(t, |s| {
        format!(
            "c{}r{}w{}n{}",
            show_opt(&s.get_connect(), show_dur),
            show_opt(&s.get_read(), show_dur),
            show_opt(&s.get_write(), show_dur),
            s.get_retries()
        )
    })
}
fn json_dur(d: &Option<Duration>) -> String {
    match d {
        None => "null".into(),
        Some(d) => format!("{{\"secs\":{},\"nanos\":{}}}", d.as_secs(), d.subsec_nanos()),
    }
}

pub fn case_settings(rd: &mut Rd) -> R<String> {
    let tag = rd.u8()?;
    // Ok(settings) or Err(kind text)
    let built: Result<Option<TimeoutSettings>, String> = match tag {
        0 => {
            let r = rd_opt(rd, rd_dur)?;
            let w = rd_opt(rd, rd_dur)?;
            let c = rd_opt(rd, rd_dur)?;
            let n = rd.u64()? as usize;
            TimeoutSettings::new(r, w, c, n).map(Some).map_err(|e| show_err(&e))
        }
        1 => Ok(Some(TimeoutSettings::default())),
        2 => {
            let c = rd_opt(rd, rd_text)?;
            let r = rd_opt(rd, rd_text)?;
            let w = rd_opt(rd, rd_text)?;
            let n = rd_opt(rd, rd_text)?;
            let mut args: Vec<String> = vec![];
            for (flag, v) in [("--connect-timeout", c), ("--read-timeout", r), ("--write-timeout", w), ("--retries", n)] {
                if let Some(v) = v {
                    // --flag=value so that a value is never taken for another flag
                    args.push(format!("{flag}={v}"));
                }
            }
            match Flags::try_parse_from(args) {
                Ok(f) => Ok(f.timeout_settings),
                Err(_) => Err("Err(InvalidInput)".to_string()),
            }
        }
        _ => {
            let c = rd_opt(rd, rd_dur)?;
            let r = rd_opt(rd, rd_dur)?;
            let w = rd_opt(rd, rd_dur)?;
            let n = rd.u64()?;
            let text = format!(
                "{{\"connect\":{},\"read\":{},\"write\":{},\"retries\":{}}}",
                json_dur(&c),
                json_dur(&r),
                json_dur(&w),
                n
            );
            match serde_json::from_str::<TimeoutSettings>(&text) {
                Ok(t) => Ok(Some(t)),
                Err(e) => {
                    // the message of TimeoutSettings::new's InvalidInput error is carried through serde
                    if e.to_string().contains("InvalidInput") {
                        Err("Err(InvalidInput)".to_string())
                    } else {
                        Err(format!("Err(serde:{e})"))
                    }
                }
            }
        }
    };
    let port = rd.u16()?;
    let script = rd_script(rd)?;
    Ok(match built {
        Err(e) => format!("{e};"),
        Ok(t) => {
            let q = run_scripted(script, |r: &valve::Response| canon(r), || {
                valve::query(&addr(port), valve::Engine::Source(None), None, t)
            });
            format!("Ok({});{}", show_ts(&t), q)
        }
    })
}
