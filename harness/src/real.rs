//! Family 12: experiments on real loopback sockets (no script installed): an
//! in-process server thread plays a scripted behaviour, the real query (or a
//! raw exchange through the crate's sockets) runs against it, and the result,
//! what the server saw and the wall-clock time are reported.
use crate::canon::*;
use crate::query::{canon_u2 as _, rd_tsettings};
use crate::rd::{Rd, R};
use crate::ser::canon;
use gamedig::protocols::types::GatherToggle;
use gamedig::verif_hook::raw;
use gamedig::GDResult;
use std::io::{Read, Write};
use std::net::{IpAddr, Ipv4Addr, Ipv6Addr, SocketAddr, TcpListener, UdpSocket};
use std::panic::{catch_unwind, AssertUnwindSafe};
use std::sync::atomic::{AtomicBool, Ordering};
use std::sync::{Arc, Mutex};
use std::time::{Duration, Instant};

fn hex(b: &[u8]) -> String { b.iter().map(|x| format!("{:02x}", x)).collect() }

fn digest(b: &[u8]) -> String {
    let sum: u64 = b.iter().map(|x| *x as u64).sum();
    format!("len={},sum={}", b.len(), sum % 4294967296)
}

pub fn case_real(rd: &mut Rd) -> R<String> {
    let kind = rd.u8()?;
    let v6 = rd.u8()? != 0;
    let ts = rd_tsettings(rd)?;
    let nrep = rd.u8()?;
    let mut replies = Vec::new();
    for _ in 0 .. nrep {
        replies.push(rd.bytes32()?.to_vec());
    }
    let after = rd.u8()?; // 0 stay silent, 1 close (tcp), 2 refuse (no server), 3 echo (udp raw)
    let payload = rd.bytes32()?.to_vec();
    let size = if rd.u8()? == 0 { None } else { Some(rd.u32()? as usize) };
    let ts = match ts {
        Ok(t) => t,
        Err(e) => return Ok(format!("{e}|")),
    };
    let ip: IpAddr = if v6 { IpAddr::V6(Ipv6Addr::LOCALHOST) } else { IpAddr::V4(Ipv4Addr::LOCALHOST) };
    let stop = Arc::new(AtomicBool::new(false));
    let seen: Arc<Mutex<Vec<Vec<u8>>>> = Arc::new(Mutex::new(Vec::new()));
    let tcp = kind == 2 || kind == 4 || kind == 5 || kind == 6 || kind == 7;
    // after == 4: a listener that never accepts and whose accept queue is full, so that further SYNs are dropped
    let mut parked: Vec<std::net::TcpStream> = Vec::new();
    let mut blackhole: Option<TcpListener> = None;
    let (port, handle) = if after == 4 {
        let l = TcpListener::bind(SocketAddr::new(ip, 0)).map_err(|_| ())?;
        let p = l.local_addr().map_err(|_| ())?.port();
        let a = SocketAddr::new(ip, p);
        for _ in 0 .. 6000 {
            match std::net::TcpStream::connect_timeout(&a, Duration::from_millis(40)) {
                Ok(c) => parked.push(c),
                Err(_) => break,
            }
        }
        blackhole = Some(l);
        (p, None)
    } else if after == 2 {
        // a port nobody listens on
        let l = TcpListener::bind(SocketAddr::new(ip, 0)).map_err(|_| ())?;
        let p = l.local_addr().map_err(|_| ())?.port();
        drop(l);
        (p, None)
    } else if tcp {
        let l = TcpListener::bind(SocketAddr::new(ip, 0)).map_err(|_| ())?;
        let p = l.local_addr().map_err(|_| ())?.port();
        l.set_nonblocking(true).map_err(|_| ())?;
        let (stop2, seen2, replies2) = (stop.clone(), seen.clone(), replies.clone());
        let h = std::thread::spawn(move || {
            // (connection, bytes read so far, time of the first byte, replied)
            let mut conns: Vec<(Option<std::net::TcpStream>, Vec<u8>, Option<Instant>, bool)> = Vec::new();
            let mut buf = [0u8; 65536];
            loop {
                let stopping = stop2.load(Ordering::SeqCst);
                if let Ok((c, _)) = l.accept() {
                    let _ = c.set_nonblocking(true);
                    conns.push((Some(c), Vec::new(), None, false));
                }
                for (c, got, first, replied) in conns.iter_mut() {
                    if let Some(stream) = c {
                        loop {
                            match stream.read(&mut buf) {
                                Ok(0) => break,
                                Ok(n) => {
                                    got.extend_from_slice(&buf[.. n]);
                                    first.get_or_insert_with(Instant::now);
                                }
                                Err(_) => break,
                            }
                        }
                        // answer once the client's first burst has had time to arrive
                        if !*replied && first.map_or(false, |t| t.elapsed() >= Duration::from_millis(40)) {
                            *replied = true;
                            if let Some(r) = replies2.first() {
                                let _ = stream.set_nonblocking(false);
                                let _ = stream.write_all(r);
                                let _ = stream.set_nonblocking(true);
                            }
                            if after == 1 {
                                *c = None;
                            }
                        }
                    }
                }
                if stopping {
                    break;
                }
                std::thread::sleep(Duration::from_millis(3));
            }
            let mut seen = seen2.lock().unwrap();
            for (_, got, _, _) in conns {
                seen.push(got);
            }
        });
        (p, Some(h))
    } else {
        let s = UdpSocket::bind(SocketAddr::new(ip, 0)).map_err(|_| ())?;
        let p = s.local_addr().map_err(|_| ())?.port();
        s.set_read_timeout(Some(Duration::from_millis(20))).map_err(|_| ())?;
        let (stop2, seen2, replies2) = (stop.clone(), seen.clone(), replies.clone());
        let h = std::thread::spawn(move || {
            let mut buf = vec![0u8; 70000];
            let mut i = 0;
            while !stop2.load(Ordering::SeqCst) {
                if let Ok((n, from)) = s.recv_from(&mut buf) {
                    seen2.lock().unwrap().push(buf[.. n].to_vec());
                    if after == 3 {
                        let _ = s.send_to(&buf[.. n], from);
                    } else if i < replies2.len() && !replies2[i].is_empty() {
                        // an empty reply stands for a request that gets no answer
                        let _ = s.send_to(&replies2[i], from);
                    }
                    i += 1;
                }
            }
        });
        (p, Some(h))
    };
    let addr = SocketAddr::new(ip, port);
    // the auto query also asks over UDP on the same port number: a bound, silent socket (otherwise the kernel answers "refused")
    let _udp_silent = if kind == 6 { UdpSocket::bind(addr).ok() } else { None };
    let start = Instant::now();
    let res: Result<String, ()> = catch_unwind(AssertUnwindSafe(|| {
        fn show<T>(r: GDResult<T>, f: impl Fn(&T) -> String) -> String { show_res(&r, f) }
        match kind {
            0 => {
                let g = gamedig::protocols::valve::GatheringSettings {
                    players: GatherToggle::Enforce,
                    rules: GatherToggle::Skip,
                    check_app_id: false,
                };
                show(gamedig::protocols::valve::query(&addr, gamedig::protocols::valve::Engine::Source(None), Some(g), ts), |r| canon(r))
            }
            1 => show(gamedig::protocols::quake::three::query(&addr, ts), |r| canon(r)),
            2 => show(gamedig::games::minecraft::protocol::query_java(&addr, ts, None), |r| canon(r)),
            3 => show(raw::udp_exchange(&addr, &ts, &payload, size), |r| digest(r)),
            5 => show(gamedig::games::eco::query_with_timeout(&ip, Some(port), &ts), |_| "response".to_string()),
            6 => show(gamedig::games::minecraft::protocol::query(&addr, ts, None), |r| canon(r)),
            7 => show(gamedig::games::minecraft::protocol::query_legacy(&addr, ts), |r| canon(r)),
            // the generic entry point (a game of the definitions table by address and port): the bytes must reach the peer at that address
            8 => {
                let game = gamedig::GAMES.get("q3a").expect("q3a is in the definitions table");
                show(gamedig::games::query::query_with_timeout(game, &ip, Some(port), ts), |r| crate::paths::show_generic(r))
            }
            _ => show(raw::tcp_exchange(&addr, &ts, &payload), |r| digest(r)),
        }
    }))
    .map_err(|_| ());
    let elapsed = start.elapsed().as_millis();
    // let the server thread record a request that is still in flight
    std::thread::sleep(Duration::from_millis(if tcp { 90 } else { 30 }));
    stop.store(true, Ordering::SeqCst);
    if let Some(h) = handle {
        let _ = h.join();
    }
    drop(parked);
    drop(blackhole);
    let seen = seen.lock().unwrap();
    let saw = if kind == 5 || kind == 6 || kind == 7 {
        // the HTTP request text carries the port and the client's version: not compared
        String::new()
    } else if kind == 2 {
        // the handshake carries the (dynamic) port: only the amount is comparable
        seen.iter().map(|d| format!("len={}", d.len())).collect::<Vec<_>>().join(",")
    } else if tcp {
        seen.iter().map(|d| digest(d)).collect::<Vec<_>>().join(",")
    } else if kind == 3 {
        seen.iter().map(|d| digest(d)).collect::<Vec<_>>().join(",")
    } else {
        seen.iter().map(|d| hex(d)).collect::<Vec<_>>().join(",")
    };
    crate::cases::SIDE.with(|s| s.borrow_mut().push_str(&format!("elapsed={elapsed};")));
    Ok(format!("{}|{}", res.unwrap_or_else(|_| "PANIC".into()), saw))
}
