(* Extraction of the executable model (ExtrOcamlBasic only: bool, option, unit,
   prod, list, sumbool, sumor map to OCaml's; N, Z, positive, nat stay the
   extracted inductive types). *)
From GD Require Import Model.Case.
Require Import ExtrOcamlBasic.
Extraction Language OCaml.
Extraction "model.ml" run_case.
