(* Base definitions shared by every model: outcomes, bytes, small list utilities.
   No proofs here. *)
From Coq Require Export Ascii String.
From Coq Require Export List NArith ZArith Bool Lia.
Export ListNotations.
#[global] Open Scope N_scope.
#[global] Open Scope list_scope.

(* GDErrorKind, in the order of errors/kind.rs *)
Inductive ekind :=
  PacketOverflow | PacketUnderflow | PacketBad | PacketSend | PacketReceive
| Decompress | SocketConnect | SocketBind | InvalidInput | BadGame | AutoQuery
| ProtocolFormat | UnknownEnumCast | JsonParse | TypeParse | HostLookup.

Definition ekind_eqb (a b : ekind) : bool :=
  match a, b with
  | PacketOverflow, PacketOverflow | PacketUnderflow, PacketUnderflow
  | PacketBad, PacketBad | PacketSend, PacketSend | PacketReceive, PacketReceive
  | Decompress, Decompress | SocketConnect, SocketConnect | SocketBind, SocketBind
  | InvalidInput, InvalidInput | BadGame, BadGame | AutoQuery, AutoQuery
  | ProtocolFormat, ProtocolFormat | UnknownEnumCast, UnknownEnumCast
  | JsonParse, JsonParse | TypeParse, TypeParse | HostLookup, HostLookup => true
  | _, _ => false
  end.

(* What a Rust call can do: return Ok / Err, unwind (Panic), abort the process
   (allocation failure), or - in the model only - run out of explicit fuel. *)
Inductive outcome (A : Type) : Type :=
| Ok (a : A) | Err (e : ekind) | Panic (site : N) | Abort (site : N) | OutOfFuel.
Arguments Ok {A} a. Arguments Err {A} e. Arguments Panic {A} site.
Arguments Abort {A} site. Arguments OutOfFuel {A}.

Definition safe {A} (o : outcome A) : Prop :=
  match o with Ok _ | Err _ => True | _ => False end.
Definition safeb {A} (o : outcome A) : bool :=
  match o with Ok _ | Err _ => true | _ => false end.
Definition is_ok {A} (o : outcome A) : bool := match o with Ok _ => true | _ => false end.

Definition timeout_class (e : ekind) : bool :=
  match e with PacketReceive | PacketSend => true | _ => false end.

Definition omap {A B} (f : A -> B) (o : outcome A) : outcome B :=
  match o with Ok a => Ok (f a) | Err e => Err e | Panic s => Panic s
             | Abort s => Abort s | OutOfFuel => OutOfFuel end.
Definition obind {A B} (o : outcome A) (f : A -> outcome B) : outcome B :=
  match o with Ok a => f a | Err e => Err e | Panic s => Panic s
             | Abort s => Abort s | OutOfFuel => OutOfFuel end.
(* cast a failed outcome to another result type *)
Definition ofail {A B} (o : outcome A) : outcome B :=
  match o with Ok _ => OutOfFuel | Err e => Err e | Panic s => Panic s
             | Abort s => Abort s | OutOfFuel => OutOfFuel end.

Definition byte := N.
Definition bytes := list N.

Definition byteb (x : N) : bool := x <? 256.
Definition bytesb (l : bytes) : bool := forallb byteb l.

(* panic sites (numbers only identify the Rust expression) *)
Definition site_remaining_length : N := 1.   (* buffer.rs remaining_length: len - cursor *)
Definition site_slice : N := 2.              (* slice index out of range *)
Definition site_add_overflow : N := 3.
Definition site_sub_overflow : N := 4.
Definition site_mul_overflow : N := 5.
Definition site_unwrap : N := 6.
Definition site_capacity : N := 7.
Definition site_string_remove : N := 8.
Definition site_explicit_panic : N := 9.
Definition site_shift_overflow : N := 10.

(* [take_n n l] = Some (firstn n l, skipn n l) when l is long enough *)
Fixpoint take_n (n : nat) (l : bytes) : option (bytes * bytes) :=
  match n with
  | O => Some ([], l)
  | S n' => match l with
            | [] => None
            | x :: r => match take_n n' r with
                        | Some (a, b) => Some (x :: a, b)
                        | None => None
                        end
            end
  end.

(* index of the first element satisfying p, with prefix and suffix (suffix
   starts at the found element) *)
Fixpoint span_until {A} (p : A -> bool) (l : list A) : list A * list A :=
  match l with
  | [] => ([], [])
  | x :: r => if p x then ([], l) else let '(a, b) := span_until p r in (x :: a, b)
  end.

Definition lenN {A} (l : list A) : N := N.of_nat (length l).

(* little/big endian values of a byte list *)
Fixpoint le_val (l : bytes) : N :=
  match l with [] => 0 | x :: r => x + 256 * le_val r end.
Definition be_val (l : bytes) : N := fold_left (fun acc x => acc * 256 + x) l 0.

(* n little-endian bytes of v (v mod 256^n) *)
Fixpoint le_bytes (n : nat) (v : N) : bytes :=
  match n with O => [] | S n' => (v mod 256) :: le_bytes n' (v / 256) end.
Definition be_bytes (n : nat) (v : N) : bytes := rev (le_bytes n v).

Definition to_signed (bits : N) (v : N) : Z :=
  if v <? 2 ^ (bits - 1) then Z.of_N v else (Z.of_N v - Z.of_N (2 ^ bits))%Z.
Definition of_signed (bits : N) (z : Z) : N := Z.to_N (z mod Z.of_N (2 ^ bits)).

(* ASCII literals as byte lists *)
Fixpoint str (s : string) : bytes :=
  match s with
  | EmptyString => []
  | String c r => N_of_ascii c :: str r
  end.

Fixpoint bytes_eqb (a b : bytes) : bool :=
  match a, b with
  | [], [] => true
  | x :: a', y :: b' => (x =? y) && bytes_eqb a' b'
  | _, _ => false
  end.

Fixpoint starts_with (p l : bytes) : bool :=
  match p, l with
  | [], _ => true
  | x :: p', y :: l' => (x =? y) && starts_with p' l'
  | _ :: _, [] => false
  end.

Fixpoint drop_prefix (p l : bytes) : option bytes :=
  match p, l with
  | [], _ => Some l
  | x :: p', y :: l' => if x =? y then drop_prefix p' l' else None
  | _ :: _, [] => None
  end.

(* decimal rendering of naturals / integers (for canonical output) *)
Fixpoint dec_digits (fuel : nat) (n : N) (acc : bytes) : bytes :=
  match fuel with
  | O => acc
  | S f => let d := 48 + n mod 10 in
           if n <? 10 then d :: acc else dec_digits f (n / 10) (d :: acc)
  end.
Definition show_N (n : N) : bytes := dec_digits (S (N.to_nat (N.log2 n))) n [].
Definition show_Z (z : Z) : bytes :=
  match z with
  | Z0 => [48]
  | Zpos p => show_N (Npos p)
  | Zneg p => 45 :: show_N (Npos p)
  end.

Definition hex_digit (d : N) : N := if d <? 10 then 48 + d else 87 + d.
(* canonical string rendering: printable ASCII except quote and backslash
   literally, everything else as \xHH *)
Fixpoint show_str_body (l : bytes) : bytes :=
  match l with
  | [] => []
  | c :: r =>
      (if (32 <=? c) && (c <? 127) && negb (c =? 34) && negb (c =? 92)
       then [c] else [92; 120; hex_digit (c / 16); hex_digit (c mod 16)])
      ++ show_str_body r
  end.
Definition show_str (l : bytes) : bytes := 34 :: show_str_body l ++ [34].
Definition show_bool (b : bool) : bytes := if b then str "true" else str "false".
Definition show_ekind (e : ekind) : bytes :=
  match e with
  | PacketOverflow => str "PacketOverflow" | PacketUnderflow => str "PacketUnderflow"
  | PacketBad => str "PacketBad" | PacketSend => str "PacketSend"
  | PacketReceive => str "PacketReceive" | Decompress => str "Decompress"
  | SocketConnect => str "SocketConnect" | SocketBind => str "SocketBind"
  | InvalidInput => str "InvalidInput" | BadGame => str "BadGame"
  | AutoQuery => str "AutoQuery" | ProtocolFormat => str "ProtocolFormat"
  | UnknownEnumCast => str "UnknownEnumCast" | JsonParse => str "JsonParse"
  | TypeParse => str "TypeParse" | HostLookup => str "HostLookup"
  end.
Definition show_outcome {A} (f : A -> bytes) (o : outcome A) : bytes :=
  match o with
  | Ok a => str "Ok(" ++ f a ++ str ")"
  | Err e => str "Err(" ++ show_ekind e ++ str ")"
  | Panic _ => str "PANIC"
  | Abort _ => str "ABORT"
  | OutOfFuel => str "OUTOFFUEL"
  end.
Definition show_option {A} (f : A -> bytes) (o : option A) : bytes :=
  match o with Some a => str "Some(" ++ f a ++ str ")" | None => str "None" end.
Fixpoint intercalate (sep : bytes) (l : list bytes) : bytes :=
  match l with
  | [] => []
  | [x] => x
  | x :: r => x ++ sep ++ intercalate sep r
  end.
Definition show_list {A} (f : A -> bytes) (l : list A) : bytes :=
  str "[" ++ intercalate (str ",") (map f l) ++ str "]".
