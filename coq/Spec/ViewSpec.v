(* C15, the specification side: which protocol-specific field each accessor of
   the protocol-independent view stands for. Written by hand from RESPONSES.md
   (the response table) and the field documentation of each types.rs; nothing
   here is generated. An accessor that is not listed is absent (None). *)
From GD Require Import Base.Prelude Model.View.
Require Import String.
Local Open Scope string_scope.

Record tspec := mkspec { sp_accs : list (string * sexpr); sp_orig : list string; sp_player : string }.
Definition spec_acc (s : tspec) (a : string) : sexpr :=
  match assoc a (sp_accs s) with Some e => e | None => SAbsent end.

Definition spec_responses : list (string * tspec) :=
 [("valve", mkspec
    [("name", SStr ["info"; "name"]); ("game_mode", SStr ["info"; "game_mode"]);
     ("game_version", SStr ["info"; "game_version"]); ("map", SStr ["info"; "map"]);
     ("players_maximum", SNum ["info"; "players_maximum"] U8); ("players_online", SNum ["info"; "players_online"] U8);
     ("players_bots", SNum ["info"; "players_bots"] U8); ("has_password", SBool ["info"; "has_password"]);
     ("players", SOptList ["players"])]
    ["Valve"] "valve_player");
  ("quake1", mkspec
    [("name", SStr ["name"]); ("game_version", SOptStr ["game_version"]); ("map", SStr ["map"]);
     ("players_maximum", SNum ["players_maximum"] U8); ("players_online", SNum ["players_online"] U8);
     ("players", SList ["players"])]
    ["Quake"; "One"] "quake1_player");
  ("quake2", mkspec
    [("name", SStr ["name"]); ("game_version", SOptStr ["game_version"]); ("map", SStr ["map"]);
     ("players_maximum", SNum ["players_maximum"] U8); ("players_online", SNum ["players_online"] U8);
     ("players", SList ["players"])]
    ["Quake"; "TwoAndThree"] "quake2_player");
  ("unreal2", mkspec
    [("name", SStr ["server_info"; "name"]); ("game_mode", SStr ["server_info"; "game_type"]);
     ("map", SStr ["server_info"; "map"]);
     ("players_maximum", SNum ["server_info"; "max_players"] U32); ("players_online", SNum ["server_info"; "num_players"] U32);
     ("has_password", SBool ["server_info"; "password"]); ("players", SList ["players"; "players"])]
    ["Unreal2"] "unreal2_player");
  ("gamespy1", mkspec
    [("name", SStr ["name"]); ("map", SStr ["map"]); ("has_password", SBool ["has_password"]);
     ("game_mode", SStr ["game_mode"]); ("game_version", SStr ["game_version"]);
     ("players_maximum", SNum ["players_maximum"] U32); ("players_online", SNum ["players_online"] U32);
     ("players", SList ["players"])]
    ["GameSpy"; "One"] "gamespy1_player");
  ("gamespy2", mkspec
    [("name", SStr ["name"]); ("map", SStr ["map"]); ("has_password", SBool ["has_password"]);
     ("players_maximum", SNum ["players_maximum"] U32); ("players_online", SNum ["players_online"] U32);
     ("players", SList ["players"])]
    ["GameSpy"; "Two"] "gamespy2_player");
  ("gamespy3", mkspec
    [("name", SStr ["name"]); ("map", SStr ["map"]); ("has_password", SBool ["has_password"]);
     ("game_mode", SStr ["game_mode"]); ("game_version", SStr ["game_version"]);
     ("players_maximum", SNum ["players_maximum"] U32); ("players_online", SNum ["players_online"] U32);
     ("players", SList ["players"])]
    ["GameSpy"; "Three"] "gamespy3_player");
  ("epic", mkspec
    [("name", SStr ["name"]); ("map", SStr ["map"]); ("game_version", SOptStr ["game_version"]);
     ("players_maximum", SNum ["players_maxmimum"] U32); ("players_online", SNum ["players_online"] U32);
     ("has_password", SBool ["has_password"]); ("players", SList ["players"])]
    ["Epic"] "epic_player");
  (* Mindustry sends signed counts; a count that is not a u32 reads as 0 *)
  ("mindustry", mkspec
    [("players_online", SNumClamp ["players"] I32 U32); ("players_maximum", SNumClamp ["player_limit"] I32 U32);
     ("game_mode", SEnumStr ["gamemode"]
        [("Survival", "survival"); ("Sandbox", "sandbox"); ("Attack", "attack"); ("PVP", "pvp"); ("Editor", "editor")]);
     ("map", SStr ["map"]); ("description", SStr ["description"])]
    ["Mindustry"] "");
  ("minecraft_java", mkspec
    [("description", SStr ["description"]); ("game_version", SStr ["game_version"]);
     ("players_maximum", SNum ["players_maximum"] U32); ("players_online", SNum ["players_online"] U32);
     ("players", SOptList ["players"])]
    ["Minecraft"; "Java"] "minecraft_player");
  ("minecraft_bedrock", mkspec
    [("name", SStr ["name"]); ("map", SOptStr ["map"]); ("game_version", SStr ["version_name"]);
     ("players_maximum", SNum ["players_maximum"] U32); ("players_online", SNum ["players_online"] U32)]
    ["Minecraft"; "Bedrock"] "");
  ("theship", mkspec
    [("name", SStr ["name"]); ("map", SStr ["map"]); ("game_mode", SStr ["game_mode"]);
     ("players_maximum", SNum ["players_maximum"] U8); ("players_online", SNum ["players_online"] U8);
     ("players_bots", SNum ["players_bots"] U8); ("has_password", SBool ["has_password"]);
     ("players", SList ["players"])]
    ["TheShip"] "theship_player");
  ("ffow", mkspec
    [("name", SStr ["name"]); ("game_mode", SStr ["game_mode"]); ("description", SStr ["description"]);
     ("game_version", SStr ["game_version"]); ("map", SStr ["map"]); ("has_password", SBool ["has_password"]);
     ("players_maximum", SNum ["players_maximum"] U8); ("players_online", SNum ["players_online"] U8)]
    ["FFOW"] "");
  ("jc2m", mkspec
    [("game_version", SStr ["game_version"]); ("description", SStr ["description"]); ("name", SStr ["name"]);
     ("has_password", SBool ["has_password"]);
     ("players_maximum", SNum ["players_maximum"] U32); ("players_online", SNum ["players_online"] U32);
     ("players", SList ["players"])]
    ["JC2M"] "jc2m_player");
  ("savage2", mkspec
    [("name", SStr ["name"]); ("game_mode", SStr ["game_mode"]); ("map", SStr ["map"]);
     ("players_maximum", SNum ["players_maximum"] U8); ("players_online", SNum ["players_online"] U8)]
    ["Savage2"] "");
  ("eco", mkspec
    [("description", SStr ["description"]); ("game_version", SStr ["game_version"]);
     ("has_password", SBool ["has_password"]);
     ("players_maximum", SNum ["players_maximum"] U32); ("players_online", SNum ["players_online"] U32);
     ("players", SList ["players"])]
    ["Eco"] "eco_player");
  ("minetest", mkspec
    [("name", SStr ["name"]); ("description", SStr ["description"]); ("game_version", SStr ["game_version"]);
     ("players_maximum", SNum ["players_maximum"] U32); ("players_online", SNum ["players_online"] U32);
     ("has_password", SOptBool ["has_password"]); ("players", SList ["players"])]
    ["Minetest"] "minetest_player")].

Definition named (score : option (fpath * nty)) (orig : list string) : tspec :=
  mkspec (("name", SStr ["name"]) :: match score with Some (p, t) => [("score", SNum p t)] | None => [] end) orig "".
Definition spec_players : list (string * tspec) :=
 [("valve_player", named (Some (["score"], I32)) ["Valve"]);
  ("quake1_player", named (Some (["score"], U16)) ["QuakeOne"]);
  ("quake2_player", named (Some (["score"], I32)) ["QuakeTwo"]);
  ("unreal2_player", named (Some (["score"], I32)) ["Unreal2"]);
  ("gamespy1_player", named (Some (["score"], I32)) ["Gamespy"; "One"]);
  ("gamespy2_player", named (Some (["score"], U16)) ["Gamespy"; "Two"]);
  ("gamespy3_player", named (Some (["score"], I32)) ["Gamespy"; "Three"]);
  ("epic_player", named None ["Epic"]);
  ("minecraft_player", named None ["Minecraft"]);
  ("theship_player", named (Some (["score"], I32)) ["TheShip"]);
  ("jc2m_player", named None ["JCMP2"]);
  ("eco_player", named None ["Eco"]);
  ("minetest_player", named None ["Minetest"])].

(* the JSON form: exactly these keys *)
Definition json_keys : list string :=
  ["description"; "game_mode"; "game_version"; "has_password"; "map"; "name"; "players";
   "players_bots"; "players_maximum"; "players_online"].
Definition player_json_keys : list string := ["name"; "score"].

Definition spec_player_field (ps : tspec) (k : string) (p : jv) : option jv := eval_s (spec_acc ps k) p.
Definition opt_pair {A B} (a : A) (o : option B) : option (A * B) :=
  match o with Some b => Some (a, b) | None => None end.
(* JSON objects are unordered: [ks] / [pks] give the order in which the fields
   are listed (a permutation of json_keys / player_json_keys) *)
Definition spec_player_json (pks : list string) (ps : tspec) (p : jv) : option jv :=
  match all_some (map (fun k => opt_pair k (spec_player_field ps k p)) pks) with
  | Some l => Some (JObj l) | None => None end.
Definition spec_field (pks : list string) (s : tspec) (k : string) (r : jv) : option jv :=
  if String.eqb k "players" then
    match eval_s (spec_acc s k) r, assoc (sp_player s) spec_players with
    | Some JNull, _ => Some JNull
    | Some (JList l), Some ps =>
        match all_some (map (spec_player_json pks ps) l) with Some l' => Some (JList l') | None => None end
    | _, _ => None
    end
  else eval_s (spec_acc s k) r.
Definition spec_json (ks pks : list string) (s : tspec) (r : jv) : option jv :=
  match all_some (map (fun k => opt_pair k (spec_field pks s k r)) ks) with
  | Some l => Some (JObj l) | None => None end.
