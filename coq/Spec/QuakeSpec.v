(* Specification side of C05: Quake 1/2/3 status replies. *)
From GD Require Import Base.Prelude Model.Strings Model.StrOps Model.Net Model.Valve Model.Quake Spec.Rand.

Record qstate := mk_qstate {
  qs_vars : list (bytes * bytes);        (* all server variables, in wire order *)
  qs_players : list qplayer;
  qs_quoted : list bool;                 (* per player: is the name sent in quotes *)
  qs_trailing_nul : bool }.

Definition kvb (kv : bytes * bytes) : bytes := [92] ++ fst kv ++ [92] ++ snd kv.
Definition quote (s : bytes) : bytes := [34] ++ s ++ [34].
Definition sp : bytes := [32].
Definition enc_player_line (q : bool) (p : qplayer) : bytes :=
  let nm (s : bytes) := if q then quote s else s in
  match p with
  | P1 p => show_N (q1_id p) ++ sp ++ show_N (q1_score p) ++ sp ++ show_N (q1_time p) ++ sp ++ show_N (q1_ping p) ++ sp
            ++ nm (q1_name p) ++ sp ++ quote (q1_skin p) ++ sp ++ show_N (q1_color_primary p) ++ sp ++ show_N (q1_color_secondary p)
  | P2 p => show_Z (q2_score p) ++ sp ++ show_N (q2_ping p) ++ sp ++ nm (q2_name p)
            ++ match q2_address p with Some a => sp ++ quote a | None => [] end
  end.
Fixpoint enc_lines (qs : list bool) (ps : list qplayer) : bytes :=
  match ps with
  | [] => []
  | p :: r => enc_player_line (hd true qs) p ++ [10] ++ enc_lines (tl qs) r
  end.
Definition quake_reply (v : qver) (st : qstate) : bytes :=
  [255; 255; 255; 255] ++ response_header v ++ concat (map kvb (qs_vars st)) ++ [10]
  ++ enc_lines (qs_quoted st) (qs_players st) ++ (if qs_trailing_nul st then [0] else []).

(* expected response *)
Definition var_value (k : bytes) (vars : list (bytes * bytes)) : option bytes :=
  option_map snd (find (fun kv => bytes_eqb (fst kv) k) vars).
Definition either (k1 k2 : bytes) (vars : list (bytes * bytes)) : option bytes :=
  match var_value k1 vars with Some v => Some v | None => var_value k2 vars end.
Definition consumed_keys : list bytes :=
  [str "hostname"; str "sv_hostname"; str "mapname"; str "map"; str "maxclients"; str "sv_maxclients"; str "version"; str "*version"].
(* of two spellings of a variable only the one that is used leaves the unused entries *)
Definition used_key (k1 k2 : bytes) (vars : list (bytes * bytes)) : list bytes :=
  match var_value k1 vars with Some _ => [k1] | None => match var_value k2 vars with Some _ => [k2] | None => [] end end.
Definition consumed_of (vars : list (bytes * bytes)) : list bytes :=
  used_key (str "hostname") (str "sv_hostname") vars ++ used_key (str "mapname") (str "map") vars
  ++ used_key (str "maxclients") (str "sv_maxclients") vars ++ used_key (str "version") (str "*version") vars.
Definition quake_expected (st : qstate) : option qresponse :=
  match either (str "hostname") (str "sv_hostname") (qs_vars st),
        either (str "mapname") (str "map") (qs_vars st),
        either (str "maxclients") (str "sv_maxclients") (qs_vars st) with
  | Some name, Some map, Some maxc =>
      match parse_unsigned 255 maxc with    (* a u8, written in decimal *)
      | Some m =>
          Some (mk_qresp name map (qs_players st) (lenN (qs_players st) mod 256) m
                  (either (str "version") (str "*version") (qs_vars st))
                  (filter (fun kv => negb (existsb (bytes_eqb (fst kv)) (consumed_of (qs_vars st)))) (qs_vars st)))
      | None => None
      end
  | _, _, _ => None
  end.

(* domain *)
Definition var_text (s : bytes) : bool :=
  utf8_valid s && forallb (fun c => negb (c =? 92) && negb (c =? 10) && negb (c =? 0)) s.
Definition name_text (s : bytes) : bool :=
  utf8_valid s && forallb (fun c => negb (c =? 34) && negb (c =? 10) && negb (c =? 0)) s.
Definition bare_text (s : bytes) : bool := name_text s && forallb (fun c => negb (c =? 32)) s && negb (match s with [] => true | _ => false end).
Fixpoint nodup_keys (l : list (bytes * bytes)) : bool :=
  match l with [] => true | kv :: r => negb (existsb (fun x => bytes_eqb (fst x) (fst kv)) r) && nodup_keys r end.

(* generator *)
Definition var_alphabet : list N := [65; 66; 97; 122; 32; 48; 57; 95; 45; 233; 8364; 128512; 1; 127; 37; 60; 38; 34].
Definition name_alphabet : list N := [65; 66; 97; 122; 32; 32; 48; 57; 95; 45; 233; 8364; 128512; 1; 127; 92; 60; 38].
Definition gtext_of (alpha : list N) : G bytes :=
  gen* k := below 8 in
  let n := if k =? 0 then 0 else if k =? 1 then 1 else if k =? 2 then 14 else 4 in
  gen* l := grepeat (N.to_nat n) (pick 65 alpha) in gret (utf8_encode l).
Definition gen_q1_player : G qplayer :=
  gen* id := gnum 8 in gen* sc := gnum 16 in gen* ti := gnum 16 in gen* pi := gnum 16 in
  gen* nm := gtext_of name_alphabet in gen* sk := gtext_of name_alphabet in gen* c1 := gnum 8 in gen* c2 := gnum 8 in
  gret (P1 (mk_q1p id sc ti pi nm sk c1 c2)).
Definition gen_q2_player : G qplayer :=
  gen* sc := gnum 32 in gen* pi := gnum 16 in gen* nm := gtext_of name_alphabet in
  gen* ad := gopt (gtext_of name_alphabet) in
  gret (P2 (mk_q2p (to_signed 32 sc) pi nm ad)).
Fixpoint gen_extras (n : nat) (i : N) : G (list (bytes * bytes)) :=
  match n with
  | O => gret []
  | S n' => gen* k := gtext_of var_alphabet in gen* v := gtext_of var_alphabet in gen* r := gen_extras n' (i + 1) in
            gret ((k ++ str "_" ++ show_N i, v) :: r)
  end.
Definition gen_qstate (v : qver) : G qstate :=
  gen* hk := chance 1 2 in gen* mk := chance 1 2 in gen* xk := chance 1 2 in gen* vk := chance 1 2 in
  gen* name := gtext_of var_alphabet in gen* mapv := gtext_of var_alphabet in gen* maxc := gnum 8 in
  gen* ver := gopt (gtext_of var_alphabet) in
  gen* ne := below 6 in gen* extras := gen_extras (N.to_nat ne) 0 in
  gen* pos := below (ne + 1) in
  (* some servers send both spellings of a variable: the second one stays an ordinary variable *)
  gen* b1 := chance 1 4 in gen* b2 := chance 1 6 in gen* bv := gtext_of var_alphabet in
  let both := (if b1 then [((if hk then str "sv_hostname" else str "hostname"), bv)] else [])
              ++ (if b2 then [((if mk then str "map" else str "mapname"), bv)] else []) in
  let named := [((if hk then str "hostname" else str "sv_hostname"), name);
                ((if mk then str "mapname" else str "map"), mapv);
                ((if xk then str "maxclients" else str "sv_maxclients"), show_N maxc)]
               ++ match ver with Some x => [((if vk then str "version" else str "*version"), x)] | None => [] end
               ++ both in
  let vars := firstn (N.to_nat pos) extras ++ named ++ skipn (N.to_nat pos) extras in
  gen* np := (gen* k := below 6 in if k =? 0 then gret 0 else if k =? 1 then gret 1 else below 7) in
  gen* ps := grepeat (N.to_nat np) (match v with Q1 => gen_q1_player | _ => gen_q2_player end) in
  (* a name is sent unquoted only when it is non-empty and has no space *)
  gen* qflags := grepeat (N.to_nat np) (chance 3 4) in
  let quoted := map (fun pq => match fst pq with
                               | P1 p => snd pq || negb (bare_text (q1_name p))
                               | P2 p => snd pq || negb (bare_text (q2_name p)) end) (combine ps qflags) in
  gen* nul := chance 1 2 in
  gret (mk_qstate vars ps quoted nul).
