(* Specification side of C16: the Master Server Query Protocol's filter
   grammar (as a parser of the request's filter string) and reply pages. *)
From GD Require Import Base.Prelude Model.StrOps Model.Strings Model.Net Model.Master Proofs.Str Spec.Rand Spec.CaseEnc.

(* ---- reply pages ---- *)
Definition enc_addr (a : addr) : bytes :=
  let '(a1, a2, a3, a4, p) := a in [a1; a2; a3; a4] ++ be16 p.
Definition page_header : bytes := [255; 255; 255; 255; 102; 10].
Definition enc_page (l : list addr) : bytes := page_header ++ flat_map enc_addr l.

Definition wf_addr (a : addr) : bool :=
  let '(a1, a2, a3, a4, p) := a in (a1 <? 256) && (a2 <? 256) && (a3 <? 256) && (a4 <? 256) && (p <? 65536).

(* a complete listing: full pages (non-empty, no terminator, each ending on a
   new address) followed by a final page that contains the terminator *)
Record listing := mk_listing { l_pages : list (list addr); l_final_before : list addr; l_final_after : list addr }.
Definition listing_script (l : listing) : list bytes :=
  map enc_page (l_pages l) ++ [enc_page (l_final_before l ++ zero_addr :: l_final_after l)].
Definition listing_expected (l : listing) : list addr := concat (l_pages l) ++ l_final_before l.
(* the seed of each request: 0.0.0.0:0, then the last address of each full page *)
Definition listing_seeds (l : listing) : list addr := zero_addr :: map (fun p => last p zero_addr) (l_pages l).

(* ---- filter grammar ----
   filter string := { '\' key '\' value } NUL ; '\nand\N' and '\nor\N' take the
   N following filters as their group *)
Definition pairs_t := list (bytes * bytes).
Fixpoint pair_up (l : list bytes) : option pairs_t :=
  match l with
  | [] => Some []
  | k :: v :: r => match pair_up r with Some p => Some ((k, v) :: p) | None => None end
  | _ => None
  end.
(* decimal value of a digit string *)
Definition dec_value (s : bytes) : option N := dec_read s.
Record groups := mk_groups { gr_plain : pairs_t; gr_nand : pairs_t; gr_nor : pairs_t }.
Fixpoint take_pairs (n : nat) (l : pairs_t) : option (pairs_t * pairs_t) :=
  match n with
  | O => Some ([], l)
  | S n' => match l with [] => None | x :: r => match take_pairs n' r with Some (a, b) => Some (x :: a, b) | None => None end end
  end.
Fixpoint group_pairs (fuel : nat) (l : pairs_t) (g : groups) : option groups :=
  match fuel with
  | O => None
  | S f =>
      match l with
      | [] => Some g
      | (k, v) :: r =>
          if bytes_eqb k (str "nand") || bytes_eqb k (str "nor") then
            match dec_value v with
            | None => None
            | Some n =>
                match take_pairs (N.to_nat n) r with
                | None => None
                | Some (grp, rest) =>
                    group_pairs f rest (if bytes_eqb k (str "nand")
                                        then mk_groups (gr_plain g) (gr_nand g ++ grp) (gr_nor g)
                                        else mk_groups (gr_plain g) (gr_nand g) (gr_nor g ++ grp))
                end
            end
          else group_pairs f r (mk_groups (gr_plain g ++ [(k, v)]) (gr_nand g) (gr_nor g))
      end
  end.
(* what a filter string denotes; None = not in the grammar *)
Definition denote (fb : bytes) : option groups :=
  match rev fb with
  | 0 :: body_rev =>
      let body := rev body_rev in
      match body with
      | [] => Some (mk_groups [] [] [])
      | 92 :: rest =>
          match pair_up (split 92 rest) with
          | Some ps => group_pairs (S (length ps)) ps (mk_groups [] [] [])
          | None => None
          end
      | _ => None
      end
  | _ => None
  end.

(* the (key, value) a filter stands for; None for a tag filter without tags *)
Definition filter_pair (f : mfilter) : option (bytes * bytes) :=
  match f with
  | IsSecured b => Some (str "secure", bchar b)
  | RunsMap s => Some (str "map", s)
  | CanHavePassword b => Some (str "password", bchar b)
  | CanBeEmpty b => Some (str "empty", bchar b)
  | CanBeFull b => Some (str "full", bchar b)
  | RunsAppID n => Some (str "appid", show_N n)
  | HasTags tags => match tags with [] => None | _ => Some (str "gametype", intercalate [44] tags) end
  | NotAppID n => Some (str "napp", show_N n)
  | IsEmpty b => Some (str "noplayers", bchar b)
  | MatchName s => Some (str "name_match", s)
  | MatchVersion s => Some (str "version_match", s)
  | RestrictUniqueIP b => Some (str "collapse_addr_hash", bchar b)
  | OnAddress s => Some (str "gameaddr", s)
  | Whitelisted b => Some (str "white", bchar b)
  | SpectatorProxy b => Some (str "proxy", bchar b)
  | IsDedicated b => Some (str "dedicated", bchar b)
  | RunsLinux b => Some (str "linux", bchar b)
  | HasGameDir s => Some (str "gamedir", s)
  end.
Definition pairs_of (l : list mfilter) : pairs_t :=
  flat_map (fun f => match filter_pair f with Some p => [p] | None => [] end) l.

(* values the grammar can carry: no backslash, no NUL *)
Definition clean (s : bytes) : bool := forallb (fun c => negb (c =? 92) && negb (c =? 0)) s.
Definition filter_wf (f : mfilter) : bool :=
  match f with
  | RunsMap s | MatchName s | MatchVersion s | OnAddress s | HasGameDir s => clean s
  | HasTags tags => forallb clean tags
  | _ => true
  end.

(* ---- generator of listings (valid-by-spec stream) ---- *)
Definition gen_addr : G addr :=
  gen* a1 := gnum 8 in gen* a2 := gnum 8 in gen* a3 := gnum 8 in gen* a4 := gnum 8 in gen* p := gnum 16 in
  gret (a1, a2, a3, a4, if (a1 =? 0) && (a2 =? 0) && (a3 =? 0) && (a4 =? 0) && (p =? 0) then 1 else p).
(* a datagram of the master holds at most 231 entries after its 6-byte header (1400-byte receive): the lengths around
   that bound are drawn often (the page generator adds one more address, the one the next request is seeded with) *)
Definition gen_page_len : G N := gen* k := below 10 in
  if k =? 0 then gret 1 else if k =? 1 then gret 225 else if k =? 2 then gret 2
  else if k =? 3 then gret 229 else if k =? 4 then gret 230 else if k =? 5 then gret 228 else below 12.
(* pages end on pairwise different addresses (consecutive pages often share the IP and differ in the port only): the i-th full page ends on 10.77.(i/2).1:27015+i *)
Fixpoint gen_pages (n : nat) (i : N) (prev : option addr) : G (list (list addr)) :=
  match n with
  | O => gret []
  | S n' => gen* len := gen_page_len in gen* body := grepeat (N.to_nat len) gen_addr in
            (* a server may list the address the request was seeded with again, first on the next page *)
            gen* again := chance 1 3 in
            let body' := match prev with Some a => if again then a :: body else body | None => body end in
            let e := (10, 77, i / 2, 1, 27015 + i) in
            gen* rest := gen_pages n' (i + 1) (Some e) in
            gret ((body' ++ [e]) :: rest)
  end.
Definition gen_listing : G listing :=
  gen* np := below 6 in
  gen* pages := gen_pages (N.to_nat np) 0 None in
  gen* nb := gen_page_len in gen* before0 := grepeat (N.to_nat nb) gen_addr in
  gen* again := chance 1 3 in
  let before := match rev pages with p :: _ => if again then last p zero_addr :: before0 else before0 | [] => before0 end in
  gen* tail := chance 1 3 in
  gen* na := (if tail && (nb <? 200) then below 5 else gret 0) in     (* the datagram stays within the 1400-byte receive *) gen* after := grepeat (N.to_nat na) gen_addr in
  gen* empty := chance 1 6 in
  gret (mk_listing pages (if empty then [] else before) after).
