(* Encoders for the case format read by Model/Case.v (used by the spec-case
   families to hand settings to the generator script). *)
From GD Require Import Base.Prelude Model.Net Model.Valve.

Definition be16 (v : N) := be_bytes 2 v.
Definition be32 (v : N) := be_bytes 4 v.
Definition be64 (v : N) := be_bytes 8 v.
Definition enc_bytes32 (b : bytes) : bytes := be32 (lenN b) ++ b.
Definition enc_opt {A} (f : A -> bytes) (o : option A) : bytes :=
  match o with None => [0] | Some a => 1 :: f a end.
Definition enc_toggle (t : toggle) : bytes := match t with Skip => [0] | Try => [1] | Enforce => [2] end.
Definition enc_engine (e : engine) : bytes :=
  match e with
  | Source None => [0]
  | Source (Some (a, None)) => 1 :: be32 a
  | Source (Some (a, Some d)) => 2 :: be32 a ++ be32 d
  | GoldSrc false => [3]
  | GoldSrc true => [4]
  end.
Definition enc_gathering (g : gathering) : bytes :=
  enc_toggle (g_players g) ++ enc_toggle (g_rules g) ++ [if g_check_app_id g then 1 else 0].
Definition enc_dur (d : duration) : bytes := be64 (fst d) ++ be32 (snd d).
Definition enc_tsettings (t : option tsettings) : bytes :=
  match t with
  | None => [0]
  | Some s => 1 :: enc_opt enc_dur (ts_connect s) ++ enc_opt enc_dur (ts_read s) ++ enc_opt enc_dur (ts_write s)
              ++ be64 (ts_retries s)
  end.
