(* C07, the specification side: what a server of each single-game protocol
   sends for a given state and what the client must return. *)
From GD Require Import Base.Prelude Model.Strings Model.StrOps Model.Net Model.Valve Model.Gamespy Model.Games.
From GD Require Import Spec.Rand Spec.QuakeSpec Spec.ValveSpec Spec.ValveGen Spec.GamespySpec.

Definition le16 (n : N) : bytes := le_bytes 2 n.
Definition be16' (n : N) : bytes := be_bytes 2 n.
Definition be32z (z : Z) : bytes := be_bytes 4 (of_signed 32 z).

(* ---- FFOW: a simple Valve packet of kind 'F' ---- *)
Record ffow_state := mk_ffs { fs_resp : ffow_response; fs_st : N; fs_env : N; fs_pw : N; fs_vac : N; fs_skip : bytes; fs_fps : N }.
Definition ffow_reply (s : ffow_state) : bytes :=
  let r := fs_resp s in
  [255; 255; 255; 255; 70] ++ [ff_protocol_version r] ++ cstr (ff_name r) ++ cstr (ff_map r) ++ cstr (ff_active_mod r)
  ++ cstr (ff_game_mode r) ++ cstr (ff_description r) ++ cstr (ff_game_version r) ++ fs_skip s
  ++ [ff_players_online r; ff_players_maximum r; fs_st s; fs_env s; fs_pw s; fs_vac s; fs_fps s;
      ff_round r; ff_rounds_maximum r] ++ le16 (ff_time_left r).
Definition gen_ffow : G ffow_state :=
  gen* pv := gnum 8 in gen* name := gval in gen* mapn := gval in gen* amod := gval in gen* mode := gval in
  gen* desc := gval in gen* ver := gval in gen* on := gnum 8 in gen* mx := gnum 8 in
  gen* st := pick (100, Dedicated) [(100, Dedicated); (108, NonDedicated); (112, TV); (68, Dedicated); (76, NonDedicated)] in
  gen* en := pick (108, Linux) [(108, Linux); (119, Windows); (109, Mac); (111, Mac); (87, Windows)] in
  gen* pw := pick 0 [0; 1; 1; 2; 255] in gen* vac := pick 0 [0; 1; 1; 2] in
  gen* s1 := gnum 8 in gen* s2 := gnum 8 in gen* fps := gnum 8 in
  gen* rd := gnum 8 in gen* rm := gnum 8 in gen* tl := gnum 16 in
  gret (mk_ffs (mk_ffow pv name amod mode ver desc mapn on mx (snd st) (snd en) (pw =? 1) (vac =? 1) rd rm tl)
               (fst st) (fst en) pw vac [s1; s2] fps).

(* ---- Savage 2 ---- *)
Record sv2_state := mk_svs { ss_resp : savage2_response; ss_header : bytes }.
Definition savage2_reply (s : sv2_state) : bytes :=
  let r := ss_resp s in
  ss_header s ++ cstr (sv_name r) ++ [sv_players_online r; sv_players_maximum r] ++ cstr (sv_time r) ++ cstr (sv_map r)
  ++ cstr (sv_next_map r) ++ cstr (sv_location r) ++ [sv_players_minimum r] ++ cstr (sv_game_mode r)
  ++ cstr (sv_protocol_version r) ++ [sv_level_minimum r].
Definition gen_savage2 : G sv2_state :=
  gen* hd := grepeat 12 (gnum 8) in
  gen* name := gval in gen* on := gnum 8 in gen* mx := gnum 8 in gen* time := gval in gen* mapn := gval in
  gen* nx := gval in gen* loc := gval in gen* mn := gnum 8 in gen* mode := gval in gen* pv := gval in gen* lv := gnum 8 in
  gret (mk_svs (mk_sv2 name on mx mn time mapn nx loc mode pv lv) hd).

(* ---- JC2M ---- *)
Record jc_state := mk_jcs {
  js_version : bytes; js_description : bytes; js_name : bytes; js_password : bool * bytes; js_max : N; js_num : option N;
  js_extras : list (bytes * bytes); js_players : list jc2m_player; js_count : N; js_challenge : Z; js_skip : bytes }.
Definition jc_vars (s : jc_state) : list (bytes * bytes) :=
  [(str "hostname", js_name s); (str "version", js_version s); (str "description", js_description s);
   (str "maxplayers", show_N (js_max s)); (str "password", snd (js_password s))]
  ++ opt_list (js_num s) (fun v => [(str "numplayers", show_N v)]) ++ js_extras s.
Definition jc_script (s : jc_state) : list bytes :=
  [[9; 0; 0; 0; 1] ++ cstr (show_Z (js_challenge s));
   [0; 0; 0; 0; 1] ++ js_skip s ++ flat_map (fun kv => cstr (fst kv) ++ cstr (snd kv)) (jc_vars s) ++ nul
   ++ be16' (js_count s)
   ++ flat_map (fun p => cstr (jp_name p) ++ cstr (jp_steam_id p) ++ be16' (jp_ping p)) (js_players s)].
Definition jc_requests (s : jc_state) : list bytes :=
  [[254; 253; 9; 0; 0; 0; 1];
   [254; 253; 0; 0; 0; 0; 1] ++ (if (js_challenge s =? 0)%Z then [] else be_bytes 4 (of_signed 32 (js_challenge s))) ++ [255; 255; 255; 2]].
Definition jc_expected (s : jc_state) : jc2m_response :=
  let listed := lenN (js_players s) in
  mk_jc (js_version s) (js_description s) (js_name s) (fst (js_password s)) (js_players s) (js_max s)
        (match js_num s with Some n => if n <? listed then listed else n | None => listed end).
Definition gen_jc : G jc_state :=
  gen* ver := gval in gen* desc := gval in gen* name := gval in gen* pw := gen_password_text in
  gen* mx := gnum 32 in gen* num := gopt (gnum 16) in gen* ne := below 4 in gen* extras := gen_kvs (N.to_nat ne) 0 in
  gen* np := gen_count64 in
  gen* ps := grepeat (N.to_nat np) (gen* nm := gval in gen* sid := gident in gen* pg := gnum 16 in gret (mk_jcp nm sid pg)) in
  gen* cnt := (gen* honest := chance 3 4 in if honest then gret np else gnum 16) in
  gen* ch := gnum 32 in gen* skip := grepeat 11 (gnum 8) in
  gret (mk_jcs ver desc name pw mx num extras ps cnt (to_signed 32 ch) skip).

(* ---- Mindustry ---- *)
Definition lp (s : bytes) : bytes := [lenN s mod 256] ++ s.
Definition mindustry_reply (r : mindustry_data) (gm : N) : bytes :=
  lp (mi_host r) ++ lp (mi_map r) ++ be32z (mi_players r) ++ be32z (mi_wave r) ++ be32z (mi_version r)
  ++ lp (mi_version_type r) ++ [gm] ++ be32z (mi_player_limit r) ++ lp (mi_description r)
  ++ match mi_mode_name r with Some m => lp m | None => [] end.
(* one of the strings may be long: the length prefix is a full byte *)
Definition glong : G bytes :=
  gen* k := below 6 in
  if k =? 0 then gen* n := pick 128 [127; 128; 129; 200; 255] in gen* c := pick 97 [97; 66; 48] in gret (repeat c (N.to_nat n))
  else gval.
Definition gen_mindustry : G (mindustry_data * N) :=
  gen* host := glong in gen* mapn := gval in gen* pl := gnum 32 in gen* wv := gnum 32 in gen* vs := gnum 32 in
  gen* vt := gval in gen* gm := pick (0, MSurvival) [(0, MSurvival); (1, MSandbox); (2, MAttack); (3, MPVP); (4, MEditor)] in
  gen* lim := gnum 32 in gen* desc := glong in gen* mn := gopt gval in
  gret (mk_mind host mapn (to_signed 32 pl) (to_signed 32 wv) (to_signed 32 vs) vt (snd gm) (to_signed 32 lim) desc mn, fst gm).

(* ---- The Ship and Battalion 1944: Valve servers ---- *)
Definition ship_engine : engine := Source (Some (2400, None)).
Definition bat_engine : engine := Source (Some (489940, None)).
Definition opt_bind {A B} (o : option A) (f : A -> option B) : option B := match o with Some a => f a | None => None end.
(* expected The Ship response: every field of the three replies under its own name *)
Definition ship_expected (st : vstate) : outcome ship_response :=
  ob* r := valve_expected_outcome st ship_engine gathering_default in
  let i := r_info r in
  match si_the_ship i, r_players r, r_rules r with
  | Some sh, Some ps, Some rules =>
      ob* players := omap_list (fun p => match sp_deaths p, sp_money p with
                                         | Some d, Some m => Ok (mk_shp (sp_name p) (sp_score p) (sp_duration p) d m)
                                         | _, _ => Err PacketBad end) ps in
      let ed := si_extra_data i in
      Ok (mk_ship_r (si_protocol_version i) (si_name i) (si_map i) (si_game_mode i) (si_game_version i) players
                    (si_players_online i) (si_players_maximum i) (si_players_bots i) (si_server_type i)
                    (si_has_password i) (si_vac_secured i) (opt_bind ed ed_port) (opt_bind ed ed_steam_id)
                    (opt_bind ed ed_tv_port) (opt_bind ed ed_tv_name) (opt_bind ed ed_keywords) rules
                    (ship_mode sh) (ship_witnesses sh) (ship_duration sh))
  | _, _, _ => Err PacketBad
  end.
(* Battalion 1944: the bat_* rules replace name, mode, counts and password flag and are not listed *)
Definition bat_keys : list bytes :=
  map str ["bat_max_players_i"; "bat_player_count_s"; "bat_has_password_s"; "bat_name_s"; "bat_gamemode_s"; "bat_map_s"]%string.
Definition bat_expected (st : vstate) : outcome game_response :=
  ob* r := valve_expected_outcome st bat_engine gathering_default in
  let i := r_info r in
  let rules := match r_rules r with Some m => m | None => [] end in
  let rule (k : string) := vm_get (str k) rules in
  ob* maxp := match rule "bat_max_players_i"%string with Some v => need (parse_unsigned 255 v) TypeParse | None => Ok (si_players_maximum i) end in
  ob* online := match rule "bat_player_count_s"%string with Some v => need (parse_unsigned 255 v) TypeParse | None => Ok (si_players_online i) end in
  let ed := si_extra_data i in
  Ok (mk_gr (si_protocol_version i)
            (match rule "bat_name_s"%string with Some v => v | None => si_name i end) (si_map i)
            (match rule "bat_gamemode_s"%string with Some v => v | None => si_game_mode i end) (si_appid i) online
            (map (fun p => mk_gp (sp_name p) (sp_score p) (sp_duration p)) (match r_players r with Some l => l | None => [] end))
            maxp (si_players_bots i) (si_server_type i)
            (match rule "bat_has_password_s"%string with Some v => bytes_eqb v (str "Y") | None => si_has_password i end)
            (si_vac_secured i) (si_game_version i) (opt_bind ed ed_port) (opt_bind ed ed_steam_id) (opt_bind ed ed_tv_port)
            (opt_bind ed ed_tv_name) (opt_bind ed ed_keywords)
            (filter (fun kv => negb (existsb (bytes_eqb (fst kv)) bat_keys)) rules)).
Definition gen_bat_rules : G (list (bytes * bytes)) :=
  gen* a := gopt (gen* n := gnum 8 in gret (str "bat_max_players_i", show_N n)) in
  gen* b := gopt (gen* n := gnum 8 in gret (str "bat_player_count_s", show_N n)) in
  gen* c := gopt (gen* v := pick (str "Y") [str "Y"; str "N"; str "y"; str ""] in gret (str "bat_has_password_s", v)) in
  gen* d := gopt (gen* v := gval in gret (str "bat_name_s", v)) in
  gen* e := gopt (gen* v := gval in gret (str "bat_gamemode_s", v)) in
  gen* f := gopt (gen* v := gval in gret (str "bat_map_s", v)) in
  gret (flat_map (fun o => match o with Some x => [x] | None => [] end) [a; b; c; d; e; f]).
