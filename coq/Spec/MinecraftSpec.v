(* C03, the specification side: Minecraft server statuses in the Java Server
   List Ping JSON, the Bedrock unconnected pong and the legacy kick packets,
   what the client must return for each, and which variants a server speaks. *)
From GD Require Import Base.Prelude Model.Strings Model.StrOps Model.Buffer Model.Net Model.Valve Model.Gamespy Model.View Model.Minecraft.
From GD Require Import Spec.Rand Spec.QuakeSpec Spec.GamespySpec.

(* strings are lists of scalar values; UTF-8 for responses, UTF-16BE on the legacy wire *)
Definition u8s (l : list N) : bytes := utf8_encode l.
Definition utf16be (l : list N) : bytes := flat_map (fun c => flat_map (fun u => [u / 256; u mod 256]) (utf16_units1 c)) l.
Definition scalars_of (s : string) : list N := str s.

(* ---- Java ---- *)
Inductive jdesc := DText (s : list N) | DComponent (s : list N) | DAbsent.
Record java_status := mk_js {
  st_version : list N; st_protocol : Z; st_max : N; st_online : N;
  st_sample : option (list (list N * list N)); st_sample_null : bool;
  st_desc : jdesc; st_favicon : option (list N); st_previews : option bool; st_secure : option bool;
  st_order : N; st_pong : bool }.
Definition jmember (k : string) (v : bytes) : bytes := json_string (str k) ++ str ":" ++ v.
Definition jobj (ms : list bytes) : bytes := str "{" ++ intercalate (str ",") ms ++ str "}".
Definition java_json (s : java_status) : bytes :=
  let version := jmember "version" (jobj [jmember "name" (json_string (u8s (st_version s))); jmember "protocol" (show_Z (st_protocol s))]) in
  let sample := match st_sample s with
                | Some l => [jmember "sample" (str "[" ++ intercalate (str ",")
                               (map (fun p => jobj [jmember "name" (json_string (u8s (fst p))); jmember "id" (json_string (u8s (snd p)))]) l) ++ str "]")]
                | None => if st_sample_null s then [jmember "sample" (str "null")] else []
                end in
  let players := jmember "players" (jobj ([jmember "max" (show_N (st_max s)); jmember "online" (show_N (st_online s))] ++ sample)) in
  let desc := match st_desc s with
              | DText t => [jmember "description" (json_string (u8s t))]
              | DComponent t => [jmember "description" (jobj [jmember "text" (json_string (u8s t))])]
              | DAbsent => []
              end in
  let opt := match st_favicon s with Some f => [jmember "favicon" (json_string (u8s f))] | None => [] end
             ++ match st_previews s with Some b => [jmember "previewsChat" (show_bool b)] | None => [] end
             ++ match st_secure s with Some b => [jmember "enforcesSecureChat" (show_bool b)] | None => [] end in
  let ms := if st_order s =? 0 then [version; players] ++ desc ++ opt
            else if st_order s =? 1 then desc ++ opt ++ [players; version]
            else opt ++ [players] ++ desc ++ [version; jmember "modinfo" (jobj [jmember "type" (json_string (str "FML"))])] in
  jobj ms.
Definition java_stream (s : java_status) : bytes :=
  let js := java_json s in
  let body := as_varint 0 ++ as_varint (Z.of_N (lenN js)) ++ js in
  as_varint (Z.of_N (lenN body)) ++ body ++ (if st_pong s then [9; 1; 0; 0; 0; 0; 0; 0; 0; 0] else []).
Definition java_expected (s : java_status) : java_response :=
  mk_java (u8s (st_version s)) (st_protocol s) (st_max s) (st_online s)
    (match st_sample s with Some l => Some (map (fun p => mk_mcp (u8s (fst p)) (u8s (snd p))) l) | None => None end)
    (match st_desc s with
     | DText t => json_string (u8s t)
     | DComponent t => str "{" ++ json_string (str "text") ++ str ":" ++ json_string (u8s t) ++ str "}"
     | DAbsent => str "null" end)
    (match st_favicon s with Some f => Some (u8s f) | None => None end) (st_previews s) (st_secure s) McJava.
Definition java_requests (port : N) : list bytes :=
  let hs := [0] ++ as_varint (-1) ++ [7] ++ str "gamedig" ++ le_bytes 2 port ++ [1] in
  [as_varint (Z.of_N (lenN hs)) ++ hs; [1; 0]; [1; 1]].

(* ---- Bedrock ---- *)
Record bedrock_status := mk_bs {
  bs_edition : list N; bs_name : list N; bs_protocol : list N; bs_version : list N; bs_online : N; bs_max : N;
  bs_more : list (list N);               (* id, map, game mode, then anything: 0..6 further fields *)
  bs_mode : option mc_gamemode; bs_guid : bytes; bs_trailing : bool }.
Definition mode_text (m : mc_gamemode) : list N :=
  match m with GSurvival => str "Survival" | GCreative => str "Creative" | GHardcore => str "Hardcore"
             | GSpectator => str "Spectator" | GAdventure => str "Adventure" end.
Definition bedrock_fields (s : bedrock_status) : list (list N) :=
  [bs_edition s; bs_name s; bs_protocol s; bs_version s; show_N (bs_online s); show_N (bs_max s)]
  ++ match bs_more s with
     | a :: b :: r => a :: b :: match bs_mode s with Some m => mode_text m :: r | None => [] end
     | l => l
     end.
(* a trailing separator adds an empty last field; not after exactly eight fields, where it would be an (invalid) game mode *)
Definition bs_trails (s : bedrock_status) : bool := bs_trailing s && negb (Nat.eqb (length (bedrock_fields s)) 8).
Definition bedrock_text (s : bedrock_status) : bytes :=
  intercalate (str ";") (map u8s (bedrock_fields s)) ++ (if bs_trails s then str ";" else []).
Definition bedrock_pong (s : bedrock_status) : bytes :=
  [28; 17; 34; 51; 68; 85; 102; 119; 136] ++ bs_guid s
  ++ [0; 255; 255; 0; 254; 254; 254; 254; 253; 253; 253; 253; 18; 52; 86; 120]
  ++ be_bytes 2 (lenN (bedrock_text s)) ++ bedrock_text s.
Definition bedrock_expected (s : bedrock_status) : bedrock_response :=
  let fs := map u8s (bedrock_fields s) ++ (if bs_trails s then [[]] else []) in
  mk_bedrock (u8s (bs_edition s)) (u8s (bs_name s)) (u8s (bs_version s)) (u8s (bs_protocol s)) (bs_max s) (bs_online s)
    (nth_error fs 6) (nth_error fs 7)
    (match nth_error (bedrock_fields s) 8 with Some _ => bs_mode s | None => None end) McBedrock.

(* ---- legacy ---- *)
Record legacy_status := mk_ls { ls_protocol : Z; ls_version : list N; ls_motd : list N; ls_online : N; ls_max : N }.
Definition kick (text : list N) : bytes := [255] ++ be_bytes 2 (lenN (utf16be text) / 2) ++ utf16be text.
Definition v16_text (s : legacy_status) : list N :=
  [167; 49; 0] ++ show_Z (ls_protocol s) ++ [0] ++ ls_version s ++ [0] ++ ls_motd s ++ [0] ++ show_N (ls_online s) ++ [0] ++ show_N (ls_max s).
Definition old_text (s : legacy_status) : list N := ls_motd s ++ [167] ++ show_N (ls_online s) ++ [167] ++ show_N (ls_max s).
Definition v16_expected (s : legacy_status) : java_response :=
  mk_java (u8s (ls_version s)) (ls_protocol s) (ls_max s) (ls_online s) None (u8s (ls_motd s)) None None None (McLegacy V1_6).
Definition old_expected (g : legacy_group) (s : legacy_status) : java_response :=
  mk_java (match g with V1_4 => str "1.4+" | _ => str "Beta 1.8+" end) (-1) (ls_max s) (ls_online s) None (u8s (ls_motd s)) None None None (McLegacy g).

(* ---- a server speaking a set of variants ---- *)
Record mc_world := mk_world {
  w_java : option java_status; w_bedrock : option bedrock_status; w_v16 : option legacy_status;
  w_v14 : option legacy_status; w_vb18 : option legacy_status;
  w_refuse : N }.                          (* how a variant that is not spoken fails: 0 refused, 1 garbage, 2 empty stream *)
Definition dead_conn (w : mc_world) : tcp_conn :=
  if w_refuse w =? 0 then Refused else if w_refuse w =? 1 then Stream [1; 2; 3] false else Stream [] false.
(* the connections in the order the auto query opens them, up to the first variant spoken *)
Definition world_tcp (w : mc_world) : list tcp_conn :=
  [match w_java w with Some s => Stream (java_stream s) false | None => dead_conn w end;
   match w_v16 w with Some s => Stream (kick (v16_text s)) false | None => dead_conn w end;
   match w_v14 w with Some s => Stream (kick (old_text s)) false | None => dead_conn w end;
   match w_vb18 w with Some s => Stream (kick (old_text s)) false | None => dead_conn w end].
Definition world_udp (w : mc_world) : list udp_event :=
  [match w_bedrock w with Some s => Datagram (bedrock_pong s) | None => Timeout end].
Definition auto_expected (w : mc_world) : outcome java_response :=
  match w_java w, w_bedrock w, w_v16 w, w_v14 w, w_vb18 w with
  | Some s, _, _, _, _ => Ok (java_expected s)
  | None, Some b, _, _, _ => Ok (java_of_bedrock (bedrock_expected b))
  | None, None, Some s, _, _ => Ok (v16_expected s)
  | None, None, None, Some s, _ => Ok (old_expected V1_4 s)
  | None, None, None, None, Some s => Ok (old_expected VB1_8 s)
  | None, None, None, None, None => Err AutoQuery
  end.
(* the connections the auto query opens: T = TCP, U = UDP *)
Definition auto_connections (w : mc_world) : bytes :=
  match w_java w, w_bedrock w, w_v16 w, w_v14 w with
  | Some _, _, _, _ => str "T"
  | None, Some _, _, _ => str "TU"
  | None, None, Some _, _ => str "TUT"
  | None, None, None, Some _ => str "TUTT"
  | None, None, None, None => str "TUTTT"
  end.

(* ---- generators ---- *)
Definition json_alphabet : list N := [65; 66; 97; 122; 32; 48; 57; 95; 45; 233; 8364; 128512; 1; 31; 127; 34; 92; 47; 10; 9; 60; 38; 167].
Definition plain_alphabet : list N := [65; 66; 97; 122; 32; 48; 57; 95; 45; 233; 8364; 128512; 1; 127; 34; 92; 60; 38].
Definition gscalars (alpha : list N) : G (list N) :=
  gen* k := below 8 in
  let n := if k =? 0 then 0 else if k =? 1 then 1 else if k =? 2 then 20 else 5 in
  grepeat (N.to_nat n) (pick 65 alpha).
Definition gen_java : G java_status :=
  gen* ver := gscalars json_alphabet in gen* proto := gnum 32 in gen* mx := gnum 32 in gen* on := gnum 32 in
  gen* ns := below 4 in
  gen* sample := gopt (grepeat (N.to_nat ns) (gen* a := gscalars json_alphabet in gen* b := gscalars plain_alphabet in gret (a, b))) in
  gen* snull := chance 1 2 in
  gen* dk := below 5 in gen* dt := gscalars json_alphabet in
  gen* fav := gopt (gscalars plain_alphabet) in gen* pv := gopt (chance 1 2) in gen* sc := gopt (chance 1 2) in
  gen* ord := below 3 in gen* pong := chance 1 2 in
  gret (mk_js ver (to_signed 32 proto) mx on sample snull
              (if dk =? 0 then DAbsent else if dk <? 3 then DText dt else DComponent dt) fav pv sc ord pong).
Definition gen_bedrock : G bedrock_status :=
  gen* ed := pick (str "MCPE") [str "MCPE"; str "MCEE"; []] in gen* name := gscalars plain_alphabet in
  gen* proto := gscalars [48; 49; 53; 55] in gen* ver := gscalars [48; 49; 46; 57; 98] in
  gen* on := gnum 32 in gen* mx := gnum 32 in
  gen* nm := below 7 in gen* more := grepeat (N.to_nat nm) (gscalars plain_alphabet) in
  gen* mode := gopt (pick GSurvival [GSurvival; GCreative; GHardcore; GSpectator; GAdventure]) in
  gen* guid := grepeat 8 (gnum 8) in gen* tr := chance 1 3 in
  gret (mk_bs ed name proto ver on mx more mode guid tr).
Definition nonzero_scalars (l : list N) : list N := filter (fun c => negb (c =? 0)) l.
Definition gen_legacy (old : bool) : G legacy_status :=
  gen* proto := gnum 32 in gen* ver := gscalars plain_alphabet in gen* motd := gscalars plain_alphabet in
  gen* on := gnum 32 in gen* mx := gnum 32 in
  gret (mk_ls (to_signed 32 proto) ver (if old then filter (fun c => negb (c =? 167)) motd else motd) on mx).
Definition gen_world : G mc_world :=
  gen* mask := below 32 in
  gen* j := gen_java in gen* b := gen_bedrock in gen* a := gen_legacy false in gen* c := gen_legacy true in gen* d := gen_legacy true in
  gen* rf := below 3 in
  let on (bit : N) {A} (x : A) : option A := if N.testbit mask bit then Some x else None in
  gret (mk_world (on 0 j) (on 1 b) (on 2 a) (on 3 c) (on 4 d) rf).

(* the value a JSON parser yields for java_json (serde_json::from_str is the
   trusted step between the two) *)
Definition jstr' (l : list N) : jv := JStr (u8s l).
Definition status_value (s : java_status) : jv :=
  let version := ("version"%string, JObj [("name"%string, jstr' (st_version s)); ("protocol"%string, JNum (st_protocol s))]) in
  let sample := match st_sample s with
                | Some l => [("sample"%string, JList (map (fun p => JObj [("name"%string, jstr' (fst p)); ("id"%string, jstr' (snd p))]) l))]
                | None => if st_sample_null s then [("sample"%string, JNull)] else []
                end in
  let players := ("players"%string, JObj ([("max"%string, JNum (Z.of_N (st_max s))); ("online"%string, JNum (Z.of_N (st_online s)))] ++ sample)) in
  let desc := match st_desc s with
              | DText t => [("description"%string, jstr' t)]
              | DComponent t => [("description"%string, JObj [("text"%string, jstr' t)])]
              | DAbsent => []
              end in
  let opt := match st_favicon s with Some f => [("favicon"%string, jstr' f)] | None => [] end
             ++ match st_previews s with Some b => [("previewsChat"%string, JBool b)] | None => [] end
             ++ match st_secure s with Some b => [("enforcesSecureChat"%string, JBool b)] | None => [] end in
  JObj (if st_order s =? 0 then [version; players] ++ desc ++ opt
        else if st_order s =? 1 then desc ++ opt ++ [players; version]
        else opt ++ [players] ++ desc ++ [version; ("modinfo"%string, JObj [("type"%string, JStr (str "FML"))])]).
Definition wf_java_status (s : java_status) : bool :=
  ((- 2147483648 <=? st_protocol s) && (st_protocol s <? 2147483648))%Z && (st_max s <? 4294967296) && (st_online s <? 4294967296).
