(* Specification side of C06: Unreal 2 query replies (reconstructed from
   node-gamedig's unreal2 protocol and UT2003/2004 server behaviour). *)
From GD Require Import Base.Prelude Model.Strings Model.StrOps Model.Net Model.Valve Model.Unreal2Str Model.Unreal2 Spec.Rand.

(* a string as the server holds it: text interleaved with colour codes *)
Inductive seg := Txt (chars : list N) | Colour (r g b : N).
Definition ustring := list seg.
Inductive uenc := Latin1 | Ucs2.
Record wire_string := mk_ws { ws_enc : uenc; ws_segs : ustring; ws_nul : bool }.  (* terminator included in the length? *)

Definition seg_raw (s : seg) : list N := match s with Txt c => c | Colour r g b => [27; r; g; b] end.
Definition raw_of (s : ustring) : list N := flat_map seg_raw s.
(* what the client must return: the text without the colour codes *)
Definition text_of (s : ustring) : list N := flat_map (fun x => match x with Txt c => c | Colour _ _ _ => [] end) s.

Definition utf16le (units : list N) : bytes := flat_map (fun u => [u mod 256; u / 256]) units.
Definition enc_ustring (w : wire_string) : bytes :=
  let raw := raw_of (ws_segs w) ++ (if ws_nul w then [0] else []) in
  match ws_enc w with
  | Latin1 => [lenN raw] ++ raw
  | Ucs2 => let units := flat_map utf16_units1 raw in [128 + lenN units] ++ utf16le units
  end.
Definition expected_ustring (w : wire_string) : bytes :=
  match ws_enc w with
  | Latin1 => utf8_encode (map w1252 (text_of (ws_segs w)))
  | Ucs2 => utf8_encode (text_of (ws_segs w))
  end.

Record u2_state := mk_u2st {
  us_server_id : N; us_ip : wire_string; us_game_port : N; us_query_port : N; us_name : wire_string;
  us_map : wire_string; us_game_type : wire_string; us_max_players : N;
  us_pairs : list (list (wire_string * wire_string));     (* mutators/rules, per datagram *)
  us_players : list (list (N * wire_string * N * Z * N)) }.  (* per datagram: id name ping score stats *)

Definition le32 (v : N) := le_bytes 4 v.
Definition u2_header (kind : N) : bytes := [128; 0; 0; 0; kind].
Definition all_players (st : u2_state) := concat (us_players st).
Definition enc_u2_info (st : u2_state) : bytes :=
  u2_header 0 ++ le32 (us_server_id st) ++ enc_ustring (us_ip st) ++ le32 (us_game_port st) ++ le32 (us_query_port st)
  ++ enc_ustring (us_name st) ++ enc_ustring (us_map st) ++ enc_ustring (us_game_type st)
  ++ le32 (lenN (all_players st)) ++ le32 (us_max_players st).
Definition enc_u2_pairs (l : list (wire_string * wire_string)) : bytes :=
  u2_header 1 ++ flat_map (fun kv => enc_ustring (fst kv) ++ enc_ustring (snd kv)) l.
Definition enc_u2_player (p : N * wire_string * N * Z * N) : bytes :=
  let '(id, name, ping, score, sid) := p in
  le32 id ++ enc_ustring name ++ le32 ping ++ le32 (of_signed 32 score) ++ le32 sid.
Definition enc_u2_players (l : list (N * wire_string * N * Z * N)) : bytes := u2_header 2 ++ flat_map enc_u2_player l.

(* the reply script: the server answers each request and is then silent until
   the next request (a Timeout event ends the greedy mutators/rules collection) *)
Definition u2_script (st : u2_state) (g : u2_gather) : list udp_event :=
  [Datagram (enc_u2_info st)]
  ++ (match ug_mr g with Skip => [] | _ => map (fun l => Datagram (enc_u2_pairs l)) (us_pairs st) ++ [Timeout] end)
  ++ (match ug_players g with
      | Skip => []
      | _ => match us_players st with
             | [] => [Datagram (enc_u2_players [])]        (* no players: one empty list *)
             | l => map (fun l => Datagram (enc_u2_players l)) l
             end
      end).

Definition expected_pairs (l : list (wire_string * wire_string)) (acc : u2_mr) : u2_mr :=
  fold_left (fun acc kv =>
    let k := expected_ustring (fst kv) in let v := expected_ustring (snd kv) in
    if eq_ignore_ascii_case k (str "mutator") then mk_u2mr (set_insert v (mr_mutators acc)) (mr_rules acc)
    else mk_u2mr (mr_mutators acc) (rules_add k (Some v) (mr_rules acc))) l acc.
Definition expected_player (p : N * wire_string * N * Z * N) : u2_player :=
  let '(id, name, ping, score, sid) := p in mk_u2p id (expected_ustring name) ping score sid.
Definition u2_expected (st : u2_state) (g : u2_gather) : u2_response :=
  let mr := match ug_mr g with Skip => mk_u2mr [] [] | _ => expected_pairs (concat (us_pairs st)) (mk_u2mr [] []) end in
  let pw := match map_lookup (str "GamePassword") (map (fun kv => (fst kv, concat (snd kv))) (mr_rules mr)) with
            | Some v => bytes_eqb (map ascii_lower v) (str "true") | None => false end in
  let ps := match ug_players g with Skip => [] | _ => map expected_player (all_players st) end in
  mk_u2resp (mk_u2info (us_server_id st) (expected_ustring (us_ip st)) (us_game_port st) (us_query_port st)
                       (expected_ustring (us_name st)) (expected_ustring (us_map st)) (expected_ustring (us_game_type st))
                       (lenN (all_players st)) (us_max_players st) pw)
            mr
            (mk_u2ps (filter (fun p => negb (up_ping p =? 0)) ps) (filter (fun p => up_ping p =? 0) ps)).

(* ---- generator ---- *)
Definition latin1_chars : list N := [65; 66; 97; 122; 32; 48; 57; 95; 33; 126; 127; 128; 131; 150; 159; 160; 233; 255; 254; 92].
Definition ucs2_chars : list N := [65; 97; 32; 48; 233; 8364; 1234; 255; 254; 65279; 65533; 128512; 27904; 19968].
Definition gen_seg (e : uenc) : G seg :=
  gen* c := chance 1 5 in
  if c then gen* r := below 256 in gen* g := below 256 in gen* b := below 256 in
            let fix27 x := if x =? 27 then 26 else x in gret (Colour (fix27 r) (fix27 g) (fix27 b))
  else gen* n := below 9 in gen* l := grepeat (N.to_nat n) (pick 65 (match e with Latin1 => latin1_chars | Ucs2 => ucs2_chars end)) in
       gret (Txt l).
Definition gen_wire_string_max (maxraw : N) : G wire_string :=
  gen* u := chance 1 3 in let e := if u then Ucs2 else Latin1 in
  gen* k := below 10 in
  gen* n := (if k =? 0 then gret 0 else if k =? 1 then gret 12 else below 4) in
  gen* segs := grepeat (N.to_nat n) (gen_seg e) in
  gen* nul := chance 3 4 in
  (* keep the length byte in range (126 raw bytes / 63 units at most) *)
  let raw := raw_of segs in
  let len := match e with Latin1 => lenN raw | Ucs2 => lenN (flat_map utf16_units1 raw) end in
  (* quirk kept by the client (taken over from node-gamedig): after a UCS-2 length byte a
     byte 01 is skipped as a stray marker, so a UCS-2 string whose first byte is 01 - or an
     empty one followed by 01 - cannot be represented; such strings are outside the domain *)
  let e' := match e with Ucs2 => if (len =? 0) && negb nul then Latin1 else Ucs2 | Latin1 => Latin1 end in
  if maxraw <? len then gret (mk_ws e [Txt [65; 66]] nul) else gret (mk_ws e' segs nul).
Definition gen_wire_string : G wire_string := gen_wire_string_max 60.
(* long strings: every length byte value is reached by the thorough stream *)
Definition gen_long_string (len : N) (u : bool) : wire_string :=
  mk_ws (if u then Ucs2 else Latin1) [Txt (repeat 65 (N.to_nat len))] false.

Definition gen_key : G wire_string :=
  gen* k := below 8 in
  if k =? 0 then gret (mk_ws Latin1 [Txt (str "Mutator")] true)
  else if k =? 1 then gret (mk_ws Latin1 [Txt (str "mutator")] true)
  else if k =? 2 then gret (mk_ws Latin1 [Txt (str "GamePassword")] true)
  else if k =? 3 then gret (mk_ws Ucs2 [Txt (str "RepeatedKey")] true)
  else gen* i := below 5 in gret (mk_ws Latin1 [Txt (str "Rule" ++ show_N i)] true).
Definition gen_value : G wire_string :=
  gen* k := below 6 in
  if k =? 0 then gret (mk_ws Latin1 [Txt (str "true")] true)
  else if k =? 1 then gret (mk_ws Latin1 [Txt (str "True")] true)
  else gen_wire_string.
Definition gen_pairs : G (list (wire_string * wire_string)) :=
  gen* n := below 5 in grepeat (N.to_nat n) (gen* k := gen_key in gen* v := gen_value in gret (k, v)).
(* [short]: a two-letter name, so that 25 players fit one 1024-byte datagram *)
Definition gen_u2_player (short : bool) : G (N * wire_string * N * Z * N) :=
  gen* id := gnum 32 in gen* nm := (if short then gret (mk_ws Latin1 [Txt [112; 49]] true) else gen_wire_string) in gen* bot := chance 1 4 in gen* ping := gnum 32 in
  gen* sc := gnum 32 in gen* sid := gnum 32 in
  gret (id, nm, (if bot then 0 else if ping =? 0 then 1 else ping), to_signed 32 sc, sid).
Definition gen_u2_state : G u2_state :=
  gen* sid := gnum 32 in gen* ip := gen_wire_string in gen* gp := gnum 32 in gen* qp := gnum 32 in
  gen* nm := gen_wire_string in gen* mp := gen_wire_string in gen* gt := gen_wire_string in gen* maxp := gnum 32 in
  gen* npk := pick 1 [1; 1; 2; 3; 6] in gen* pairs := grepeat (N.to_nat npk) gen_pairs in
  gen* nplk := pick 1 [0; 1; 1; 2; 3; 3; 4] in      (* up to 100 players over four datagrams *)
  gen* big := chance 1 4 in
  gen* pls := grepeat (N.to_nat nplk) (gen* n := (if big then pick 20 [20; 25] else pick 1 [1; 2; 5]) in grepeat (N.to_nat n) (gen_u2_player big)) in
  gret (mk_u2st sid ip gp qp nm mp gt maxp pairs pls).
