(* Generator of Valve server states / transports from a seed (valid-by-spec
   stream of the correspondence check). Not used by any theorem. *)
From GD Require Import Base.Prelude Model.Strings Model.Net Model.Valve Spec.Rand Spec.ValveSpec.

Definition gen_engine : G engine :=
  gen* k := below 16 in
  if k <? 3 then gret (Source None)
  else if k <? 5 then gen* a := pick 440 [440; 730; 33930; 4000; 65535; 65536] in gret (Source (Some (a, None)))
  else if k <? 7 then gen* a := pick 440 [440; 251570; 740] in gen* d := pick 1 [556450; 17; 65540] in gret (Source (Some (a, Some d)))
  else if k <? 9 then gret (Source (Some (2400, None)))      (* The Ship *)
  else if k <? 11 then gret (Source (Some (240, None)))      (* CS:S, protocol 7 split layout *)
  else if k <? 13 then gret (Source (Some (632360, None)))   (* Risk of Rain 2, rule "Test" dropped *)
  else if k =? 13 then gret (GoldSrc false)
  else gret (GoldSrc true).
Definition gen_toggle : G toggle := pick Try [Skip; Try; Enforce].
Definition gen_gather : G (option gathering) :=
  gen* k := below 4 in
  if k =? 0 then gret None
  else gen* p := gen_toggle in gen* r := gen_toggle in gen* c := chance 3 4 in gret (Some (mk_gather p r c)).

Definition gen_edf (target : option N) : G edf :=
  gen* port := gopt (gnum 16) in
  gen* sid := gopt (gnum 64) in
  gen* tv := gopt (gen* p := gnum 16 in gen* n := gtext in gret (p, n)) in
  gen* kw := gopt gtext in
  gen* gid := (match target with
               | Some t => gen* hi := gnum 40 in gret (Some (t + 16777216 * hi))
               | None => gopt (gnum 64)
               end) in
  gret (mk_edf port sid tv kw gid).

(* app ids the engine accepts *)
Definition engine_ids (e : engine) : list N :=
  match e with Source (Some (a, Some d)) => [a; d] | Source (Some (a, None)) => [a] | _ => [] end.

Definition gen_src_info (e : engine) : G src_info :=
  gen* proto := pick 17 [17; 7; 0; 255; 48] in
  gen* name := gtext in gen* map := gtext in gen* folder := gtext in gen* game := gtext in
  gen* players := gnum 8 in gen* maxp := gnum 8 in gen* bots := gnum 8 in
  gen* st := pick 100 [100; 108; 112; 68; 76; 80] in
  gen* en := pick 108 [108; 119; 109; 111; 76; 87; 77; 79] in
  gen* vis := pick 0 [0; 1; 1; 2] in gen* vac := pick 0 [0; 1; 1; 255] in
  gen* ship := (if engine_is e 2400
                then gen* a := gnum 8 in gen* b := gnum 8 in gen* c := gnum 8 in gret (Some (mk_ship a b c))
                else gret None) in
  gen* version := gtext in
  (* mostly make the app id match what the engine expects *)
  gen* target := (match engine_ids e with
                  | [] => gret None
                  | ids => gen* m := chance 5 6 in
                           if m then gen* t := pick 0 ids in gret (Some t) else gret None
                  end) in
  gen* via_gid := chance 1 2 in
  match target with
  | Some t =>
      if via_gid || (65535 <? t) then
        gen* id := gnum 16 in gen* ed := gen_edf (Some t) in
        gret (mk_src proto name map folder game id players maxp bots st en vis vac ship version (Some ed))
      else
        gen* ed := gopt (gen* x := gen_edf None in gret (mk_edf (e_port x) (e_steamid x) (e_tv x) (e_keywords x) None)) in
        gret (mk_src proto name map folder game t players maxp bots st en vis vac ship version ed)
  | None =>
      (* a foreign app id; one time in three the id 0 with no game id in the extra data ("no id") *)
      gen* z := chance 1 3 in
      gen* id := (if z then gret 0 else gnum 16) in
      gen* ed := (if z then gopt (gen* x := gen_edf None in gret (mk_edf (e_port x) (e_steamid x) (e_tv x) (e_keywords x) None))
                  else gopt (gen_edf None)) in
      gret (mk_src proto name map folder game id players maxp bots st en vis vac ship version ed)
  end.

Definition gen_gold_info : G gold_info :=
  gen* addr := gtext in gen* name := gtext in gen* map := gtext in gen* folder := gtext in gen* game := gtext in
  gen* players := gnum 8 in gen* maxp := gnum 8 in gen* proto := gnum 8 in
  gen* st := pick 68 [68; 76; 80] in gen* en := pick 76 [76; 87] in
  gen* vis := pick 0 [0; 1] in gen* vac := pick 0 [0; 1; 7] in gen* bots := gnum 8 in
  gen* md := gopt (gen* l := gtext in gen* d := gtext in gen* v := gnum 32 in gen* s := gnum 32 in
                   gen* a := chance 1 2 in gen* b := chance 1 2 in gret (mk_mod l d v s a b)) in
  gret (mk_gold addr name map folder game players maxp proto st en vis md vac bots).

Definition gen_player (e : engine) : G player_state :=
  gen* idx := gnum 8 in gen* name := gtext in
  gen* sc := gnum 32 in gen* dur := gnum 32 in
  gen* ship := (if engine_is e 2400 then gen* d := gnum 32 in gen* m := gnum 32 in gret (Some (d, m)) else gret None) in
  gret (mk_ps idx name (to_signed 32 sc) dur ship).
Definition gen_count : G N :=
  gen* k := below 10 in
  if k <? 2 then gret 0 else if k =? 2 then gret 1 else if k =? 3 then gret 2 else if k =? 4 then gret 33 else below 8.
Definition gen_rule (i : N) : G (bytes * bytes) :=
  gen* dup := chance 1 12 in
  gen* k := gtext in gen* v := gtext in
  gret ((if dup then str "dup" else k ++ show_N i), v).
Fixpoint gen_rules (n : nat) (i : N) : G (list (bytes * bytes)) :=
  match n with O => gret [] | S n' => gen* r := gen_rule i in gen* rs := gen_rules n' (i + 1) in gret (r :: rs) end.

Definition gen_state (e : engine) : G vstate :=
  gen* info := (match e with GoldSrc true => gen* g := gen_gold_info in gret (GoldInfo g)
                           | _ => gen* s := gen_src_info e in gret (SrcInfo s) end) in
  gen* np := gen_count in gen* ps := grepeat (N.to_nat np) (gen_player e) in
  gen* nr := gen_count in gen* rs := gen_rules (N.to_nat nr) 0 in
  gen* test := chance 1 4 in
  gret (mk_vstate info ps (if test then (str "Test", str "x") :: rs else rs)).

Definition gen_cuts (len : N) : G (list nat) :=
  gen* k := pick 1 [1; 1; 2; 3; 4; 5] in     (* number of cuts = fragments - 1 *)
  grepeat (N.to_nat k) (gen* c := below (len / (k + 1) + 2) in gret (N.to_nat c)).
Definition gen_challenges : G (list bytes) :=
  gen* k := pick 0 [0; 0; 1; 1; 2; 3] in
  grepeat (N.to_nat k) (grepeat 4 (pick 255 [0; 10; 65; 92; 255; 254; 1; 128])).
(* a server numbers its answers: the three replies of one exchange get distinct ids *)
Definition gen_reply_opts (e : engine) (protocol : N) (payload_len : N) (comp : option bytes) (base k : N) : G reply_opts :=
  gen* ch := gen_challenges in
  gen* t := below 5 in
  let id := (base + k) mod 2147483648 in
  gen* tr := (match comp, e with
              | Some c, Source _ => gen* cuts := gen_cuts (lenN c) in gret (SplitBz cuts id ((protocol =? 7) && engine_is e 240) c)
              | _, _ =>
                  if t <? 2 then gret Single
                  else gen* cuts := gen_cuts (payload_len + 4) in
                       match e with
                       | GoldSrc _ => gret (SplitGold cuts id)
                       | Source _ => gret (SplitSrc cuts id ((protocol =? 7) && engine_is e 240))
                       end
              end) in
  gret (mk_ropts ch tr).

Definition info_protocol (i : info_state) : N :=
  match i with SrcInfo s => i_protocol s | GoldInfo g => gi_protocol g end.

Definition gen_valve (comp : option bytes * option bytes * option bytes)
  : G (engine * option gathering * vstate * vopts) :=
  gen* e := gen_engine in
  gen* g := gen_gather in
  gen* st := gen_state e in
  let '(c1, c2, c3) := comp in
  gen* base := gnum 31 in
  gen* o1 := gen_reply_opts e 0 (lenN (enc_info (vs_info st))) c1 base 0 in
  let proto := info_protocol (vs_info st) in
  gen* o2 := gen_reply_opts e proto (lenN (enc_players (vs_players st))) c2 base 1 in
  gen* o3 := gen_reply_opts e proto (lenN (enc_rules (vs_rules st))) c3 base 2 in
  gret (e, g, st, mk_vopts o1 o2 o3).

(* replies of a server of a given game (C14): the state is generated for the
   engine, transports without compression *)
Definition gen_valve_for (e : engine) : G (vstate * vopts) :=
  gen* st := gen_state e in
  gen* base := gnum 31 in
  gen* o1 := gen_reply_opts e 0 (lenN (enc_info (vs_info st))) None base 0 in
  let proto := info_protocol (vs_info st) in
  gen* o2 := gen_reply_opts e proto (lenN (enc_players (vs_players st))) None base 1 in
  gen* o3 := gen_reply_opts e proto (lenN (enc_rules (vs_rules st))) None base 2 in
  gret (st, mk_vopts o1 o2 o3).
