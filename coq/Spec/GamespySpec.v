(* C04, the specification side: GameSpy 1 / 2 / 3 server states, how a server
   puts them on the wire (written from the protocol descriptions, not from the
   client), the response a client must produce, and seed-driven generators. *)
From GD Require Import Base.Prelude Model.Strings Model.StrOps Model.Net Model.Valve Model.Gamespy Spec.Rand Spec.QuakeSpec.

Definition nul : bytes := [0].
Definition cstr (s : bytes) : bytes := s ++ nul.
Definition opt_list {A} (o : option A) (f : A -> list (bytes * bytes)) : list (bytes * bytes) :=
  match o with Some a => f a | None => [] end.
Definition pad_num (sp : bool) (s : bytes) : bytes := if sp then [32] ++ s ++ [32] else s.

(* ================= GameSpy 1 ================= *)
Record s1_player := mk_s1p {
  sp_nm : bytes; sp_playername_key : bool; sp_team : option N; sp_ping1 : N; sp_face : option bytes;
  sp_skin : option bytes; sp_mesh : option bytes; sp_frags : Z; sp_deaths1 : option N; sp_health : option N;
  sp_secret : option (bool * bytes);       (* value, text sent *)
  sp_spaces : bool }.
Record s1_state := mk_s1 {
  s1_name : bytes; s1_map : bytes; s1_mode : bytes; s1_ver : bytes; s1_max : N; s1_min : option N;
  s1_password : bool * bytes; s1_title : option bytes; s1_mail : option bytes;
  s1_admin : option (bool * bytes);         (* true: sent as AdminName, false: as admin *)
  s1_admin_too : option bytes;              (* an `admin` variable sent next to AdminName: not the administrator's name, so it stays an unused entry *)
  s1_tournament : option (bool * bytes); s1_extras : list (bytes * bytes); s1_players : list s1_player;
  s1_qid : N; s1_limit : N; s1_final_first : bool }.

Definition s1_player_vars (i : N) (p : s1_player) : list (bytes * bytes) :=
  let k (name : string) := str name ++ str "_" ++ show_N i in
  [(k (if sp_playername_key p then "playername" else "player")%string, sp_nm p)]
  ++ opt_list (sp_team p) (fun t => [(k "team"%string, pad_num (sp_spaces p) (show_N t))])
  ++ [(k "frags"%string, pad_num (sp_spaces p) (show_Z (sp_frags p))); (k "ping"%string, pad_num (sp_spaces p) (show_N (sp_ping1 p)))]
  ++ opt_list (sp_face p) (fun v => [(k "face"%string, v)])
  ++ opt_list (sp_skin p) (fun v => [(k "skin"%string, v)])
  ++ opt_list (sp_mesh p) (fun v => [(k "mesh"%string, v)])
  ++ opt_list (sp_deaths1 p) (fun v => [(k "deaths"%string, show_N v)])
  ++ opt_list (sp_health p) (fun v => [(k "health"%string, show_N v)])
  ++ opt_list (sp_secret p) (fun v => [(k "ngsecret"%string, snd v)]).
Fixpoint indexed {A} (i : N) (l : list A) : list (N * A) :=
  match l with [] => [] | x :: r => (i, x) :: indexed (i + 1) r end.
Definition s1_admin_extra (s : s1_state) : list (bytes * bytes) :=
  match s1_admin s, s1_admin_too s with
  | Some (true, _), Some v => [(str "admin", v)]
  | _, _ => []
  end.
Definition s1_vars (s : s1_state) : list (bytes * bytes) :=
  [(str "hostname", s1_name s); (str "mapname", s1_map s); (str "gametype", s1_mode s); (str "gamever", s1_ver s);
   (str "maxplayers", show_N (s1_max s)); (str "password", snd (s1_password s))]
  ++ opt_list (s1_min s) (fun v => [(str "minplayers", show_N v)])
  ++ opt_list (s1_title s) (fun v => [(str "maptitle", v)])
  ++ opt_list (s1_mail s) (fun v => [(str "AdminEMail", v)])
  ++ opt_list (s1_admin s) (fun v => [((if fst v then str "AdminName" else str "admin"), snd v)])
  ++ s1_admin_extra s
  ++ opt_list (s1_tournament s) (fun v => [(str "tournament", snd v)])
  ++ s1_extras s
  ++ flat_map (fun ip => s1_player_vars (fst ip) (snd ip)) (indexed 0 (s1_players s)).
(* parts: greedy chunks of whole pairs under a size limit *)
Fixpoint chunk_pairs (limit : N) (cur : bytes) (pairs : list (bytes * bytes)) : list bytes :=
  match pairs with
  | [] => [cur]
  | kv :: r => let e := kvb kv in
               if (limit <? lenN cur + lenN e) && negb (match cur with [] => true | _ => false end)
               then cur :: chunk_pairs limit e r else chunk_pairs limit (cur ++ e) r
  end.
Fixpoint s1_label (qid : N) (final_first : bool) (i : N) (parts : list bytes) : list bytes :=
  match parts with
  | [] => []
  | [p] => [if final_first then p ++ str "\final\" ++ str "\queryid\" ++ show_N qid ++ str "." ++ show_N i
            else p ++ str "\queryid\" ++ show_N qid ++ str "." ++ show_N i ++ str "\final\"]
  | p :: r => (p ++ str "\queryid\" ++ show_N qid ++ str "." ++ show_N i) :: s1_label qid final_first (i + 1) r
  end.
Definition s1_script (s : s1_state) : list bytes :=
  s1_label (s1_qid s) (s1_final_first s) 1 (chunk_pairs (s1_limit s) [] (s1_vars s)).
Definition s1_expected (s : s1_state) : gs1_response :=
  mk_gs1r (s1_name s) (s1_map s) (s1_title s) (s1_mail s)
    (match s1_admin s with Some v => Some (snd v) | None => None end)
    (fst (s1_password s)) (s1_mode s) (s1_ver s) (s1_max s) (lenN (s1_players s)) (s1_min s)
    (map (fun p => mk_gs1p (sp_nm p) (sp_team p) (sp_ping1 p) (sp_face p) (sp_skin p) (sp_mesh p) (sp_frags p)
                           (sp_deaths1 p) (sp_health p) (match sp_secret p with Some v => Some (fst v) | None => None end))
         (s1_players s))
    (match s1_tournament s with Some v => fst v | None => true end)
    (s1_admin_extra s ++ s1_extras s).

(* ================= GameSpy 2 ================= *)
Record s2_state := mk_s2 {
  s2_name : bytes; s2_map : bytes; s2_password : bytes; s2_max : N; s2_num : option N; s2_min : option N;
  s2_extras : list (bytes * bytes);
  s2_players : list gs2_player; s2_teams : list gs2_team;
  s2_extra_col : bool; s2_cols_rev : bool }.
Definition s2_vars (s : s2_state) : list (bytes * bytes) :=
  [(str "hostname", s2_name s); (str "mapname", s2_map s); (str "password", s2_password s); (str "maxplayers", show_N (s2_max s))]
  ++ opt_list (s2_num s) (fun v => [(str "numplayers", show_N v)])
  ++ opt_list (s2_min s) (fun v => [(str "minplayers", show_N v)])
  ++ s2_extras s.
(* a table: zero byte, row count, column names, empty name, then the cells row by row *)
Definition enc_table (cols : list bytes) (rows : list (list bytes)) : bytes :=
  [0; lenN rows mod 256] ++ flat_map cstr cols ++ nul ++ flat_map (fun r => flat_map cstr r) rows.
Definition s2_player_table (s : s2_state) : bytes :=
  let cols := [str "player_"; str "score_"; str "ping_"; str "team_"] ++ (if s2_extra_col s then [str "deaths_"] else []) in
  let row p := [p2_name p; show_N (p2_score p); show_N (p2_ping p); show_N (p2_team p)] ++ (if s2_extra_col s then [str "7"] else []) in
  if s2_cols_rev s then enc_table (rev cols) (map (fun p => rev (row p)) (s2_players s))
  else enc_table cols (map row (s2_players s)).
Definition s2_team_table (s : s2_state) : bytes :=
  enc_table [str "team_t"; str "score_t"] (map (fun t => [t2_name t; show_N (t2_score t)]) (s2_teams s)).
Definition s2_reply (s : s2_state) : bytes :=
  [0; 0; 0; 0; 1] ++ flat_map (fun kv => cstr (fst kv) ++ cstr (snd kv)) (s2_vars s) ++ nul
  ++ s2_player_table s ++ s2_team_table s.
Definition s2_expected (s : s2_state) : gs2_response :=
  let listed := lenN (s2_players s) in
  mk_gs2r (s2_name s) (s2_map s) (bytes_eqb (s2_password s) (str "1")) (s2_teams s) (s2_max s)
    (match s2_num s with Some n => if n <? listed then listed else n | None => listed end)
    (s2_min s) (s2_players s) (s2_extras s).

(* ================= GameSpy 3 ================= *)
Record s3_state := mk_s3 {
  s3_name : bytes; s3_map : bytes; s3_mode : bytes; s3_ver : bytes; s3_max : N; s3_min : option N; s3_num : option N;
  s3_password : bool * bytes; s3_tournament : option (bool * bytes); s3_extras : list (bytes * bytes);
  s3_players : list gs3_player; s3_teams : list gs3_team;
  s3_challenge : Z; s3_group : N;          (* players per packet *)
  s3_pid : bool;
  s3_resend : bool }.                      (* a name cut at a packet end is sent again, complete, in the next packet *)
Definition s3_vars (s : s3_state) : list (bytes * bytes) :=
  [(str "hostname", s3_name s); (str "gamever", s3_ver s); (str "mapname", s3_map s); (str "gametype", s3_mode s);
   (str "maxplayers", show_N (s3_max s)); (str "password", snd (s3_password s))]
  ++ opt_list (s3_num s) (fun v => [(str "numplayers", show_N v)])
  ++ opt_list (s3_min s) (fun v => [(str "minplayers", show_N v)])
  ++ opt_list (s3_tournament s) (fun v => [(str "tournament", snd v)])
  ++ s3_extras s.
(* one field of a section: name, index of the first item, items, end marker *)
Definition enc_field (name : string) (offset : N) (items : list bytes) : bytes :=
  cstr (str name) ++ [offset mod 256] ++ flat_map cstr items ++ nul.
Definition s3_player_fields_n (pid : bool) (offset : N) (names : list bytes) (ps : list gs3_player) : bytes :=
  enc_field "player_" offset names ++ enc_field "score_" offset (map (fun p => show_Z (p3_score p)) ps)
  ++ enc_field "ping_" offset (map (fun p => show_N (p3_ping p)) ps)
  ++ enc_field "team_" offset (map (fun p => show_N (p3_team p)) ps)
  ++ enc_field "deaths_" offset (map (fun p => show_N (p3_deaths p)) ps)
  ++ (if pid then enc_field "pid_" offset (map (fun p => show_N (p3_ping p + 100)) ps) else [])
  ++ enc_field "skill_" offset (map (fun p => show_N (p3_skill p)) ps).
Definition s3_player_fields (pid : bool) (offset : N) (ps : list gs3_player) : bytes :=
  s3_player_fields_n pid offset (map p3_name ps) ps.
(* the last name of a packet that is followed by another one is cut short ... *)
Definition cut_last (names : list bytes) : list bytes :=
  match rev names with l :: r => rev ((match l with c :: _ => firstn (utf8_first_len c) l | [] => [] end) :: r) | [] => [] end.
Definition s3_team_fields (ts : list gs3_team) : bytes :=
  enc_field "team_t" 0 (map t3_name ts) ++ enc_field "score_t" 0 (map (fun t => show_Z (t3_score t)) ts).
Fixpoint groups {A} (fuel : nat) (k : nat) (l : list A) : list (list A) :=
  match fuel, l with
  | _, [] => []
  | O, _ => [l]
  | S f, _ => firstn k l :: groups f k (skipn k l)
  end.
(* ... and the next packet starts one index earlier with that player again, complete *)
Fixpoint s3_bodies_r (pid resend : bool) (offset : N) (prev : option gs3_player) (gs : list (list gs3_player)) : list bytes :=
  match gs with
  | [] => []
  | g :: r =>
      let more := match r with [] => false | _ => true end in
      let '(off, items) := match prev with
                           | Some p => if resend then (offset - 1, p :: g) else (offset, g)
                           | None => (offset, g)
                           end in
      let names := if resend && more then cut_last (map p3_name items) else map p3_name items in
      ([1] ++ s3_player_fields_n pid off names items ++ nul)
      :: s3_bodies_r pid resend (offset + lenN g) (match rev g with l :: _ => Some l | [] => prev end) r
  end.
Definition s3_bodies (pid : bool) (offset : N) (gs : list (list gs3_player)) : list bytes := s3_bodies_r pid false offset None gs.
Definition s3_packets (s : s3_state) : list bytes :=
  let k := S (N.to_nat (s3_group s)) in
  let gs := groups (length (s3_players s)) k (s3_players s) in
  let vars := flat_map (fun kv => cstr (fst kv) ++ cstr (snd kv)) (s3_vars s) ++ nul in
  let teams := [2] ++ s3_team_fields (s3_teams s) ++ nul in
  let bodies := match s3_bodies_r (s3_pid s) (s3_resend s) 0 None gs with
                | [] => [vars ++ [1] ++ s3_player_fields (s3_pid s) 0 [] ++ nul ++ teams]
                | [b] => [vars ++ b ++ teams]
                | b :: r => (vars ++ b) :: (removelast r ++ [last r [] ++ teams])
                end in
  let n := length bodies in
  map (fun ib => [0; 0; 0; 0; 1] ++ cstr (str "splitnum")
                 ++ [(fst ib + (if Nat.eqb (S (N.to_nat (fst ib))) n then 128 else 0)); 0] ++ snd ib)
      (indexed 0 bodies).
Definition s3_handshake (s : s3_state) : bytes := [9; 0; 0; 0; 1] ++ cstr (show_Z (s3_challenge s)).
Definition s3_script (s : s3_state) : list bytes := s3_handshake s :: s3_packets s.
Definition s3_requests (s : s3_state) : list bytes :=
  [[254; 253; 9; 0; 0; 0; 1];
   [254; 253; 0; 0; 0; 0; 1] ++ (if (s3_challenge s =? 0)%Z then [] else be_bytes 4 (of_signed 32 (s3_challenge s))) ++ [255; 255; 255; 1]].
Definition s3_expected (s : s3_state) : gs3_response :=
  let listed := lenN (s3_players s) in
  mk_gs3r (s3_name s) (s3_map s) (fst (s3_password s)) (s3_mode s) (s3_ver s) (s3_max s)
    (match s3_num s with Some n => if n <? listed then listed else n | None => listed end)
    (s3_min s) (s3_players s) (s3_teams s)
    (match s3_tournament s with Some v => fst v | None => true end) (s3_extras s).

(* ================= generators ================= *)
Definition gval : G bytes := gtext_of var_alphabet.
(* a non-empty value *)
Definition gval1 : G bytes := gen* v := gval in gret (match v with [] => str "x" | _ => v end).
Fixpoint gen_kvs (n : nat) (i : N) : G (list (bytes * bytes)) :=
  match n with
  | O => gret []
  | S n' => gen* k := gident in gen* v := gval in gen* r := gen_kvs n' (i + 1) in
            gret ((str "x" ++ show_N i ++ k, v) :: r)
  end.
Definition gen_bool_text : G (bool * bytes) :=
  pick (true, str "true") [(true, str "true"); (false, str "false"); (true, str "True"); (false, str "FALSE")].
Definition gen_password_text : G (bool * bytes) :=
  pick (false, str "0") [(false, str "0"); (true, str "1"); (true, str "True"); (false, str "false"); (true, str "2"); (true, str "255")].
Definition gen_count64 : G N :=
  gen* k := below 8 in if k =? 0 then gret 0 else if k =? 1 then gret 1 else if k <? 6 then below 6 else below 30.

Definition gen_s1_player : G s1_player :=
  gen* nm := gval in gen* pk := chance 1 4 in gen* team := gopt (gnum 8) in gen* ping := gnum 16 in
  gen* face := gopt gval in gen* skin := gopt gval in gen* mesh := gopt gval in gen* fr := gnum 32 in
  gen* deaths := gopt (gnum 32) in gen* health := gopt (gnum 32) in gen* sec := gopt gen_bool_text in gen* sp := chance 1 3 in
  gret (mk_s1p nm pk team ping face skin mesh (to_signed 32 fr) deaths health sec sp).
Definition gen_s1 : G s1_state :=
  gen* name := gval in gen* mapn := gval in gen* mode := gval in gen* ver := gval in
  gen* maxp := gnum 32 in gen* minp := gopt (gnum 8) in gen* pw := gen_password_text in
  gen* title := gopt gval in gen* mail := gopt gval in
  gen* admin := gopt (gen* b := chance 1 2 in gen* v := gval in gret (b, v)) in
  gen* admin_too := gopt gval in
  gen* tour := gopt gen_bool_text in
  gen* ne := below 5 in gen* extras := gen_kvs (N.to_nat ne) 0 in
  gen* np := gen_count64 in gen* ps := grepeat (N.to_nat np) gen_s1_player in
  gen* qid := gnum 16 in gen* limit := pick 900 [120; 300; 900; 900] in gen* ff := chance 1 2 in
  gret (mk_s1 name mapn mode ver maxp minp pw title mail admin admin_too tour extras ps qid limit ff).

Definition gen_s2 : G s2_state :=
  gen* name := gval in gen* mapn := gval in gen* pw := pick (str "0") [str "0"; str "1"; str "true"; str ""] in
  gen* maxp := gnum 32 in gen* num := gopt (gnum 16) in gen* minp := gopt (gnum 32) in
  gen* ne := below 5 in gen* extras := gen_kvs (N.to_nat ne) 0 in
  gen* np := gen_count64 in
  gen* ps := grepeat (N.to_nat np) (gen* nm := (if 12 <? np then gident else gval) in gen* sc := gnum 16 in gen* pg := gnum 16 in gen* tm := gnum 16 in
                                    gret (mk_gs2p nm sc pg tm)) in
  gen* nt := below 4 in
  gen* ts := grepeat (N.to_nat nt) (gen* nm := gval in gen* sc := gnum 16 in gret (mk_gs2t nm sc)) in
  gen* xc := chance 1 4 in gen* rv := chance 1 4 in
  gret (mk_s2 name mapn pw maxp num minp extras ps ts xc rv).

Definition gen_s3 : G s3_state :=
  gen* name := gval in gen* mapn := gval in gen* mode := gval in gen* ver := gval in
  gen* maxp := gnum 32 in gen* minp := gopt (gnum 8) in gen* num := gopt (gnum 16) in
  gen* pw := gen_password_text in gen* tour := gopt gen_bool_text in
  gen* ne := below 5 in gen* extras := gen_kvs (N.to_nat ne) 0 in
  gen* np := gen_count64 in
  gen* ps := grepeat (N.to_nat np) (gen* nm := gval1 in gen* sc := gnum 32 in gen* pg := gnum 16 in gen* tm := gnum 8 in
                                    gen* de := gnum 32 in gen* sk := gnum 32 in
                                    gret (mk_gs3p nm (to_signed 32 sc) pg tm de sk)) in
  gen* nt := below 4 in
  gen* ts := grepeat (N.to_nat nt) (gen* nm := gval1 in gen* sc := gnum 32 in gret (mk_gs3t nm (to_signed 32 sc))) in
  gen* ch := gnum 32 in gen* grp := pick 9 [0; 2; 5; 9; 9] in gen* pid := chance 1 3 in gen* rs := chance 1 3 in
  gret (mk_s3 name mapn mode ver maxp minp num pw tour extras ps ts (to_signed 32 ch) grp pid rs).
