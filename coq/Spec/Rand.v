(* A tiny deterministic generator monad for the valid-by-spec stream: server
   states are drawn inside Coq from a seed, so no state serialisation format
   (and no second encoder outside Coq) exists. Not used by any theorem. *)
From GD Require Import Base.Prelude Model.Strings.

Definition G (A : Type) := N -> A * N.
Definition gret {A} (a : A) : G A := fun s => (a, s).
Definition gbind {A B} (m : G A) (f : A -> G B) : G B := fun s => let '(a, s') := m s in f a s'.
Notation "'gen*' x ':=' m 'in' f" := (gbind m (fun x => f))
  (at level 200, x name, m at level 100, f at level 200, right associativity).

Definition next : G N := fun s =>
  let s' := (s * 6364136223846793005 + 1442695040888963407) mod 18446744073709551616 in
  (N.lxor (s' / 4294967296) (s' / 65536 mod 65536), s').
Definition below (n : N) : G N := gen* x := next in gret (if n =? 0 then 0 else x mod n).
Definition chance (num den : N) : G bool := gen* x := below den in gret (x <? num).
Definition pick {A} (d : A) (l : list A) : G A :=
  gen* i := below (lenN l) in gret (nth (N.to_nat i) l d).
Fixpoint grepeat {A} (n : nat) (g : G A) : G (list A) :=
  match n with
  | O => gret []
  | S n' => gen* x := g in gen* r := grepeat n' g in gret (x :: r)
  end.
Definition gopt {A} (g : G A) : G (option A) :=
  gen* c := chance 1 2 in if c then gen* x := g in gret (Some x) else gret None.

(* numbers of a given bit width, biased to the boundaries *)
Definition gnum (bits : N) : G N :=
  gen* k := below 8 in
  let top := 2 ^ bits in
  if k =? 0 then gret 0 else if k =? 1 then gret 1 else if k =? 2 then gret (top - 1)
  else if k =? 3 then gret (top - 2) else if k =? 4 then gret (top / 2)
  else if k =? 5 then gret (top / 2 - 1) else below top.

(* text: scalar values without NUL, mixing ASCII, multi-byte UTF-8, quotes,
   backslashes and control characters; encoded as UTF-8 *)
Definition scalar_alphabet : list N :=
  [65; 66; 97; 122; 32; 48; 57; 95; 45; 233; 8364; 128512; 1; 27; 127; 34; 92; 37; 60; 38; 2047; 65533].
Definition gtext_len (n : nat) : G bytes :=
  gen* l := grepeat n (pick 65 scalar_alphabet) in gret (utf8_encode l).
Definition gtext : G bytes :=
  gen* k := below 10 in
  let n := if k =? 0 then 0 else if k =? 1 then 1 else if k =? 2 then 40 else if k <? 6 then 3 else 9 in
  gtext_len (N.to_nat n).
(* identifiers: ASCII letters/digits/underscore, non-empty *)
Definition gident : G bytes :=
  gen* n := below 7 in
  grepeat (S (N.to_nat n)) (pick 97 [97; 98; 99; 100; 101; 115; 118; 95; 49; 50; 77; 88]).
