(* Specification side of C02: Valve server states, the reply script a
   conforming A2S server sends for them (written from the Valve Server Queries
   reference), and the response the client is expected to return. *)
From GD Require Import Base.Prelude Model.Strings Model.Net Model.Valve.

(* ---- server state ---- *)
Record edf := mk_edf {
  e_port : option N; e_steamid : option N; e_tv : option (N * bytes);
  e_keywords : option bytes; e_gameid : option N }.
Record src_info := mk_src {
  i_protocol : N; i_name : bytes; i_map : bytes; i_folder : bytes; i_game : bytes; i_id : N;
  i_players : N; i_max : N; i_bots : N; i_stype : N; i_env : N; i_visibility : N; i_vac : N;
  i_ship : option the_ship; i_version : bytes; i_edf : option edf }.
Record gold_info := mk_gold {
  gi_address : bytes; gi_name : bytes; gi_map : bytes; gi_folder : bytes; gi_game : bytes;
  gi_players : N; gi_max : N; gi_protocol : N; gi_stype : N; gi_env : N; gi_visibility : N;
  gi_mod : option mod_data; gi_vac : N; gi_bots : N }.
Inductive info_state := SrcInfo (i : src_info) | GoldInfo (i : gold_info).
Record player_state := mk_ps { ps_index : N; ps_name : bytes; ps_score : Z; ps_duration : N;
                               ps_ship : option (N * N) }.
Record vstate := mk_vstate {
  vs_info : info_state; vs_players : list player_state; vs_rules : list (bytes * bytes) }.

(* ---- transport choices ---- *)
Inductive transport :=
| Single
| SplitSrc (cuts : list nat) (id : N) (nosize : bool)
| SplitGold (cuts : list nat) (id : N)
| SplitBz (cuts : list nat) (id : N) (nosize : bool) (compressed : bytes).
Record reply_opts := mk_ropts { ro_challenges : list bytes; ro_transport : transport }.
Record vopts := mk_vopts { vo_info : reply_opts; vo_players : reply_opts; vo_rules : reply_opts }.

(* ---- wire encoding ---- *)
Definition le16 (v : N) := le_bytes 2 v.
Definition le32 (v : N) := le_bytes 4 v.
Definition le64 (v : N) := le_bytes 8 v.
Definition cstr (s : bytes) : bytes := s ++ [0].
Definition b2n (b : bool) : N := if b then 1 else 0.

Definition edf_flags (e : edf) : N :=
  (match e_port e with Some _ => 128 | None => 0 end) + (match e_steamid e with Some _ => 16 | None => 0 end)
  + (match e_tv e with Some _ => 64 | None => 0 end) + (match e_keywords e with Some _ => 32 | None => 0 end)
  + (match e_gameid e with Some _ => 1 | None => 0 end).
Definition enc_edf (e : edf) : bytes :=
  [edf_flags e]
  ++ (match e_port e with Some p => le16 p | None => [] end)
  ++ (match e_steamid e with Some s => le64 s | None => [] end)
  ++ (match e_tv e with Some (p, n) => le16 p ++ cstr n | None => [] end)
  ++ (match e_keywords e with Some k => cstr k | None => [] end)
  ++ (match e_gameid e with Some g => le64 g | None => [] end).

(* A2S_INFO reply payload (after the FF FF FF FF header), type byte 'I' *)
Definition enc_src_info (i : src_info) : bytes :=
  [73; i_protocol i] ++ cstr (i_name i) ++ cstr (i_map i) ++ cstr (i_folder i) ++ cstr (i_game i)
  ++ le16 (i_id i) ++ [i_players i; i_max i; i_bots i; i_stype i; i_env i; i_visibility i; i_vac i]
  ++ (match i_ship i with Some s => [ship_mode s; ship_witnesses s; ship_duration s] | None => [] end)
  ++ cstr (i_version i)
  ++ (match i_edf i with Some e => enc_edf e | None => [] end).
(* obsolete GoldSource reply, type byte 'm' *)
Definition enc_gold_info (i : gold_info) : bytes :=
  [109] ++ cstr (gi_address i) ++ cstr (gi_name i) ++ cstr (gi_map i) ++ cstr (gi_folder i) ++ cstr (gi_game i)
  ++ [gi_players i; gi_max i; gi_protocol i; gi_stype i; gi_env i; gi_visibility i]
  ++ (match gi_mod i with
      | Some m => [1] ++ cstr (md_link m) ++ cstr (md_download_link m) ++ [0] ++ le32 (md_version m)
                  ++ le32 (md_size m) ++ [b2n (md_multiplayer_only m); b2n (md_has_own_dll m)]
      | None => [0]
      end)
  ++ [gi_vac i; gi_bots i].
Definition enc_info (i : info_state) : bytes :=
  match i with SrcInfo s => enc_src_info s | GoldInfo g => enc_gold_info g end.

(* A2S_PLAYER reply payload, type 'D'; The Ship block after all players *)
Definition enc_player (p : player_state) : bytes :=
  [ps_index p] ++ cstr (ps_name p) ++ le32 (of_signed 32 (ps_score p)) ++ le32 (ps_duration p).
Definition enc_ship_block (p : player_state) : bytes :=
  match ps_ship p with Some (d, m) => le32 d ++ le32 m | None => [] end.
Definition enc_players (l : list player_state) : bytes :=
  [68; lenN l] ++ flat_map enc_player l ++ flat_map enc_ship_block l.
(* A2S_RULES reply payload, type 'E' *)
Definition enc_rules (l : list (bytes * bytes)) : bytes :=
  [69] ++ le16 (lenN l) ++ flat_map (fun kv => cstr (fst kv) ++ cstr (snd kv)) l.

Definition simple_header : bytes := [255; 255; 255; 255].
Definition split_header : bytes := [254; 255; 255; 255].
Definition challenge_packet (c : bytes) : bytes := simple_header ++ [65] ++ c.

(* cut a byte string at the given lengths: pieces of length c1, c2, ..., rest *)
Fixpoint cut (cuts : list nat) (l : bytes) : list bytes :=
  match cuts with
  | [] => [l]
  | c :: r => firstn c l :: cut r (skipn c l)
  end.
Fixpoint number_from {A} (i : N) (l : list A) : list (N * A) :=
  match l with [] => [] | x :: r => (i, x) :: number_from (i + 1) r end.

(* the datagrams carrying one reply *)
Definition transport_packets (t : transport) (payload : bytes) : list bytes :=
  let pkt := simple_header ++ payload in
  match t with
  | Single => [pkt]
  | SplitSrc cuts id nosize =>
      let pieces := cut cuts pkt in
      map (fun ip => split_header ++ le32 id ++ [lenN pieces; fst ip]
                     ++ (if nosize then [] else le16 1248) ++ snd ip) (number_from 0 pieces)
  | SplitGold cuts id =>
      let pieces := cut cuts pkt in
      map (fun ip => split_header ++ le32 id ++ [fst ip * 16 + lenN pieces] ++ snd ip) (number_from 0 pieces)
  | SplitBz cuts id nosize comp =>
      (* the bzip2 stream of the whole packet, cut in pieces; id has its top bit
         set; packet 0 also carries the decompressed size and the CRC32 *)
      let total := lenN (cut cuts comp) in
      let head (i : N) := split_header ++ le32 (id + 2147483648) ++ [total; i] ++ (if nosize then [] else le16 1248) in
      match cut cuts comp with
      | [] => []
      | p0 :: rest =>
          (head 0 ++ (le32 (lenN pkt) ++ le32 (crc32 pkt)) ++ p0)
          :: map (fun ip => head (fst ip) ++ [] ++ snd ip) (number_from 1 rest)
      end
  end.
Definition reply_packets (o : reply_opts) (payload : bytes) : list bytes :=
  map challenge_packet (ro_challenges o) ++ transport_packets (ro_transport o) payload.

(* the whole reply script for a query with gather settings g (retries 0, no faults) *)
Definition valve_script (st : vstate) (o : vopts) (g : gathering) : list bytes :=
  reply_packets (vo_info o) (enc_info (vs_info st))
  ++ (match g_players g with Skip => [] | _ => reply_packets (vo_players o) (enc_players (vs_players st)) end)
  ++ (match g_rules g with Skip => [] | _ => reply_packets (vo_rules o) (enc_rules (vs_rules st)) end).

(* ---- expected response ---- *)
Definition lower (v : N) : N := if in_rng 65 90 v then v + 32 else v.
Definition expected_stype (v : N) : server_type :=
  let v := lower v in if v =? 100 then Dedicated else if v =? 108 then NonDedicated else TV.
Definition expected_env (v : N) : environment :=
  let v := lower v in if v =? 108 then Linux else if v =? 119 then Windows else Mac.
Definition expected_extra (e : edf) : extra_data :=
  mk_extra (e_port e) (e_steamid e) (option_map fst (e_tv e)) (option_map snd (e_tv e)) (e_keywords e) (e_gameid e).
Definition expected_info (i : info_state) : server_info :=
  match i with
  | SrcInfo s =>
      let appid := match i_edf s with
                   | Some e => match e_gameid e with Some g => g mod 16777216 | None => i_id s end
                   | None => i_id s
                   end in
      mk_info (i_protocol s) (i_name s) (i_map s) (i_folder s) (i_game s) appid (i_players s) (i_max s) (i_bots s)
              (expected_stype (i_stype s)) (expected_env (i_env s)) (i_visibility s =? 1) (i_vac s =? 1)
              (i_ship s) (i_version s) (option_map expected_extra (i_edf s)) false None
  | GoldInfo g =>
      mk_info (gi_protocol g) (gi_name g) (gi_map g) (gi_folder g) (gi_game g) 0 (gi_players g) (gi_max g) (gi_bots g)
              (expected_stype (gi_stype g)) (expected_env (gi_env g)) (gi_visibility g =? 1) (gi_vac g =? 1)
              None [] None (match gi_mod g with Some _ => true | None => false end) (gi_mod g)
  end.
Definition expected_player (p : player_state) : server_player :=
  mk_player (ps_name p) (ps_score p) (ps_duration p) (option_map fst (ps_ship p)) (option_map snd (ps_ship p)).
Definition expected_rules (e : engine) (l : list (bytes * bytes)) : rules_t :=
  let m := fold_left (fun m kv => map_insert (fst kv) (snd kv) m) l [] in
  if engine_is e 632360 then map_remove (str "Test") m else m.
Definition valve_expected (st : vstate) (e : engine) (g : gathering) : response :=
  mk_resp (expected_info (vs_info st))
          (match g_players g with Skip => None | _ => Some (map expected_player (vs_players st)) end)
          (match g_rules g with Skip => None | _ => Some (expected_rules e (vs_rules st)) end).

(* ---- well-formedness (the specification's domain) ---- *)
Definition no_nul (s : bytes) : bool := utf8_valid s && forallb (fun c => negb (c =? 0)) s && bytesb s.
Definition u8b (v : N) := v <? 256.
Definition u16b (v : N) := v <? 65536.
Definition u32b (v : N) := v <? 4294967296.
Definition u64b (v : N) := v <? 18446744073709551616.
Definition optb {A} (p : A -> bool) (o : option A) := match o with Some a => p a | None => true end.
Definition wf_edf (e : edf) : bool :=
  optb u16b (e_port e) && optb u64b (e_steamid e) && optb (fun t => u16b (fst t) && no_nul (snd t)) (e_tv e)
  && optb no_nul (e_keywords e) && optb u64b (e_gameid e).
Definition stype_ok (v : N) := existsb (N.eqb (lower v)) [100; 108; 112].
Definition env_ok (v : N) := existsb (N.eqb (lower v)) [108; 119; 109; 111].
Definition wf_ship (s : the_ship) := u8b (ship_mode s) && u8b (ship_witnesses s) && u8b (ship_duration s).
Definition wf_info (e : engine) (i : info_state) : bool :=
  match i, e with
  | GoldInfo g, GoldSrc true =>
      no_nul (gi_address g) && no_nul (gi_name g) && no_nul (gi_map g) && no_nul (gi_folder g) && no_nul (gi_game g)
      && u8b (gi_players g) && u8b (gi_max g) && u8b (gi_protocol g)
      && existsb (N.eqb (gi_stype g)) [68; 76; 80] && existsb (N.eqb (gi_env g)) [76; 87]
      && u8b (gi_visibility g) && u8b (gi_vac g) && u8b (gi_bots g)
      && optb (fun m => no_nul (md_link m) && no_nul (md_download_link m) && u32b (md_version m) && u32b (md_size m)) (gi_mod g)
  | SrcInfo s, GoldSrc true => false
  | SrcInfo s, _ =>
      u8b (i_protocol s) && no_nul (i_name s) && no_nul (i_map s) && no_nul (i_folder s) && no_nul (i_game s)
      && u16b (i_id s) && u8b (i_players s) && u8b (i_max s) && u8b (i_bots s)
      && stype_ok (i_stype s) && env_ok (i_env s) && u8b (i_visibility s) && u8b (i_vac s)
      && optb wf_ship (i_ship s) && Bool.eqb (engine_is e 2400) (match i_ship s with Some _ => true | None => false end)
      && no_nul (i_version s) && optb wf_edf (i_edf s)
  | GoldInfo _, _ => false
  end.
Definition wf_basic_player (p : player_state) : bool :=
  u8b (ps_index p) && no_nul (ps_name p) && ((- 2147483648 <=? ps_score p)%Z && (ps_score p <? 2147483648)%Z)
  && u32b (ps_duration p).
Definition wf_player (e : engine) (p : player_state) : bool :=
  wf_basic_player p
  && Bool.eqb (engine_is e 2400) (match ps_ship p with Some _ => true | None => false end)
  && optb (fun dm => u32b (fst dm) && u32b (snd dm)) (ps_ship p).
Definition wf_state (e : engine) (st : vstate) : bool :=
  wf_info e (vs_info st) && forallb (wf_player e) (vs_players st) && (lenN (vs_players st) <? 256)
  && forallb (fun kv => no_nul (fst kv) && no_nul (snd kv)) (vs_rules st) && (lenN (vs_rules st) <? 65536).

(* app-id check (C11): with checking on, the query succeeds only if the
   server's app id is one of the expected ids *)
Definition appid_ok (e : engine) (g : gathering) (appid : N) : bool :=
  match e with
  | Source (Some (a, d)) =>
      (a =? appid) || match d with Some d' => d' =? appid | None => false end || negb (g_check_app_id g)
  | _ => true
  end.
Definition valve_expected_outcome (st : vstate) (e : engine) (g : gathering) : outcome response :=
  if appid_ok e g (si_appid (expected_info (vs_info st))) then Ok (valve_expected st e g) else Err BadGame.
