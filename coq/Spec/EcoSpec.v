(* Eco: server states and the JSON document (as a value) that a server sends for them *)
From GD Require Import Base.Prelude Model.Strings Model.Net Model.View Model.Eco.
Require Import String.

(* the values of the Info members, in the order of eco_table *)
Definition eco_state := list eval.
Fixpoint nodup_keys (l : list bytes) : bool :=
  match l with [] => true | x :: r => negb (existsb (bytes_eqb x) r) && nodup_keys r end.
Definition wf_val (v : eval) : bool :=
  match v with
  | VU32 n => n <? 4294967296
  | VDict l => forallb (fun kv => bytesb (fst kv)) l && nodup_keys (map fst l)
  | _ => true
  end.
Definition ety_eqb (a b : ety) : bool :=
  match a, b with TBool, TBool | TU32, TU32 | TStr, TStr | TF64, TF64 | TNames, TNames | TDict, TDict => true | _, _ => false end.
Fixpoint typed (tbl : list (string * ety * string)) (s : eco_state) : bool :=
  match tbl, s with
  | [], [] => true
  | (_, t, _) :: tr, v :: sr => ety_eqb t (ty_of v) && wf_val v && typed tr sr
  | _, _ => false
  end.
Definition wf_eco (s : eco_state) : bool := typed eco_table s.

(* a JSON number: integer value (if the text is an integer) and the bits of the nearest f64 *)
Definition jnum (z : option Z) (bits : N) : jv :=
  JObj [("$num"%string, JList [match z with Some z => JNum z | None => JNull end; JNum (Z.of_N bits)])].
(* [f32bits n]: the f64 bits the JSON reader computes for the integer n (an oracle; any function) *)
Definition enc_val (ibits : N -> N) (fint : N -> option Z) (v : eval) : jv :=
  match v with
  | VBool b => JBool b
  | VU32 n => jnum (Some (Z.of_N n)) (ibits n)
  | VStr s => JStr s
  | VF64 bits => jnum (fint bits) bits        (* written with or without a fraction *)
  | VNames l => JList (map JStr l)
  | VDict l => JObj (map (fun kv => (string_of_bytes (fst kv), JStr (snd kv))) l)
  end.
Definition eco_expected (s : eco_state) : eco_response := combine (map snd eco_table) s.
Definition table_keys : list string := map (fun r => fst (fst r)) eco_table.
(* the Info object: the members in any place among members the client does not know *)
Definition eco_doc (ibits : N -> N) (fint : N -> option Z) (s : eco_state) (before after top : list (string * jv)) : jv :=
  JObj (top ++ [("Info"%string, JObj (before ++ combine table_keys (map (enc_val ibits fint) s) ++ after))]).
