(* Model of protocols/gamespy: versions one, two and three (C04), after the
   fixes b07ef39, 9a43a73, afe1d1f, 97f13c6 (one), c375acc (two), 2001a77, e9ad523, cd2e729 (three).
   HashMaps are association lists (insert replaces, iteration order is the
   order of first insertion; the code iterates a map only in
   extract_players, where the outcome is independent of the order unless two
   variables name the same player field, which the domain excludes). *)
From GD Require Import Base.Prelude Model.Strings Model.StrOps Model.Buffer Model.Net Model.Valve Model.ValveShow.

Definition vmap := list (bytes * bytes).
Fixpoint vm_get (k : bytes) (m : vmap) : option bytes :=
  match m with [] => None | (k', v) :: r => if bytes_eqb k k' then Some v else vm_get k r end.
Definition vm_remove (k : bytes) (m : vmap) : option bytes * vmap := (vm_get k m, map_remove k m).
Definition vm_insert := map_insert.

(* ---- text helpers ---- *)
Definition lower_ascii (s : bytes) : bytes := map (fun c => if (65 <=? c) && (c <=? 90) then c + 32 else c) s.
Definition is_ws (c : N) : bool := (c =? 32) || ((9 <=? c) && (c <=? 13)).
Fixpoint drop_ws (s : bytes) : bytes := match s with c :: r => if is_ws c then drop_ws r else s | [] => [] end.
Definition trim_ws (s : bytes) : bytes := rev (drop_ws (rev (drop_ws s))).
Definition parse_bool (s : bytes) : option bool :=
  if bytes_eqb s (str "true") then Some true else if bytes_eqb s (str "false") then Some false else None.
Definition u8_max : N := 255.
Definition u16_max' : N := 65535.
Definition u32_max : N := 4294967295.
Definition usize_max' : N := 18446744073709551615.
Definition need {A} (o : option A) (e : ekind) : outcome A := match o with Some a => Ok a | None => Err e end.
Definition obind {A B} (o : outcome A) (f : A -> outcome B) : outcome B :=
  match o with Ok a => f a | Err e => Err e | Panic s => Panic s | Abort s => Abort s | OutOfFuel => OutOfFuel end.
Notation "'ob*' x ':=' m 'in' f" := (obind m (fun x => f))
  (at level 200, x name, m at level 100, f at level 200, right associativity).
Notation "'ob*' ' p ':=' m 'in' f" := (obind m (fun x => match x with p => f end))
  (at level 200, p pattern, m at level 100, f at level 200, right associativity).

(* common.rs has_password: remove "password", lower-case, bool or u8 *)
Definition has_password (m : vmap) : outcome (bool * vmap) :=
  let '(v, m') := vm_remove (str "password") m in
  ob* pv := need v PacketBad in
  let l := lower_ascii pv in
  match parse_bool l with
  | Some b => Ok (b, m')
  | None => ob* n := need (parse_unsigned u8_max l) TypeParse in Ok (negb (n =? 0), m')
  end.
(* "tournament": default "true", lower-case, bool *)
Definition tournament_of (m : vmap) : outcome (bool * vmap) :=
  let '(v, m') := vm_remove (str "tournament") m in
  ob* b := need (parse_bool (lower_ascii (match v with Some x => x | None => str "true" end))) TypeParse in
  Ok (b, m').

(* run a reader over a whole datagram *)
Definition run_r {A} (r : R A) (d : bytes) : outcome A := fst (r (buf_new d)).
Definition read_cstr : R bytes := dec_utf8 0.

(* ================= GameSpy 1 ================= *)
Record gs1_player := mk_gs1p {
  g1_name : bytes; g1_team : option N; g1_ping : N; g1_face : option bytes; g1_skin : option bytes;
  g1_mesh : option bytes; g1_score : Z; g1_deaths : option N; g1_health : option N; g1_secret : option bool }.
Record gs1_response := mk_gs1r {
  r1_name : bytes; r1_map : bytes; r1_map_title : option bytes; r1_admin_contact : option bytes;
  r1_admin_name : option bytes; r1_has_password : bool; r1_game_mode : bytes; r1_game_version : bytes;
  r1_players_maximum : N; r1_players_online : N; r1_players_minimum : option N; r1_players : list gs1_player;
  r1_tournament : bool; r1_unused : vmap }.

(* String::remove(0): the first character *)
Definition utf8_first_len (c : N) : nat :=
  if c <? 128 then 1 else if c <? 224 then 2 else if c <? 240 then 3 else 4.
Definition remove_first_char (s : bytes) : bytes :=
  match s with c :: _ => skipn (utf8_first_len c) s | [] => [] end.

Fixpoint insert_pairs (l : list bytes) (m : vmap) : vmap :=
  match l with k :: v :: r => insert_pairs r (vm_insert k v m) | _ => m end.

Definition gs1_request : bytes := str "\status\xserverquery".
Fixpoint gs1_loop (fuel : nat) (received : option N) (parts : list N) (expected : option N) (vals : vmap) : M vmap :=
  match fuel with
  | O => fun n => (OutOfFuel, n)
  | S f =>
      do* data := udp_recv None in
      match run_r read_cstr data with
      | Ok s =>
          match s with
          | [] => mfail PacketBad
          | _ =>
              let vals := insert_pairs (split 92 (remove_first_char s)) vals in
              let '(fin, vals) := vm_remove (str "final") vals in
              let finished := match fin with Some _ => true | None => false end in
              let qd := vm_get (str "queryid") vals in
              let default_part := lenN parts in
              let idpart : outcome (option N * N) :=
                match qd with
                | None => Ok (None, default_part)
                | Some q =>
                    let sp := split 46 q in
                    ob* qid := need (parse_unsigned usize_max' (hd [] sp)) TypeParse in
                    match sp with
                    | [_] => Ok (Some qid, default_part)
                    | [_; p] => ob* pn := need (parse_unsigned usize_max' p) TypeParse in Ok (Some qid, pn)
                    | _ => Err PacketBad
                    end
                end in
              match idpart with
              | Ok (qid, part) =>
                  let vals := map_remove (str "queryid") vals in
                  let parts' := parts ++ [part] in
                  (* the part carrying "final" tells how many parts there are *)
                  let expected' := if finished
                                   then Some (if (match qid with Some _ => true | None => false end) && (0 <? part) then part else lenN parts')
                                   else expected in
                  let done := match expected' with Some n => n <=? lenN parts' | None => false end in
                  let wrong_id := match received with
                                  | Some r0 => match qid with Some q => negb (q =? r0) | None => true end
                                  | None => false
                                  end in
                  if wrong_id then mfail PacketBad
                  else if existsb (N.eqb part) parts then mfail PacketBad
                  else if done then mret vals else gs1_loop f qid parts' expected' vals
              | Err e => mfail e | Panic s => mpanic s | Abort s => fun n => (Abort s, n) | OutOfFuel => fun n => (OutOfFuel, n)
              end
          end
      | Err e => mfail e | Panic s => mpanic s | Abort s => fun n => (Abort s, n) | OutOfFuel => fun n => (OutOfFuel, n)
      end
  end.
Definition gs1_values_impl (port : N) : M vmap := fun n =>
  (do* _ := send port gs1_request in gs1_loop (S (length (n_udp n))) None [] None []) n.
Definition gs1_query_vars (port : N) (t : option tsettings) : M vmap :=
  do* _ := udp_new port t in
  retry_on_timeout (ts_retries_or_default t) (gs1_values_impl port).

Definition gs1_player_kinds : list bytes :=
  map str ["team"; "player"; "playername"; "ping"; "face"; "skin"; "mesh"; "frags"; "ngsecret"; "deaths"; "health"]%string.
Fixpoint set_nth {A} (i : nat) (f : A -> A) (d : A) (l : list A) : list A :=
  match i, l with
  | O, x :: r => f x :: r
  | O, [] => [f d]
  | S i', x :: r => x :: set_nth i' f d r
  | S i', [] => d :: set_nth i' f d []
  end.
(* server_vars.retain(...): player variables move into the per-player maps *)
Fixpoint gs1_split_players (bound : N) (vars : vmap) (pd : list vmap) : vmap * list vmap :=
  match vars with
  | [] => ([], pd)
  | (k, v) :: r =>
      let keep (_ : unit) := let '(m, pd') := gs1_split_players bound r pd in ((k, v) :: m, pd') in
      match split 95 k with
      | [kind; ids] =>
          match parse_unsigned usize_max' ids with
          | Some id =>
              if existsb (bytes_eqb kind) gs1_player_kinds && (id <? bound)
              then gs1_split_players bound r (set_nth (N.to_nat id) (vm_insert kind v) [] pd)
              else keep tt
          | None => keep tt
          end
      | _ => keep tt
      end
  end.
Definition opt_parse {A} (o : option bytes) (p : bytes -> option A) : outcome (option A) :=
  match o with
  | None => Ok None
  | Some v => ob* x := need (p v) TypeParse in Ok (Some x)
  end.
Definition gs1_make_player (d : vmap) : outcome gs1_player :=
  ob* name := need (match vm_get (str "player") d with Some v => Some v | None => vm_get (str "playername") d end) PacketBad in
  ob* team := opt_parse (vm_get (str "team") d) (fun v => parse_unsigned u8_max (trim_ws v)) in
  ob* pingt := need (vm_get (str "ping") d) PacketBad in
  ob* ping := need (parse_unsigned u16_max' (trim_ws pingt)) TypeParse in
  ob* fr := need (vm_get (str "frags") d) PacketBad in
  ob* score := need (parse_signed 32 (trim_ws fr)) TypeParse in
  ob* deaths := opt_parse (vm_get (str "deaths") d) (fun v => parse_unsigned u32_max (trim_ws v)) in
  ob* health := opt_parse (vm_get (str "health") d) (fun v => parse_unsigned u32_max (trim_ws v)) in
  ob* secret := opt_parse (vm_get (str "ngsecret") d) (fun v => parse_bool (lower_ascii v)) in
  Ok (mk_gs1p name team ping (vm_get (str "face") d) (vm_get (str "skin") d) (vm_get (str "mesh") d)
              score deaths health secret).
Fixpoint omap_list {A B} (f : A -> outcome B) (l : list A) : outcome (list B) :=
  match l with
  | [] => Ok []
  | x :: r => ob* y := f x in ob* ys := omap_list f r in Ok (y :: ys)
  end.
Definition take_req (k : string) (m : vmap) : outcome (bytes * vmap) :=
  let '(v, m') := vm_remove (str k) m in ob* x := need v PacketBad in Ok (x, m').

Definition gs1_build (vars : vmap) : outcome gs1_response :=
  ob* '(maxs, vars) := take_req "maxplayers" vars in
  ob* maxp := need (parse_unsigned u32_max maxs) TypeParse in
  let '(mins, vars) := vm_remove (str "minplayers") vars in
  ob* minp := opt_parse mins (parse_unsigned u8_max) in
  let '(vars, pd) := gs1_split_players (lenN vars) vars [] in
  ob* players := omap_list gs1_make_player pd in
  ob* '(name, vars) := take_req "hostname" vars in
  ob* '(mapn, vars) := take_req "mapname" vars in
  let '(title, vars) := vm_remove (str "maptitle") vars in
  let '(mail, vars) := vm_remove (str "AdminEMail") vars in
  let '(an, vars) := vm_remove (str "AdminName") vars in
  let '(admin, vars) := match an with
                        | Some a => (Some a, vars)
                        | None => vm_remove (str "admin") vars
                        end in
  ob* '(pw, vars) := has_password vars in
  ob* '(mode, vars) := take_req "gametype" vars in
  ob* '(ver, vars) := take_req "gamever" vars in
  ob* '(tour, vars) := tournament_of vars in
  Ok (mk_gs1r name mapn title mail admin pw mode ver maxp (lenN players mod 2 ^ 32) minp players tour vars).
Definition gs1_query (port : N) (t : option tsettings) : M gs1_response :=
  do* vars := gs1_query_vars port t in mlift (gs1_build vars).

(* ================= GameSpy 2 ================= *)
Record gs2_team := mk_gs2t { t2_name : bytes; t2_score : N }.
Record gs2_player := mk_gs2p { p2_name : bytes; p2_score : N; p2_ping : N; p2_team : N }.
Record gs2_response := mk_gs2r {
  r2_name : bytes; r2_map : bytes; r2_has_password : bool; r2_teams : list gs2_team;
  r2_players_maximum : N; r2_players_online : N; r2_players_minimum : option N;
  r2_players : list gs2_player; r2_unused : vmap }.

Definition gs2_request : bytes := [254; 253; 0; 0; 0; 0; 1; 255; 255; 255].
Definition gs2_request_impl (port : N) : M bytes :=
  do* _ := send port gs2_request in
  do* d := udp_recv None in
  mlift (run_r (let* k := read_u8 in
                if negb (k =? 0) then fail PacketBad
                else let* sid := read_uint true 4 in
                     if negb (sid =? 1) then fail PacketBad else ret d) d).

Fixpoint gs2_vars_loop (fuel : nat) (m : vmap) : R vmap :=
  match fuel with
  | O => fun b => (OutOfFuel, b)
  | S f => fun b =>
      match remaining_length b with
      | Ok 0 => (Ok m, b)
      | Ok _ =>
          (let* k := read_cstr in
           let* v := read_cstr in
           match k, v with
           | [], [] => let* _ := move_cursor (-1) in ret m
           | [], _ => gs2_vars_loop f m
           | _, _ => gs2_vars_loop f (vm_insert k v m)
           end) b
      | o => (ofail o, b)
      end
  end.
Fixpoint read_heads (fuel : nat) : R (list bytes) :=
  match fuel with
  | O => fun b => (OutOfFuel, b)
  | S f => let* h := read_cstr in
           match h with [] => ret [] | _ => let* r := read_heads f in ret (h :: r) end
  end.
Definition tmap := list (bytes * list bytes).
Fixpoint tm_push (k v : bytes) (t : tmap) : option tmap :=
  match t with
  | [] => None
  | (k', l) :: r => if bytes_eqb k k' then Some ((k', l ++ [v]) :: r)
                    else match tm_push k v r with Some r' => Some ((k', l) :: r') | None => None end
  end.
Fixpoint tm_get (k : bytes) (t : tmap) : option (list bytes) :=
  match t with [] => None | (k', l) :: r => if bytes_eqb k k' then Some l else tm_get k r end.
Fixpoint tm_init (heads : list bytes) (t : tmap) : tmap :=
  match heads with
  | [] => t
  | h :: r => tm_init r (match tm_get h t with Some _ => map (fun kl => if bytes_eqb h (fst kl) then (fst kl, []) else kl) t
                                              | None => t ++ [(h, [])] end)
  end.
Fixpoint read_row (heads : list bytes) (t : tmap) : R tmap :=
  match heads with
  | [] => ret t
  | h :: r => let* v := read_cstr in
              match tm_push h v t with Some t' => read_row r t' | None => fail PacketBad end
  end.
Fixpoint read_rows (n : nat) (heads : list bytes) (t : tmap) : R tmap :=
  match n with O => ret t | S n' => let* t' := read_row heads t in read_rows n' heads t' end.
Definition data_as_table : R (tmap * N) := fun b =>
  (let* z := read_u8 in
   if negb (z =? 0) then fail PacketBad
   else let* rows := read_u8 in
        let* heads := read_heads (S (length (rest b))) in
        if rows =? 0 then ret ([], 0)
        else let* t := read_rows (N.to_nat rows) heads (tm_init heads []) in ret (t, rows)) b.
Definition cell (t : tmap) (name : string) (i : nat) : outcome bytes :=
  ob* col := need (tm_get (str name) t) PacketBad in need (nth_error col i) PacketBad.
Definition cell_u16 (t : tmap) (name : string) (i : nat) : outcome N :=
  ob* c := cell t name i in need (parse_unsigned u16_max' c) PacketBad.
Definition gs2_players (t : tmap) (n : N) : outcome (list gs2_player) :=
  omap_list (fun i => ob* nm := cell t "player_" i in ob* sc := cell_u16 t "score_" i in
                 ob* pg := cell_u16 t "ping_" i in ob* tm := cell_u16 t "team_" i in
                 Ok (mk_gs2p nm sc pg tm)) (seq 0 (N.to_nat n)).
Definition gs2_teams (t : tmap) (n : N) : outcome (list gs2_team) :=
  omap_list (fun i => ob* nm := cell t "team_t" i in ob* sc := cell_u16 t "score_t" i in Ok (mk_gs2t nm sc))
       (seq 0 (N.to_nat n)).
(* players_online: the larger of the reported count and the players listed, as u32 *)
Definition online_of (vars : vmap) (listed : N) : outcome (N * vmap) :=
  let '(np, vars) := vm_remove (str "numplayers") vars in
  match np with
  | None => Ok (listed mod 2 ^ 32, vars)
  | Some v => ob* rep := need (parse_unsigned usize_max' v) TypeParse in
              Ok ((if rep <? listed then listed else rep) mod 2 ^ 32, vars)
  end.

Definition gs2_parse (d : bytes) : outcome gs2_response :=
  run_r (let* _ := move_cursor 5 in
         fun b =>
         (let* vars := gs2_vars_loop (S (length (rest b))) [] in
          let* '(pt, pn) := data_as_table in
          let* players := lift (gs2_players pt pn) in
          let* '(online, vars) := lift (online_of vars (lenN players)) in
          let '(mins, vars) := vm_remove (str "minplayers") vars in
          let* minp := lift (opt_parse mins (parse_unsigned u32_max)) in
          let* '(name, vars) := lift (take_req "hostname" vars) in
          let* '(mapn, vars) := lift (take_req "mapname" vars) in
          let* '(pw, vars) := lift (take_req "password" vars) in
          let* '(ttab, tn) := data_as_table in
          let* teams := lift (gs2_teams ttab tn) in
          let* '(maxs, vars) := lift (take_req "maxplayers" vars) in
          let* maxp := lift (need (parse_unsigned u32_max maxs) TypeParse) in
          ret (mk_gs2r name mapn (bytes_eqb pw (str "1")) teams maxp online minp players vars)) b) d.
Definition gs2_query (port : N) (t : option tsettings) : M gs2_response :=
  do* _ := udp_new port t in
  do* d := retry_on_timeout (ts_retries_or_default t) (gs2_request_impl port) in
  mlift (gs2_parse d).

(* ================= GameSpy 3 ================= *)
Record gs3_team := mk_gs3t { t3_name : bytes; t3_score : Z }.
Record gs3_player := mk_gs3p { p3_name : bytes; p3_score : Z; p3_ping : N; p3_team : N; p3_deaths : N; p3_skill : N }.
Record gs3_response := mk_gs3r {
  r3_name : bytes; r3_map : bytes; r3_has_password : bool; r3_game_mode : bytes; r3_game_version : bytes;
  r3_players_maximum : N; r3_players_online : N; r3_players_minimum : option N;
  r3_players : list gs3_player; r3_teams : list gs3_team; r3_tournament : bool; r3_unused : vmap }.

Definition gs3_receive (size : option N) (kind : N) : M bytes :=
  do* d := udp_recv (Some (match size with Some s => s | None => 2048 end)) in
  mlift (run_r (let* k := read_u8 in
                if negb (k =? kind) then fail PacketBad
                else let* sid := read_uint true 4 in
                     if negb (sid =? 1) then fail PacketBad
                     else fun b => (remaining_bytes b, b)) d).
Definition gs3_handshake (port : N) : M (option Z) :=
  do* _ := send port [254; 253; 9; 0; 0; 0; 1] in
  do* d := gs3_receive (Some 16) 9 in
  do* s := mlift (run_r read_cstr d) in
  do* c := mlift (need (parse_signed 32 s) TypeParse) in
  mret (if (c =? 0)%Z then None else Some c).
Definition gs3_data_request (port : N) (payload : bytes) (c : option Z) : M unit :=
  send port ([254; 253; 0; 0; 0; 0; 1]
             ++ (match c with Some z => be_bytes 4 (of_signed 32 z) | None => [] end) ++ payload).
Fixpoint pad_to {A} (n : nat) (d : A) (l : list A) : list A :=
  match n, l with
  | O, _ => l
  | S n', x :: r => x :: pad_to n' d r
  | S n', [] => d :: pad_to n' d []
  end.
Fixpoint gs3_packets_loop (fuel : nat) (values : list bytes) (expected : option nat) : M (list bytes) :=
  match fuel with
  | O => fun n => (OutOfFuel, n)
  | S f =>
      do* d := gs3_receive None 0 in
      match run_r (let* s := read_cstr in
                   if negb (bytes_eqb s (str "splitnum")) then fail PacketBad
                   else let* id := read_u8 in
                        let* _ := move_cursor 1 in
                        fun b => match remaining_bytes b with
                                 | Ok r => (Ok (id, r), b)
                                 | o => (ofail o, b)
                                 end) d with
      | Ok (id, body) =>
          let is_last := 128 <=? id in
          let pid := N.to_nat (id mod 128) in
          let values' := set_nth pid (fun _ => body) [] (pad_to (pid + 1) [] values) in
          (* the packet flagged as last tells how many packets there are *)
          let expected' := if is_last then Some (pid + 1)%nat else expected in
          let reached := match expected' with
                         | Some n => (n <=? length values')%nat
                                     && forallb (fun v => match v with [] => false | _ => true end) (firstn n values')
                         | None => false
                         end in
          if reached then mret values' else gs3_packets_loop f values' expected'
      | Err e => mfail e | Panic s => mpanic s | Abort s => fun n => (Abort s, n) | OutOfFuel => fun n => (OutOfFuel, n)
      end
  end.
Definition gs3_packets_impl (port : N) : M (list bytes) := fun n =>
  (do* c := gs3_handshake port in
   do* _ := gs3_data_request port [255; 255; 255; 1] c in
   do* vs := gs3_packets_loop (S (length (n_udp n))) [] None in
   if existsb (fun v => match v with [] => true | _ => false end) vs then mfail PacketBad else mret vs) n.
Definition gs3_packets (port : N) (t : option tsettings) : M (list bytes) :=
  do* _ := udp_new port t in
  retry_on_timeout (ts_retries_or_default t) (gs3_packets_impl port).

Fixpoint data_to_map_loop (fuel : nat) (m : vmap) : R vmap :=
  match fuel with
  | O => fun b => (OutOfFuel, b)
  | S f => fun b =>
      match remaining_length b with
      | Ok 0 => (Ok m, b)
      | Ok _ => (let* k := read_cstr in
                 match k with
                 | [] => ret m
                 | _ => let* v := read_cstr in data_to_map_loop f (vm_insert k v m)
                 end) b
      | o => (ofail o, b)
      end
  end.
Definition data_to_map (p : bytes) (m0 : vmap) : outcome (vmap * bytes) :=
  match data_to_map_loop (S (length p)) m0 (buf_new p) with
  | (Ok m, b) => ob* r := remaining_bytes b in Ok (m, r)
  | (o, _) => ofail o
  end.
Definition gs3_query_vars (port : N) (t : option tsettings) : M vmap :=
  do* ps := gs3_packets port t in
  mlift (ob* first := need (hd_error ps) PacketBad in ob* '(m, _) := data_to_map first [] in Ok m).

Definition gs3_fields : list bytes := map str ["player"; "score"; "ping"; "team"; "deaths"; "pid"; "skill"]%string.
(* the values of one field, from [offset] on *)
Fixpoint gs3_items (fuel : nat) (name : bytes) (offset : nat) (data : list vmap) : R (list vmap) :=
  match fuel with
  | O => fun b => (OutOfFuel, b)
  | S f => fun b =>
      match remaining_length b with
      | Ok 0 => (Ok data, b)
      | Ok _ => (let* item := read_cstr in
                 match item with
                 | [] => ret data
                 | _ => gs3_items f name (S offset) (set_nth offset (vm_insert name item) [] (pad_to (S offset) [] data))
                 end) b
      | o => (ofail o, b)
      end
  end.
Fixpoint gs3_sections (fuel : nat) (pd td : list vmap) : R (list vmap * list vmap) :=
  match fuel with
  | O => fun b => (OutOfFuel, b)
  | S f => fun b =>
      match remaining_length b with
      | Ok 0 => (Ok (pd, td), b)
      | Ok _ =>
          (let* c := read_u8 in
           if c <? 3 then gs3_sections f pd td
           else
             let* _ := move_cursor (-1) in
             let* field := read_cstr in
             match field with
             | [] => gs3_sections f pd td
             | _ =>
                 let sp := split 95 field in
                 let name := hd [] sp in
                 if negb (existsb (bytes_eqb name) gs3_fields) then gs3_sections f pd td
                 else
                   let ty : outcome bool :=      (* true = team field *)
                     match sp with
                     | _ :: v :: _ => match v with [] => Ok false | _ => if bytes_eqb v (str "t") then Ok true else Err PacketBad end
                     | _ => Ok false
                     end in
                   match ty with
                   | Ok is_team =>
                       let* off := read_u8 in
                       fun b' =>
                       (if is_team
                        then let* td' := gs3_items (S (length (rest b'))) name (N.to_nat off) td in gs3_sections f pd td'
                        else let* pd' := gs3_items (S (length (rest b'))) name (N.to_nat off) pd in gs3_sections f pd' td) b'
                   | o => lift (ofail o)
                   end
             end) b
      | o => (ofail o, b)
      end
  end.
Fixpoint gs3_all_sections (ps : list bytes) (pd td : list vmap) : outcome (list vmap * list vmap) :=
  match ps with
  | [] => Ok (pd, td)
  | p :: r => ob* '(pd', td') := fst (gs3_sections (S (length p)) pd td (buf_new p)) in gs3_all_sections r pd' td'
  end.
Definition gs3_make_player (d : vmap) : outcome gs3_player :=
  ob* name := need (vm_get (str "player") d) PacketBad in
  ob* s := need (vm_get (str "score") d) PacketBad in ob* score := need (parse_signed 32 s) TypeParse in
  ob* s := need (vm_get (str "ping") d) PacketBad in ob* ping := need (parse_unsigned u16_max' s) TypeParse in
  ob* s := need (vm_get (str "team") d) PacketBad in ob* team := need (parse_unsigned u8_max s) TypeParse in
  ob* s := need (vm_get (str "deaths") d) PacketBad in ob* deaths := need (parse_unsigned u32_max s) TypeParse in
  ob* s := need (vm_get (str "skill") d) PacketBad in ob* skill := need (parse_unsigned u32_max s) TypeParse in
  Ok (mk_gs3p name score ping team deaths skill).
Definition gs3_make_team (d : vmap) : outcome gs3_team :=
  ob* name := need (vm_get (str "team") d) PacketBad in
  ob* s := need (vm_get (str "score") d) PacketBad in ob* score := need (parse_signed 32 s) TypeParse in
  Ok (mk_gs3t name score).
Definition nonempty_maps (l : list vmap) : list vmap := filter (fun m => match m with [] => false | _ => true end) l.

Definition gs3_build (packets : list bytes) : outcome gs3_response :=
  ob* first := need (hd_error packets) PacketBad in
  ob* '(vars, remaining) := data_to_map first [] in
  ob* '(pd, td) := gs3_all_sections (remaining :: tl packets) [[]] [[]] in
  ob* players := omap_list gs3_make_player (nonempty_maps pd) in
  ob* teams := omap_list gs3_make_team (nonempty_maps td) in
  ob* '(maxs, vars) := take_req "maxplayers" vars in
  ob* maxp := need (parse_unsigned u32_max maxs) TypeParse in
  let '(mins, vars) := vm_remove (str "minplayers") vars in
  ob* minp := opt_parse mins (parse_unsigned u8_max) in
  ob* '(online, vars) := online_of vars (lenN players) in
  ob* '(name, vars) := take_req "hostname" vars in
  ob* '(mapn, vars) := take_req "mapname" vars in
  ob* '(pw, vars) := has_password vars in
  ob* '(mode, vars) := take_req "gametype" vars in
  ob* '(ver, vars) := take_req "gamever" vars in
  ob* '(tour, vars) := tournament_of vars in
  Ok (mk_gs3r name mapn pw mode ver maxp online minp players teams tour vars).
Definition gs3_query (port : N) (t : option tsettings) : M gs3_response :=
  do* ps := gs3_packets port t in mlift (gs3_build ps).

(* ---- rendering ---- *)
Definition show_gs1_player (p : gs1_player) : bytes :=
  show_struct [fld "name" (show_str (g1_name p)); fld "team" (show_option show_N (g1_team p)); fld "ping" (show_N (g1_ping p));
               fld "face" (show_option show_str (g1_face p)); fld "skin" (show_option show_str (g1_skin p));
               fld "mesh" (show_option show_str (g1_mesh p)); fld "score" (show_Z (g1_score p));
               fld "deaths" (show_option show_N (g1_deaths p)); fld "health" (show_option show_N (g1_health p));
               fld "secret" (show_option show_bool (g1_secret p))].
Definition show_gs1 (r : gs1_response) : bytes :=
  show_struct [fld "name" (show_str (r1_name r)); fld "map" (show_str (r1_map r));
               fld "map_title" (show_option show_str (r1_map_title r));
               fld "admin_contact" (show_option show_str (r1_admin_contact r));
               fld "admin_name" (show_option show_str (r1_admin_name r));
               fld "has_password" (show_bool (r1_has_password r)); fld "game_mode" (show_str (r1_game_mode r));
               fld "game_version" (show_str (r1_game_version r)); fld "players_maximum" (show_N (r1_players_maximum r));
               fld "players_online" (show_N (r1_players_online r));
               fld "players_minimum" (show_option show_N (r1_players_minimum r));
               fld "players" (show_list show_gs1_player (r1_players r)); fld "tournament" (show_bool (r1_tournament r));
               fld "unused_entries" (show_map (r1_unused r))].
Definition show_gs2 (r : gs2_response) : bytes :=
  show_struct [fld "name" (show_str (r2_name r)); fld "map" (show_str (r2_map r));
               fld "has_password" (show_bool (r2_has_password r));
               fld "teams" (show_list (fun t => show_struct [fld "name" (show_str (t2_name t)); fld "score" (show_N (t2_score t))]) (r2_teams r));
               fld "players_maximum" (show_N (r2_players_maximum r)); fld "players_online" (show_N (r2_players_online r));
               fld "players_minimum" (show_option show_N (r2_players_minimum r));
               fld "players" (show_list (fun p => show_struct [fld "name" (show_str (p2_name p)); fld "score" (show_N (p2_score p));
                                                                fld "ping" (show_N (p2_ping p)); fld "team_index" (show_N (p2_team p))]) (r2_players r));
               fld "unused_entries" (show_map (r2_unused r))].
Definition show_gs3 (r : gs3_response) : bytes :=
  show_struct [fld "name" (show_str (r3_name r)); fld "map" (show_str (r3_map r));
               fld "has_password" (show_bool (r3_has_password r)); fld "game_mode" (show_str (r3_game_mode r));
               fld "game_version" (show_str (r3_game_version r)); fld "players_maximum" (show_N (r3_players_maximum r));
               fld "players_online" (show_N (r3_players_online r));
               fld "players_minimum" (show_option show_N (r3_players_minimum r));
               fld "players" (show_list (fun p => show_struct [fld "name" (show_str (p3_name p)); fld "score" (show_Z (p3_score p));
                                                                fld "ping" (show_N (p3_ping p)); fld "team" (show_N (p3_team p));
                                                                fld "deaths" (show_N (p3_deaths p)); fld "skill" (show_N (p3_skill p))]) (r3_players r));
               fld "teams" (show_list (fun t => show_struct [fld "name" (show_str (t3_name t)); fld "score" (show_Z (t3_score t))]) (r3_teams r));
               fld "tournament" (show_bool (r3_tournament r)); fld "unused_entries" (show_map (r3_unused r))].
