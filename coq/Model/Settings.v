(* Model of the public ways of constructing TimeoutSettings
   (protocols/types.rs): the constructor, Default, the command-line flags
   (clap value parsers) and deserialisation (serde try_from). *)
From GD Require Import Base.Prelude Model.StrOps Model.Net.

Definition u64_max : N := 18446744073709551615.

(* parse_duration_secs: whole seconds, zero refused *)
Definition parse_duration_secs (s : bytes) : option duration :=
  match parse_unsigned u64_max s with
  | Some 0 => None
  | Some secs => Some (secs, 0)
  | None => None
  end.

(* the flags --connect-timeout --read-timeout --write-timeout --retries; an
   absent duration flag defaults to "4", absent retries to "0"; with no flag at
   all the optional group is None. A flag value that does not parse is a usage
   error. *)
Definition clap_flag (o : option bytes) (dflt : duration) : outcome (option duration) :=
  match o with
  | None => Ok (Some dflt)
  | Some s => match parse_duration_secs s with Some d => Ok (Some d) | None => Err InvalidInput end
  end.
Definition clap_construct (c r w retries : option bytes) : outcome (option tsettings) :=
  match c, r, w, retries with
  | None, None, None, None => Ok None
  | _, _, _, _ =>
      obind (clap_flag c (4, 0)) (fun c' =>
      obind (clap_flag r (4, 0)) (fun r' =>
      obind (clap_flag w (4, 0)) (fun w' =>
      match retries with
      | None => Ok (Some (mkts c' r' w' 0))
      | Some s => match parse_unsigned u64_max s with
                  | Some n => Ok (Some (mkts c' r' w' n))
                  | None => Err InvalidInput
                  end
      end)))
  end.

(* serde: the unchecked mirror struct goes through TimeoutSettings::new *)
Definition serde_construct (c r w : option duration) (retries : N) : outcome tsettings := ts_new r w c retries.

Inductive path :=
| PNew (r w c : option duration) (retries : N)
| PDefault
| PClap (c r w retries : option bytes)
| PSerde (c r w : option duration) (retries : N).
(* Ok None only for the command line without any timeout flag *)
Definition construct (p : path) : outcome (option tsettings) :=
  match p with
  | PNew r w c n => omap Some (ts_new r w c n)
  | PDefault => Ok (Some ts_default)
  | PClap c r w n => clap_construct c r w n
  | PSerde c r w n => omap Some (serde_construct c r w n)
  end.

Definition nonzero (o : option duration) : bool := match o with Some d => negb (dur_zero d) | None => true end.
Definition ts_nonzero (t : option tsettings) : bool :=
  match t with Some s => nonzero (ts_connect s) && nonzero (ts_read s) && nonzero (ts_write s) | None => true end.
