(* Model of services/valve_master_server/{types,service}.rs *)
From GD Require Import Base.Prelude Model.Strings Model.Buffer Model.Net.

(* Filter, by discriminant index (the order of the enum) *)
Inductive mfilter :=
| IsSecured (b : bool) | RunsMap (s : bytes) | CanHavePassword (b : bool) | CanBeEmpty (b : bool)
| IsEmpty (b : bool) | CanBeFull (b : bool) | RunsAppID (n : N) | NotAppID (n : N)
| HasTags (tags : list bytes) | MatchName (s : bytes) | MatchVersion (s : bytes)
| RestrictUniqueIP (b : bool) | OnAddress (s : bytes) | Whitelisted (b : bool) | SpectatorProxy (b : bool)
| IsDedicated (b : bool) | RunsLinux (b : bool) | HasGameDir (s : bytes).

Definition discriminant (f : mfilter) : N :=
  match f with
  | IsSecured _ => 0 | RunsMap _ => 1 | CanHavePassword _ => 2 | CanBeEmpty _ => 3 | IsEmpty _ => 4
  | CanBeFull _ => 5 | RunsAppID _ => 6 | NotAppID _ => 7 | HasTags _ => 8 | MatchName _ => 9
  | MatchVersion _ => 10 | RestrictUniqueIP _ => 11 | OnAddress _ => 12 | Whitelisted _ => 13
  | SpectatorProxy _ => 14 | IsDedicated _ => 15 | RunsLinux _ => 16 | HasGameDir _ => 17
  end.

Definition bchar (b : bool) : bytes := if b then [49] else [48].
Definition kv (k : string) (v : bytes) : bytes := [92] ++ str k ++ [92] ++ v.

(* Filter::to_bytes *)
Definition filter_bytes (f : mfilter) : bytes :=
  match f with
  | IsSecured b => kv "secure" (bchar b)
  | RunsMap s => kv "map" s
  | CanHavePassword b => kv "password" (bchar b)
  | CanBeEmpty b => kv "empty" (bchar b)
  | CanBeFull b => kv "full" (bchar b)
  | RunsAppID n => kv "appid" (show_N n)
  | HasTags tags => match tags with [] => [] | _ => kv "gametype" (intercalate [44] tags) end
  | NotAppID n => kv "napp" (show_N n)
  | IsEmpty b => kv "noplayers" (bchar b)
  | MatchName s => kv "name_match" s
  | MatchVersion s => kv "version_match" s
  | RestrictUniqueIP b => kv "collapse_addr_hash" (bchar b)
  | OnAddress s => kv "gameaddr" s
  | Whitelisted b => kv "white" (bchar b)
  | SpectatorProxy b => kv "proxy" (bchar b)
  | IsDedicated b => kv "dedicated" (bchar b)
  | RunsLinux b => kv "linux" (bchar b)
  | HasGameDir s => kv "gamedir" s
  end.

(* HashMap<Discriminant, Filter> as an association list, newest binding wins *)
Definition fmap := list (N * mfilter).
Fixpoint fmap_insert (f : mfilter) (m : fmap) : fmap :=
  match m with
  | [] => [(discriminant f, f)]
  | (k, g) :: r => if k =? discriminant f then (k, f) :: r else (k, g) :: fmap_insert f r
  end.

Record search_filters := mk_sf { sf_plain : fmap; sf_nor : fmap; sf_nand : fmap }.
Definition sf_new : search_filters := mk_sf [] [] [].
Inductive group := Plain | Nand | Nor.
Definition sf_insert (g : group) (f : mfilter) (s : search_filters) : search_filters :=
  match g with
  | Plain => mk_sf (fmap_insert f (sf_plain s)) (sf_nor s) (sf_nand s)
  | Nand => mk_sf (sf_plain s) (sf_nor s) (fmap_insert f (sf_nand s))
  | Nor => mk_sf (sf_plain s) (fmap_insert f (sf_nor s)) (sf_nand s)
  end.

(* special_filter_to_bytes: [vals] is the group's filters in the HashMap's
   iteration order (any permutation of the map's values) *)
Definition special_bytes (name : string) (vals : list mfilter) : bytes :=
  let fb := filter (fun b => match b with [] => false | _ => true end) (map filter_bytes vals) in
  match fb with
  | [] => []
  | _ => [92] ++ str name ++ [92] ++ show_N (lenN fb) ++ concat fb
  end.
(* SearchFilters::to_bytes for given iteration orders of the three maps *)
Definition sf_bytes_ord (plain nand nor : list mfilter) : bytes :=
  concat (map filter_bytes plain) ++ special_bytes "nand" nand ++ special_bytes "nor" nor ++ [0].
Definition sf_bytes (s : search_filters) : bytes :=
  sf_bytes_ord (map snd (sf_plain s)) (map snd (sf_nand s)) (map snd (sf_nor s)).

Definition show_ip (a : N * N * N * N) : bytes :=
  let '(a1, a2, a3, a4) := a in show_N a1 ++ [46] ++ show_N a2 ++ [46] ++ show_N a3 ++ [46] ++ show_N a4.

Definition addr := (N * N * N * N * N)%type.   (* ip, port *)
Definition addr_ip (a : addr) := fst a.
Definition addr_port (a : addr) := snd a.

(* construct_payload; [fb] = the filters' bytes (Some) or the single NUL (None) *)
Definition construct_payload (region : N) (fb : bytes) (last : addr) : bytes :=
  [49; region] ++ show_ip (addr_ip last) ++ [58] ++ show_N (addr_port last) ++ [0] ++ fb.

Definition master_port : N := 27011.

Fixpoint parse_addrs (fuel : nat) : R (list addr) :=
  fun b =>
  match fuel with
  | O => (OutOfFuel, b)
  | S f =>
      match remaining_length b with
      | Ok 0 => (Ok [], b)
      | Ok _ =>
          (let* a1 := read_u8 in let* a2 := read_u8 in let* a3 := read_u8 in let* a4 := read_u8 in
           let* port := read_uint true 2 in
           let* rest := parse_addrs f in
           ret ((a1, a2, a3, a4, port) :: rest)) b
      | o => (ofail o, b)
      end
  end.

(* query_specific *)
Definition query_specific (port : N) (region : N) (fb : bytes) (last : addr) : M (list addr) :=
  do* _ := send port (construct_payload region fb last) in
  do* data := udp_recv (Some 1400) in
  mlift (fst ((let* h := read_uint true 4 in
               let* k := read_uint true 2 in
               if negb (h =? 4294967295) || negb (k =? 26122) then fail PacketBad
               else parse_addrs (S (length data))) (buf_new data))).

Definition is_terminator (a : addr) : bool :=
  let '(a1, a2, a3, a4, p) := a in (a1 =? 0) && (a2 =? 0) && (a3 =? 0) && (a4 =? 0) && (p =? 0).
Definition addr_eqb (a b : addr) : bool :=
  let '(a1, a2, a3, a4, p) := a in let '(b1, b2, b3, b4, q) := b in
  (a1 =? b1) && (a2 =? b2) && (a3 =? b3) && (a4 =? b4) && (p =? q).

(* ValveMasterServer::query: the paging loop; every page consumes a script event *)
Fixpoint paging (fuel : nat) (port region : N) (fb : bytes) (last : addr) (acc : list addr) : M (list addr) :=
  match fuel with
  | O => fun n => (OutOfFuel, n)
  | S f =>
      do* new_ips := query_specific port region fb last in
      let '(before, after) := span_until is_terminator new_ips in
      match after with
      | _ :: _ => mret (acc ++ before)
      | [] =>
          match rev new_ips with
          | [] => mret acc
          | latest :: _ =>
              if addr_eqb latest last then mret (acc ++ new_ips)
              else paging f port region fb latest (acc ++ new_ips)
          end
      end
  end.

Definition zero_addr : addr := (0, 0, 0, 0, 0).
(* ValveMasterServer::new + query: the socket always uses the default timeouts *)
Definition master_query (port region : N) (fb : bytes) : M (list addr) :=
  do* _ := udp_new port None in
  fun n => paging (S (length (n_udp n))) port region fb zero_addr [] n.
Definition master_query_specific (port region : N) (fb : bytes) (last : addr) : M (list addr) :=
  do* _ := udp_new port None in query_specific port region fb last.

(* canonical rendering (the HashMap iteration order is not observable): the
   chunks of each group sorted bytewise *)
Fixpoint bytes_ltb (a b : bytes) : bool :=
  match a, b with
  | [], [] => false
  | [], _ :: _ => true
  | _ :: _, [] => false
  | x :: a', y :: b' => if x <? y then true else if y <? x then false else bytes_ltb a' b'
  end.
Fixpoint insert_b (x : bytes) (l : list bytes) : list bytes :=
  match l with [] => [x] | y :: r => if bytes_ltb x y then x :: l else y :: insert_b x r end.
Definition sort_b (l : list bytes) : list bytes := fold_right insert_b [] l.
Definition nonempty_b (l : list bytes) : list bytes := filter (fun b => match b with [] => false | _ => true end) l.
Definition special_of (name : string) (fb : list bytes) : bytes :=
  match fb with [] => [] | _ => [92] ++ str name ++ [92] ++ show_N (lenN fb) ++ concat fb end.
Definition sf_bytes_canon (s : search_filters) : bytes :=
  concat (sort_b (nonempty_b (map filter_bytes (map snd (sf_plain s)))))
  ++ special_of "nand" (sort_b (nonempty_b (map filter_bytes (map snd (sf_nand s)))))
  ++ special_of "nor" (sort_b (nonempty_b (map filter_bytes (map snd (sf_nor s))))) ++ [0].
