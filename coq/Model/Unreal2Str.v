(* Model of Unreal2StringDecoder (protocols/unreal2/protocol.rs). *)
From GD Require Import Base.Prelude Model.Strings Model.Buffer.

(* encoding_rs WINDOWS_1252 (WHATWG index), 0x80..0x9F *)
Definition w1252_high : list N :=
  [8364; 129; 8218; 402; 8222; 8230; 8224; 8225; 710; 8240; 352; 8249; 338; 141; 381; 143;
   144; 8216; 8217; 8220; 8221; 8226; 8211; 8212; 732; 8482; 353; 8250; 339; 157; 382; 376].
Definition w1252 (b : N) : N :=
  if in_rng 128 159 b then nth (N.to_nat (b - 128)) w1252_high b else b.

(* the colour filter: after 0x1b drop it and the next three characters *)
Fixpoint strip_colour (skip : N) (l : list N) : list N :=
  match l with
  | [] => []
  | c :: r =>
      if c =? 27 then strip_colour 4 r
      else let skip' := skip - 1 in      (* saturating_sub on N *)
           if skip' =? 0 then c :: strip_colour skip' r else strip_colour skip' r
  end.
Definition strip_control (l : list N) : list N :=
  filter (fun c => negb ((0 <? c) && (c <=? 26))) l.
Fixpoint trim_start_nul (l : list N) : list N :=
  match l with 0 :: r => trim_start_nul r | _ => l end.
Definition trim_nul (l : list N) : list N :=
  rev (trim_start_nul (rev (trim_start_nul l))).
Definition u2_clean (l : list N) : list N := trim_nul (strip_control (strip_colour 0 l)).

(* encoding_rs UTF_16LE without BOM handling: had_errors on unpaired surrogates
   (the length is always even here) *)
Definition dec_unreal2 : R bytes := with_slice (fun data b =>
  match data with
  | [] => (Err PacketBad, b)
  | l :: tl =>
      if 128 <=? l then
        let len := N.to_nat ((l mod 128) * 2) in
        let '(start, body) := match tl with 1 :: tl' => (2%nat, tl') | _ => (1%nat, tl) end in
        match take_n len body with
        | None => (Err PacketBad, b)
        | Some (sd, _) =>
            match utf16_scalars (u16_units false sd) with
            | None => (Err PacketBad, b)
            | Some sc => (Ok (utf8_encode (u2_clean sc)), advance (start + len) b)
            end
        end
      else
        let len := N.to_nat l in
        match take_n len tl with
        | None => (Err PacketBad, b)
        | Some (sd, _) => (Ok (utf8_encode (u2_clean (map w1252 sd))), advance (1 + len) b)
        end
  end).
