(* Canonical text of Valve values; must equal the harness's serde-driven
   rendering of the real structs (field names in declaration order). *)
From GD Require Import Base.Prelude Model.Strings Model.Buffer Model.Net Model.Valve.

Fixpoint bytes_ltb (a b : bytes) : bool :=
  match a, b with
  | [], [] => false
  | [], _ :: _ => true
  | _ :: _, [] => false
  | x :: a', y :: b' => if x <? y then true else if y <? x then false else bytes_ltb a' b'
  end.
Fixpoint insert_kv (kv : bytes * bytes) (l : list (bytes * bytes)) : list (bytes * bytes) :=
  match l with
  | [] => [kv]
  | q :: r => if bytes_ltb (fst kv) (fst q) then kv :: l else q :: insert_kv kv r
  end.
(* maps are printed sorted by the rendered key *)
Definition show_map (m : list (bytes * bytes)) : bytes :=
  let rendered := map (fun kv => (show_str (fst kv), show_str (snd kv))) m in
  let sorted := fold_right insert_kv [] rendered in
  str "{" ++ intercalate (str ",") (map (fun kv => fst kv ++ str ":" ++ snd kv) sorted) ++ str "}".

Definition fld (name : string) (v : bytes) : bytes := str name ++ str ":" ++ v.
Definition show_struct (fs : list bytes) : bytes := str "{" ++ intercalate (str ",") fs ++ str "}".
Definition show_f32 (bits : N) : bytes := str "f" ++ show_N bits.

Definition show_server_type (s : server_type) : bytes :=
  match s with Dedicated => str "Dedicated" | NonDedicated => str "NonDedicated" | TV => str "TV" end.
Definition show_environment (s : environment) : bytes :=
  match s with Linux => str "Linux" | Windows => str "Windows" | Mac => str "Mac" end.
Definition show_ship (s : the_ship) : bytes :=
  show_struct [fld "mode" (show_N (ship_mode s)); fld "witnesses" (show_N (ship_witnesses s));
               fld "duration" (show_N (ship_duration s))].
Definition show_extra (e : extra_data) : bytes :=
  show_struct [fld "port" (show_option show_N (ed_port e)); fld "steam_id" (show_option show_N (ed_steam_id e));
               fld "tv_port" (show_option show_N (ed_tv_port e)); fld "tv_name" (show_option show_str (ed_tv_name e));
               fld "keywords" (show_option show_str (ed_keywords e)); fld "game_id" (show_option show_N (ed_game_id e))].
Definition show_mod (m : mod_data) : bytes :=
  show_struct [fld "link" (show_str (md_link m)); fld "download_link" (show_str (md_download_link m));
               fld "version" (show_N (md_version m)); fld "size" (show_N (md_size m));
               fld "multiplayer_only" (show_bool (md_multiplayer_only m)); fld "has_own_dll" (show_bool (md_has_own_dll m))].
Definition show_info (i : server_info) : bytes :=
  show_struct [fld "protocol_version" (show_N (si_protocol_version i)); fld "name" (show_str (si_name i));
               fld "map" (show_str (si_map i)); fld "folder" (show_str (si_folder i));
               fld "game_mode" (show_str (si_game_mode i)); fld "appid" (show_N (si_appid i));
               fld "players_online" (show_N (si_players_online i)); fld "players_maximum" (show_N (si_players_maximum i));
               fld "players_bots" (show_N (si_players_bots i)); fld "server_type" (show_server_type (si_server_type i));
               fld "environment_type" (show_environment (si_environment_type i));
               fld "has_password" (show_bool (si_has_password i)); fld "vac_secured" (show_bool (si_vac_secured i));
               fld "the_ship" (show_option show_ship (si_the_ship i)); fld "game_version" (show_str (si_game_version i));
               fld "extra_data" (show_option show_extra (si_extra_data i)); fld "is_mod" (show_bool (si_is_mod i));
               fld "mod_data" (show_option show_mod (si_mod_data i))].
Definition show_player (p : server_player) : bytes :=
  show_struct [fld "name" (show_str (sp_name p)); fld "score" (show_Z (sp_score p));
               fld "duration" (show_f32 (sp_duration p)); fld "deaths" (show_option show_N (sp_deaths p));
               fld "money" (show_option show_N (sp_money p))].
Definition show_response (r : response) : bytes :=
  show_struct [fld "info" (show_info (r_info r));
               fld "players" (show_option (show_list show_player) (r_players r));
               fld "rules" (show_option show_map (r_rules r))].
