(* Model of crates/lib/src/buffer.rs (Buffer, the string decoders) and of the
   Minecraft VarInt / string codecs in games/minecraft/types.rs.

   A reader is a zipper over the packet: [pre_rev] are the consumed bytes
   (reversed), [rest] the bytes from the cursor on. [over] > 0 represents a
   cursor that is past the end of the data (cursor = len + over), a state the
   Rust struct can hold and on which several methods panic; C17 proves it is
   never reached. The Rust cursor is [|pre_rev| + over]. *)
From GD Require Import Base.Prelude Model.Strings.

Record buf := mkbuf { pre_rev : bytes; rest : bytes; over : N }.

Definition R (A : Type) := buf -> outcome A * buf.
Definition ret {A} (a : A) : R A := fun b => (Ok a, b).
Definition fail {A} (e : ekind) : R A := fun b => (Err e, b).
Definition bind {A B} (m : R A) (f : A -> R B) : R B := fun b =>
  match m b with
  | (Ok a, b') => f a b'
  | (Err e, b') => (Err e, b')
  | (Panic s, b') => (Panic s, b')
  | (Abort s, b') => (Abort s, b')
  | (OutOfFuel, b') => (OutOfFuel, b')
  end.
Notation "'let*' x ':=' m 'in' f" := (bind m (fun x => f))
  (at level 200, x name, m at level 100, f at level 200, right associativity).
Notation "'let*' ' p ':=' m 'in' f" := (bind m (fun x => match x with p => f end))
  (at level 200, p pattern, m at level 100, f at level 200, right associativity).
Definition lift {A} (o : outcome A) : R A := fun b => (o, b).

Definition buf_new (d : bytes) : buf := mkbuf [] d 0.
Definition buf_data (b : buf) : bytes := rev_append (pre_rev b) (rest b).
Definition cursor (b : buf) : N := lenN (pre_rev b) + over b.
Definition data_length (b : buf) : N := lenN (pre_rev b) + lenN (rest b).

(* the invariant of C17: the cursor is inside the packet *)
Definition buf_inv (b : buf) : Prop := over b = 0.
Definition buf_invb (b : buf) : bool := over b =? 0.
(* structural well-formedness of the representation: over > 0 only at the end *)
Definition buf_wf (b : buf) : Prop := over b = 0 \/ rest b = [].

(* remaining_length(): data.len() - cursor, panics on underflow *)
Definition remaining_length (b : buf) : outcome N :=
  if over b =? 0 then Ok (lenN (rest b)) else Panic site_remaining_length.
(* remaining_bytes(): &data[cursor..], panics when cursor > len *)
Definition remaining_bytes (b : buf) : outcome bytes :=
  if over b =? 0 then Ok (rest b) else Panic site_slice.

(* cursor += n *)
Definition advance (n : nat) (b : buf) : buf :=
  match take_n n (rest b) with
  | Some (x, r) => mkbuf (rev_append x (pre_rev b)) r (over b)
  | None => mkbuf (rev_append (rest b) (pre_rev b)) []
                  (over b + (N.of_nat n - lenN (rest b)))
  end.

(* read::<T>() for a T of [w] bytes: the raw bytes *)
Definition read_raw (w : nat) : R bytes := fun b =>
  if over b =? 0 then
    match take_n w (rest b) with
    | Some (x, r) => (Ok x, mkbuf (rev_append x (pre_rev b)) r 0)
    | None => (Err PacketUnderflow, b)
    end
  else (Panic site_remaining_length, b).

(* byte order: false = LittleEndian, true = BigEndian *)
Definition val_of (be : bool) (l : bytes) : N := if be then be_val l else le_val l.
Definition read_uint (be : bool) (w : nat) : R N :=
  let* x := read_raw w in ret (val_of be x).
Definition read_int (be : bool) (w : nat) : R Z :=
  let* x := read_raw w in ret (to_signed (8 * N.of_nat w) (val_of be x)).
Definition read_u8 : R N := read_uint false 1.

(* go back n bytes from a position with over = 0 *)
Fixpoint retreat (n : nat) (pre rest : bytes) : option (bytes * bytes) :=
  match n with
  | O => Some (pre, rest)
  | S n' => match pre with
            | [] => None
            | x :: p => retreat n' p (x :: rest)
            end
  end.

(* move_cursor(offset): isize arithmetic. A slice is never longer than
   isize::MAX bytes, so when checked_add overflows the mathematical sum is
   < 0 or > len and the bounds test below answers PacketBad as well; the
   overflow test is therefore not modelled separately. *)
Definition move_cursor (off : Z) : R unit := fun b =>
  let new := (Z.of_N (cursor b) + off)%Z in
  if (new <? 0)%Z || (Z.of_N (data_length b) <? new)%Z
  then (Err PacketBad, b)
  else
    (* distance from the zipper position (= len when over > 0) *)
    let d := (off + Z.of_N (over b))%Z in
    if (0 <=? d)%Z then
      match take_n (Z.to_nat d) (rest b) with
      | Some (x, r) => (Ok tt, mkbuf (rev_append x (pre_rev b)) r 0)
      | None => (Err PacketBad, b)       (* unreachable: new <= len *)
      end
    else
      match retreat (Z.to_nat (- d)) (pre_rev b) (rest b) with
      | Some (p, r) => (Ok tt, mkbuf p r 0)
      | None => (Err PacketBad, b)       (* unreachable: new >= 0 *)
      end.

(* switch_endian_chunk(size): returns the chunk as a fresh reader *)
Definition switch_endian_chunk (size : nat) : R buf := fun b =>
  match move_cursor (Z.of_nat size) b with
  | (Ok _, b') =>
      match take_n size (rest b) with
      | Some (x, _) => (Ok (buf_new x), b')
      | None => (Panic site_slice, b')
      end
  | (o, b') => (ofail o, b')
  end.

(* ---- string decoders ---- *)

(* read_string's own guard: cursor > data_length() => PacketUnderflow *)
Definition with_slice {A} (f : bytes -> buf -> outcome A * buf) : R A := fun b =>
  if over b =? 0 then f (rest b) b else (Err PacketUnderflow, b).

(* Utf8Decoder with delimiter d *)
Definition dec_utf8 (d : N) : R bytes := with_slice (fun data b =>
  let '(s, _) := span_until (N.eqb d) data in
  let position := length s in
  if utf8_valid s
  then (Ok s, advance (Nat.min (position + 1) (length data)) b)
  else (Err PacketBad, b)).

(* Utf8LengthPrefixedDecoder with delimiter d *)
Definition dec_utf8_lp (d : N) : R bytes := with_slice (fun data b =>
  match data with
  | [] => (Err PacketBad, b)
  | len :: tl =>
      let window := firstn (N.to_nat len) tl in
      let '(s, after) := span_until (N.eqb d) window in
      let position := match after with [] => N.to_nat len | _ => length s end in
      match take_n position tl with
      | None => (Err PacketUnderflow, b)
      | Some (s', _) =>
          if utf8_valid s' then (Ok s', advance (position + 1) b)
          else (Err PacketBad, b)
      end
  end).

(* Utf16Decoder<B> with delimiter (d0,d1); [be] is the decoder's byte order *)
Definition dec_utf16 (be : bool) (d0 d1 : N) : R bytes := with_slice (fun data b =>
  let len := length data in
  let position := match find_pair d0 d1 data with
                  | Some k => 2 * k
                  | None => len - Nat.modulo len 2
                  end%nat in
  match utf16_scalars (u16_units be (firstn position data)) with
  | Some sc => (Ok (utf8_encode sc), advance (Nat.min (position + 2) len) b)
  | None => (Err PacketBad, b)
  end).

(* ---- Minecraft VarInt and string ---- *)

(* get_varint: up to 5 bytes, 7 bits each, little-endian groups; the result is
   the i32 with that bit pattern. [i] is the loop index, [acc] the u32 pattern. *)
Fixpoint get_varint_loop (n : nat) (i : N) (acc : N) : R Z :=
  match n with
  | O => ret (to_signed 32 acc)
  | S n' =>
      let* c := read_u8 in
      let acc' := N.lor acc (((c mod 128) * 2 ^ (7 * i)) mod 2 ^ 32) in
      if (i =? 4) && negb (N.land c 240 =? 0) then fail PacketBad
      else if N.land c 128 =? 0 then ret (to_signed 32 acc')
      else get_varint_loop n' (i + 1) acc'
  end.
Definition get_varint : R Z := get_varint_loop 5 0 0.

(* as_varint on the u32 bit pattern v of the i32 *)
Fixpoint as_varint_loop (n : nat) (v : N) : bytes :=
  match n with
  | O => []
  | S n' =>
      let tmp := v mod 128 in
      let v' := v / 128 in            (* clear low 7 bits, rotate right 7 *)
      if v' =? 0 then [tmp] else (tmp + 128) :: as_varint_loop n' v'
  end.
Definition as_varint (z : Z) : bytes := as_varint_loop 5 (of_signed 32 z).

(* get_string: VarInt length (as usize), bounded by the remaining bytes (after
   the fix), then that many bytes validated as UTF-8 *)
Definition get_string : R bytes :=
  let* len := get_varint in
  let ulen := of_signed 64 len in
  fun b =>
    match remaining_length b with
    | Ok rem =>
        if rem <? ulen then (Err PacketUnderflow, b)
        else match read_raw (N.to_nat ulen) b with
             | (Ok s, b') => if utf8_valid s then (Ok s, b') else (Err PacketBad, b')
             | (o, b') => (ofail o, b')
             end
    | o => (ofail o, b)
    end.

(* as_string: Err InvalidInput when the byte length does not fit an i32 *)
Definition as_string (s : bytes) : outcome bytes :=
  if lenN s <? 2 ^ 31 then Ok (as_varint (Z.of_N (lenN s)) ++ s) else Err InvalidInput.

(* utils.rs *)
Definition u8_lower_upper (n : N) : N * N := (N.land n 15, N.shiftr n 4).
Definition error_by_expected_size (expected size : N) : outcome unit :=
  if expected <? size then Err PacketOverflow
  else if size <? expected then Err PacketUnderflow else Ok tt.
