(* The view functions of Model/View.v instantiated with the tables translated
   from /repo (Gen/CommonImpls.v). *)
From GD Require Import Base.Prelude Model.View Gen.CommonImpls.
Require Import String.

Definition i_response_acc := response_acc response_defaults response_impls.
Definition i_player_acc := player_acc player_defaults player_impls.
Definition i_player_json := player_json player_defaults player_json_body player_impls.
Definition i_response_json :=
  response_json response_defaults player_defaults response_json_body player_json_body response_impls player_impls.
