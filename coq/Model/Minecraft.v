(* Model of games/minecraft/protocol/{mod,java,bedrock,legacy_v1_6,legacy_v1_4,
   legacy_vb1_8}.rs (C03), after the fix c04dbbc (kick packet length without
   u16 overflow). serde_json::from_str is an oracle carried by the case (JSON
   text -> parsed value, or invalid); the mapping of the parsed value to the
   response, Value::to_string (compact, keys sorted) and everything else is
   modelled. *)
From GD Require Import Base.Prelude Model.Strings Model.StrOps Model.Buffer Model.Net Model.Valve Model.ValveShow Model.Gamespy Model.View.
Require Import String.

Inductive legacy_group := V1_6 | V1_4 | VB1_8.
Inductive mc_server := McJava | McLegacy (g : legacy_group) | McBedrock.
Inductive mc_gamemode := GSurvival | GCreative | GHardcore | GSpectator | GAdventure.
Record mc_player := mk_mcp { mp_name : bytes; mp_id : bytes }.
Record java_response := mk_java {
  jr_game_version : bytes; jr_protocol_version : Z; jr_players_maximum : N; jr_players_online : N;
  jr_players : option (list mc_player); jr_description : bytes; jr_favicon : option bytes;
  jr_previews_chat : option bool; jr_enforces_secure_chat : option bool; jr_server_type : mc_server }.
Record bedrock_response := mk_bedrock {
  br_edition : bytes; br_name : bytes; br_version_name : bytes; br_protocol_version : bytes;
  br_players_maximum : N; br_players_online : N; br_id : option bytes; br_map : option bytes;
  br_game_mode : option mc_gamemode; br_server_type : mc_server }.
Record request_settings := mk_rs { rs_hostname : bytes; rs_protocol_version : Z }.
Definition rs_default : request_settings := mk_rs (str "gamedig") (-1).

(* ---- serde_json: Value indexing, accessors, to_string ---- *)
Definition jidx (k : string) (v : jv) : jv := match jfield k v with Some x => x | None => JNull end.
Definition as_str (v : jv) : option bytes := match v with JStr s => Some s | _ => None end.
Definition as_i64 (v : jv) : option Z :=
  match v with JNum z => if ((- 9223372036854775808 <=? z) && (z <? 9223372036854775808))%Z then Some z else None | _ => None end.
Definition as_u64 (v : jv) : option N :=
  match v with JNum z => if ((0 <=? z) && (z <? 18446744073709551616))%Z then Some (Z.to_N z) else None | _ => None end.
Definition as_bool (v : jv) : option bool := match v with JBool b => Some b | _ => None end.
Definition is_null (v : jv) : bool := match v with JNull => true | _ => false end.
Definition json_escape_char (c : N) : bytes :=
  if c =? 34 then [92; 34] else if c =? 92 then [92; 92]
  else if c =? 8 then [92; 98] else if c =? 12 then [92; 102] else if c =? 10 then [92; 110]
  else if c =? 13 then [92; 114] else if c =? 9 then [92; 116]
  else if c <? 32 then [92; 117; 48; 48; hex_digit (c / 16); hex_digit (c mod 16)]
  else [c].
Definition json_string (s : bytes) : bytes := [34] ++ flat_map json_escape_char s ++ [34].
Fixpoint json_to_string (v : jv) : bytes :=
  match v with
  | JNull => str "null"
  | JBool b => show_bool b
  | JNum z => show_Z z
  | JStr s => json_string s
  | JList l => str "[" ++ intercalate (str ",") (map json_to_string l) ++ str "]"
  | JObj l => str "{" ++ intercalate (str ",") (map (fun kv => json_string (str (fst kv)) ++ str ":" ++ json_to_string (snd kv)) l) ++ str "}"
  end.

(* ---- Java ---- *)
Definition to_i32 (z : Z) : Z := to_signed 32 (Z.to_N (z mod 4294967296)).
Definition java_of_value (v : jv) : outcome java_response :=
  ob* gv := need (as_str (jidx "name" (jidx "version" v))) PacketBad in
  ob* pv := need (as_i64 (jidx "protocol" (jidx "version" v))) PacketBad in
  ob* maxp := need (as_u64 (jidx "max" (jidx "players" v))) PacketBad in
  ob* online := need (as_u64 (jidx "online" (jidx "players" v))) PacketBad in
  let sample := jidx "sample" (jidx "players" v) in
  ob* players :=
    (if is_null sample then Ok None
     else match sample with
          | JList l => ob* ps := omap_list (fun p => ob* n := need (as_str (jidx "name" p)) PacketBad in
                                                     ob* i := need (as_str (jidx "id" p)) PacketBad in Ok (mk_mcp n i)) l in
                       Ok (Some ps)
          | _ => Err PacketBad
          end) in
  Ok (mk_java gv (to_i32 pv) (maxp mod 2 ^ 32) (online mod 2 ^ 32) players (json_to_string (jidx "description" v))
              (as_str (jidx "favicon" v)) (as_bool (jidx "previewsChat" v)) (as_bool (jidx "enforcesSecureChat" v)) McJava).

Section WithJson.
  (* serde_json::from_str: None = the case carries no answer (the model abstains) *)
  Variable json : bytes -> option (option jv).

  Definition mc_send (port : N) (data : bytes) : M unit :=
    send port (as_varint (Z.of_N (lenN data mod 2 ^ 32)) ++ data).
  Definition java_info_impl (port : N) (rs : request_settings) : M java_response :=
    do* hs := mlift (as_string (rs_hostname rs)) in
    do* _ := mc_send port ([0] ++ as_varint (rs_protocol_version rs) ++ hs ++ le_bytes 2 port ++ [1]) in
    do* _ := mc_send port [0] in
    do* _ := mc_send port [1] in
    do* data := tcp_recv None in
    do* body := mlift (run_r (let* _ := get_varint in fun b => (remaining_bytes b, b)) data) in
    do* js := mlift (run_r (let* id := get_varint in
                            if negb (id =? 0)%Z then fail PacketBad else get_string) body) in
    match json js with
    | None => mpanic 99
    | Some None => mfail JsonParse
    | Some (Some v) => mlift (java_of_value v)
    end.
  Definition query_java (port : N) (t : option tsettings) (rs : option request_settings) : M java_response :=
    do* _ := tcp_new port t in
    retry_on_timeout (ts_retries_or_default t)
      (java_info_impl port (match rs with Some r => r | None => rs_default end)).

  (* ---- Bedrock ---- *)
  Definition bedrock_ping : bytes :=
    [1; 17; 34; 51; 68; 85; 102; 119; 136; 0; 255; 255; 0; 254; 254; 254; 254; 253; 253; 253; 253; 18; 52;
     86; 120; 0; 0; 0; 0; 0; 0; 0; 0].
  Definition gamemode_of (s : bytes) : outcome mc_gamemode :=
    if bytes_eqb s (str "Survival") then Ok GSurvival else if bytes_eqb s (str "Creative") then Ok GCreative
    else if bytes_eqb s (str "Hardcore") then Ok GHardcore else if bytes_eqb s (str "Spectator") then Ok GSpectator
    else if bytes_eqb s (str "Adventure") then Ok GAdventure else Err UnknownEnumCast.
  Definition bedrock_parse : R bedrock_response :=
    let* id := read_u8 in
    if negb (id =? 28) then fail PacketBad else
    let* nonce := read_uint false 8 in
    if negb (nonce =? 9833440827789222417) then fail PacketBad else
    let* _ := move_cursor 8 in
    let* m1 := read_uint false 8 in
    if negb (m1 =? 18374403896610127616) then fail PacketBad else
    let* m2 := read_uint false 8 in
    if negb (m2 =? 8671175388723805693) then fail PacketBad else
    let* chunk := switch_endian_chunk 2 in
    let* len := lift (fst (read_uint true 2 chunk)) in
    fun b =>
      match remaining_length b with
      | Ok rem =>
          (let* _ := lift (error_by_expected_size len rem) in
           let* s := read_cstr in
           let st := split 59 s in
           if (List.length st <? 6)%nat then fail PacketBad
           else
             let g i := nth i st [] in
             let* maxp := lift (need (parse_unsigned u32_max (g 5%nat)) TypeParse) in
             let* online := lift (need (parse_unsigned u32_max (g 4%nat)) TypeParse) in
             let* gm := lift (match nth_error st 8 with
                              | None => Ok None
                              | Some v => ob* m := gamemode_of v in Ok (Some m)
                              end) in
             ret (mk_bedrock (g 0%nat) (g 1%nat) (g 3%nat) (g 2%nat) maxp online (nth_error st 6) (nth_error st 7) gm McBedrock)) b
      | o => (ofail o, b)
      end.
  Definition bedrock_info_impl (port : N) : M bedrock_response :=
    do* _ := send port bedrock_ping in
    do* d := udp_recv None in
    mlift (run_r bedrock_parse d).
  Definition query_bedrock (port : N) (t : option tsettings) : M bedrock_response :=
    do* _ := udp_new port t in
    retry_on_timeout (ts_retries_or_default t) (bedrock_info_impl port).

  (* ---- legacy ---- *)
  Definition read_u16s : R bytes := dec_utf16 true 0 0.
  Definition legacy_header (data : bytes) : R unit :=
    let* id := read_u8 in
    if negb (id =? 255) then fail ProtocolFormat
    else let* len := read_uint true 2 in lift (error_by_expected_size (len * 2 + 3) (lenN data)).
  Definition is_v16 : R bool := fun b =>
    match remaining_bytes b with
    | Ok r => if starts_with [0; 167; 0; 49; 0; 0] r
              then (let* _ := move_cursor 6 in ret true) b else (Ok false, b)
    | o => (ofail o, b)
    end.
  Definition v16_response : R java_response :=
    let* pvs := read_u16s in let* pv := lift (need (parse_signed 32 pvs) PacketBad) in
    let* gv := read_u16s in let* desc := read_u16s in
    let* ons := read_u16s in let* online := lift (need (parse_unsigned u32_max ons) PacketBad) in
    let* mxs := read_u16s in let* maxp := lift (need (parse_unsigned u32_max mxs) PacketBad) in
    ret (mk_java gv pv maxp online None desc None None None (McLegacy V1_6)).
  (* split on the two bytes of U+00A7 *)
  Fixpoint split_sect (s : bytes) (cur : bytes) : list bytes :=
    match s with
    | 194 :: 167 :: r => rev cur :: split_sect r []
    | c :: r => split_sect r (c :: cur)
    | [] => [rev cur]
    end.
  Definition old_response (version : string) (g : legacy_group) : R java_response :=
    let* s := read_u16s in
    let sp := split_sect s [] in
    let* _ := lift (error_by_expected_size 3 (lenN sp)) in
    let* online := lift (need (parse_unsigned u32_max (nth 1 sp [])) PacketBad) in
    let* maxp := lift (need (parse_unsigned u32_max (nth 2 sp [])) PacketBad) in
    ret (mk_java (str version) (-1) maxp online None (nth 0 sp []) None None None (McLegacy g)).
  Definition legacy_parse (g : legacy_group) (data : bytes) : outcome java_response :=
    run_r (let* _ := legacy_header data in
           match g with
           | V1_6 => let* is := is_v16 in if is then v16_response else fail ProtocolFormat
           | V1_4 => let* is := is_v16 in if is then v16_response else old_response "1.4+" V1_4
           | VB1_8 => old_response "Beta 1.8+" VB1_8
           end) data.
  Definition legacy_request (g : legacy_group) : bytes :=
    match g with
    | V1_6 => [254; 1; 250; 0; 7; 0; 71; 0; 97; 0; 109; 0; 101; 0; 68; 0; 105; 0; 103]
    | V1_4 => [254; 1]
    | VB1_8 => [254]
    end.
  Definition legacy_info_impl (g : legacy_group) (port : N) : M java_response :=
    do* _ := send port (legacy_request g) in
    do* d := tcp_recv None in
    mlift (legacy_parse g d).
  Definition query_legacy_specific (g : legacy_group) (port : N) (t : option tsettings) : M java_response :=
    do* _ := tcp_new port t in
    retry_on_timeout (ts_retries_or_default t) (legacy_info_impl g port).

  (* "if let Ok(r) = a { return Ok(r) }": an error of any kind moves on *)
  Definition or_else {A} (a : M A) (b : M A) : M A := fun n =>
    match a n with
    | (Err _, n') => b n'
    | r => r
    end.
  Definition query_legacy (port : N) (t : option tsettings) : M java_response :=
    or_else (query_legacy_specific V1_6 port t)
      (or_else (query_legacy_specific V1_4 port t)
         (or_else (query_legacy_specific VB1_8 port t) (mfail AutoQuery))).
  Definition java_of_bedrock (b : bedrock_response) : java_response :=
    mk_java (br_version_name b) 0 (br_players_maximum b) (br_players_online b) None (br_name b) None None None McBedrock.
  Definition query_auto (port : N) (t : option tsettings) (rs : option request_settings) : M java_response :=
    or_else (query_java port t rs)
      (or_else (do* b := query_bedrock port t in mret (java_of_bedrock b))
         (or_else (query_legacy port t) (mfail AutoQuery))).
End WithJson.

(* ---- rendering ---- *)
Definition show_group (g : legacy_group) : bytes := match g with V1_6 => str "V1_6" | V1_4 => str "V1_4" | VB1_8 => str "VB1_8" end.
Definition show_mc_server (s : mc_server) : bytes :=
  match s with McJava => str "Java" | McBedrock => str "Bedrock" | McLegacy g => str "Legacy(" ++ show_group g ++ str ")" end.
Definition show_mc_gamemode (g : mc_gamemode) : bytes :=
  match g with GSurvival => str "Survival" | GCreative => str "Creative" | GHardcore => str "Hardcore"
             | GSpectator => str "Spectator" | GAdventure => str "Adventure" end.
Definition show_java (r : java_response) : bytes :=
  show_struct [fld "game_version" (show_str (jr_game_version r)); fld "protocol_version" (show_Z (jr_protocol_version r));
               fld "players_maximum" (show_N (jr_players_maximum r)); fld "players_online" (show_N (jr_players_online r));
               fld "players" (show_option (show_list (fun p => show_struct [fld "name" (show_str (mp_name p)); fld "id" (show_str (mp_id p))])) (jr_players r));
               fld "description" (show_str (jr_description r)); fld "favicon" (show_option show_str (jr_favicon r));
               fld "previews_chat" (show_option show_bool (jr_previews_chat r));
               fld "enforces_secure_chat" (show_option show_bool (jr_enforces_secure_chat r));
               fld "server_type" (show_mc_server (jr_server_type r))].
Definition show_bedrock (r : bedrock_response) : bytes :=
  show_struct [fld "edition" (show_str (br_edition r)); fld "name" (show_str (br_name r));
               fld "version_name" (show_str (br_version_name r)); fld "protocol_version" (show_str (br_protocol_version r));
               fld "players_maximum" (show_N (br_players_maximum r)); fld "players_online" (show_N (br_players_online r));
               fld "id" (show_option show_str (br_id r)); fld "map" (show_option show_str (br_map r));
               fld "game_mode" (show_option show_mc_gamemode (br_game_mode r)); fld "server_type" (show_mc_server (br_server_type r))].
