(* C07, Eco (games/eco): the /frontpage JSON document -> Response.
   serde_json turns the body into the Root / Info structs (every Info member is
   required, unknown members are ignored, a member of the wrong JSON type is an
   error) and From<Root> copies each Info member into the response field of
   games/eco/types.rs; a member of Root or Info that occurs twice is an error
   (serde's "duplicate field"), a key that occurs twice in the achievements
   map keeps its last value. The JSON text -> value step is an oracle: the case
   carries the parsed value as a tree. A JSON number arrives as
   JObj [("$num", JList [JNum z | JNull; JNum bits])]: its integer value when
   the text is an integer, and the bits of the f64 nearest to it. *)
From GD Require Import Base.Prelude Model.Strings Model.Net Model.View Model.ValveShow.
Require Import String.

Inductive ety := TBool | TU32 | TStr | TF64 | TNames | TDict.
Inductive eval :=
| VBool (b : bool) | VU32 (n : N) | VStr (s : bytes) | VF64 (bits : N)
| VNames (l : list bytes) | VDict (l : list (bytes * bytes)).
Definition ty_of (v : eval) : ety :=
  match v with VBool _ => TBool | VU32 _ => TU32 | VStr _ => TStr | VF64 _ => TF64 | VNames _ => TNames | VDict _ => TDict end.

(* (member of Info, its type, field of Response), in the order of the fields of Response *)
Definition eco_table : list (string * ety * string) :=
  [("External", TBool, "external"); ("GamePort", TU32, "port"); ("WebPort", TU32, "query_port"); ("IsLAN", TBool, "is_lan");
   ("Description", TStr, "description"); ("DetailedDescription", TStr, "description_detailed"); ("EconomyDesc", TStr, "description_economy");
   ("Category", TStr, "category"); ("OnlinePlayers", TU32, "players_online"); ("TotalPlayers", TU32, "players_maximum");
   ("OnlinePlayersNames", TNames, "players"); ("AdminOnline", TBool, "admin_online"); ("TimeSinceStart", TF64, "time_since_start");
   ("TimeLeft", TF64, "time_left"); ("Animals", TU32, "animals"); ("Plants", TU32, "plants"); ("Laws", TU32, "laws");
   ("WorldSize", TStr, "world_size"); ("Version", TStr, "game_version"); ("SkillSpecializationSetting", TStr, "skill_specialization_setting");
   ("Language", TStr, "language"); ("HasPassword", TBool, "has_password"); ("HasMeteor", TBool, "has_meteor");
   ("DistributionStationItems", TStr, "distribution_station_items"); ("Playtimes", TStr, "playtimes"); ("DiscordAddress", TStr, "discord_address");
   ("IsPaused", TBool, "is_paused"); ("ActiveAndOnlinePlayers", TU32, "active_and_online_players"); ("PeakActivePlayers", TU32, "peak_active_players");
   ("MaxActivePlayers", TU32, "max_active_players"); ("ShelfLifeMultiplier", TF64, "shelf_life_multiplier");
   ("ExhaustionAfterHours", TF64, "exhaustion_after_hours"); ("IsLimitingHours", TBool, "is_limiting_hours");
   ("ServerAchievementsDict", TDict, "server_achievements_dict"); ("RelayAddress", TStr, "relay_address"); ("Access", TStr, "access");
   ("JoinUrl", TStr, "connect")]%string.

Definition num_parts (v : jv) : option (option Z * N) :=
  match v with
  | JObj [(k, JList [a; JNum b])] =>
      if String.eqb k "$num" then
        match a with JNum z => Some (Some z, Z.to_N b) | JNull => Some (None, Z.to_N b) | _ => None end
      else None
  | _ => None
  end.
Fixpoint all_strs (l : list jv) : option (list bytes) :=
  match l with
  | [] => Some []
  | JStr s :: r => match all_strs r with Some t => Some (s :: t) | None => None end
  | _ :: _ => None
  end.
Fixpoint all_str_members (l : list (string * jv)) : option (list (bytes * bytes)) :=
  match l with
  | [] => Some []
  | (k, JStr s) :: r => match all_str_members r with Some t => Some ((str k, s) :: t) | None => None end
  | _ :: _ => None
  end.
(* HashMap: a later value for a key replaces the earlier one *)
Definition dedup_last (l : list (bytes * bytes)) : list (bytes * bytes) :=
  fold_right (fun kv acc => if existsb (fun q => bytes_eqb (fst kv) (fst q)) acc then acc else kv :: acc) [] l.
(* a struct member: present exactly once *)
Definition member1 (k : string) (l : list (string * jv)) : option jv :=
  match filter (fun kv => String.eqb k (fst kv)) l with [(_, v)] => Some v | _ => None end.
Definition decode (t : ety) (v : jv) : option eval :=
  match t with
  | TBool => match v with JBool b => Some (VBool b) | _ => None end
  | TU32 => match num_parts v with
            | Some (Some z, _) => if ((0 <=? z) && (z <? 4294967296))%Z then Some (VU32 (Z.to_N z)) else None
            | _ => None
            end
  | TStr => match v with JStr s => Some (VStr s) | _ => None end
  | TF64 => match num_parts v with Some (_, bits) => Some (VF64 bits) | None => None end
  | TNames => match v with JList l => option_map VNames (all_strs l) | _ => None end
  | TDict => match v with JObj l => option_map (fun m => VDict (dedup_last m)) (all_str_members l) | _ => None end
  end.

Definition eco_response := list (string * eval).
Fixpoint eco_fields (tbl : list (string * ety * string)) (info : list (string * jv)) : outcome eco_response :=
  match tbl with
  | [] => Ok []
  | (key, t, name) :: r =>
      match member1 key info with
      | Some v => match decode t v with
                  | Some e => match eco_fields r info with Ok rest => Ok ((name, e) :: rest) | o => o end
                  | None => Err ProtocolFormat
                  end
      | None => Err ProtocolFormat
      end
  end.
Definition eco_map (root : jv) : outcome eco_response :=
  match root with
  | JObj members => match member1 "Info"%string members with
                    | Some (JObj info) => eco_fields eco_table info
                    | _ => Err ProtocolFormat
                    end
  | _ => Err ProtocolFormat
  end.

Definition show_eval (e : eval) : bytes :=
  match e with
  | VBool b => show_bool b
  | VU32 n => show_N n
  | VStr s => show_str s
  | VF64 bits => 100 :: show_N bits
  | VNames l => show_list (fun n => show_struct [fld "name" (show_str n)]) l
  | VDict l => show_map l
  end.
Definition show_eco (r : eco_response) : bytes := show_struct (map (fun ne => fld (fst ne) (show_eval (snd ne))) r).
