(* Model of protocols/valve/{protocol,types}.rs (A2S). *)
From GD Require Import Base.Prelude Model.Strings Model.Buffer Model.Net.

Inductive engine := Source (ids : option (N * option N)) | GoldSrc (force : bool).
(* *engine == Engine::new(app) *)
Definition engine_is (e : engine) (app : N) : bool :=
  match e with Source (Some (a, None)) => a =? app | _ => false end.

Inductive server_type := Dedicated | NonDedicated | TV.
Inductive environment := Linux | Windows | Mac.

Record the_ship := mk_ship { ship_mode : N; ship_witnesses : N; ship_duration : N }.
Record extra_data := mk_extra {
  ed_port : option N; ed_steam_id : option N; ed_tv_port : option N;
  ed_tv_name : option bytes; ed_keywords : option bytes; ed_game_id : option N }.
Record mod_data := mk_mod {
  md_link : bytes; md_download_link : bytes; md_version : N; md_size : N;
  md_multiplayer_only : bool; md_has_own_dll : bool }.
Record server_info := mk_info {
  si_protocol_version : N; si_name : bytes; si_map : bytes; si_folder : bytes; si_game_mode : bytes;
  si_appid : N; si_players_online : N; si_players_maximum : N; si_players_bots : N;
  si_server_type : server_type; si_environment_type : environment;
  si_has_password : bool; si_vac_secured : bool; si_the_ship : option the_ship;
  si_game_version : bytes; si_extra_data : option extra_data; si_is_mod : bool; si_mod_data : option mod_data }.
Record server_player := mk_player {
  sp_name : bytes; sp_score : Z; sp_duration : N; sp_deaths : option N; sp_money : option N }.
Definition rules_t := list (bytes * bytes).
Record response := mk_resp {
  r_info : server_info; r_players : option (list server_player); r_rules : option rules_t }.

Record gathering := mk_gather { g_players : toggle; g_rules : toggle; g_check_app_id : bool }.
Definition gathering_default : gathering := mk_gather Try Try true.

(* HashMap<String,String>::insert as an association list, newest binding wins *)
Fixpoint map_insert (k v : bytes) (m : rules_t) : rules_t :=
  match m with
  | [] => [(k, v)]
  | (k', v') :: r => if bytes_eqb k k' then (k, v) :: r else (k', v') :: map_insert k v r
  end.
Definition map_remove (k : bytes) (m : rules_t) : rules_t :=
  filter (fun kv => negb (bytes_eqb k (fst kv))) m.
Fixpoint map_lookup (k : bytes) (m : rules_t) : option bytes :=
  match m with
  | [] => None
  | (k', v') :: r => if bytes_eqb k k' then Some v' else map_lookup k r
  end.

(* CRC-32/ISO-HDLC (crc32fast::hash) *)
Fixpoint crc_bits (n : nat) (c : N) : N :=
  match n with
  | O => c
  | S n' => crc_bits n' (if N.odd c then N.lxor (c / 2) 3988292384 else c / 2)
  end.
Definition crc32 (l : bytes) : N :=
  N.lxor (fold_left (fun c b => crc_bits 8 (N.lxor c b)) l 4294967295) 4294967295.

Definition packet_size : N := 6144.
Definition max_decompressed_size : N := 1048576.

Record split_packet := mk_split {
  sp_header : N; sp_id : N; sp_total : N; sp_number : N; sp_size : N;
  sp_decompressed : option (N * N); sp_payload : bytes }.

Definition read_u16 : R N := read_uint false 2.
Definition read_u32 : R N := read_uint false 4.
Definition read_u64 : R N := read_uint false 8.
Definition read_i32 : R Z := read_int false 4.
Definition read_cstr : R bytes := dec_utf8 0.
Definition rest_bytes : R bytes := fun b => (remaining_bytes b, b).

(* SplitPacket::new *)
Definition split_new (e : engine) (protocol : N) : R split_packet :=
  let* header := read_u32 in
  let* id := read_u32 in
  match e with
  | GoldSrc _ =>
      let* x := read_u8 in
      let '(lower, upper) := u8_lower_upper x in
      let* p := rest_bytes in
      ret (mk_split header id lower upper 0 None p)
  | Source _ =>
      let* total := read_u8 in
      let* number := read_u8 in
      let* size := (if (protocol =? 7) && engine_is e 240 then ret 1248 else read_u16) in
      let compressed := N.testbit id 31 in
      let* dec := (if compressed && (number =? 0)
                   then let* a := read_u32 in let* b := read_u32 in ret (Some (a, b))
                   else ret None) in
      let* p := rest_bytes in
      ret (mk_split header id total number size dec p)
  end.

(* stable insertion sort by packet number (slice::sort_by is stable) *)
Fixpoint insert_split (p : split_packet) (l : list split_packet) : list split_packet :=
  match l with
  | [] => [p]
  | q :: r => if sp_number p <? sp_number q then p :: l else q :: insert_split p r
  end.
Definition sort_splits (l : list split_packet) : list split_packet :=
  fold_right insert_split [] l.

Fixpoint numbered_from (i : N) (l : list split_packet) : bool :=
  match l with
  | [] => true
  | p :: r => (sp_number p =? i) && numbered_from (i + 1) r
  end.

Section WithBunzip.
  (* oracle boundary: bzip2-rs; [bz payload size] is what the Decoder's
     write-then-read leaves in a zeroed buffer of [size] bytes *)
  Variable bz : bytes -> N -> outcome bytes.

  Definition get_payload (p : split_packet) (whole : bytes) : M bytes :=
    match sp_decompressed p with
    | None => mret whole
    | Some (dsize, crc) =>
        if max_decompressed_size <? dsize then mfail Decompress
        else
          do* _ := log (Reserve dsize) in
          do* d := mlift (bz whole dsize) in
          if (lenN d =? dsize) && (crc32 d =? crc) then mret d else mfail Decompress
    end.

  Definition packet_from (data : bytes) : outcome (N * bytes) :=
    fst ((let* _h := read_u32 in let* k := read_u8 in let* p := rest_bytes in ret (k, p)) (buf_new data)).

  (* the remaining total-1 datagrams of a split response *)
  Fixpoint recv_chunks (k : nat) (e : engine) (protocol : N) (first : split_packet) (acc : list split_packet)
    : M (list split_packet) :=
    match k with
    | O => mret (rev acc)
    | S k' =>
        do* d := udp_recv (Some packet_size) in
        do* c := mlift (fst (split_new e protocol (buf_new d))) in
        (* all packets of a response share the split header and the response id *)
        if negb (sp_header c =? sp_header first) || negb (sp_id c =? sp_id first) then mfail PacketBad
        else recv_chunks k' e protocol first (c :: acc)
    end.

  (* what is made of the collected split packets (first received one first) *)
  Definition reassemble (l : list split_packet) : M (N * bytes) :=
    let sorted := sort_splits l in
    if negb (numbered_from 0 sorted) then mfail PacketBad
    else match sorted with
         | [] => mfail PacketBad
         | main :: rest =>
             let whole := sp_payload main ++ flat_map sp_payload rest in
             do* payload := get_payload main whole in
             mlift (packet_from payload)
         end.

  (* ValveProtocol::receive *)
  Definition receive (e : engine) (protocol : N) : M (N * bytes) :=
    do* data := udp_recv (Some packet_size) in
    match data with
    | [] => mfail PacketUnderflow
    | header :: _ =>
        if header =? 254 then
          do* first := mlift (fst (split_new e protocol (buf_new data))) in
          do* others := recv_chunks (N.to_nat (sp_total first) - 1) e protocol first [] in
          reassemble (first :: others)
        else mlift (packet_from data)
    end.

  Definition to_bytes (kind : N) (payload : bytes) : bytes := [255; 255; 255; 255; kind] ++ payload.
  Definition info_payload : bytes := str "Source Engine Query" ++ [0].
  Definition default_payload (kind : N) : bytes :=
    if kind =? 84 then info_payload else [255; 255; 255; 255].

  (* the challenge loop: every iteration consumes at least one script event *)
  Fixpoint challenge_loop (fuel : nat) (port : N) (e : engine) (protocol kind : N) (pk : N * bytes) : M bytes :=
    match fuel with
    | O => fun n => (OutOfFuel, n)
    | S f =>
        let '(k, payload) := pk in
        if k =? 65 then
          let req := to_bytes kind (if kind =? 84 then info_payload ++ payload else payload) in
          do* _ := send port req in
          do* pk' := receive e protocol in
          challenge_loop f port e protocol kind pk'
        else mret payload
    end.

  Definition get_request_data_impl (port : N) (e : engine) (protocol kind : N) (payload : bytes) : M bytes :=
    do* _ := send port (to_bytes kind payload) in
    do* pk := receive e protocol in
    fun n => challenge_loop (S (length (n_udp n))) port e protocol kind pk n.

  Definition get_request_data (port retries : N) (e : engine) (protocol kind : N) : M bytes :=
    retry_on_timeout retries (get_request_data_impl port e protocol kind (default_payload kind)).

  Definition server_type_from (v : N) : outcome server_type :=
    let v := if in_rng 65 90 v then v + 32 else v in
    if v =? 100 then Ok Dedicated else if v =? 108 then Ok NonDedicated
    else if v =? 112 then Ok TV else Err UnknownEnumCast.
  Definition environment_from (v : N) : outcome environment :=
    let v := if in_rng 65 90 v then v + 32 else v in
    if v =? 108 then Ok Linux else if v =? 119 then Ok Windows
    else if (v =? 109) || (v =? 111) then Ok Mac else Err UnknownEnumCast.

  Definition parse_mod_data : R mod_data :=
    let* link := read_cstr in
    let* dl := read_cstr in
    let* _nul := read_u8 in
    let* version := read_u32 in
    let* size := read_u32 in
    let* mp := read_u8 in
    let* dll := read_u8 in
    ret (mk_mod link dl version size (mp =? 1) (dll =? 1)).

  Definition parse_goldsrc_info : R server_info :=
    let* _address := read_cstr in
    let* name := read_cstr in
    let* map := read_cstr in
    let* folder := read_cstr in
    let* game_mode := read_cstr in
    let* players := read_u8 in
    let* max_players := read_u8 in
    let* protocol := read_u8 in
    let* st := read_u8 in
    let* server_type := lift (if st =? 68 then Ok Dedicated else if st =? 76 then Ok NonDedicated
                              else if st =? 80 then Ok TV else Err UnknownEnumCast) in
    let* en := read_u8 in
    let* environment_type := lift (if en =? 76 then Ok Linux else if en =? 87 then Ok Windows
                                   else Err UnknownEnumCast) in
    let* pw := read_u8 in
    let* im := read_u8 in
    let is_mod := im =? 1 in
    let* mod_data := (if is_mod then let* m := parse_mod_data in ret (Some m) else ret None) in
    let* vac := read_u8 in
    let* bots := read_u8 in
    ret (mk_info protocol name map folder game_mode 0 players max_players bots server_type
                 environment_type (pw =? 1) (vac =? 1) None [] None is_mod mod_data).

  Definition opt_read {A} (c : bool) (m : R A) : R (option A) :=
    if c then let* x := m in ret (Some x) else ret None.

  (* the extra data fields selected by the flag byte *)
  Definition parse_edf (value : N) : R extra_data :=
    let* port := opt_read (N.testbit value 7) read_u16 in
    let* steam_id := opt_read (N.testbit value 4) read_u64 in
    let* tv_port := opt_read (N.testbit value 6) read_u16 in
    let* tv_name := opt_read (N.testbit value 6) read_cstr in
    let* keywords := opt_read (N.testbit value 5) read_cstr in
    let* game_id := opt_read (N.testbit value 0) read_u64 in
    ret (mk_extra port steam_id tv_port tv_name keywords game_id).

  Definition parse_source_info (e : engine) : R server_info :=
    let* protocol := read_u8 in
    let* name := read_cstr in
    let* map := read_cstr in
    let* folder := read_cstr in
    let* game_mode := read_cstr in
    let* appid16 := read_u16 in
    let* players := read_u8 in
    let* max_players := read_u8 in
    let* bots := read_u8 in
    let* st := read_u8 in
    let* server_type := lift (server_type_from st) in
    let* en := read_u8 in
    let* environment_type := lift (environment_from en) in
    let* pw := read_u8 in
    let* vac := read_u8 in
    let* ship := opt_read (engine_is e 2400)
                   (let* m := read_u8 in let* w := read_u8 in let* d := read_u8 in ret (mk_ship m w d)) in
    let* game_version := read_cstr in
    fun b =>
      match read_u8 b with
      | (Ok value, b1) =>
          (let* ed := parse_edf value in
           let appid := match ed_game_id ed with Some gid => gid mod 16777216 | None => appid16 end in
           ret (mk_info protocol name map folder game_mode appid players max_players bots server_type
                        environment_type (pw =? 1) (vac =? 1) ship game_version (Some ed) false None)) b1
      | (Err _, b1) =>
          (Ok (mk_info protocol name map folder game_mode appid16 players max_players bots server_type
                       environment_type (pw =? 1) (vac =? 1) ship game_version None false None), b1)
      | (o, b1) => (ofail o, b1)
      end.

  Definition get_server_info (port retries : N) (e : engine) : M server_info :=
    do* data := get_request_data port retries e 0 84 in
    match e with
    | GoldSrc true => mlift (fst (parse_goldsrc_info (buf_new data)))
    | _ => mlift (fst (parse_source_info e (buf_new data)))
    end.

  Fixpoint parse_players (k : nat) (acc : list server_player) : R (list server_player) :=
    match k with
    | O => ret (rev acc)
    | S k' =>
        let* _ := move_cursor 1 in
        let* name := read_cstr in
        let* score := read_i32 in
        let* duration := read_u32 in
        parse_players k' (mk_player name score duration None None :: acc)
    end.
  Fixpoint parse_ship_block (l : list server_player) : R (list server_player) :=
    match l with
    | [] => ret []
    | p :: r =>
        let* deaths := read_u32 in
        let* money := read_u32 in
        let* r' := parse_ship_block r in
        ret (mk_player (sp_name p) (sp_score p) (sp_duration p) (Some deaths) (Some money) :: r')
    end.

  Definition get_server_players (port retries : N) (e : engine) (protocol : N) : M (list server_player) :=
    do* data := get_request_data port retries e protocol 85 in
    mlift (fst ((let* count := read_u8 in
                 let* ps := parse_players (N.to_nat count) [] in
                 if engine_is e 2400 then parse_ship_block ps else ret ps) (buf_new data))).

  Fixpoint parse_rules (k : nat) (acc : rules_t) : R rules_t :=
    match k with
    | O => ret acc
    | S k' =>
        let* name := read_cstr in
        let* value := read_cstr in
        parse_rules k' (map_insert name value acc)
    end.

  Definition get_server_rules (port retries : N) (e : engine) (protocol : N) : M rules_t :=
    do* data := get_request_data port retries e protocol 86 in
    do* rules := mlift (fst ((let* count := read_u16 in parse_rules (N.to_nat count) []) (buf_new data))) in
    mret (if engine_is e 632360 then map_remove (str "Test") rules else rules).

  (* query / get_response *)
  Definition query (port : N) (e : engine) (g : option gathering) (t : option tsettings) : M response :=
    let g := match g with Some g => g | None => gathering_default end in
    do* _ := udp_new port t in
    let retries := ts_retries_or_default t in
    do* info := get_server_info port retries e in
    let bad :=
      match e with
      | Source (Some (a, d)) =>
          let specified := (a =? si_appid info)
                           || match d with Some d' => d' =? si_appid info | None => false end in
          negb specified && g_check_app_id g
      | _ => false
      end in
    if bad then mfail BadGame
    else
      let protocol := si_protocol_version info in
      do* players := maybe_gather (g_players g) (get_server_players port retries e protocol) in
      do* rules := maybe_gather (g_rules g) (get_server_rules port retries e protocol) in
      mret (mk_resp info players rules).
End WithBunzip.
