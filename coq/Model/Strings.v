(* Text encodings as the Rust standard library implements them.
   A Rust [String] is modelled as its UTF-8 byte sequence. *)
From GD Require Import Base.Prelude.

Definition in_rng (lo hi x : N) : bool := (lo <=? x) && (x <=? hi).
Definition cont (x : N) : bool := in_rng 128 191 x.

(* [core::str::from_utf8] validity: Unicode table 3-7 (no overlongs, no
   surrogates, <= U+10FFFF) *)
Fixpoint utf8_valid (l : bytes) : bool :=
  match l with
  | [] => true
  | a :: r =>
      if a <? 128 then utf8_valid r
      else if in_rng 194 223 a then
        match r with b :: r' => cont b && utf8_valid r' | _ => false end
      else if in_rng 224 239 a then
        match r with
        | b :: c :: r' =>
            (if a =? 224 then in_rng 160 191 b
             else if a =? 237 then in_rng 128 159 b
             else cont b) && cont c && utf8_valid r'
        | _ => false
        end
      else if in_rng 240 244 a then
        match r with
        | b :: c :: d :: r' =>
            (if a =? 240 then in_rng 144 191 b
             else if a =? 244 then in_rng 128 143 b
             else cont b) && cont c && cont d && utf8_valid r'
        | _ => false
        end
      else false
  end.

(* UTF-8 encoding of one scalar value (assumed <= 0x10FFFF) *)
Definition utf8_encode1 (c : N) : bytes :=
  if c <? 128 then [c]
  else if c <? 2048 then [192 + c / 64; 128 + c mod 64]
  else if c <? 65536 then [224 + c / 4096; 128 + (c / 64) mod 64; 128 + c mod 64]
  else [240 + c / 262144; 128 + (c / 4096) mod 64; 128 + (c / 64) mod 64; 128 + c mod 64].
Definition utf8_encode (l : list N) : bytes := flat_map utf8_encode1 l.

(* decode valid UTF-8 into scalar values (used by char-level operations) *)
Fixpoint utf8_scalars (l : bytes) : list N :=
  match l with
  | [] => []
  | a :: r =>
      if a <? 192 then a :: utf8_scalars r
      else if a <? 224 then
        match r with b :: r' => ((a - 192) * 64 + (b - 128)) :: utf8_scalars r' | _ => [] end
      else if a <? 240 then
        match r with
        | b :: c :: r' => ((a - 224) * 4096 + (b - 128) * 64 + (c - 128)) :: utf8_scalars r'
        | _ => []
        end
      else
        match r with
        | b :: c :: d :: r' =>
            ((a - 240) * 262144 + (b - 128) * 4096 + (c - 128) * 64 + (d - 128)) :: utf8_scalars r'
        | _ => []
        end
  end.

(* 16-bit units of an even-length byte list *)
Fixpoint u16_units (be : bool) (l : bytes) : list N :=
  match l with
  | a :: b :: r => (if be then a * 256 + b else a + b * 256) :: u16_units be r
  | _ => []
  end.

(* [String::from_utf16]: None on an unpaired surrogate *)
Fixpoint utf16_scalars (u : list N) : option (list N) :=
  match u with
  | [] => Some []
  | a :: r =>
      if in_rng 55296 56319 a then      (* high surrogate D800..DBFF *)
        match r with
        | b :: r' =>
            if in_rng 56320 57343 b then
              match utf16_scalars r' with
              | Some s => Some ((65536 + (a - 55296) * 1024 + (b - 56320)) :: s)
              | None => None
              end
            else None
        | [] => None
        end
      else if in_rng 56320 57343 a then None
      else match utf16_scalars r with Some s => Some (a :: s) | None => None end
  end.

(* [chunks_exact(2).position(|c| c == delim)] : number of 2-byte chunks before
   the first chunk equal to (d0,d1) *)
Fixpoint find_pair (d0 d1 : N) (l : bytes) : option nat :=
  match l with
  | a :: b :: r =>
      if (a =? d0) && (b =? d1) then Some O
      else match find_pair d0 d1 r with Some n => Some (S n) | None => None end
  | _ => None
  end.

(* UTF-16 encoding of scalars (for specs) *)
Definition utf16_units1 (c : N) : list N :=
  if c <? 65536 then [c]
  else [55296 + (c - 65536) / 1024; 56320 + (c - 65536) mod 1024].
