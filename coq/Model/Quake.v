(* Model of protocols/quake/{client,one,two,three,types}.rs *)
From GD Require Import Base.Prelude Model.Strings Model.StrOps Model.Buffer Model.Net Model.Valve.

Inductive qver := Q1 | Q2 | Q3.
Definition send_header (v : qver) : bytes := match v with Q3 => str "getstatus" | _ => str "status" end.
Definition response_header (v : qver) : bytes :=
  match v with Q1 => str "n" | Q2 => str "print" ++ [10] | Q3 => str "statusResponse" ++ [10] end.

Record q1_player := mk_q1p {
  q1_id : N; q1_score : N; q1_time : N; q1_ping : N; q1_name : bytes; q1_skin : bytes;
  q1_color_primary : N; q1_color_secondary : N }.
Record q2_player := mk_q2p { q2_score : Z; q2_ping : N; q2_name : bytes; q2_address : option bytes }.
Inductive qplayer := P1 (p : q1_player) | P2 (p : q2_player).

Record qresponse := mk_qresp {
  qr_name : bytes; qr_map : bytes; qr_players : list qplayer; qr_players_online : N; qr_players_maximum : N;
  qr_game_version : option bytes; qr_unused : rules_t }.

(* get_data_impl *)
Definition get_data_impl (port : N) (v : qver) : M bytes :=
  do* _ := send port ([255; 255; 255; 255] ++ send_header v ++ [0]) in
  do* data := udp_recv None in
  mlift (fst ((let* h := read_uint false 4 in
               if negb (h =? 4294967295) then fail PacketBad
               else
                 let* rest := (fun b => (remaining_bytes b, b)) in
                 if negb (starts_with (response_header v) rest) then fail PacketBad
                 else
                   let* _ := move_cursor (Z.of_nat (length (response_header v))) in
                   fun b => (remaining_bytes b, b)) (buf_new data))).

(* get_server_values: "\k\v\k\v..." up to the newline *)
Definition get_server_values : R rules_t :=
  let* data := dec_utf8 10 in
  let toks := split 92 data in
  let toks := match toks with [] :: r => r | _ => toks end in
  ret (fold_left (fun m kv => map_insert (fst kv) (snd kv) m) (pairs2 toks) []).

(* split_player_line: fields separated by spaces; a quoted field may contain spaces *)
Fixpoint split_line (l : bytes) (in_quotes : bool) (cur : bytes) : list bytes :=
  match l with
  | [] => [rev cur]
  | c :: r =>
      if c =? 34 then split_line r (negb in_quotes) (c :: cur)
      else if (c =? 32) && negb in_quotes then rev cur :: split_line r in_quotes []
      else split_line r in_quotes (c :: cur)
  end.
Definition split_player_line (l : bytes) : list bytes := split_line l false [].

(* remove_wrapping_quotes *)
Definition remove_wrapping_quotes (s : bytes) : bytes :=
  match s with
  | 34 :: r => if (2 <=? lenN s) && ends_with_byte 34 s then removelast r else s
  | _ => s
  end.

Definition need {A} (o : option A) : outcome A := match o with Some a => Ok a | None => Err PacketBad end.
Definition parse_u (bound : N) (s : bytes) : outcome N :=
  match parse_unsigned bound s with Some v => Ok v | None => Err TypeParse end.
Definition parse_i32 (s : bytes) : outcome Z :=
  match parse_signed 32 s with Some v => Ok v | None => Err TypeParse end.

Definition nth_field (l : list bytes) (i : nat) : outcome bytes := need (nth_error l i).

Definition parse_q1_player (f : list bytes) : outcome qplayer :=
  obind (nth_field f 0) (fun a => obind (parse_u 255 a) (fun id =>
  obind (nth_field f 1) (fun a => obind (parse_u 65535 a) (fun score =>
  obind (nth_field f 2) (fun a => obind (parse_u 65535 a) (fun time =>
  obind (nth_field f 3) (fun a => obind (parse_u 65535 a) (fun ping =>
  obind (nth_field f 4) (fun name =>
  obind (nth_field f 5) (fun skin =>
  obind (nth_field f 6) (fun a => obind (parse_u 255 a) (fun c1 =>
  obind (nth_field f 7) (fun a => obind (parse_u 255 a) (fun c2 =>
  Ok (P1 (mk_q1p id score time ping (remove_wrapping_quotes name) (remove_wrapping_quotes skin) c1 c2)))))))))))))))).
Definition parse_q2_player (f : list bytes) : outcome qplayer :=
  obind (nth_field f 0) (fun a => obind (parse_i32 a) (fun score =>
  obind (nth_field f 1) (fun a => obind (parse_u 65535 a) (fun ping =>
  obind (nth_field f 2) (fun name =>
  Ok (P2 (mk_q2p score ping (remove_wrapping_quotes name) (option_map remove_wrapping_quotes (nth_error f 3))))))))).
Definition parse_player (v : qver) (f : list bytes) : outcome qplayer :=
  match v with Q1 => parse_q1_player f | _ => parse_q2_player f end.

(* get_players: lines until the end of the packet or its terminating NUL *)
Fixpoint get_players (fuel : nat) (v : qver) (acc : list qplayer) : R (list qplayer) := fun b =>
  match fuel with
  | O => (OutOfFuel, b)
  | S f =>
      match remaining_bytes b with
      | Ok [] => (Ok (rev acc), b)
      | Ok [0] => (Ok (rev acc), b)
      | Ok _ =>
          (let* line := dec_utf8 10 in
           let* p := lift (parse_player v (split_player_line line)) in
           get_players f v (p :: acc)) b
      | o => (ofail o, b)
      end
  end.

Definition take_var (k1 k2 : bytes) (m : rules_t) : option bytes * rules_t :=
  match map_lookup k1 m with
  | Some v => (Some v, map_remove k1 m)
  | None => match map_lookup k2 m with
            | Some v => (Some v, map_remove k2 m)
            | None => (None, m)
            end
  end.

Definition client_query (port : N) (v : qver) (t : option tsettings) : M qresponse :=
  do* _ := udp_new port t in
  do* data := retry_on_timeout (ts_retries_or_default t) (get_data_impl port v) in
  mlift (fst ((let* vars := get_server_values in
               let* players := get_players (S (length data)) v [] in
               let '(name, vars) := take_var (str "hostname") (str "sv_hostname") vars in
               let* name := lift (need name) in
               let '(map, vars) := take_var (str "mapname") (str "map") vars in
               let* map := lift (need map) in
               let '(maxc, vars) := take_var (str "maxclients") (str "sv_maxclients") vars in
               let* maxc := lift (need maxc) in
               let* maxn := lift (parse_u 255 maxc) in
               let '(version, vars) := take_var (str "version") (str "*version") vars in
               ret (mk_qresp name map players (lenN players mod 256) maxn version vars)) (buf_new data))).

(* canonical text (field names of the Rust structs) *)
From GD Require Import Model.ValveShow.
Definition show_qplayer (p : qplayer) : bytes :=
  match p with
  | P1 p => show_struct [fld "id" (show_N (q1_id p)); fld "score" (show_N (q1_score p)); fld "time" (show_N (q1_time p));
                         fld "ping" (show_N (q1_ping p)); fld "name" (show_str (q1_name p)); fld "skin" (show_str (q1_skin p));
                         fld "color_primary" (show_N (q1_color_primary p)); fld "color_secondary" (show_N (q1_color_secondary p))]
  | P2 p => show_struct [fld "score" (show_Z (q2_score p)); fld "ping" (show_N (q2_ping p)); fld "name" (show_str (q2_name p));
                         fld "address" (show_option show_str (q2_address p))]
  end.
Definition show_qresponse (r : qresponse) : bytes :=
  show_struct [fld "name" (show_str (qr_name r)); fld "map" (show_str (qr_map r));
               fld "players" (show_list show_qplayer (qr_players r));
               fld "players_online" (show_N (qr_players_online r)); fld "players_maximum" (show_N (qr_players_maximum r));
               fld "game_version" (show_option show_str (qr_game_version r)); fld "unused_entries" (show_map (qr_unused r))].
