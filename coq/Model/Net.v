(* The scripted network (DESIGN 3.1): what a query does is a function of its
   arguments and of a script that is consumed in order. Mirrors
   crates/lib/src/socket.rs under the verif hook, TimeoutSettings
   (protocols/types.rs), retry_on_timeout and maybe_gather! (utils.rs). *)
From GD Require Import Base.Prelude.

Inductive udp_event := Datagram (d : bytes) | Timeout.
Inductive tcp_conn := Refused | Stream (d : bytes) (stall : bool).

(* a Duration: seconds and nanoseconds *)
Definition duration := (N * N)%type.
Definition dur_zero (d : duration) : bool := (fst d =? 0) && (snd d =? 0).

Record tsettings := mkts {
  ts_connect : option duration; ts_read : option duration; ts_write : option duration; ts_retries : N }.
Definition ts_default : tsettings := mkts (Some (4, 0)) (Some (4, 0)) (Some (4, 0)) 0.

(* TimeoutSettings::new *)
Definition ts_new (r w c : option duration) (retries : N) : outcome tsettings :=
  let z o := match o with Some d => dur_zero d | None => false end in
  if z r || z w || z c then Err InvalidInput else Ok (mkts c r w retries).

Definition ts_retries_or_default (t : option tsettings) : N :=
  match t with Some s => ts_retries s | None => 0 end.
Definition ts_rw_or_default (t : option tsettings) : option duration * option duration :=
  match t with Some s => (ts_read s, ts_write s) | None => (Some (4, 0), Some (4, 0)) end.
Definition ts_connect_or_default (t : option tsettings) : option duration :=
  match t with Some s => ts_connect s | None => Some (4, 0) end.

(* what the client did *)
Inductive tev :=
| NewUdp (port : N)
| NewTcp (port : N) (connect : option duration)
| ApplyTimeout (r w : option duration)
| SendEv (port : N) (d : bytes)
| RecvEv (size : option N)
| Reserve (n : N).          (* a field-driven memory reservation (C13) *)

Record net := mknet {
  n_udp : list udp_event;
  n_tcp : list tcp_conn;
  n_fail : list N;            (* indices of sends that fail *)
  n_sends : N;
  n_cur : option (bytes * bool);   (* current TCP stream: bytes, stall *)
  n_trace : list tev          (* reversed *)
}.
Definition net_init (u : list udp_event) (t : list tcp_conn) (f : list N) : net :=
  mknet u t f 0 None [].

Definition M (A : Type) := net -> outcome A * net.
Definition mret {A} (a : A) : M A := fun n => (Ok a, n).
Definition mfail {A} (e : ekind) : M A := fun n => (Err e, n).
Definition mpanic {A} (s : N) : M A := fun n => (Panic s, n).
Definition mbind {A B} (m : M A) (f : A -> M B) : M B := fun n =>
  match m n with
  | (Ok a, n') => f a n'
  | (Err e, n') => (Err e, n')
  | (Panic s, n') => (Panic s, n')
  | (Abort s, n') => (Abort s, n')
  | (OutOfFuel, n') => (OutOfFuel, n')
  end.
Notation "'do*' x ':=' m 'in' f" := (mbind m (fun x => f))
  (at level 200, x name, m at level 100, f at level 200, right associativity).
Notation "'do*' ' p ':=' m 'in' f" := (mbind m (fun x => match x with p => f end))
  (at level 200, p pattern, m at level 100, f at level 200, right associativity).
Definition mlift {A} (o : outcome A) : M A := fun n => (o, n).
Definition log (e : tev) : M unit := fun n =>
  (Ok tt, mknet (n_udp n) (n_tcp n) (n_fail n) (n_sends n) (n_cur n) (e :: n_trace n)).

(* set_read_timeout(x).unwrap(): panics iff x = Some(0) *)
Definition apply_timeout (t : option tsettings) : M unit :=
  let '(r, w) := ts_rw_or_default t in
  do* _ := log (ApplyTimeout r w) in
  let z o := match o with Some d => dur_zero d | None => false end in
  if z r || z w then mpanic site_unwrap else mret tt.

Definition udp_new (port : N) (t : option tsettings) : M unit :=
  do* _ := log (NewUdp port) in apply_timeout t.

Definition send (port : N) (d : bytes) : M unit := fun n =>
  let idx := n_sends n in
  let n' := mknet (n_udp n) (n_tcp n) (n_fail n) (idx + 1) (n_cur n) (SendEv port d :: n_trace n) in
  if existsb (N.eqb idx) (n_fail n) then (Err PacketSend, n') else (Ok tt, n').

Definition default_packet_size : N := 1024.
Definition udp_recv (size : option N) : M bytes := fun n =>
  let tr := RecvEv size :: n_trace n in
  match n_udp n with
  | Datagram d :: r =>
      let sz := match size with Some s => s | None => default_packet_size end in
      (Ok (firstn (N.to_nat sz) d), mknet r (n_tcp n) (n_fail n) (n_sends n) (n_cur n) tr)
  | Timeout :: r => (Err PacketReceive, mknet r (n_tcp n) (n_fail n) (n_sends n) (n_cur n) tr)
  | [] => (Err PacketReceive, mknet [] (n_tcp n) (n_fail n) (n_sends n) (n_cur n) tr)
  end.

Definition tcp_new (port : N) (t : option tsettings) : M unit := fun n =>
  let tr := NewTcp port (ts_connect_or_default t) :: n_trace n in
  match n_tcp n with
  | Stream d stall :: r =>
      apply_timeout t (mknet (n_udp n) r (n_fail n) (n_sends n) (Some (d, stall)) tr)
  | Refused :: r => (Err SocketConnect, mknet (n_udp n) r (n_fail n) (n_sends n) None tr)
  | [] => (Err SocketConnect, mknet (n_udp n) [] (n_fail n) (n_sends n) None tr)
  end.

(* read_to_end *)
Definition tcp_recv (size : option N) : M bytes := fun n =>
  let tr := RecvEv size :: n_trace n in
  match n_cur n with
  | Some (d, false) => (Ok d, mknet (n_udp n) (n_tcp n) (n_fail n) (n_sends n) (Some ([], false)) tr)
  | Some (d, true) => (Err PacketReceive, mknet (n_udp n) (n_tcp n) (n_fail n) (n_sends n) (n_cur n) tr)
  | None => (Err PacketReceive, mknet (n_udp n) (n_tcp n) (n_fail n) (n_sends n) None tr)
  end.

(* ---- retry_on_timeout (utils.rs) ---- *)
Fixpoint retry_loop {A} (k : nat) (last : ekind) (attempt : M A) : M A := fun n =>
  match k with
  | O => (Err last, n)
  | S k' => match attempt n with
            | (Err e, n') => if timeout_class e then retry_loop k' e attempt n' else (Err e, n')
            | r => r
            end
  end.
(* for _ in 0..=retry_count: retry_count + 1 tries, for every usize *)
Definition usize_max : N := 2 ^ 64 - 1.
Definition retry_on_timeout {A} (retries : N) (attempt : M A) : M A :=
  retry_loop (S (N.to_nat retries)) PacketReceive attempt.

(* ---- maybe_gather! ---- *)
Inductive toggle := Skip | Try | Enforce.
Definition maybe_gather {A} (t : toggle) (m : M A) : M (option A) := fun n =>
  match t with
  | Skip => (Ok None, n)
  | Try => match m n with
           | (Ok a, n') => (Ok (Some a), n')
           | (Err _, n') => (Ok None, n')
           | (Panic s, n') => (Panic s, n')
           | (Abort s, n') => (Abort s, n')
           | (OutOfFuel, n') => (OutOfFuel, n')
           end
  | Enforce => mbind m (fun a => mret (Some a)) n
  end.

(* ---- canonical rendering of the trace ---- *)
Definition show_dur (d : duration) : bytes := show_N (fst d) ++ str "." ++ show_N (snd d).
Definition hexb (b : N) : bytes := [hex_digit (b / 16); hex_digit (b mod 16)].
Definition show_hex (l : bytes) : bytes := flat_map hexb l.
Definition show_tev (e : tev) : bytes :=
  match e with
  | NewUdp p => str "U" ++ show_N p
  | NewTcp p c => str "T" ++ show_N p ++ str "c" ++ show_option show_dur c
  | ApplyTimeout r w => str "A" ++ show_option show_dur r ++ str "/" ++ show_option show_dur w
  | SendEv p d => str "S" ++ show_N p ++ str ":" ++ show_hex d
  | RecvEv s => str "R" ++ show_option show_N s
  | Reserve _ => []
  end.
Definition is_reserve (e : tev) : bool := match e with Reserve _ => true | _ => false end.
Definition show_trace (n : net) : bytes :=
  intercalate (str ";") (map show_tev (filter (fun e => negb (is_reserve e)) (rev (n_trace n)))).
Definition reserves (n : net) : list N :=
  flat_map (fun e => match e with Reserve k => [k] | _ => [] end) (n_trace n).
