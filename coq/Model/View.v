(* The protocol-independent view (C15): CommonResponse / CommonPlayer of
   protocols/types.rs.

   Gen/CommonImpls.v (regenerated from /repo on every run by
   tools/translate_common.py) holds every accessor body of every impl as a
   [vexpr], a closed language of the expression forms that occur. This file
   gives those forms their meaning ([norm], [eval_s]) over a response value
   represented as a tree of named fields ([jv]), evaluates the default
   [as_json] body and [as_original]. *)
From GD Require Import Base.Prelude.
Require Import String.

Inductive nty := U8 | U16 | U32 | U64 | I8 | I16 | I32 | I64.
Inductive fty := FStr | FOptStr | FBool | FOptBool | FNum (t : nty) | FOptNum (t : nty)
               | FVec | FOptVec | FEnum | FOther.
Definition fpath := list string.

(* syntax of accessor bodies, as written in the Rust source *)
Inductive vexpr :=
| VNone                                   (* None *)
| VRequired                               (* trait method without default *)
| VSomeRef (p : fpath) (t : fty)          (* Some(&self.p) *)
| VRef (p : fpath) (t : fty)              (* &self.p *)
| VSomeCopy (p : fpath) (t : fty)         (* Some(self.p) *)
| VCopy (p : fpath) (t : fty)             (* self.p *)
| VSomeInto (p : fpath) (s d : nty)       (* Some(self.p.into()) *)
| VInto (p : fpath) (s d : nty)           (* self.p.into() *)
| VTryIntoOr0 (p : fpath) (s d : nty)     (* self.p.try_into().unwrap_or(0) *)
| VAsDeref (p : fpath) (t : fty)          (* self.p.as_deref() *)
| VSomeEnumStr (p : fpath) (tbl : list (string * string))   (* Some(self.p.as_str()), as_str a match *)
| VPlayersAll (p : fpath) (t : fty)       (* Some(self.p.iter().map(|p| p as &dyn CommonPlayer).collect()) *)
| VPlayersOpt (p : fpath) (t : fty)       (* self.p.as_ref().map(|v| v.iter().map(|p| p as _).collect()) *)
| VUnsupported (s : string).
Inductive oexpr := OSelf (variant : list string) | OUnsupported (s : string).
Inductive jexpr := JAcc (a : string) | JPlayersJson (a : string) | JUnsupported (s : string).
Record timpl := mkimpl { ti_accs : list (string * vexpr); ti_orig : oexpr; ti_player : string }.

(* values: a response, and what the view returns *)
Inductive jv :=
| JNull | JBool (b : bool) | JNum (z : Z) | JStr (s : bytes)
| JList (l : list jv) | JObj (l : list (string * jv)).

Fixpoint assoc {A} (k : string) (l : list (string * A)) : option A :=
  match l with
  | [] => None
  | (k', v) :: r => if String.eqb k k' then Some v else assoc k r
  end.
Definition jfield (k : string) (v : jv) : option jv :=
  match v with JObj l => assoc k l | _ => None end.
Fixpoint jpath (p : fpath) (v : jv) : option jv :=
  match p with
  | [] => Some v
  | k :: p' => match jfield k v with Some v' => jpath p' v' | None => None end
  end.

Definition nty_range (t : nty) : Z * Z :=
  match t with
  | U8 => (0, 255) | U16 => (0, 65535) | U32 => (0, 4294967295) | U64 => (0, 18446744073709551615)
  | I8 => (-128, 127) | I16 => (-32768, 32767) | I32 => (-2147483648, 2147483647)
  | I64 => (-9223372036854775808, 9223372036854775807)
  end%Z.
Definition in_range (t : nty) (z : Z) : bool := (fst (nty_range t) <=? z)%Z && (z <=? snd (nty_range t))%Z.
(* From<s> for d exists (lossless) *)
Definition lossless (s d : nty) : bool :=
  (fst (nty_range d) <=? fst (nty_range s))%Z && (snd (nty_range s) <=? snd (nty_range d))%Z.
Definition nty_eqb (a b : nty) : bool :=
  match a, b with
  | U8, U8 | U16, U16 | U32, U32 | U64, U64 | I8, I8 | I16, I16 | I32, I32 | I64, I64 => true
  | _, _ => false
  end.

(* the return type of an accessor *)
Inductive rk := RStrOpt | RStr | RNum (t : nty) | RNumOpt (t : nty) | RBoolOpt | RPlayers.

(* meaning of an accessor: which field, read how *)
Inductive sexpr :=
| SAbsent                                  (* always None *)
| SStr (p : fpath)                         (* the string at p *)
| SOptStr (p : fpath)                      (* the optional string at p *)
| SEnumStr (p : fpath) (tbl : list (string * string))  (* the name of the enum value at p *)
| SNum (p : fpath) (t : nty)               (* the number at p (a t) *)
| SNumClamp (p : fpath) (s d : nty)        (* the number at p when it fits d, else 0 *)
| SOptNum (p : fpath) (t : nty)
| SBool (p : fpath)
| SOptBool (p : fpath)
| SList (p : fpath)                        (* every element of the list at p, in order *)
| SOptList (p : fpath).

Definition norm (k : rk) (e : vexpr) : option sexpr :=
  match k, e with
  | (RStrOpt | RNumOpt _ | RBoolOpt | RPlayers), VNone => Some SAbsent
  | RStrOpt, VSomeRef p FStr => Some (SStr p)
  | RStr, VRef p FStr => Some (SStr p)
  | RStrOpt, VAsDeref p FOptStr => Some (SOptStr p)
  | RStrOpt, VSomeEnumStr p tbl => Some (SEnumStr p tbl)
  | RBoolOpt, VSomeCopy p FBool => Some (SBool p)
  | RBoolOpt, VCopy p FOptBool => Some (SOptBool p)
  | RNumOpt d, VSomeCopy p (FNum t) => if nty_eqb t d then Some (SNum p t) else None
  | RNum d, VCopy p (FNum t) => if nty_eqb t d then Some (SNum p t) else None
  | RNumOpt d, VCopy p (FOptNum t) => if nty_eqb t d then Some (SOptNum p t) else None
  | RNumOpt d, VSomeInto p s d' => if nty_eqb d d' && lossless s d then Some (SNum p s) else None
  | RNum d, VInto p s d' => if nty_eqb d d' && lossless s d then Some (SNum p s) else None
  | RNum d, VTryIntoOr0 p s d' => if nty_eqb d d' then Some (SNumClamp p s d) else None
  | RPlayers, VPlayersAll p FVec => Some (SList p)
  | RPlayers, VPlayersOpt p FOptVec => Some (SOptList p)
  | _, _ => None
  end.

(* the value of an accessor; Rust's None is JNull. [None] = the response value
   is not of the struct's shape (or the accessor is outside the grammar) *)
Definition eval_s (s : sexpr) (r : jv) : option jv :=
  match s with
  | SAbsent => Some JNull
  | SStr p => match jpath p r with Some (JStr x) => Some (JStr x) | _ => None end
  | SOptStr p => match jpath p r with Some (JStr x) => Some (JStr x) | Some JNull => Some JNull | _ => None end
  | SEnumStr p tbl =>
      match jpath p r with
      | Some (JStr x) =>
          match find (fun kv => bytes_eqb (str (fst kv)) x) tbl with
          | Some kv => Some (JStr (str (snd kv)))
          | None => None
          end
      | _ => None
      end
  | SNum p t => match jpath p r with Some (JNum z) => if in_range t z then Some (JNum z) else None | _ => None end
  | SNumClamp p s d =>
      match jpath p r with
      | Some (JNum z) => if in_range s z then Some (JNum (if in_range d z then z else 0)) else None
      | _ => None
      end
  | SOptNum p t =>
      match jpath p r with
      | Some (JNum z) => if in_range t z then Some (JNum z) else None
      | Some JNull => Some JNull
      | _ => None
      end
  | SBool p => match jpath p r with Some (JBool b) => Some (JBool b) | _ => None end
  | SOptBool p => match jpath p r with Some (JBool b) => Some (JBool b) | Some JNull => Some JNull | _ => None end
  | SList p => match jpath p r with Some (JList l) => Some (JList l) | _ => None end
  | SOptList p => match jpath p r with Some (JList l) => Some (JList l) | Some JNull => Some JNull | _ => None end
  end.

Definition eval (k : rk) (e : vexpr) (r : jv) : option jv :=
  match norm k e with Some s => eval_s s r | None => None end.

(* the trait's signatures *)
Local Open Scope string_scope.
Definition response_kinds : list (string * rk) :=
  [("name", RStrOpt); ("description", RStrOpt); ("game_mode", RStrOpt); ("game_version", RStrOpt);
   ("map", RStrOpt); ("players_maximum", RNum U32); ("players_online", RNum U32);
   ("players_bots", RNumOpt U32); ("has_password", RBoolOpt); ("players", RPlayers)].
Definition player_kinds : list (string * rk) := [("name", RStr); ("score", RNumOpt I32)].
Close Scope string_scope.

(* accessor [a] of an impl: the override, else the trait default *)
Definition acc_expr (defaults : list (string * vexpr)) (t : timpl) (a : string) : vexpr :=
  match assoc a (ti_accs t) with
  | Some e => e
  | None => match assoc a defaults with Some e => e | None => VUnsupported "no such accessor" end
  end.

Section Tables.
  (* the generated tables *)
  Variable rdefaults pdefaults : list (string * vexpr).
  Variable rjson pjson : list (string * jexpr).
  Variable rimpls pimpls : list (string * timpl).

  (* accessor values of a player; of a response. The players accessor yields
     the player values themselves (they are references into the response). *)
  Definition player_acc (pk : string) (a : string) (p : jv) : option jv :=
    match assoc pk pimpls, assoc a player_kinds with
    | Some t, Some k => eval k (acc_expr pdefaults t a) p
    | _, _ => None
    end.
  Definition response_acc (key : string) (a : string) (r : jv) : option jv :=
    match assoc key rimpls, assoc a response_kinds with
    | Some t, Some k => eval k (acc_expr rdefaults t a) r
    | _, _ => None
    end.

  Fixpoint all_some {A} (l : list (option A)) : option (list A) :=
    match l with
    | [] => Some []
    | Some x :: r => match all_some r with Some r' => Some (x :: r') | None => None end
    | None :: _ => None
    end.

  (* default as_json of a player: evaluate the body *)
  Definition jexpr_player (pk : string) (p : jv) (e : jexpr) : option jv :=
    match e with JAcc a => player_acc pk a p | _ => None end.
  Definition player_json (pk : string) (p : jv) : option jv :=
    match all_some (map (fun fe => match jexpr_player pk p (snd fe) with
                                   | Some v => Some (fst fe, v) | None => None end) pjson) with
    | Some l => Some (JObj l)
    | None => None
    end.
  Definition jexpr_response (key : string) (r : jv) (e : jexpr) : option jv :=
    match e with
    | JAcc a => response_acc key a r
    | JPlayersJson a =>
        match response_acc key a r, assoc key rimpls with
        | Some JNull, _ => Some JNull
        | Some (JList l), Some t =>
            match all_some (map (player_json (ti_player t)) l) with
            | Some l' => Some (JList l')
            | None => None
            end
        | _, _ => None
        end
    | JUnsupported _ => None
    end.
  Definition response_json (key : string) (r : jv) : option jv :=
    match all_some (map (fun fe => match jexpr_response key r (snd fe) with
                                   | Some v => Some (fst fe, v) | None => None end) rjson) with
    | Some l => Some (JObj l)
    | None => None
    end.

  Definition orig_of (tbl : list (string * timpl)) (key : string) : option (list string) :=
    match assoc key tbl with
    | Some t => match ti_orig t with OSelf v => Some v | OUnsupported _ => None end
    | None => None
    end.
End Tables.

(* ---- canonical rendering ---- *)
Definition show_opt_jv (f : jv -> bytes) (o : option jv) : bytes :=
  match o with Some v => f v | None => str "UNSUPPORTED" end.
Fixpoint show_jv (v : jv) : bytes :=
  match v with
  | JNull => str "None"
  | JBool b => show_bool b
  | JNum z => show_Z z
  | JStr s => show_str s
  | JList l => str "[" ++ intercalate (str ",") (map show_jv l) ++ str "]"
  | JObj l => str "{" ++ intercalate (str ",") (map (fun kv => str (fst kv) ++ str ":" ++ show_jv (snd kv)) l) ++ str "}"
  end.
(* objects are printed with the given keys, in that order *)
Definition pick (keys : list string) (v : jv) : jv :=
  match v with
  | JObj l => JObj (map (fun k => (k, match assoc k l with Some x => x | None => JStr (str "?") end)) keys
                    ++ filter (fun kv => negb (existsb (String.eqb (fst kv)) keys)) l)
  | _ => v
  end.

(* ---- the canonical line of a response's view (used for the generated
   tables and for the specification alike) ---- *)
Definition show_fpath (p : list string) : bytes := intercalate (str ".") (map str p).
Definition show_orig (o : option (list string)) : bytes :=
  match o with Some p => show_fpath p ++ str ":same" | None => str "UNSUPPORTED" end.
Definition canon_json (keys pkeys : list string) (j : jv) : jv :=
  match pick keys j with
  | JObj l => JObj (map (fun kv => match snd kv with
                                   | JList ps => (fst kv, JList (map (pick pkeys) ps))
                                   | _ => kv end) l)
  | v => v
  end.
Definition view_line (key : string)
    (racc : string -> jv -> option jv) (pacc : string -> jv -> option jv)
    (rorig porig : option (list string)) (json : jv -> option jv)
    (keys pkeys : list string) (r : jv) : bytes :=
  let show_player (p : jv) :=
    str "{" ++ show_opt_jv show_jv (pacc "name"%string p) ++ str "," ++ show_opt_jv show_jv (pacc "score"%string p)
            ++ str "," ++ show_orig porig ++ str "}" in
  str key
  ++ flat_map (fun ak => str "|" ++ str (fst ak) ++ str "=" ++
       (if String.eqb (fst ak) "players"
        then match racc (fst ak) r with
             | Some (JList l) => str "[" ++ intercalate (str ",") (map show_player l) ++ str "]"
             | Some JNull => str "None"
             | _ => str "UNSUPPORTED"
             end
        else show_opt_jv show_jv (racc (fst ak) r))) response_kinds
  ++ str "|json=" ++ show_opt_jv show_jv (option_map (canon_json keys pkeys) (json r))
  ++ str "|orig=" ++ show_orig rorig.

Definition ascii_of_byte (n : N) : Ascii.ascii := Ascii.ascii_of_N n.
Fixpoint string_of_bytes (l : bytes) : string :=
  match l with [] => EmptyString | c :: r => String (ascii_of_byte c) (string_of_bytes r) end.
