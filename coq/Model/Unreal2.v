(* Model of protocols/unreal2/{protocol,types}.rs (the string decoder is in Unreal2Str.v) *)
From GD Require Import Base.Prelude Model.Strings Model.StrOps Model.Buffer Model.Unreal2Str Model.Net Model.Valve Model.ValveShow.

Record u2_info := mk_u2info {
  ui_server_id : N; ui_ip : bytes; ui_game_port : N; ui_query_port : N; ui_name : bytes; ui_map : bytes;
  ui_game_type : bytes; ui_num_players : N; ui_max_players : N; ui_password : bool }.
Record u2_player := mk_u2p { up_id : N; up_name : bytes; up_ping : N; up_score : Z; up_stats_id : N }.
Record u2_players := mk_u2ps { ups_players : list u2_player; ups_bots : list u2_player }.
(* mutators: a set (printed sorted); rules: key -> values in arrival order *)
Record u2_mr := mk_u2mr { mr_mutators : list bytes; mr_rules : list (bytes * list bytes) }.
Record u2_response := mk_u2resp { ur_info : u2_info; ur_mr : u2_mr; ur_players : u2_players }.
Record u2_gather := mk_u2g { ug_players : toggle; ug_mr : toggle }.
Definition u2_gather_default : u2_gather := mk_u2g Try Enforce.

Definition u2_packet_size : N := 1024.
Definition u2_request (kind : N) : bytes := [121; 0; 0; 0; kind].

Definition u2_get_request_data (port retries kind : N) : M bytes :=
  retry_on_timeout retries (do* _ := send port (u2_request kind) in udp_recv (Some u2_packet_size)).

(* consume_response_headers *)
Definition consume_headers (expected : N) : R unit :=
  let* _ := move_cursor 4 in
  let* k := read_u8 in
  if 2 <? k then fail PacketBad
  else if negb (k =? expected) then fail PacketBad else ret tt.

Definition u2_string : R bytes := dec_unreal2.
Definition read_u32l : R N := read_uint false 4.

Definition parse_u2_info : R u2_info :=
  let* sid := read_u32l in let* ip := u2_string in let* gp := read_u32l in let* qp := read_u32l in
  let* name := u2_string in let* map := u2_string in let* gt := u2_string in
  let* np := read_u32l in let* mp := read_u32l in
  ret (mk_u2info sid ip gp qp name map gt np mp false).

Definition ascii_lower (c : N) : N := if in_rng 65 90 c then c + 32 else c.
Definition eq_ignore_ascii_case (a b : bytes) : bool := bytes_eqb (map ascii_lower a) (map ascii_lower b).
Fixpoint set_insert (x : bytes) (s : list bytes) : list bytes :=
  match s with [] => [x] | y :: r => if bytes_eqb x y then s else y :: set_insert x r end.
Fixpoint rules_add (k : bytes) (v : option bytes) (m : list (bytes * list bytes)) : list (bytes * list bytes) :=
  match m with
  | [] => [(k, match v with Some x => [x] | None => [] end)]
  | (k', vs) :: r => if bytes_eqb k k' then (k', match v with Some x => vs ++ [x] | None => vs end) :: r
                     else (k', vs) :: rules_add k v r
  end.

(* MutatorsAndRules::parse: key / optional value pairs until the end of the packet *)
Fixpoint parse_mr (fuel : nat) (acc : u2_mr) : R u2_mr := fun b =>
  match fuel with
  | O => (OutOfFuel, b)
  | S f =>
      match remaining_length b with
      | Ok 0 => (Ok acc, b)
      | Ok _ =>
          match u2_string b with
          | (Ok key, b1) =>
              let '(value, b2) := match u2_string b1 with (Ok v, b') => (Some v, b') | (_, b') => (None, b') end in
              if eq_ignore_ascii_case key (str "mutator")
              then parse_mr f (mk_u2mr (match value with Some v => set_insert v (mr_mutators acc) | None => mr_mutators acc end) (mr_rules acc)) b2
              else parse_mr f (mk_u2mr (mr_mutators acc) (rules_add key value (mr_rules acc))) b2
          | (o, b1) => (ofail o, b1)
          end
      | o => (ofail o, b)
      end
  end.

Fixpoint parse_u2_players (fuel : nat) (acc : u2_players) : R u2_players := fun b =>
  match fuel with
  | O => (OutOfFuel, b)
  | S f =>
      match remaining_length b with
      | Ok 0 => (Ok acc, b)
      | Ok _ =>
          (let* id := read_u32l in let* name := u2_string in let* ping := read_u32l in
           let* score := read_int false 4 in let* sid := read_u32l in
           let p := mk_u2p id name ping score sid in
           parse_u2_players f (if ping =? 0 then mk_u2ps (ups_players acc) (ups_bots acc ++ [p])
                               else mk_u2ps (ups_players acc ++ [p]) (ups_bots acc))) b
      | o => (ofail o, b)
      end
  end.

Definition with_headers {A} (expected : N) (data : bytes) (p : R A) : outcome A :=
  fst ((let* _ := consume_headers expected in p) (buf_new data)).

Definition query_server_info (port retries : N) : M u2_info :=
  do* data := u2_get_request_data port retries 0 in
  mlift (with_headers 0 data parse_u2_info).

(* further packets of the mutators-and-rules reply: until a receive fails or a
   packet of another kind arrives *)
Fixpoint more_mr (fuel : nat) (acc : u2_mr) : M u2_mr := fun n =>
  match fuel with
  | O => (OutOfFuel, n)
  | S f =>
      match udp_recv (Some u2_packet_size) n with
      | (Ok data, n1) =>
          match fst (consume_headers 1 (buf_new data)) with
          | Ok _ =>
              match with_headers 1 data (parse_mr (S (length data)) acc) with
              | Ok acc' => more_mr f acc' n1
              | o => (ofail o, n1)
              end
          | Err _ => (Ok acc, n1)
          | o => (ofail o, n1)
          end
      | (Err _, n1) => (Ok acc, n1)
      | (o, n1) => (ofail o, n1)
      end
  end.
Definition query_mr (port retries : N) : M u2_mr :=
  do* data := u2_get_request_data port retries 1 in
  do* first := mlift (with_headers 1 data (parse_mr (S (length data)) (mk_u2mr [] []))) in
  fun n => more_mr (S (length (n_udp n))) first n.

Fixpoint more_players (fuel : nat) (num : N) (acc : u2_players) (data : bytes) : M u2_players := fun n =>
  match fuel with
  | O => (OutOfFuel, n)
  | S f =>
      match with_headers 2 data (parse_u2_players (S (length data)) acc) with
      | Ok acc' =>
          if num <=? lenN (ups_players acc') + lenN (ups_bots acc') then (Ok acc', n)
          else match udp_recv (Some u2_packet_size) n with
               | (Ok d, n1) => more_players f num acc' d n1
               | (Err _, n1) => (Ok acc', n1)
               | (o, n1) => (ofail o, n1)
               end
      | o => (ofail o, n)
      end
  end.
Definition query_players (port retries : N) (num : N) : M u2_players :=
  do* _ := log (Reserve (N.min num 50)) in
  do* data := u2_get_request_data port retries 2 in
  fun n => more_players (S (length (n_udp n))) num (mk_u2ps [] []) data n.

Definition u2_query (port : N) (g : option u2_gather) (t : option tsettings) : M u2_response :=
  let g := match g with Some g => g | None => u2_gather_default end in
  do* _ := udp_new port t in
  let retries := ts_retries_or_default t in
  do* info := query_server_info port retries in
  do* mr := maybe_gather (ug_mr g) (query_mr port retries) in
  let mr := match mr with Some x => x | None => mk_u2mr [] [] end in
  let info := match map_lookup (str "GamePassword") (map (fun kv => (fst kv, concat (snd kv))) (mr_rules mr)) with
              | Some v => mk_u2info (ui_server_id info) (ui_ip info) (ui_game_port info) (ui_query_port info) (ui_name info)
                                    (ui_map info) (ui_game_type info) (ui_num_players info) (ui_max_players info)
                                    (bytes_eqb (map ascii_lower v) (str "true"))
              | None => info
              end in
  do* players := maybe_gather (ug_players g) (query_players port retries (ui_num_players info)) in
  mret (mk_u2resp info mr (match players with Some p => p | None => mk_u2ps [] [] end)).

(* canonical text *)
Definition show_u2_player (p : u2_player) : bytes :=
  show_struct [fld "id" (show_N (up_id p)); fld "name" (show_str (up_name p)); fld "ping" (show_N (up_ping p));
               fld "score" (show_Z (up_score p)); fld "stats_id" (show_N (up_stats_id p))].
Definition show_rules_vec (m : list (bytes * list bytes)) : bytes :=
  let rendered := map (fun kv => (show_str (fst kv), show_list show_str (snd kv))) m in
  let sorted := fold_right insert_kv [] rendered in
  str "{" ++ intercalate (str ",") (map (fun kv => fst kv ++ str ":" ++ snd kv) sorted) ++ str "}".
Fixpoint insert_s (x : bytes) (l : list bytes) : list bytes :=
  match l with [] => [x] | y :: r => if bytes_ltb x y then x :: l else y :: insert_s x r end.
Definition show_u2_response (r : u2_response) : bytes :=
  let i := ur_info r in
  show_struct [
    fld "server_info" (show_struct [fld "server_id" (show_N (ui_server_id i)); fld "ip" (show_str (ui_ip i));
      fld "game_port" (show_N (ui_game_port i)); fld "query_port" (show_N (ui_query_port i)); fld "name" (show_str (ui_name i));
      fld "map" (show_str (ui_map i)); fld "game_type" (show_str (ui_game_type i)); fld "num_players" (show_N (ui_num_players i));
      fld "max_players" (show_N (ui_max_players i)); fld "password" (show_bool (ui_password i))]);
    fld "mutators_and_rules" (show_struct [
      fld "mutators" (show_list (fun x => x) (fold_right insert_s [] (map show_str (mr_mutators (ur_mr r)))));
      fld "rules" (show_rules_vec (mr_rules (ur_mr r)))]);
    fld "players" (show_struct [fld "players" (show_list show_u2_player (ups_players (ur_players r)));
                                fld "bots" (show_list show_u2_player (ups_bots (ur_players r)))])].
