(* Single-game protocols (C07): Frontlines: Fuel of War, Savage 2, Just Cause 2:
   Multiplayer, Mindustry, The Ship, Battalion 1944 (games/*/protocol.rs,
   games/battalion1944.rs). Each is a short sequential parser on top of the
   packet reader (Model/Buffer.v) and, for three of them, of the Valve or
   GameSpy 3 client. *)
From GD Require Import Base.Prelude Model.Strings Model.StrOps Model.Buffer Model.Net Model.Valve Model.ValveShow Model.Gamespy.

(* ---- Frontlines: Fuel of War ---- *)
Record ffow_response := mk_ffow {
  ff_protocol_version : N; ff_name : bytes; ff_active_mod : bytes; ff_game_mode : bytes; ff_game_version : bytes;
  ff_description : bytes; ff_map : bytes; ff_players_online : N; ff_players_maximum : N; ff_server_type : server_type;
  ff_environment_type : environment; ff_has_password : bool; ff_vac_secured : bool; ff_round : N;
  ff_rounds_maximum : N; ff_time_left : N }.
Definition read_u16le : R N := read_uint false 2.
Definition ffow_parse : R ffow_response :=
  let* pv := read_u8 in
  let* name := read_cstr in let* map := read_cstr in let* amod := read_cstr in let* mode := read_cstr in
  let* desc := read_cstr in let* ver := read_cstr in
  let* _ := move_cursor 2 in
  let* online := read_u8 in let* maxp := read_u8 in
  let* st := read_u8 in let* stype := lift (server_type_from st) in
  let* en := read_u8 in let* env := lift (environment_from en) in
  let* pw := read_u8 in let* vac := read_u8 in
  let* _ := move_cursor 1 in
  let* round := read_u8 in let* rmax := read_u8 in let* tl := read_u16le in
  ret (mk_ffow pv name amod mode ver desc map online maxp stype env (pw =? 1) (vac =? 1) round rmax tl).
Section WithBz.
  Variable bz : bytes -> N -> outcome bytes.
  Definition ffow_query (port : N) (t : option tsettings) : M ffow_response :=
    do* _ := udp_new port t in
    do* data := retry_on_timeout (ts_retries_or_default t)
                  (get_request_data_impl bz port (GoldSrc true) 0 70 (str "LSQ")) in
    mlift (run_r ffow_parse data).

  (* ---- The Ship ---- *)
  Record ship_player := mk_shp { sh_name : bytes; sh_score : Z; sh_duration : N; sh_deaths : N; sh_money : N }.
  Record ship_response := mk_ship_r {
    sr_protocol_version : N; sr_name : bytes; sr_map : bytes; sr_game_mode : bytes; sr_game_version : bytes;
    sr_players : list ship_player; sr_players_online : N; sr_players_maximum : N; sr_players_bots : N;
    sr_server_type : server_type; sr_has_password : bool; sr_vac_secured : bool;
    sr_port : option N; sr_steam_id : option N; sr_tv_port : option N; sr_tv_name : option bytes; sr_keywords : option bytes;
    sr_rules : rules_t; sr_mode : N; sr_witnesses : N; sr_duration : N }.
  Definition ship_of_valve (r : response) : outcome ship_response :=
    let i := r_info r in
    let ed := si_extra_data i in
    let g {A} (f : extra_data -> option A) : option A := match ed with Some e => f e | None => None end in
    ob* ship := need (si_the_ship i) PacketBad in
    ob* ps := need (r_players r) PacketBad in
    ob* players := omap_list (fun p => ob* d := need (sp_deaths p) PacketBad in ob* m := need (sp_money p) PacketBad in
                                       Ok (mk_shp (sp_name p) (sp_score p) (sp_duration p) d m)) ps in
    ob* rules := need (r_rules r) PacketBad in
    Ok (mk_ship_r (si_protocol_version i) (si_name i) (si_map i) (si_game_mode i) (si_game_version i) players
                  (si_players_online i) (si_players_maximum i) (si_players_bots i) (si_server_type i)
                  (si_has_password i) (si_vac_secured i) (g ed_port) (g ed_steam_id) (g ed_tv_port) (g ed_tv_name)
                  (g ed_keywords) rules (ship_mode ship) (ship_witnesses ship) (ship_duration ship)).
  Definition theship_query (port : N) (t : option tsettings) : M ship_response :=
    do* r := Valve.query bz port (Source (Some (2400, None))) None t in mlift (ship_of_valve r).

  (* ---- Battalion 1944: the generic Valve response with the bat_* rules applied ---- *)
  Record game_player := mk_gp { gp_name : bytes; gp_score : Z; gp_duration : N }.
  Record game_response := mk_gr {
    gr_protocol : N; gr_name : bytes; gr_map : bytes; gr_game : bytes; gr_appid : N; gr_players_online : N;
    gr_players_details : list game_player; gr_players_maximum : N; gr_players_bots : N; gr_server_type : server_type;
    gr_has_password : bool; gr_vac_secured : bool; gr_version : bytes;
    gr_port : option N; gr_steam_id : option N; gr_tv_port : option N; gr_tv_name : option bytes; gr_keywords : option bytes;
    gr_rules : rules_t }.
  Definition game_of_valve (r : response) : game_response :=
    let i := r_info r in
    let ed := si_extra_data i in
    let g {A} (f : extra_data -> option A) : option A := match ed with Some e => f e | None => None end in
    mk_gr (si_protocol_version i) (si_name i) (si_map i) (si_game_mode i) (si_appid i) (si_players_online i)
          (map (fun p => mk_gp (sp_name p) (sp_score p) (sp_duration p)) (match r_players r with Some l => l | None => [] end))
          (si_players_maximum i) (si_players_bots i) (si_server_type i) (si_has_password i) (si_vac_secured i)
          (si_game_version i) (g ed_port) (g ed_steam_id) (g ed_tv_port) (g ed_tv_name) (g ed_keywords)
          (match r_rules r with Some m => m | None => [] end).
  Definition set_info (r : response) (i : server_info) : response := mk_resp i (r_players r) (r_rules r).
  Definition bat_overrides (r : response) : outcome response :=
    match r_rules r with
    | None => Ok r
    | Some rules =>
        let i := r_info r in
        ob* '(i, rules) :=
          match vm_get (str "bat_max_players_i") rules with
          | Some v => ob* n := need (parse_unsigned 255 v) TypeParse in
                      Ok (mk_info (si_protocol_version i) (si_name i) (si_map i) (si_folder i) (si_game_mode i) (si_appid i)
                                  (si_players_online i) n (si_players_bots i) (si_server_type i) (si_environment_type i)
                                  (si_has_password i) (si_vac_secured i) (si_the_ship i) (si_game_version i)
                                  (si_extra_data i) (si_is_mod i) (si_mod_data i), map_remove (str "bat_max_players_i") rules)
          | None => Ok (i, rules)
          end in
        ob* '(i, rules) :=
          match vm_get (str "bat_player_count_s") rules with
          | Some v => ob* n := need (parse_unsigned 255 v) TypeParse in
                      Ok (mk_info (si_protocol_version i) (si_name i) (si_map i) (si_folder i) (si_game_mode i) (si_appid i)
                                  n (si_players_maximum i) (si_players_bots i) (si_server_type i) (si_environment_type i)
                                  (si_has_password i) (si_vac_secured i) (si_the_ship i) (si_game_version i)
                                  (si_extra_data i) (si_is_mod i) (si_mod_data i), map_remove (str "bat_player_count_s") rules)
          | None => Ok (i, rules)
          end in
        let '(i, rules) :=
          match vm_get (str "bat_has_password_s") rules with
          | Some v => (mk_info (si_protocol_version i) (si_name i) (si_map i) (si_folder i) (si_game_mode i) (si_appid i)
                               (si_players_online i) (si_players_maximum i) (si_players_bots i) (si_server_type i) (si_environment_type i)
                               (bytes_eqb v (str "Y")) (si_vac_secured i) (si_the_ship i) (si_game_version i)
                               (si_extra_data i) (si_is_mod i) (si_mod_data i), map_remove (str "bat_has_password_s") rules)
          | None => (i, rules)
          end in
        let '(i, rules) :=
          match vm_get (str "bat_name_s") rules with
          | Some v => (mk_info (si_protocol_version i) v (si_map i) (si_folder i) (si_game_mode i) (si_appid i)
                               (si_players_online i) (si_players_maximum i) (si_players_bots i) (si_server_type i) (si_environment_type i)
                               (si_has_password i) (si_vac_secured i) (si_the_ship i) (si_game_version i)
                               (si_extra_data i) (si_is_mod i) (si_mod_data i), map_remove (str "bat_name_s") rules)
          | None => (i, rules)
          end in
        let '(i, rules) :=
          match vm_get (str "bat_gamemode_s") rules with
          | Some v => (mk_info (si_protocol_version i) (si_name i) (si_map i) (si_folder i) v (si_appid i)
                               (si_players_online i) (si_players_maximum i) (si_players_bots i) (si_server_type i) (si_environment_type i)
                               (si_has_password i) (si_vac_secured i) (si_the_ship i) (si_game_version i)
                               (si_extra_data i) (si_is_mod i) (si_mod_data i), map_remove (str "bat_gamemode_s") rules)
          | None => (i, rules)
          end in
        Ok (mk_resp i (r_players r) (Some (map_remove (str "bat_map_s") rules)))
    end.
  Definition battalion_query (port : N) : M game_response :=
    do* r := Valve.query bz port (Source (Some (489940, None))) None None in
    do* r' := mlift (bat_overrides r) in mret (game_of_valve r').
End WithBz.

(* ---- Savage 2 ---- *)
Record savage2_response := mk_sv2 {
  sv_name : bytes; sv_players_online : N; sv_players_maximum : N; sv_players_minimum : N; sv_time : bytes; sv_map : bytes;
  sv_next_map : bytes; sv_location : bytes; sv_game_mode : bytes; sv_protocol_version : bytes; sv_level_minimum : N }.
Definition savage2_parse : R savage2_response :=
  let* _ := move_cursor 12 in
  let* name := read_cstr in let* online := read_u8 in let* maxp := read_u8 in
  let* time := read_cstr in let* map := read_cstr in let* next := read_cstr in let* loc := read_cstr in
  let* minp := read_u8 in let* mode := read_cstr in let* pv := read_cstr in let* lvl := read_u8 in
  ret (mk_sv2 name online maxp minp time map next loc mode pv lvl).
Definition savage2_query (port : N) (t : option tsettings) : M savage2_response :=
  do* _ := udp_new port t in
  do* _ := send port [1] in
  do* d := udp_recv None in
  mlift (run_r savage2_parse d).

(* ---- Just Cause 2: Multiplayer (a GameSpy 3 exchange with its own payload and a single packet) ---- *)
Record jc2m_player := mk_jcp { jp_name : bytes; jp_steam_id : bytes; jp_ping : N }.
Record jc2m_response := mk_jc {
  jc_game_version : bytes; jc_description : bytes; jc_name : bytes; jc_has_password : bool;
  jc_players : list jc2m_player; jc_players_maximum : N; jc_players_online : N }.
Definition jc2m_packets_impl (port : N) : M bytes :=
  do* c := gs3_handshake port in
  do* _ := gs3_data_request port [255; 255; 255; 2] c in
  do* d := gs3_receive None 0 in
  mlift (run_r (let* _ := move_cursor 11 in fun b => (remaining_bytes b, b)) d).
Fixpoint jc2m_players (fuel : nat) (acc : list jc2m_player) : R (list jc2m_player) :=
  match fuel with
  | O => fun b => (OutOfFuel, b)
  | S f => fun b =>
      match remaining_length b with
      | Ok 0 => (Ok (rev acc), b)
      | Ok _ => (let* name := read_cstr in let* sid := read_cstr in let* ping := read_uint true 2 in
                 jc2m_players f (mk_jcp name sid ping :: acc)) b
      | o => (ofail o, b)
      end
  end.
Definition jc2m_build (data : bytes) : outcome jc2m_response :=
  ob* '(vars, remaining) := data_to_map data [] in
  ob* players := run_r (let* _ := read_uint true 2 in jc2m_players (S (length remaining)) []) remaining in
  ob* '(maxs, vars) := take_req "maxplayers" vars in
  ob* maxp := need (parse_unsigned u32_max maxs) TypeParse in
  ob* '(online, vars) := online_of vars (lenN players) in
  ob* '(ver, vars) := take_req "version" vars in
  ob* '(desc, vars) := take_req "description" vars in
  ob* '(name, vars) := take_req "hostname" vars in
  ob* '(pw, vars) := has_password vars in
  Ok (mk_jc ver desc name pw players maxp online).
Definition jc2m_query (port : N) (t : option tsettings) : M jc2m_response :=
  do* _ := udp_new port t in
  do* d := retry_on_timeout (ts_retries_or_default t) (jc2m_packets_impl port) in
  mlift (jc2m_build d).

(* ---- Mindustry ---- *)
Inductive mgamemode := MSurvival | MSandbox | MAttack | MPVP | MEditor.
Record mindustry_data := mk_mind {
  mi_host : bytes; mi_map : bytes; mi_players : Z; mi_wave : Z; mi_version : Z; mi_version_type : bytes;
  mi_gamemode : mgamemode; mi_player_limit : Z; mi_description : bytes; mi_mode_name : option bytes }.
Definition read_lp : R bytes := dec_utf8_lp 0.
Definition read_i32be : R Z := read_int true 4.
Definition mindustry_parse : R mindustry_data :=
  let* host := read_lp in let* map := read_lp in let* players := read_i32be in let* wave := read_i32be in
  let* version := read_i32be in let* vt := read_lp in
  let* gm := read_u8 in
  let* mode := lift (if gm =? 0 then Ok MSurvival else if gm =? 1 then Ok MSandbox else if gm =? 2 then Ok MAttack
                     else if gm =? 3 then Ok MPVP else if gm =? 4 then Ok MEditor else Err TypeParse) in
  let* limit := read_i32be in let* desc := read_lp in
  fun b => match read_lp b with
           | (Ok mn, b') => (Ok (mk_mind host map players wave version vt mode limit desc (Some mn)), b')
           | (Err _, b') => (Ok (mk_mind host map players wave version vt mode limit desc None), b')
           | (o, b') => (ofail o, b')
           end.
Definition mindustry_attempt (port : N) (t : option tsettings) : M mindustry_data :=
  do* _ := udp_new port t in
  do* _ := send port [254; 1] in
  do* d := udp_recv (Some 500) in
  mlift (run_r mindustry_parse d).
Definition mindustry_query (port : N) (t : option tsettings) : M mindustry_data :=
  retry_on_timeout (ts_retries_or_default t) (mindustry_attempt port t).

(* ---- rendering ---- *)
Definition show_ffow (r : ffow_response) : bytes :=
  show_struct [fld "protocol_version" (show_N (ff_protocol_version r)); fld "name" (show_str (ff_name r));
               fld "active_mod" (show_str (ff_active_mod r)); fld "game_mode" (show_str (ff_game_mode r));
               fld "game_version" (show_str (ff_game_version r)); fld "description" (show_str (ff_description r));
               fld "map" (show_str (ff_map r)); fld "players_online" (show_N (ff_players_online r));
               fld "players_maximum" (show_N (ff_players_maximum r)); fld "server_type" (show_server_type (ff_server_type r));
               fld "environment_type" (show_environment (ff_environment_type r)); fld "has_password" (show_bool (ff_has_password r));
               fld "vac_secured" (show_bool (ff_vac_secured r)); fld "round" (show_N (ff_round r));
               fld "rounds_maximum" (show_N (ff_rounds_maximum r)); fld "time_left" (show_N (ff_time_left r))].
Definition show_savage2 (r : savage2_response) : bytes :=
  show_struct [fld "name" (show_str (sv_name r)); fld "players_online" (show_N (sv_players_online r));
               fld "players_maximum" (show_N (sv_players_maximum r)); fld "players_minimum" (show_N (sv_players_minimum r));
               fld "time" (show_str (sv_time r)); fld "map" (show_str (sv_map r)); fld "next_map" (show_str (sv_next_map r));
               fld "location" (show_str (sv_location r)); fld "game_mode" (show_str (sv_game_mode r));
               fld "protocol_version" (show_str (sv_protocol_version r)); fld "level_minimum" (show_N (sv_level_minimum r))].
Definition show_jc2m (r : jc2m_response) : bytes :=
  show_struct [fld "game_version" (show_str (jc_game_version r)); fld "description" (show_str (jc_description r));
               fld "name" (show_str (jc_name r)); fld "has_password" (show_bool (jc_has_password r));
               fld "players" (show_list (fun p => show_struct [fld "name" (show_str (jp_name p)); fld "steam_id" (show_str (jp_steam_id p));
                                                                fld "ping" (show_N (jp_ping p))]) (jc_players r));
               fld "players_maximum" (show_N (jc_players_maximum r)); fld "players_online" (show_N (jc_players_online r))].
Definition show_mgamemode (m : mgamemode) : bytes :=
  match m with MSurvival => str "Survival" | MSandbox => str "Sandbox" | MAttack => str "Attack" | MPVP => str "PVP" | MEditor => str "Editor" end.
Definition show_mindustry (r : mindustry_data) : bytes :=
  show_struct [fld "host" (show_str (mi_host r)); fld "map" (show_str (mi_map r)); fld "players" (show_Z (mi_players r));
               fld "wave" (show_Z (mi_wave r)); fld "version" (show_Z (mi_version r)); fld "version_type" (show_str (mi_version_type r));
               fld "gamemode" (show_mgamemode (mi_gamemode r)); fld "player_limit" (show_Z (mi_player_limit r));
               fld "description" (show_str (mi_description r)); fld "mode_name" (show_option show_str (mi_mode_name r))].
Definition show_ship_response (r : ship_response) : bytes :=
  show_struct [fld "protocol_version" (show_N (sr_protocol_version r)); fld "name" (show_str (sr_name r)); fld "map" (show_str (sr_map r));
               fld "game_mode" (show_str (sr_game_mode r)); fld "game_version" (show_str (sr_game_version r));
               fld "players" (show_list (fun p => show_struct [fld "name" (show_str (sh_name p)); fld "score" (show_Z (sh_score p));
                                                                fld "duration" (show_f32 (sh_duration p)); fld "deaths" (show_N (sh_deaths p));
                                                                fld "money" (show_N (sh_money p))]) (sr_players r));
               fld "players_online" (show_N (sr_players_online r)); fld "players_maximum" (show_N (sr_players_maximum r));
               fld "players_bots" (show_N (sr_players_bots r)); fld "server_type" (show_server_type (sr_server_type r));
               fld "has_password" (show_bool (sr_has_password r)); fld "vac_secured" (show_bool (sr_vac_secured r));
               fld "port" (show_option show_N (sr_port r)); fld "steam_id" (show_option show_N (sr_steam_id r));
               fld "tv_port" (show_option show_N (sr_tv_port r)); fld "tv_name" (show_option show_str (sr_tv_name r));
               fld "keywords" (show_option show_str (sr_keywords r)); fld "rules" (show_map (sr_rules r));
               fld "mode" (show_N (sr_mode r)); fld "witnesses" (show_N (sr_witnesses r)); fld "duration" (show_N (sr_duration r))].
Definition show_game_response (r : game_response) : bytes :=
  show_struct [fld "protocol" (show_N (gr_protocol r)); fld "name" (show_str (gr_name r)); fld "map" (show_str (gr_map r));
               fld "game" (show_str (gr_game r)); fld "appid" (show_N (gr_appid r)); fld "players_online" (show_N (gr_players_online r));
               fld "players_details" (show_list (fun p => show_struct [fld "name" (show_str (gp_name p)); fld "score" (show_Z (gp_score p));
                                                                        fld "duration" (show_f32 (gp_duration p))]) (gr_players_details r));
               fld "players_maximum" (show_N (gr_players_maximum r)); fld "players_bots" (show_N (gr_players_bots r));
               fld "server_type" (show_server_type (gr_server_type r)); fld "has_password" (show_bool (gr_has_password r));
               fld "vac_secured" (show_bool (gr_vac_secured r)); fld "version" (show_str (gr_version r));
               fld "port" (show_option show_N (gr_port r)); fld "steam_id" (show_option show_N (gr_steam_id r));
               fld "tv_port" (show_option show_N (gr_tv_port r)); fld "tv_name" (show_option show_str (gr_tv_name r));
               fld "keywords" (show_option show_str (gr_keywords r)); fld "rules" (show_map (gr_rules r))].
