(* Operation sequences over the packet reader (the C17 correspondence
   interpreter): the same op list is run through the real Buffer by the harness
   and through this model; outputs are compared textually. *)
From GD Require Import Base.Prelude Model.Strings Model.Buffer Model.Unreal2Str.

Inductive bop :=
| OpRead (signed : bool) (w : nat)
| OpReadF (w : nat)
| OpMove (off : Z)
| OpUtf8 (d : option N)
| OpUtf8Lp (d : option N)
| OpUtf16 (be : bool) (d : option (N * N))
| OpUnreal2
| OpRemBytes
| OpRemLen
| OpSwitch (size : nat)
| OpVarint
| OpMcString.

Definition odflt {A} (o : option A) (d : A) : A := match o with Some a => a | None => d end.

(* run one op: textual result and new state. [be] is the reader's byte order *)
Definition run_bop (be : bool) (o : bop) (b : buf) : outcome bytes * buf :=
  match o with
  | OpRead false w => let '(r, b') := read_uint be w b in (omap show_N r, b')
  | OpRead true w => let '(r, b') := read_int be w b in (omap show_Z r, b')
  | OpReadF w => let '(r, b') := read_uint be w b in (omap show_N r, b')
  | OpMove off => let '(r, b') := move_cursor off b in (omap (fun _ => str "()") r, b')
  | OpUtf8 d => let '(r, b') := dec_utf8 (odflt d 0) b in (omap show_str r, b')
  | OpUtf8Lp d => let '(r, b') := dec_utf8_lp (odflt d 0) b in (omap show_str r, b')
  | OpUtf16 be16 d =>
      let '(d0, d1) := odflt d (0, 0) in
      let '(r, b') := dec_utf16 be16 d0 d1 b in (omap show_str r, b')
  | OpUnreal2 => let '(r, b') := dec_unreal2 b in (omap show_str r, b')
  | OpRemBytes => (omap (show_list show_N) (remaining_bytes b), b)
  | OpRemLen => (omap show_N (remaining_length b), b)
  | OpSwitch size =>
      match switch_endian_chunk size b with
      | (Ok chunk, b') => (omap show_N (fst (read_uint (negb be) 2 chunk)), b')
      | (o', b') => (ofail o', b')
      end
  | OpVarint => let '(r, b') := get_varint b in (omap show_Z r, b')
  | OpMcString => let '(r, b') := get_string b in (omap show_str r, b')
  end.

Definition stops {A} (o : outcome A) : bool :=
  match o with Ok _ | Err _ => false | _ => true end.

(* run a sequence; after each op print "<result>@<cursor>"; stop at a panic *)
Fixpoint run_bops (be : bool) (ops : list bop) (b : buf) : list bytes * buf :=
  match ops with
  | [] => ([], b)
  | o :: r =>
      let '(res, b') := run_bop be o b in
      let line := show_outcome (fun x => x) res ++ str "@" ++ show_N (cursor b') in
      if stops res then ([line], b')
      else let '(ls, b'') := run_bops be r b' in (line :: ls, b'')
  end.

(* final state only (used by the invariant theorem) *)
Definition run_bops_state (be : bool) (ops : list bop) (b : buf) : buf :=
  snd (run_bops be ops b).
