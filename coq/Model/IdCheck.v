(* Model of the game-id naming checker, crates/id-tests/src/{lib,utils}.rs (C20).
   Names and ids are ASCII byte strings (the documented grammar; a byte >= 128
   is outside the model). roman_numeral::RomanNumeral::from_string is modelled
   (the crate's algorithm); number_to_words is an oracle table carried by the
   case (a miss makes the model abstain). *)
From GD Require Import Base.Prelude Model.StrOps.

Inductive idrule :=
| IDsMustBeLowerCase | NumbersAreTheirOwnWord | IfFirstWordNumberNoDigits | IfLastWordNumberMustBeAppended
| ConvertRomanNumeralsToArabic | TwoWordsOrLessUseFullWords | MoreThanTwoWordsMakeAcronym
| IfIDDuplicateSameGameAppendYearToNewer | IfIDDuplicateSameGameAppendProtocol | IfIDDuplicateNoAcronym
| IfModForQueriesProcessOnlyModName | NoDuplicates.
Record idfail := mkfail { f_id : bytes; f_name : bytes; f_expected : bytes; f_rules : list idrule }.

(* ---- characters ---- *)
Definition is_digit (c : N) : bool := (48 <=? c) && (c <=? 57).
Definition is_upper (c : N) : bool := (65 <=? c) && (c <=? 90).
Definition is_lower (c : N) : bool := (97 <=? c) && (c <=? 122).
Definition is_alpha (c : N) : bool := is_upper c || is_lower c.
Definition is_alnum (c : N) : bool := is_alpha c || is_digit c.
Definition is_space (c : N) : bool := (c =? 32) || ((9 <=? c) && (c <=? 13)).
Definition lower_c (c : N) : N := if is_upper c then c + 32 else c.
Definition lower (s : bytes) : bytes := map lower_c s.
Definition all_digits (s : bytes) : bool := forallb is_digit s.

Fixpoint drop_while (p : N -> bool) (s : bytes) : bytes :=
  match s with [] => [] | c :: r => if p c then drop_while p r else s end.
Definition trim_with (p : N -> bool) (s : bytes) : bytes := rev (drop_while p (rev (drop_while p s))).
Definition trim (s : bytes) : bytes := trim_with is_space s.
Definition trim_dashes (s : bytes) : bytes := trim_with (N.eqb 45) s.
Definition last_byte (s : bytes) : option N := match rev s with c :: _ => Some c | [] => None end.
Definition strip_suffix_byte (c : N) (s : bytes) : option bytes :=
  match rev s with x :: r => if x =? c then Some (rev r) else None | [] => None end.

(* ---- utils.rs ---- *)
(* split when characters switch between digits and non-digits *)
Fixpoint split_switch_go (cur : bytes) (numeric : bool) (s : bytes) : list bytes :=
  match s with
  | [] => [rev cur]
  | c :: r => if Bool.eqb (is_digit c) numeric then split_switch_go (c :: cur) numeric r
              else rev cur :: split_switch_go [c] (negb numeric) r
  end.
Definition split_switch (s : bytes) : list bytes :=
  match s with [] => [] | c :: r => split_switch_go [c] (is_digit c) r end.

(* rsplit_once on a byte: (before, after) the last occurrence *)
Fixpoint rsplit_go (c : N) (s : bytes) : option (bytes * bytes) :=
  match s with
  | [] => None
  | x :: r => match rsplit_go c r with
              | Some (a, b) => Some (x :: a, b)
              | None => if x =? c then Some ([], r) else None
              end
  end.
Definition extract_bracketed_suffix (s : bytes) : bytes * option bytes :=
  match strip_suffix_byte 41 s with
  | Some t => match rsplit_go 40 t with Some (a, b) => (a, Some b) | None => (s, None) end
  | None => (s, None)
  end.
Fixpoint split_once (c : N) (s : bytes) : option (bytes * bytes) :=
  match s with
  | [] => None
  | x :: r => if x =? c then Some ([], r)
              else match split_once c r with Some (a, b) => Some (x :: a, b) | None => None end
  end.

(* split_inclusive(&[' ', '-']) *)
Fixpoint split_incl_go (cur : bytes) (s : bytes) : list bytes :=
  match s with
  | [] => match cur with [] => [] | _ => [rev cur] end
  | c :: r => if (c =? 32) || (c =? 45) then rev (c :: cur) :: split_incl_go [] r
              else split_incl_go (c :: cur) r
  end.
Definition split_inclusive (s : bytes) : list bytes := split_incl_go [] s.

(* ---- roman_numeral 0.1.0: RomanNumeral::from_string(..).get_u32() ---- *)
Definition roman_value (c : N) : option N :=
  if c =? 73 then Some 1 else if c =? 86 then Some 5 else if c =? 88 then Some 10
  else if c =? 76 then Some 50 else if c =? 67 then Some 100 else if c =? 68 then Some 500
  else if c =? 77 then Some 1000 else None.
Fixpoint roman_total (s : bytes) (total minus : N) : option N :=
  match s with
  | [] => Some total
  | c :: r =>
      match roman_value c with
      | None => None
      | Some num =>
          match r with
          | [] => roman_total r (total + (num - minus)) 0
          | c' :: _ => match roman_value c' with
                       | None => None
                       | Some nxt => if nxt <=? num then roman_total r (total + (num - minus)) 0
                                     else roman_total r total num
                       end
          end
      end
  end.
Definition roman_digit (d : N) (one five ten : N) : bytes :=
  if d =? 0 then [] else if d <=? 3 then repeat one (N.to_nat d)
  else if d =? 4 then [one; five] else if d =? 5 then [five]
  else if d <=? 8 then five :: repeat one (N.to_nat (d - 5)) else [one; ten].
Definition to_roman (n : N) : bytes :=
  roman_digit ((n / 1000) mod 10) 77 77 77 ++ roman_digit ((n / 100) mod 10) 67 68 77
  ++ roman_digit ((n / 10) mod 10) 88 76 67 ++ roman_digit (n mod 10) 73 86 88.
Definition roman_parse (s : bytes) : option N :=
  match roman_total s 0 0 with
  | Some t => if (t =? 0) || (3999 <? t) then None
              else if bytes_eqb (to_roman t) s then Some t else None
  | None => None
  end.

(* ---- extract_game_parts_from_name ---- *)
Record parsed := mkparsed { pn_name : bytes; pn_words : list bytes; pn_opt : list bytes; pn_year : option N }.

Definition keep_char (c : N) : bool := is_digit c || is_alpha c || (c =? 45).
(* the number accumulator: "44-" "45" -> "4445"; text after "<digits>-" panics *)
Fixpoint accumulate (acc : option bytes) (ws : list bytes) : outcome (list bytes) :=
  match ws with
  | [] => Ok []
  | w :: r =>
      match acc with
      | Some a =>
          match strip_suffix_byte 45 w with
          | Some m => if all_digits m then accumulate (Some (a ++ m)) r else Panic site_explicit_panic
          | None => if all_digits w
                    then match accumulate None r with Ok l => Ok ((a ++ w) :: l) | o => o end
                    else Panic site_explicit_panic
          end
      | None =>
          match strip_suffix_byte 45 w with
          | Some m => if all_digits m then accumulate (Some m) r
                      else match accumulate None r with Ok l => Ok (w :: l) | o => o end
          | None => match accumulate None r with Ok l => Ok (w :: l) | o => o end
          end
      end
  end.
Definition is_bracketed (w : bytes) : bool :=
  match w with 40 :: _ => match last_byte w with Some 41 => true | _ => false end | _ => false end.
Definition u16_max : N := 65535.
Fixpoint find_year (opts : list bytes) : option N :=
  match opts with
  | [] => None
  | p :: r =>
      match (match p with 40 :: t => strip_suffix_byte 41 t | _ => None end) with
      | Some inner => match parse_unsigned u16_max inner with Some y => Some y | None => find_year r end
      | None => match parse_unsigned u16_max p with Some y => Some y | None => find_year r end
      end
  end.
Definition extract_parts (game : bytes) : outcome parsed :=
  let '(g, paren) := extract_bracketed_suffix game in
  let pieces := map trim (split_inclusive g) in
  let opts := (match paren with Some p => [p] | None => [] end) ++ filter is_bracketed pieces in
  let ws := filter (fun w => match trim_dashes w with [] => false | _ => true end)
              (map (filter keep_char) (filter (fun w => negb (is_bracketed w)) pieces)) in
  match accumulate None ws with
  | Ok words => Ok (mkparsed g words opts (find_year opts))
  | Panic s => Panic s | Err e => Err e | Abort s => Abort s | OutOfFuel => OutOfFuel
  end.

(* ---- test_game_name_rule ---- *)
Definition seen_t := list (bytes * list bytes).
Fixpoint seen_get (k : bytes) (s : seen_t) : option (list bytes) :=
  match s with [] => None | (k', v) :: r => if bytes_eqb k k' then Some v else seen_get k r end.
Definition seen_insert (k : bytes) (v : list bytes) (s : seen_t) : seen_t * bool :=
  match seen_get k s with
  | Some _ => (map (fun kv => if bytes_eqb k (fst kv) then (fst kv, v) else kv) s, true)
  | None => ((k, v) :: s, false)
  end.
Fixpoint words_same (a b : list bytes) : bool :=
  match a, b with
  | [], [] => true
  | x :: a', y :: b' => bytes_eqb (lower x) (lower y) && words_same a' b'
  | _, _ => false
  end.

Section Check.
  (* number_to_words(<digits> as f64, false) *)
  Variable n2w : bytes -> option bytes.

  Definition first_byte (w : bytes) : outcome N := match w with c :: _ => Ok c | [] => Panic site_unwrap end.
  Fixpoint firsts (ws : list bytes) : outcome bytes :=
    match ws with
    | [] => Ok []
    | w :: r => match first_byte w, firsts r with
                | Ok c, Ok l => Ok (if is_alnum c then c :: l else l)
                | Ok _, o => o
                | Panic s, _ => Panic s | Err e, _ => Err e | Abort s, _ => Abort s | OutOfFuel, _ => OutOfFuel
                end
    end.
  Definition join_trimmed (ws : list bytes) : bytes := concat (map trim_dashes ws).

  (* rules 5, 6, 1, 2: the words, the appended number and the rule stack *)
  Definition romanise (ws : list bytes) : list bytes * list idrule :=
    match ws with
    | [] => ([], [])
    | w :: r =>
        (w :: map (fun x => match roman_parse x with Some n => show_N n | None => x end) r,
         flat_map (fun x => match roman_parse x with Some _ => [ConvertRomanNumeralsToArabic] | None => [] end) r)
    end.
  Definition split_numbers (ws : list bytes) : list bytes * list idrule :=
    (flat_map split_switch ws,
     flat_map (fun w => match split_switch w with _ :: _ :: _ => [NumbersAreTheirOwnWord] | _ => [] end) ws).

  (* rules 5, 6, 1, 2, 3, 7, 4: the id the checker expects for a parsed name,
     the words it files under that id and the rule stack. It does not depend on
     the proposed id. *)
  Definition expected_core (seen : seen_t) (g : parsed) (is_mod : bool)
    : outcome (bytes * list bytes * list idrule) :=
    let stack0 := if is_mod then [IfModForQueriesProcessOnlyModName] else [] in
    let '(w1, s1) := romanise (pn_words g) in
    let '(w2, s2) := split_numbers w1 in
    (* first word a number: make it text *)
    let step3 : outcome (list bytes * list idrule) :=
      match w2 with
      | w :: r => match first_byte w with
                  | Ok c => if is_digit c
                            then match n2w w with
                                 | Some t => Ok (t :: r, [IfFirstWordNumberNoDigits])
                                 | None => Panic 99      (* oracle miss *)
                                 end
                            else Ok (w2, [])
                  | Panic s => Panic s | Err e => Err e | Abort s => Abort s | OutOfFuel => OutOfFuel
                  end
      | [] => Ok (w2, [])
      end in
    match step3 with
    | Ok (w3, s3) =>
        let '(w4, suffix, s4) :=
          match rev w3 with
          | l :: r => if all_digits l then (rev r, l, [IfLastWordNumberMustBeAppended]) else (w3, [], [])
          | [] => (w3, [], [])
          end in
        let main_o : outcome (bytes * list idrule) :=
          if (length w4 <=? 2)%nat then Ok (join_trimmed w4, [TwoWordsOrLessUseFullWords])
          else match firsts w4 with
               | Ok a => Ok (a, [MoreThanTwoWordsMakeAcronym])
               | Panic s => Panic s | Err e => Err e | Abort s => Abort s | OutOfFuel => OutOfFuel
               end in
        match main_o with
        | Ok (main, s5) =>
            let e0 := lower (main ++ suffix) in
            let stack := stack0 ++ s1 ++ s2 ++ s3 ++ s4 ++ s5 in
            (* rules 3 and 7 *)
            let r37 : outcome (bytes * list idrule) :=
              match seen_get e0 seen with
              | Some other =>
                  if words_same w4 other then
                    match pn_year g with
                    | Some y => Ok (lower (e0 ++ show_N y), [IfIDDuplicateSameGameAppendYearToNewer])
                    | None =>
                        match pn_opt g with
                        | proto :: _ =>
                            match extract_parts proto with
                            | Ok pp => Ok (e0 ++ concat (pn_words pp), [IfIDDuplicateSameGameAppendProtocol])
                            | Panic s => Panic s | Err e => Err e | Abort s => Abort s | OutOfFuel => OutOfFuel
                            end
                        | [] => Ok (e0, [])
                        end
                    end
                  else Ok (e0, [])
              | None => Ok (e0, [])
              end in
            match r37 with
            | Ok (e1, s6) =>
                (* rule 4 *)
                let '(e2, s7) := match seen_get e1 seen with
                                 | Some _ => (lower (join_trimmed w4 ++ suffix), [IfIDDuplicateNoAcronym])
                                 | None => (e1, [])
                                 end in
                Ok (e2, w4, stack ++ s6 ++ s7)
            | Panic s => Panic s | Err e => Err e | Abort s => Abort s | OutOfFuel => OutOfFuel
            end
        | Panic s => Panic s | Err e => Err e | Abort s => Abort s | OutOfFuel => OutOfFuel
        end
    | Panic s => Panic s | Err e => Err e | Abort s => Abort s | OutOfFuel => OutOfFuel
    end.

  (* the result of checking one parsed name against the proposed id: the
     failures, the new table *)
  Definition check_core (seen : seen_t) (id : bytes) (g : parsed) (is_mod : bool)
      (recurse : seen_t -> outcome (option (list idfail * seen_t)))
    : outcome (list idfail * seen_t) :=
    let wrong0 := if bytes_eqb (lower id) id then []
                  else [mkfail id (pn_name g) (lower id) [IDsMustBeLowerCase]] in
    match expected_core seen g is_mod with
    | Ok (e2, w4, stack) =>
        let finish (seen' : seen_t) (wrong : list idfail) : outcome (list idfail * seen_t) :=
          let '(seen'', dup) := seen_insert e2 w4 seen' in
          let stack' := if dup then stack ++ [NoDuplicates] else stack in
          Ok (if negb (bytes_eqb id e2) || dup
              then wrong ++ [mkfail id (pn_name g) e2 stack'] else wrong, seen'') in
        (* rule 8 *)
        if negb is_mod && negb (bytes_eqb id e2) then
          match recurse seen with
          | Ok (Some (res, seen')) =>
              match res with
              | [] => Ok ([], seen')
              | _ => finish seen' (wrong0 ++ res)
              end
          | Ok None => finish seen wrong0
          | Panic s => Panic s | Err e => Err e | Abort s => Abort s | OutOfFuel => OutOfFuel
          end
        else finish seen wrong0
    | Panic s => Panic s | Err e => Err e | Abort s => Abort s | OutOfFuel => OutOfFuel
    end.

  Definition check_mod (seen : seen_t) (id : bytes) (g : parsed) : outcome (list idfail * seen_t) :=
    check_core seen id g true (fun _ => Ok None).
  Definition check_game (seen : seen_t) (id : bytes) (g : parsed) : outcome (list idfail * seen_t) :=
    check_core seen id g false (fun seen' =>
      match split_once 45 (pn_name g) with
      | Some (_, modname) =>
          match extract_parts modname with
          | Ok pm => match check_mod seen' id pm with
                     | Ok r => Ok (Some r)
                     | Panic s => Panic s | Err e => Err e | Abort s => Abort s | OutOfFuel => OutOfFuel
                     end
          | Panic s => Panic s | Err e => Err e | Abort s => Abort s | OutOfFuel => OutOfFuel
          end
      | None => Ok None
      end).

  (* test_game_name_rules: parse all, stable sort by (year, name length), check in order *)
  Definition year_key (g : parsed) : N := match pn_year g with None => 0 | Some y => y + 1 end.
  Definition game_lt (a b : bytes * parsed) : bool :=
    (year_key (snd a) <? year_key (snd b))
    || ((year_key (snd a) =? year_key (snd b)) && (lenN (pn_name (snd a)) <? lenN (pn_name (snd b)))).
  Fixpoint insert_sorted (x : bytes * parsed) (l : list (bytes * parsed)) : list (bytes * parsed) :=
    match l with
    | [] => [x]
    | y :: r => if game_lt y x then y :: insert_sorted x r else x :: l
    end.
  (* insertion from the right keeps equal elements in their original order *)
  Definition stable_sort (l : list (bytes * parsed)) : list (bytes * parsed) := fold_right insert_sorted [] l.
  Fixpoint parse_all (games : list (bytes * bytes)) : outcome (list (bytes * parsed)) :=
    match games with
    | [] => Ok []
    | (id, name) :: r =>
        match extract_parts name, parse_all r with
        | Ok p, Ok l => Ok ((id, p) :: l)
        | Ok _, o => o
        | Panic s, _ => Panic s | Err e, _ => Err e | Abort s, _ => Abort s | OutOfFuel, _ => OutOfFuel
        end
    end.
  Fixpoint check_all (seen : seen_t) (l : list (bytes * parsed)) : outcome (list idfail) :=
    match l with
    | [] => Ok []
    | (id, g) :: r =>
        match check_game seen id g with
        | Ok (fs, seen') => match check_all seen' r with Ok fs' => Ok (fs ++ fs') | o => o end
        | Panic s => Panic s | Err e => Err e | Abort s => Abort s | OutOfFuel => OutOfFuel
        end
    end.
  Definition test_game_name_rules (games : list (bytes * bytes)) : outcome (list idfail) :=
    match parse_all games with
    | Ok l => check_all [] (stable_sort l)
    | Panic s => Panic s | Err e => Err e | Abort s => Abort s | OutOfFuel => OutOfFuel
    end.
  Definition test_single_game_rule (id name : bytes) : outcome (list idfail) := test_game_name_rules [(id, name)].
End Check.

(* ---- rendering ---- *)
Definition show_rule (r : idrule) : bytes :=
  match r with
  | IDsMustBeLowerCase => str "L" | NumbersAreTheirOwnWord => str "N" | IfFirstWordNumberNoDigits => str "F"
  | IfLastWordNumberMustBeAppended => str "A" | ConvertRomanNumeralsToArabic => str "R"
  | TwoWordsOrLessUseFullWords => str "2" | MoreThanTwoWordsMakeAcronym => str "M"
  | IfIDDuplicateSameGameAppendYearToNewer => str "Y" | IfIDDuplicateSameGameAppendProtocol => str "P"
  | IfIDDuplicateNoAcronym => str "D" | IfModForQueriesProcessOnlyModName => str "m" | NoDuplicates => str "X"
  end.
Definition show_fail (f : idfail) : bytes :=
  str "{" ++ show_str (f_id f) ++ str "," ++ show_str (f_name f) ++ str "," ++ show_str (f_expected f) ++ str ","
  ++ concat (map show_rule (f_rules f)) ++ str "}".
