(* Text operations of the Rust standard library used by the parsers, on UTF-8
   byte strings (all delimiters involved are ASCII, so byte-level and
   char-level coincide). *)
From GD Require Import Base.Prelude.

(* str::split(d): split on a one-byte delimiter; [cur] is the current field, reversed *)
Fixpoint split_on (d : N) (l : bytes) (cur : bytes) : list bytes :=
  match l with
  | [] => [rev cur]
  | x :: r => if x =? d then rev cur :: split_on d r [] else split_on d r (x :: cur)
  end.
Definition split (d : N) (l : bytes) : list bytes := split_on d l [].

(* decimal digits -> number *)
Definition dec_step (acc : option N) (c : N) : option N :=
  match acc with
  | Some a => if (48 <=? c) && (c <=? 57) then Some (a * 10 + (c - 48)) else None
  | None => None
  end.
Definition dec_read (s : bytes) : option N :=
  match s with [] => None | _ => fold_left dec_step s (Some 0) end.

(* str::parse::<uN>(): optional '+', at least one ASCII digit, value <= bound
   (Rust detects the overflow while accumulating; the accumulator is monotone,
   so that is the same as comparing the final value) *)
Definition parse_unsigned (bound : N) (s : bytes) : option N :=
  let digits := match s with c :: r => if c =? 43 then r else s | [] => s end in
  match dec_read digits with
  | Some v => if v <=? bound then Some v else None
  | None => None
  end.
(* str::parse::<iN>(): optional '+' or '-' *)
Definition parse_signed (bits : N) (s : bytes) : option Z :=
  match s with
  | c :: r =>
      if c =? 45 then
        match dec_read r with
        | Some v => if v <=? 2 ^ (bits - 1) then Some (- Z.of_N v)%Z else None
        | None => None
        end
      else match parse_unsigned (2 ^ (bits - 1) - 1) s with Some v => Some (Z.of_N v) | None => None end
  | [] => None
  end.

Fixpoint ends_with_byte (c : N) (l : bytes) : bool :=
  match l with [] => false | [x] => x =? c | _ :: r => ends_with_byte c r end.

(* chunks(2) of a list, full pairs only *)
Fixpoint pairs2 {A} (l : list A) : list (A * A) :=
  match l with a :: b :: r => (a, b) :: pairs2 r | _ => [] end.
