(* Case decoding and dispatch: one correspondence case is a byte string; the
   harness (Rust, real code) and this model decode it the same way and print a
   canonical text result. The case reader is the Buffer model itself. *)
From GD Require Import Base.Prelude Model.Strings Model.Buffer Model.Unreal2Str Model.BufOps.
From GD Require Import Model.Net Model.Valve Model.ValveShow Model.Master Model.Settings Model.Quake Model.Unreal2.
From GD Require Import Spec.Rand Spec.ValveSpec Spec.ValveGen Spec.CaseEnc Spec.MasterSpec Spec.QuakeSpec Spec.Unreal2Spec Spec.GamespySpec Spec.GamesSpec Spec.MinecraftSpec.
From GD Require Import Model.View Gen.CommonImpls Model.ViewInst Spec.ViewSpec.
From GD Require Import Model.Dispatch Gen.ModulesTable Gen.GamesTable Model.IdCheck Model.Gamespy Model.Games Model.Minecraft Model.Cli Model.Eco.

Definition rd_u8 : R N := read_uint true 1.
Definition rd_u16 : R N := read_uint true 2.
Definition rd_u32 : R N := read_uint true 4.
Definition rd_i16 : R Z := read_int true 2.
Definition rd_i32 : R Z := read_int true 4.
Definition rd_bytes16 : R bytes := let* n := rd_u16 in read_raw (N.to_nat n).
Definition rd_bytes32 : R bytes := let* n := rd_u32 in read_raw (N.to_nat n).

Fixpoint rd_list {A} (n : nat) (rd : R A) : R (list A) :=
  match n with
  | O => ret []
  | S n' => let* x := rd in let* r := rd_list n' rd in ret (x :: r)
  end.

Definition rd_bop : R bop :=
  let* c := rd_u8 in
  if c <? 8 then
    let w := if c <? 2 then 1%nat else if c <? 4 then 2%nat else if c <? 6 then 4%nat else 8%nat in
    ret (OpRead (c mod 2 =? 1) w)
  else if c =? 8 then ret (OpReadF 4)
  else if c =? 9 then ret (OpReadF 8)
  else if c =? 10 then let* o := rd_i16 in ret (OpMove o)
  else if c =? 11 then ret (OpUtf8 None)
  else if c =? 12 then let* d := rd_u8 in ret (OpUtf8 (Some d))
  else if c =? 13 then ret (OpUtf8Lp None)
  else if c =? 14 then let* d := rd_u8 in ret (OpUtf8Lp (Some d))
  else if c =? 15 then ret (OpUtf16 false None)
  else if c =? 16 then ret (OpUtf16 true None)
  else if c =? 17 then let* a := rd_u8 in let* b := rd_u8 in ret (OpUtf16 false (Some (a, b)))
  else if c =? 18 then let* a := rd_u8 in let* b := rd_u8 in ret (OpUtf16 true (Some (a, b)))
  else if c =? 19 then ret OpUnreal2
  else if c =? 20 then ret OpRemBytes
  else if c =? 21 then ret OpRemLen
  else if c =? 22 then let* s := rd_u8 in ret (OpSwitch (N.to_nat s))
  else if c =? 23 then ret OpVarint
  else if c =? 24 then ret OpMcString
  else fail InvalidInput.

(* family 1: reader op sequence *)
Definition case_bufops : R bytes :=
  let* order := rd_u8 in
  let* pkt := rd_bytes16 in
  let* n := rd_u8 in
  let* ops := rd_list (N.to_nat n) rd_bop in
  let be := negb (order =? 0) in
  let '(lines, _) := run_bops be ops (buf_new pkt) in
  ret (show_N (lenN pkt) ++ str ":" ++ intercalate (str ";") lines).

(* family 2: as_varint; family 3: as_string; 4: u8_lower_upper; 5: error_by_expected_size *)
Definition case_as_varint : R bytes :=
  let* v := rd_i32 in ret (show_list show_N (as_varint v)).
Definition case_as_string : R bytes :=
  let* s := rd_bytes32 in
  if utf8_valid s then ret (show_outcome (show_list show_N) (as_string s))
  else ret (str "NOT-UTF8").
Definition case_lower_upper : R bytes :=
  let* v := rd_u8 in let '(a, b) := u8_lower_upper v in
  ret (show_N a ++ str "," ++ show_N b).
Definition case_expected_size : R bytes :=
  let* a := rd_u32 in let* b := rd_u32 in
  ret (show_outcome (fun _ => str "()") (error_by_expected_size a b)).

(* family 6: VarInt round trip as_varint -> get_varint; family 7: string round trip *)
Definition case_varint_rt : R bytes :=
  let* v := rd_i32 in
  let enc := as_varint v in
  let '(r, b') := get_varint (buf_new enc) in
  ret (show_list show_N enc ++ str "=>" ++ show_outcome show_Z r ++ str "@" ++ show_N (cursor b')).
Definition case_string_rt : R bytes :=
  let* s := rd_bytes32 in
  if utf8_valid s then
    match as_string s with
    | Ok enc =>
        let '(r, b') := get_string (buf_new enc) in
        ret (show_outcome show_str r ++ str "@" ++ show_N (cursor b') ++ str "/" ++ show_N (lenN enc))
    | o => ret (show_outcome (fun _ => []) o)
    end
  else ret (str "NOT-UTF8").

(* ---- query cases: settings and scripts ---- *)
Definition rd_u64 : R N := read_uint true 8.
Definition rd_opt {A} (rd : R A) : R (option A) :=
  let* t := rd_u8 in if t =? 0 then ret None else let* x := rd in ret (Some x).
Definition rd_dur : R duration := let* s := rd_u64 in let* n := rd_u32 in ret (s, n).
(* Option<TimeoutSettings> built through TimeoutSettings::new *)
Definition rd_tsettings : R (outcome (option tsettings)) :=
  let* t := rd_u8 in
  if t =? 0 then ret (Ok None)
  else
    let* c := rd_opt rd_dur in
    let* r := rd_opt rd_dur in
    let* w := rd_opt rd_dur in
    let* retries := rd_u64 in
    ret (omap Some (ts_new r w c retries)).
Definition rd_udp_event : R udp_event :=
  let* t := rd_u8 in
  if t =? 0 then ret Timeout else let* d := rd_bytes32 in ret (Datagram d).
Definition rd_tcp_conn : R tcp_conn :=
  let* t := rd_u8 in
  if t =? 0 then ret Refused else let* d := rd_bytes32 in ret (Stream d (t =? 2)).
Definition rd_script : R net :=
  let* nu := rd_u16 in
  let* u := rd_list (N.to_nat nu) rd_udp_event in
  let* nt := rd_u16 in
  let* t := rd_list (N.to_nat nt) rd_tcp_conn in
  let* nf := rd_u8 in
  let* f := rd_list (N.to_nat nf) rd_u16 in
  ret (net_init u t f).
Definition rd_toggle : R toggle :=
  let* t := rd_u8 in ret (if t =? 0 then Skip else if t =? 1 then Try else Enforce).

(* bzip2 oracle table: (payload, size) -> result *)
Definition bz_entry := (bytes * N * option bytes)%type.
Definition rd_bz_entry : R bz_entry :=
  let* p := rd_bytes32 in let* sz := rd_u32 in
  let* r := rd_opt rd_bytes32 in ret (p, sz, r).
Definition site_oracle_miss : N := 99.
Fixpoint bz_lookup (t : list bz_entry) (p : bytes) (sz : N) : outcome bytes :=
  match t with
  | [] => Panic site_oracle_miss
  | (p', sz', r) :: t' =>
      if bytes_eqb p p' && (sz =? sz') then match r with Some d => Ok d | None => Err Decompress end
      else bz_lookup t' p sz
  end.

Definition show_query {A} (f : A -> bytes) (res : outcome A * net) : bytes :=
  (match fst res with
   | Panic 99 => str "ORACLE-MISS"
   | o => show_outcome f o
   end) ++ str "|" ++ show_trace (snd res).

Definition rd_engine : R engine :=
  let* t := rd_u8 in
  if t =? 0 then ret (Source None)
  else if t =? 1 then let* a := rd_u32 in ret (Source (Some (a, None)))
  else if t =? 2 then let* a := rd_u32 in let* d := rd_u32 in ret (Source (Some (a, Some d)))
  else if t =? 3 then ret (GoldSrc false)
  else ret (GoldSrc true).
Definition rd_gathering : R gathering :=
  let* p := rd_toggle in let* r := rd_toggle in let* c := rd_u8 in ret (mk_gather p r (negb (c =? 0))).

(* family 10: valve::query *)
Definition case_valve : R bytes :=
  let* port := rd_u16 in
  let* e := rd_engine in
  let* g := rd_opt rd_gathering in
  let* ts := rd_tsettings in
  let* n := rd_script in
  let* nb := rd_u8 in
  let* bzt := rd_list (N.to_nat nb) rd_bz_entry in
  match ts with
  | Ok t => if 1000000 <? ts_retries_or_default t then ret (str "MODEL-ABSTAINS")
            else ret (show_query show_response (Valve.query (bz_lookup bzt) port e g t n))
  | o => ret (show_outcome (fun _ => []) o ++ str "|")
  end.

(* family 110: Valve spec case: seed (+ optional compressed blobs) ->
   settings | datagrams | bz table | expected | tags *)
Definition show_transport (t : transport) : bytes :=
  match t with
  | Single => str "single"
  | SplitSrc c _ _ => str "src" ++ show_N (lenN c + 1)
  | SplitGold c _ => str "gold" ++ show_N (lenN c + 1)
  | SplitBz c _ _ _ => str "bz" ++ show_N (lenN c + 1)
  end.
Definition bz_entries (o : reply_opts) (payload : bytes) : list bytes :=
  match ro_transport o with
  | SplitBz _ _ _ comp =>
      let pkt := simple_header ++ payload in
      [enc_bytes32 comp ++ be32 (lenN pkt) ++ 1 :: enc_bytes32 pkt]
  | _ => []
  end.
Definition case_spec_valve : R bytes :=
  let* seed := rd_u64 in
  let* c1 := rd_opt rd_bytes32 in let* c2 := rd_opt rd_bytes32 in let* c3 := rd_opt rd_bytes32 in
  let* gov := rd_opt rd_gathering in        (* explicit gather settings override the generated ones *)
  let '(e, g0, st, o) := fst (gen_valve (c1, c2, c3) seed) in
  let g := match gov with Some x => Some x | None => g0 end in
  let gg := match g with Some x => x | None => gathering_default end in
  let port := 27015 + seed mod 5 in
  let settings := [10] ++ be16 port ++ enc_engine e ++ enc_opt enc_gathering g ++ enc_tsettings None in
  let dgs := valve_script st o gg in
  let p1 := enc_info (vs_info st) in let p2 := enc_players (vs_players st) in let p3 := enc_rules (vs_rules st) in
  let bzs := bz_entries (vo_info o) p1 ++ bz_entries (vo_players o) p2 ++ bz_entries (vo_rules o) p3 in
  ret (show_hex settings ++ str "|" ++ intercalate (str ",") (map show_hex dgs) ++ str "|"
       ++ show_hex (lenN bzs :: concat bzs) ++ str "|"
       ++ show_outcome show_response (valve_expected_outcome st e gg) ++ str "|"
       ++ str "wf=" ++ show_bool (wf_state e st)
       ++ str ";np=" ++ show_N (lenN (vs_players st)) ++ str ";nr=" ++ show_N (lenN (vs_rules st))
       ++ str ";t=" ++ show_transport (ro_transport (vo_info o)) ++ str "/" ++ show_transport (ro_transport (vo_players o))
       ++ str "/" ++ show_transport (ro_transport (vo_rules o))
       ++ str ";ch=" ++ show_N (lenN (ro_challenges (vo_info o))) ++ show_N (lenN (ro_challenges (vo_players o)))
       ++ show_N (lenN (ro_challenges (vo_rules o)))
       ++ str ";port=" ++ show_N port
       ++ str ";e=" ++ (match e with GoldSrc _ => str "gold" | Source _ => str "src" end)
       ++ str ";g=" ++ show_hex (enc_toggle (g_players gg) ++ enc_toggle (g_rules gg))
       ++ str ";pk=" ++ show_hex (simple_header ++ p1) ++ str "," ++ show_hex (simple_header ++ p2) ++ str "," ++ show_hex (simple_header ++ p3)).

(* family 16: master server. ops build the SearchFilters *)
Definition rd_filter : R mfilter :=
  let* k := rd_u8 in
  let rb := (let* b := rd_u8 in ret (negb (b =? 0))) in
  if k =? 0 then let* b := rb in ret (IsSecured b)
  else if k =? 1 then let* s := rd_bytes16 in ret (RunsMap s)
  else if k =? 2 then let* b := rb in ret (CanHavePassword b)
  else if k =? 3 then let* b := rb in ret (CanBeEmpty b)
  else if k =? 4 then let* b := rb in ret (IsEmpty b)
  else if k =? 5 then let* b := rb in ret (CanBeFull b)
  else if k =? 6 then let* n := rd_u32 in ret (RunsAppID n)
  else if k =? 7 then let* n := rd_u32 in ret (NotAppID n)
  else if k =? 8 then let* n := rd_u8 in let* t := rd_list (N.to_nat n) rd_bytes16 in ret (HasTags t)
  else if k =? 9 then let* s := rd_bytes16 in ret (MatchName s)
  else if k =? 10 then let* s := rd_bytes16 in ret (MatchVersion s)
  else if k =? 11 then let* b := rb in ret (RestrictUniqueIP b)
  else if k =? 12 then let* s := rd_bytes16 in ret (OnAddress s)
  else if k =? 13 then let* b := rb in ret (Whitelisted b)
  else if k =? 14 then let* b := rb in ret (SpectatorProxy b)
  else if k =? 15 then let* b := rb in ret (IsDedicated b)
  else if k =? 16 then let* b := rb in ret (RunsLinux b)
  else let* s := rd_bytes16 in ret (HasGameDir s).
Definition rd_sf_op : R (group * mfilter) :=
  let* g := rd_u8 in let* f := rd_filter in
  ret ((if g =? 0 then Plain else if g =? 1 then Nand else Nor), f).
Definition show_addr (a : addr) : bytes := show_ip (addr_ip a) ++ str ":" ++ show_N (addr_port a).
Definition case_master : R bytes :=
  let* port := rd_u16 in
  let* region := rd_u8 in
  let* has := rd_u8 in
  let* nops := rd_u8 in
  let* ops := rd_list (N.to_nat nops) rd_sf_op in
  let* mode := rd_u8 in
  let* a1 := rd_u8 in let* a2 := rd_u8 in let* a3 := rd_u8 in let* a4 := rd_u8 in let* lp := rd_u16 in
  let* n := rd_script in
  let sf := fold_left (fun s gf => sf_insert (fst gf) (snd gf) s) ops sf_new in
  let fb := if has =? 0 then [0] else sf_bytes_canon sf in
  ret (show_query (show_list show_addr)
         (if mode =? 0 then master_query port region fb n
          else master_query_specific port region fb (a1, a2, a3, a4, lp) n)).

(* family 116: master-server spec case: seed -> datagrams | expected | seeds *)
Definition case_spec_master : R bytes :=
  let* seed := rd_u64 in
  let l := fst (gen_listing seed) in
  ret (intercalate (str ",") (map show_hex (listing_script l)) ++ str "|"
       ++ show_outcome (show_list show_addr) (Ok (listing_expected l)) ++ str "|"
       ++ intercalate (str ",") (map show_addr (listing_seeds l)) ++ str "|"
       ++ str "np=" ++ show_N (lenN (l_pages l)) ++ str ";nb=" ++ show_N (lenN (l_final_before l))
       ++ str ";na=" ++ show_N (lenN (l_final_after l))).
(* family 117: what a filter string denotes (the Spec's grammar) *)
Definition show_pairs (p : pairs_t) : bytes :=
  show_list (fun kv => show_str (fst kv) ++ str "=" ++ show_str (snd kv)) p.
Definition case_spec_denote : R bytes :=
  let* fb := rd_bytes32 in
  ret (show_option (fun g => show_pairs (gr_plain g) ++ str "/" ++ show_pairs (gr_nand g) ++ str "/" ++ show_pairs (gr_nor g))
         (denote fb)).

(* family 18: construct timeout settings by one of the public paths, then use
   them for a Valve query *)
Definition rd_path : R path :=
  let* t := rd_u8 in
  if t =? 0 then
    let* r := rd_opt rd_dur in let* w := rd_opt rd_dur in let* c := rd_opt rd_dur in let* n := rd_u64 in ret (PNew r w c n)
  else if t =? 1 then ret PDefault
  else if t =? 2 then
    let* c := rd_opt rd_bytes16 in let* r := rd_opt rd_bytes16 in let* w := rd_opt rd_bytes16 in
    let* n := rd_opt rd_bytes16 in ret (PClap c r w n)
  else
    let* c := rd_opt rd_dur in let* r := rd_opt rd_dur in let* w := rd_opt rd_dur in let* n := rd_u64 in ret (PSerde c r w n).
Definition show_ts (t : option tsettings) : bytes :=
  show_option (fun s => str "c" ++ show_option show_dur (ts_connect s) ++ str "r" ++ show_option show_dur (ts_read s)
                        ++ str "w" ++ show_option show_dur (ts_write s) ++ str "n" ++ show_N (ts_retries s)) t.
Definition model_abstains : bytes := str "MODEL-ABSTAINS".
Definition case_settings : R bytes :=
  let* p := rd_path in
  let* port := rd_u16 in
  let* n := rd_script in
  match construct p with
  | Ok t =>
      if 1000000 <? ts_retries_or_default t then ret model_abstains
      else ret (str "Ok(" ++ show_ts t ++ str ")" ++ str ";"
                ++ show_query show_response (Valve.query (bz_lookup []) port (Source None) None t n))
  | o => ret (show_outcome (fun _ => []) o ++ str ";")
  end.

(* family 22: unreal2 query *)
Definition case_unreal2 : R bytes :=
  let* port := rd_u16 in
  let* g := rd_opt (let* p := rd_toggle in let* m := rd_toggle in ret (mk_u2g p m)) in
  let* ts := rd_tsettings in
  let* n := rd_script in
  match ts with
  | Ok t => if 1000000 <? ts_retries_or_default t then ret model_abstains
            else ret (show_query show_u2_response (u2_query port g t n))
  | o => ret (show_outcome (fun _ => []) o ++ str "|")
  end.

(* family 20: quake query (version 1, 2, 3) *)
Definition case_quake : R bytes :=
  let* port := rd_u16 in
  let* v := rd_u8 in
  let* ts := rd_tsettings in
  let* n := rd_script in
  match ts with
  | Ok t => if 1000000 <? ts_retries_or_default t then ret model_abstains
            else ret (show_query show_qresponse
                        (client_query port (if v =? 1 then Q1 else if v =? 2 then Q2 else Q3) t n))
  | o => ret (show_outcome (fun _ => []) o ++ str "|")
  end.

(* family 120: quake spec case: seed, version -> datagram | expected | tags *)
Definition case_spec_quake : R bytes :=
  let* seed := rd_u64 in
  let* vb := rd_u8 in
  let v := if vb =? 1 then Q1 else if vb =? 2 then Q2 else Q3 in
  let st := fst (gen_qstate v seed) in
  ret (show_hex (quake_reply v st) ++ str "|"
       ++ show_option show_qresponse (quake_expected st) ++ str "|"
       ++ str "np=" ++ show_N (lenN (qs_players st)) ++ str ";nv=" ++ show_N (lenN (qs_vars st))
       ++ str ";nodup=" ++ show_bool (nodup_keys (qs_vars st))).

(* family 122: unreal2 spec case: seed, gather -> events | expected | tags
   events: "T" (timeout) or hex datagram, comma separated *)
Definition show_event (e : udp_event) : bytes := match e with Timeout => str "T" | Datagram d => show_hex d end.
Definition case_spec_unreal2 : R bytes :=
  let* seed := rd_u64 in
  let* p := rd_toggle in let* m := rd_toggle in
  let g := mk_u2g p m in
  let st := fst (gen_u2_state seed) in
  ret (intercalate (str ",") (map show_event (u2_script st g)) ++ str "|"
       ++ show_u2_response (u2_expected st g) ++ str "|"
       ++ str "np=" ++ show_N (lenN (all_players st)) ++ str ";npk=" ++ show_N (lenN (us_players st))
       ++ str ";nmr=" ++ show_N (lenN (us_pairs st))).
(* family 123: one string through the decoder: length, encoding, trailing NUL *)
Definition case_spec_u2string : R bytes :=
  let* len := rd_u8 in let* u := rd_u8 in
  let w := gen_long_string len (negb (u =? 0)) in
  ret (show_hex (enc_ustring w) ++ str "|" ++ show_str (expected_ustring w)).

(* family 15 / 115: the protocol-independent view of a response value.
   15 evaluates the tables translated from the source (Gen/CommonImpls.v),
   115 the specification (Spec/ViewSpec.v). *)
Fixpoint rd_tree (fuel : nat) : R jv :=
  match fuel with
  | O => fail PacketBad
  | S f =>
      let* t := rd_u8 in
      if t =? 0 then ret JNull
      else if t =? 1 then ret (JBool false)
      else if t =? 2 then ret (JBool true)
      else if (t =? 3) || (t =? 7) then      (* 7: a float given as an integer; no view reads one *)
        let* sg := rd_u8 in let* m := rd_u64 in ret (JNum (if sg =? 0 then Z.of_N m else (- Z.of_N m)%Z))
      else if t =? 4 then let* b := rd_bytes16 in ret (JStr b)
      else if t =? 5 then let* n := rd_u16 in let* l := rd_list (N.to_nat n) (rd_tree f) in ret (JList l)
      else if t =? 6 then
        let* n := rd_u16 in
        let* l := rd_list (N.to_nat n) (let* k := rd_bytes16 in let* v := rd_tree f in ret (string_of_bytes k, v)) in
        ret (JObj l)
      else fail PacketBad
  end.
Definition case_view : R bytes :=
  let* kb := rd_bytes16 in
  let* r := rd_tree 12 in
  let key := string_of_bytes kb in
  let pk := match assoc key response_impls with Some t => ti_player t | None => EmptyString end in
  ret (view_line key (i_response_acc key) (i_player_acc pk)
         (orig_of response_impls key) (orig_of player_impls pk) (i_response_json key)
         json_keys player_json_keys r).
Definition case_spec_view : R bytes :=
  let* kb := rd_bytes16 in
  let* r := rd_tree 12 in
  let key := string_of_bytes kb in
  match assoc key spec_responses with
  | None => ret (str "NO-SPEC")
  | Some s =>
      let ps := assoc (sp_player s) spec_players in
      ret (view_line key (fun a => eval_s (spec_acc s a))
             (fun a p => match ps with Some q => eval_s (spec_acc q a) p | None => None end)
             (Some (sp_orig s)) (option_map sp_orig ps) (spec_json json_keys player_json_keys s)
             json_keys player_json_keys r)
  end.

(* run a call of Model/Dispatch.v on a script *)
Definition mc_rs_of (x : extra) : request_settings :=
  mk_rs (or_default (x_hostname x) (str "gamedig")) (or_default (x_protocol x) (-1)%Z).
Definition run_call (json : bytes -> option (option jv)) (c : call) (n : net) : bytes :=
  match c with
  | CValve p e g t => show_query show_response (Valve.query (bz_lookup []) p e g t n)
  | CQuake v p t => show_query show_qresponse (client_query p (qver_of v) t n)
  | CUnreal2 p g t => show_query show_u2_response (u2_query p (Some g) t n)
  | CGamespy v p t =>
      if v =? 1 then show_query show_gs1 (gs1_query p t n)
      else if v =? 2 then show_query show_gs2 (gs2_query p t n)
      else show_query show_gs3 (gs3_query p t n)
  | CModule name sub port x t =>
      let dp := match sassoc (prop_module name) hand_ports with Some d => d | None => 0 end in
      let p := or_default port dp in
      let java_like (r : outcome java_response * net) : bytes :=
        (match fst r with Panic 99 => str "ORACLE-MISS" | o => show_outcome show_java o end) ++ str "|" ++ show_trace (snd r) in
      if String.eqb name "Minecraft" then
        let rs := option_map mc_rs_of x in
        if String.eqb sub "auto" then java_like (query_auto json p t rs n)
        else if String.eqb sub """Java""" then java_like (query_java json p t rs n)
        else if String.eqb sub """Bedrock""" then show_query show_bedrock (query_bedrock p t n)
        else if String.eqb sub "{""Legacy"":""V1_6""}" then show_query show_java (query_legacy_specific V1_6 p t n)
        else if String.eqb sub "{""Legacy"":""V1_4""}" then show_query show_java (query_legacy_specific V1_4 p t n)
        else if String.eqb sub "{""Legacy"":""VB1_8""}" then show_query show_java (query_legacy_specific VB1_8 p t n)
        else model_abstains
      else if String.eqb name "Savage2" then show_query show_savage2 (savage2_query p t n)
      else if String.eqb name "Mindustry" then show_query show_mindustry (mindustry_query p t n)
      else if String.eqb name "JC2M" then show_query show_jc2m (jc2m_query p t n)
      else if String.eqb name "FFOW" then show_query show_ffow (ffow_query (bz_lookup []) p t n)
      else if String.eqb name "TheShip" then show_query show_ship_response (theship_query (bz_lookup []) p t n)
      else model_abstains
  end.
Definition rd_json_table : R (bytes -> option (option jv)) :=
  let* nj := rd_u8 in
  let* tbl := rd_list (N.to_nat nj) (let* txt := rd_bytes32 in let* valid := rd_u8 in
                                     if valid =? 0 then ret (txt, None) else let* v := rd_tree 12 in ret (txt, Some v)) in
  ret (fun t => match find (fun e => bytes_eqb (fst e) t) tbl with Some e => Some (snd e) | None => None end).
(* family 34: the generic entry point with explicit extra request settings *)
Definition rd_extra : R extra :=
  let* pl := rd_opt rd_toggle in let* ru := rd_opt rd_toggle in
  let* ck := rd_opt (let* b := rd_u8 in ret (negb (b =? 0))) in
  let* hn := rd_opt rd_bytes16 in let* pv := rd_opt rd_i32 in
  ret (mk_xs pl ru ck hn pv).
Definition case_generic_extra : R bytes :=
  let* idb := rd_bytes16 in
  let* port := rd_opt rd_u16 in
  let* x := rd_opt rd_extra in
  let* ts := rd_tsettings in
  let* n := rd_script in
  let* json := rd_json_table in
  match find (fun d => String.eqb (d_id d) (string_of_bytes idb)) games, ts with
  | None, _ => ret (str "NO-SUCH-GAME")
  | Some d, Ok t => if 1000000 <? ts_retries_or_default t then ret model_abstains
                    else ret (run_call json (dispatch d port t x) n)
  | Some _, o => ret (show_outcome (fun _ => []) o ++ str "|")
  end.

(* family 14: a game of the definitions table queried through the generic
   entry point (query_with_timeout_and_extra_settings with no extra settings);
   the harness compares the other paths with it. 114: replies of a server of
   a given engine for given gather settings. *)
Definition case_paths : R bytes :=
  let* idb := rd_bytes16 in
  let* _ := rd_bytes16 in                    (* the module the harness calls *)
  let* port := rd_opt rd_u16 in
  let* ts := rd_tsettings in
  let* n := rd_script in
  let id := string_of_bytes idb in
  match find (fun d => String.eqb (d_id d) id) games, ts with
  | None, _ => ret (str "NO-SUCH-GAME")
  | Some d, Ok t =>
      if 1000000 <? ts_retries_or_default t then ret model_abstains
      else ret (run_call (fun _ => None) (dispatch d port t None) n)
  | Some _, o => ret (show_outcome (fun _ => []) o ++ str "|")
  end.
Definition case_spec_valve_for : R bytes :=
  let* seed := rd_u64 in
  let* e := rd_engine in
  let* g := rd_gathering in
  let '(st, o) := fst (gen_valve_for e seed) in
  ret (intercalate (str ",") (map show_hex (valve_script st o g))).

(* family 30: the game-id naming checker on a list of (id, name) pairs; the
   case carries the number_to_words answers it needs *)
Definition case_idcheck : R bytes :=
  let* nt := rd_u8 in
  let* tbl := rd_list (N.to_nat nt) (let* k := rd_bytes16 in let* v := rd_bytes16 in ret (k, v)) in
  let* ng := rd_u8 in
  let* games := rd_list (N.to_nat ng) (let* i := rd_bytes16 in let* n := rd_bytes16 in ret (i, n)) in
  let n2w := fun d => match find (fun kv => bytes_eqb (fst kv) d) tbl with Some kv => Some (snd kv) | None => None end in
  ret (match test_game_name_rules n2w games with
       | Panic 99 => str "ORACLE-MISS"
       | o => show_outcome (fun fs => show_list show_fail fs) o
       end).

(* families 41 / 42 / 43: gamespy one / two / three; mode 0 = query, 1 = query_vars *)
(* GameSpy 1: two variables that name the same field of the same player (mesh_3 and mesh_03, say): the implementation
   moves them into the player's map in the iteration order of a HashMap, so which value stays is unspecified; the model
   does not pick one *)
Definition gs1_ambiguous (vars : vmap) : bool :=
  let vars' := map_remove (str "minplayers") (map_remove (str "maxplayers") vars) in
  let bound := lenN vars' in
  let tagged := flat_map (fun kv : bytes * bytes => match StrOps.split 95 (fst kv) with
                                    | [kind; ids] => match StrOps.parse_unsigned usize_max' ids with
                                                     | Some id => if existsb (bytes_eqb kind) gs1_player_kinds && (id <? bound) then [kind ++ [0] ++ show_N id] else []
                                                     | None => []
                                                     end
                                    | _ => []
                                    end) vars' in
  (fix dup (l : list bytes) : bool := match l with [] => false | x :: r => existsb (bytes_eqb x) r || dup r end) tagged.
Definition case_gamespy (ver : N) : R bytes :=
  let* port := rd_u16 in
  let* mode := rd_u8 in
  let* ts := rd_tsettings in
  let* n := rd_script in
  match ts with
  | Ok t =>
      if 1000000 <? ts_retries_or_default t then ret model_abstains
      else ret (if ver =? 1 then
                  (if mode =? 0
                   then (match fst (gs1_query_vars port t n) with
                         | Ok vars => if gs1_ambiguous vars then model_abstains else show_query show_gs1 (gs1_query port t n)
                         | _ => show_query show_gs1 (gs1_query port t n)
                         end)
                   else show_query show_map (gs1_query_vars port t n))
                else if ver =? 2 then show_query show_gs2 (gs2_query port t n)
                else (if mode =? 0 then show_query show_gs3 (gs3_query port t n) else show_query show_map (gs3_query_vars port t n)))
  | o => ret (show_outcome (fun _ => []) o ++ str "|")
  end.

(* families 141 / 142 / 143: gamespy spec cases: seed -> datagrams | expected | tags *)
Definition max_len (l : list bytes) : N := fold_left (fun m d => N.max m (lenN d)) l 0.
Definition case_spec_gamespy (ver : N) : R bytes :=
  let* seed := rd_u64 in
  if ver =? 1 then
    let s := fst (gen_s1 seed) in
    ret (intercalate (str ",") (map show_hex (s1_script s)) ++ str "|" ++ show_gs1 (s1_expected s) ++ str "|"
         ++ show_map (s1_vars s) ++ str "|"
         ++ str "np=" ++ show_N (lenN (s1_players s)) ++ str ";parts=" ++ show_N (lenN (s1_script s))
         ++ str ";max=" ++ show_N (max_len (s1_script s)))
  else if ver =? 2 then
    let s := fst (gen_s2 seed) in
    ret (show_hex (s2_reply s) ++ str "|" ++ show_gs2 (s2_expected s) ++ str "|" ++ str "|"
         ++ str "np=" ++ show_N (lenN (s2_players s)) ++ str ";nt=" ++ show_N (lenN (s2_teams s))
         ++ str ";max=" ++ show_N (lenN (s2_reply s)))
  else
    let s := fst (gen_s3 seed) in
    ret (intercalate (str ",") (map show_hex (s3_script s)) ++ str "|" ++ show_gs3 (s3_expected s) ++ str "|"
         ++ show_map (s3_vars s) ++ str "|"
         ++ str "np=" ++ show_N (lenN (s3_players s)) ++ str ";nt=" ++ show_N (lenN (s3_teams s))
         ++ str ";parts=" ++ show_N (lenN (s3_packets s)) ++ str ";max=" ++ show_N (max_len (s3_packets s))
         ++ str ";req=" ++ intercalate (str ",") (map show_hex (s3_requests s))).

(* family 50: single-game protocols. game: 0 ffow, 1 savage2, 2 jc2m, 3 mindustry, 4 theship, 5 battalion1944 *)
Definition case_game : R bytes :=
  let* game := rd_u8 in
  let* port := rd_u16 in
  let* ts := rd_tsettings in
  let* n := rd_script in
  match ts with
  | Ok t =>
      if 1000000 <? ts_retries_or_default t then ret model_abstains
      else ret (if game =? 0 then show_query show_ffow (ffow_query (bz_lookup []) port t n)
                else if game =? 1 then show_query show_savage2 (savage2_query port t n)
                else if game =? 2 then show_query show_jc2m (jc2m_query port t n)
                else if game =? 3 then show_query show_mindustry (mindustry_query port t n)
                else if game =? 4 then show_query show_ship_response (theship_query (bz_lookup []) port t n)
                else show_query show_game_response (battalion_query (bz_lookup []) port n))
  | o => ret (show_outcome (fun _ => []) o ++ str "|")
  end.
(* family 150: spec cases: game, seed -> datagrams | expected | tags *)
Definition case_spec_game : R bytes :=
  let* game := rd_u8 in
  let* seed := rd_u64 in
  let line (dgs : list bytes) (expected : bytes) (tags : bytes) :=
    intercalate (str ",") (map show_hex dgs) ++ str "|" ++ expected ++ str "|" ++ tags ++ str ";max=" ++ show_N (max_len dgs) in
  if game =? 0 then let s := fst (gen_ffow seed) in ret (line [ffow_reply s] (show_ffow (fs_resp s)) (str "np=0"))
  else if game =? 1 then let s := fst (gen_savage2 seed) in ret (line [savage2_reply s] (show_savage2 (ss_resp s)) (str "np=0"))
  else if game =? 2 then
    let s := fst (gen_jc seed) in
    ret (line (jc_script s) (show_jc2m (jc_expected s))
           (str "np=" ++ show_N (lenN (js_players s)) ++ str ";req=" ++ intercalate (str ",") (map show_hex (jc_requests s))))
  else if game =? 3 then
    let '(r, gm) := fst (gen_mindustry seed) in ret (line [mindustry_reply r gm] (show_mindustry r) (str "np=0"))
  else if game =? 4 then
    let '(st, o) := fst (gen_valve_for ship_engine seed) in
    ret (line (valve_script st o gathering_default) (show_outcome show_ship_response (ship_expected st))
           (str "np=" ++ show_N (lenN (vs_players st)) ++ str ";wf=" ++ show_bool (wf_state ship_engine st)))
  else
    let '((st0, o), s') := gen_valve_for bat_engine seed in
    let st := mk_vstate (vs_info st0) (vs_players st0) (fst (gen_bat_rules s') ++ vs_rules st0) in
    ret (line (valve_script st o gathering_default) (show_outcome show_game_response (bat_expected st))
           (str "np=" ++ show_N (lenN (vs_players st)) ++ str ";wf=" ++ show_bool (wf_state bat_engine st))).

(* family 33: minecraft. variant 0 auto, 1 java, 2 bedrock, 3 legacy, 4 / 5 / 6 legacy 1.6 / 1.4 / beta 1.8.
   After the script: the serde_json::from_str answers the case needs. *)
Definition case_minecraft : R bytes :=
  let* variant := rd_u8 in
  let* port := rd_u16 in
  let* rs := rd_opt (let* h := rd_bytes16 in let* p := rd_i32 in ret (mk_rs h p)) in
  let* ts := rd_tsettings in
  let* n := rd_script in
  let* nj := rd_u8 in
  let* tbl := rd_list (N.to_nat nj) (let* txt := rd_bytes32 in let* valid := rd_u8 in
                                     if valid =? 0 then ret (txt, None) else let* v := rd_tree 12 in ret (txt, Some v)) in
  let json := fun t => match find (fun e => bytes_eqb (fst e) t) tbl with Some e => Some (snd e) | None => None end in
  match ts with
  | Ok t =>
      if 1000000 <? ts_retries_or_default t then ret model_abstains
      else ret (if variant =? 0 then show_query show_java (query_auto json port t rs n)
                else if variant =? 1 then show_query show_java (query_java json port t rs n)
                else if variant =? 2 then show_query show_bedrock (query_bedrock port t n)
                else if variant =? 3 then show_query show_java (query_legacy port t n)
                else show_query show_java (query_legacy_specific (if variant =? 4 then V1_6 else if variant =? 5 then V1_4 else VB1_8) port t n))
  | o => ret (show_outcome (fun _ => []) o ++ str "|")
  end.

(* family 133: minecraft spec case: seed, variant (as family 33) -> udp | tcp | expected | json text | tags *)
Definition show_conn (c : tcp_conn) : bytes :=
  match c with Refused => str "R" | Stream d st => (if st then str "s" else str "") ++ show_hex d end.
Definition case_spec_minecraft : R bytes :=
  let* seed := rd_u64 in
  let* variant := rd_u8 in
  let w := fst (gen_world seed) in
  let line (udp : list udp_event) (tcp : list tcp_conn) (expected : bytes) (js : bytes) (tags : bytes) :=
    intercalate (str ",") (map show_event udp) ++ str "|" ++ intercalate (str ",") (map show_conn tcp) ++ str "|"
    ++ expected ++ str "|" ++ show_hex js ++ str "|" ++ tags in
  let jtext := match w_java w with Some s => java_json s | None => [] end in
  if variant =? 0 then
    ret (line (world_udp w) (world_tcp w) (show_outcome show_java (auto_expected w)) jtext (str "conns=" ++ auto_connections w))
  else if variant =? 1 then
    match w_java w with
    | Some s => ret (line [] [Stream (java_stream s) false] (show_outcome show_java (Ok (java_expected s))) jtext (str "conns=T"))
    | None => ret (str "SKIP")
    end
  else if variant =? 2 then
    match w_bedrock w with
    | Some s => ret (line [Datagram (bedrock_pong s)] [] (show_outcome show_bedrock (Ok (bedrock_expected s))) [] (str "conns=U"))
    | None => ret (str "SKIP")
    end
  else
    let g := if variant =? 4 then V1_6 else if variant =? 5 then V1_4 else VB1_8 in
    match (match g with V1_6 => w_v16 w | V1_4 => w_v14 w | VB1_8 => w_vb18 w end) with
    | Some s => ret (line [] [Stream (kick (match g with V1_6 => v16_text s | _ => old_text s end)) false]
                       (show_outcome show_java (Ok (match g with V1_6 => v16_expected s | _ => old_expected g s end))) [] (str "conns=T"))
    | None => ret (str "SKIP")
    end.

(* family 12: a query (or a raw exchange through the crate's sockets) against a
   loopback server with a scripted behaviour. The model runs the same query on
   the equivalent script. Output: result | what the server saw.
   family 112: the number of receives that wait for the full read timeout. *)
Definition digest (d : bytes) : bytes :=
  str "len=" ++ show_N (lenN d) ++ str ",sum=" ++ show_N (fold_left N.add d 0 mod 4294967296).
Definition sends_of (n : net) : list bytes :=
  flat_map (fun e => match e with SendEv _ d => [d] | _ => [] end) (rev (n_trace n)).
Definition recvs_of (n : net) : N :=
  lenN (filter (fun e => match e with RecvEv _ => true | _ => false end) (n_trace n)).
Definition real_run : R (N * bool * net * (bytes * net)) :=
  let* kind := rd_u8 in
  let* v6 := rd_u8 in
  let* ts := rd_tsettings in
  let* nrep := rd_u8 in
  let* replies := rd_list (N.to_nat nrep) rd_bytes32 in
  let* after := rd_u8 in
  let* payload := rd_bytes32 in
  let* size := rd_opt rd_u32 in
  let tcp := (kind =? 2) || (kind =? 4) || (kind =? 5) || (kind =? 6) || (kind =? 7) in
  let n0 := if (kind =? 6) || (kind =? 7)
            then (* every variant gets its own connection; the peer accepts each and says nothing, on TCP and on UDP *)
                 net_init [] (repeat (Stream [] true) 16) []
            else if (after =? 2) || (after =? 4) then net_init [] [Refused] []
            else if tcp then net_init [] [Stream (hd [] replies) (negb (after =? 1))] []
            else if after =? 3 then net_init [Datagram payload] [] []
            else (* an empty reply stands for a request that gets no answer *)
                 net_init (map (fun r : bytes => match r with [] => Timeout | _ => Datagram r end) replies) [] [] in
  match ts with
  | Ok t =>
      let res : bytes * net :=
        if kind =? 0 then (let r := Valve.query (bz_lookup []) 0 (Source None) (Some (mk_gather Enforce Skip false)) t n0 in
                           (show_outcome show_response (fst r), snd r))
        else if (kind =? 1) || (kind =? 8) then (let r := client_query 0 Q3 t n0 in (show_outcome show_qresponse (fst r), snd r))
        else if kind =? 2 then (let r := query_java (fun _ => None) 0 t None n0 in
                                ((match fst r with Panic 99 => str "ORACLE-MISS" | o => show_outcome show_java o end), snd r))
        else if kind =? 3 then (let r := (do* _ := udp_new 0 t in do* _ := send 0 payload in udp_recv size) n0 in
                                (show_outcome digest (fst r), snd r))
        else if kind =? 6 then (let r := query_auto (fun _ => None) 0 t None n0 in
                                ((match fst r with Panic 99 => str "ORACLE-MISS" | o => show_outcome show_java o end), snd r))
        else if kind =? 7 then (let r := query_legacy 0 t n0 in (show_outcome show_java (fst r), snd r))
        else if kind =? 5 then
          (* the HTTP client (ureq) is not modelled: what a stalled or absent web server must lead to, per the error mapping
             of http.rs: no complete response head -> the request failed (PacketSend); head but no body -> the JSON reader failed *)
          (let head_done := existsb (fun i => starts_with [13; 10; 13; 10] (skipn i (hd [] replies))) (seq 0 (length (hd [] replies))) in
           ((if (after =? 0) && head_done then str "Err(ProtocolFormat)" else str "Err(PacketSend)"), n0))
        else (let r := (do* _ := tcp_new 0 t in do* _ := send 0 payload in tcp_recv None) n0 in
              (show_outcome digest (fst r), snd r)) in
      ret (kind, tcp, n0, res)
  | _ => fail InvalidInput
  end.
Definition case_real : R bytes :=
  let* '(kind, tcp, n0, (res, n)) := real_run in
  let saw := if (kind =? 5) || (kind =? 6) || (kind =? 7) then []
             else if kind =? 2 then (match sends_of n with [] => [] | l => str "len=" ++ show_N (lenN (concat l)) end)
             else if tcp then (match sends_of n with [] => [] | l => digest (concat l) end)
             else if kind =? 3 then intercalate (str ",") (map digest (sends_of n))
             else intercalate (str ",") (map show_hex (sends_of n)) in
  ret (res ++ str "|" ++ saw).
Definition case_spec_real : R bytes :=
  let* '(kind, tcp, n0, (res, n)) := real_run in
  let dgrams (l : list udp_event) := lenN (filter (fun e => match e with Datagram _ => true | _ => false end) l) in
  let consumed := dgrams (n_udp n0) - dgrams (n_udp n) in
  let answered := if tcp then (match n_cur n with Some (_, false) => 1 | _ => 0 end) else consumed in
  (* HTTP: one request, so at most one read waits for the whole timeout unless the connection is refused or closed *)
  let http_waits := match n_tcp n0 with Stream _ true :: _ => 1 | _ => 0 end in
  ret (str "timeouts=" ++ show_N (if kind =? 5 then http_waits else recvs_of n - answered)).

(* family 19: the CLI's XML output judged against the value it printed as JSON:
   tree of the JSON output, bytes of the XML output *)
Definition case_cli_xml : R bytes :=
  let* v := rd_tree 16 in
  let* actual := rd_bytes32 in
  let parsed := xml_parse actual in
  let expected_tree := XElem (str "data") (xtree None v) in
  ret (str "render=" ++ (if bytes_eqb (xml_document v) actual then str "same" else str "diff")
       ++ str ";parse=" ++ (match parsed with Some _ => str "ok" | None => str "malformed" end)
       ++ str ";faithful=" ++ (match parsed with
                               | Some t => if xequiv 64 t expected_tree then str "yes" else str "no"
                               | None => str "no" end)
       ++ str ";conforms=" ++ (if xml_conforms actual v then str "yes" else str "no")).

(* family 52: Eco over HTTP. The case carries the HTTP reply for the harness's web server and, for the
   model, what the JSON reader makes of the body (oracle): 0 = not a JSON document, 1 = the value as a tree *)
Definition case_eco : R bytes :=
  let* _ := rd_u8 in                         (* IPv6? *)
  let* _ := rd_bytes32 in                    (* the reply bytes *)
  let* _ := rd_u8 in                         (* close after the reply? *)
  let* k := rd_u8 in
  if k =? 0 then ret (show_outcome show_eco (Err ProtocolFormat))
  else let* v := rd_tree 12 in ret (show_outcome show_eco (eco_map v)).

(* family 53: accepted timeout settings used by an HTTP-based query (Eco against a port nobody listens on):
   the HTTP client is not modelled, the model abstains; the check judges the implementation alone *)
Definition case_http_settings : R bytes := ret model_abstains.

Definition run_case_R : R bytes :=
  let* fam := rd_u8 in
  if fam =? 1 then case_bufops
  else if fam =? 2 then case_as_varint
  else if fam =? 3 then case_as_string
  else if fam =? 4 then case_lower_upper
  else if fam =? 5 then case_expected_size
  else if fam =? 6 then case_varint_rt
  else if fam =? 7 then case_string_rt
  else if fam =? 10 then case_valve
  else if fam =? 12 then case_real
  else if fam =? 14 then case_paths
  else if fam =? 15 then case_view
  else if fam =? 16 then case_master
  else if fam =? 18 then case_settings
  else if fam =? 19 then case_cli_xml
  else if fam =? 20 then case_quake
  else if fam =? 22 then case_unreal2
  else if fam =? 30 then case_idcheck
  else if fam =? 33 then case_minecraft
  else if fam =? 34 then case_generic_extra
  else if fam =? 41 then case_gamespy 1
  else if fam =? 42 then case_gamespy 2
  else if fam =? 43 then case_gamespy 3
  else if fam =? 50 then case_game
  else if fam =? 52 then case_eco
  else if fam =? 53 then case_http_settings
  else if fam =? 110 then case_spec_valve
  else if fam =? 150 then case_spec_game
  else if fam =? 133 then case_spec_minecraft
  else if fam =? 141 then case_spec_gamespy 1
  else if fam =? 142 then case_spec_gamespy 2
  else if fam =? 143 then case_spec_gamespy 3
  else if fam =? 112 then case_spec_real
  else if fam =? 114 then case_spec_valve_for
  else if fam =? 115 then case_spec_view
  else if fam =? 116 then case_spec_master
  else if fam =? 117 then case_spec_denote
  else if fam =? 120 then case_spec_quake
  else if fam =? 122 then case_spec_unreal2
  else if fam =? 123 then case_spec_u2string
  else fail InvalidInput.

Definition run_case (c : bytes) : bytes :=
  match run_case_R (buf_new c) with
  | (Ok out, _) => out
  | _ => str "BADCASE"
  end.
