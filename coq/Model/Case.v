(* Case decoding and dispatch: one correspondence case is a byte string; the
   harness (Rust, real code) and this model decode it the same way and print a
   canonical text result. The case reader is the Buffer model itself. *)
From GD Require Import Base.Prelude Model.Strings Model.Buffer Model.Unreal2Str Model.BufOps.

Definition rd_u8 : R N := read_uint true 1.
Definition rd_u16 : R N := read_uint true 2.
Definition rd_u32 : R N := read_uint true 4.
Definition rd_i16 : R Z := read_int true 2.
Definition rd_i32 : R Z := read_int true 4.
Definition rd_bytes16 : R bytes := let* n := rd_u16 in read_raw (N.to_nat n).
Definition rd_bytes32 : R bytes := let* n := rd_u32 in read_raw (N.to_nat n).

Fixpoint rd_list {A} (n : nat) (rd : R A) : R (list A) :=
  match n with
  | O => ret []
  | S n' => let* x := rd in let* r := rd_list n' rd in ret (x :: r)
  end.

Definition rd_bop : R bop :=
  let* c := rd_u8 in
  if c <? 8 then
    let w := if c <? 2 then 1%nat else if c <? 4 then 2%nat else if c <? 6 then 4%nat else 8%nat in
    ret (OpRead (c mod 2 =? 1) w)
  else if c =? 8 then ret (OpReadF 4)
  else if c =? 9 then ret (OpReadF 8)
  else if c =? 10 then let* o := rd_i16 in ret (OpMove o)
  else if c =? 11 then ret (OpUtf8 None)
  else if c =? 12 then let* d := rd_u8 in ret (OpUtf8 (Some d))
  else if c =? 13 then ret (OpUtf8Lp None)
  else if c =? 14 then let* d := rd_u8 in ret (OpUtf8Lp (Some d))
  else if c =? 15 then ret (OpUtf16 false None)
  else if c =? 16 then ret (OpUtf16 true None)
  else if c =? 17 then let* a := rd_u8 in let* b := rd_u8 in ret (OpUtf16 false (Some (a, b)))
  else if c =? 18 then let* a := rd_u8 in let* b := rd_u8 in ret (OpUtf16 true (Some (a, b)))
  else if c =? 19 then ret OpUnreal2
  else if c =? 20 then ret OpRemBytes
  else if c =? 21 then ret OpRemLen
  else if c =? 22 then let* s := rd_u8 in ret (OpSwitch (N.to_nat s))
  else if c =? 23 then ret OpVarint
  else if c =? 24 then ret OpMcString
  else fail InvalidInput.

(* family 1: reader op sequence *)
Definition case_bufops : R bytes :=
  let* order := rd_u8 in
  let* pkt := rd_bytes16 in
  let* n := rd_u8 in
  let* ops := rd_list (N.to_nat n) rd_bop in
  let be := negb (order =? 0) in
  let '(lines, _) := run_bops be ops (buf_new pkt) in
  ret (show_N (lenN pkt) ++ str ":" ++ intercalate (str ";") lines).

(* family 2: as_varint; family 3: as_string; 4: u8_lower_upper; 5: error_by_expected_size *)
Definition case_as_varint : R bytes :=
  let* v := rd_i32 in ret (show_list show_N (as_varint v)).
Definition case_as_string : R bytes :=
  let* s := rd_bytes32 in
  if utf8_valid s then ret (show_outcome (show_list show_N) (as_string s))
  else ret (str "NOT-UTF8").
Definition case_lower_upper : R bytes :=
  let* v := rd_u8 in let '(a, b) := u8_lower_upper v in
  ret (show_N a ++ str "," ++ show_N b).
Definition case_expected_size : R bytes :=
  let* a := rd_u32 in let* b := rd_u32 in
  ret (show_outcome (fun _ => str "()") (error_by_expected_size a b)).

(* family 6: VarInt round trip as_varint -> get_varint; family 7: string round trip *)
Definition case_varint_rt : R bytes :=
  let* v := rd_i32 in
  let enc := as_varint v in
  let '(r, b') := get_varint (buf_new enc) in
  ret (show_list show_N enc ++ str "=>" ++ show_outcome show_Z r ++ str "@" ++ show_N (cursor b')).
Definition case_string_rt : R bytes :=
  let* s := rd_bytes32 in
  if utf8_valid s then
    match as_string s with
    | Ok enc =>
        let '(r, b') := get_string (buf_new enc) in
        ret (show_outcome show_str r ++ str "@" ++ show_N (cursor b') ++ str "/" ++ show_N (lenN enc))
    | o => ret (show_outcome (fun _ => []) o)
    end
  else ret (str "NOT-UTF8").

Definition run_case_R : R bytes :=
  let* fam := rd_u8 in
  if fam =? 1 then case_bufops
  else if fam =? 2 then case_as_varint
  else if fam =? 3 then case_as_string
  else if fam =? 4 then case_lower_upper
  else if fam =? 5 then case_expected_size
  else if fam =? 6 then case_varint_rt
  else if fam =? 7 then case_string_rt
  else fail InvalidInput.

Definition run_case (c : bytes) : bytes :=
  match run_case_R (buf_new c) with
  | (Ok out, _) => out
  | _ => str "BADCASE"
  end.
