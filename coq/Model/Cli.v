(* Model of the XML writer of crates/cli/src/main.rs (output_result_xml,
   json_to_xml over quick-xml's Writer) and a parser for the documents it can
   produce, used to state well-formedness and faithfulness (C19).

   A number that is not an integer arrives as JObj [("$raw", JStr text)], text
   being serde_json's rendering (the same Display the writer uses). *)
From GD Require Import Base.Prelude Model.Strings Model.View.
Require Import String.

(* quick_xml::escape::escape *)
Definition xml_escape_char (c : N) : bytes :=
  if c =? 60 then str "&lt;" else if c =? 62 then str "&gt;" else if c =? 38 then str "&amp;"
  else if c =? 39 then str "&apos;" else if c =? 34 then str "&quot;" else [c].
Definition xml_escape (s : bytes) : bytes := flat_map xml_escape_char s.

Definition xml_decl : bytes := str "<?xml version=""1.1"" encoding=""utf-8""?>".
Definition tag_open (k : bytes) : bytes := str "<" ++ k ++ str ">".
Definition tag_close (k : bytes) : bytes := str "</" ++ k ++ str ">".
Definition tag_empty (k : bytes) : bytes := str "<" ++ k ++ str "/>".
Definition wrap (key : option bytes) (body : bytes) : bytes :=
  match key with Some k => tag_open k ++ body ++ tag_close k | None => body end.

Definition raw_number (v : jv) : option bytes :=
  match v with JObj [(k, JStr t)] => if String.eqb k "$raw" then Some t else None | _ => None end.

(* json_to_xml *)
Fixpoint json_to_xml (key : option bytes) (v : jv) : bytes :=
  match raw_number v with
  | Some t => wrap key (xml_escape t)
  | None =>
      match v with
      | JObj l => wrap key (flat_map (fun kv => json_to_xml (Some (str (fst kv))) (snd kv)) l)
      | JList l => flat_map (json_to_xml (Some (match key with Some k => k | None => str "item" end))) l
      | JNull => match key with Some k => tag_empty k | None => [] end
      | JStr s => wrap key (xml_escape s)
      | JNum z => wrap key (xml_escape (show_Z z))
      | JBool b => wrap key (xml_escape (show_bool b))
      end
  end.
Definition xml_document (v : jv) : bytes := xml_decl ++ tag_open (str "data") ++ json_to_xml None v ++ tag_close (str "data").

(* ---- a parser for such documents ---- *)
Inductive xnode := XText (s : bytes) | XElem (name : bytes) (children : list xnode).

(* XML 1.1 Name over ASCII plus any non-ASCII byte *)
Definition name_start (c : N) : bool :=
  ((65 <=? c) && (c <=? 90)) || ((97 <=? c) && (c <=? 122)) || (c =? 95) || (c =? 58) || (128 <=? c).
Definition name_char (c : N) : bool :=
  name_start c || ((48 <=? c) && (c <=? 57)) || (c =? 45) || (c =? 46).
Definition is_name (s : bytes) : bool :=
  match s with c :: r => name_start c && forallb name_char r | [] => false end.
(* characters that may appear literally in XML 1.1 content (NUL never; C0 controls other than
   tab, LF, CR and DEL must be character references) *)
Definition text_char (c : N) : bool :=
  negb ((c =? 0) || ((1 <=? c) && (c <=? 8)) || (c =? 11) || (c =? 12) || ((14 <=? c) && (c <=? 31)) || (c =? 127)).

(* text up to the next '<', entities decoded *)
Definition entity (r : bytes) : option (N * bytes) :=
  match drop_prefix (str "lt;") r with Some r' => Some (60, r') | None =>
  match drop_prefix (str "gt;") r with Some r' => Some (62, r') | None =>
  match drop_prefix (str "amp;") r with Some r' => Some (38, r') | None =>
  match drop_prefix (str "apos;") r with Some r' => Some (39, r') | None =>
  match drop_prefix (str "quot;") r with Some r' => Some (34, r') | None => None
  end end end end end.
Fixpoint take_text (fuel : nat) (s : bytes) (acc : bytes) : option (bytes * bytes) :=
  match fuel with
  | O => None
  | S f =>
      match s with
      | [] => Some (rev acc, [])
      | c :: r =>
          if c =? 60 then Some (rev acc, s)
          else if c =? 38 then match entity r with Some (x, r') => take_text f r' (x :: acc) | None => None end
          else if text_char c && negb (c =? 62) then take_text f r (c :: acc) else None
      end
  end.
Fixpoint take_name (s : bytes) (acc : bytes) : bytes * bytes :=
  match s with
  | c :: r => if name_char c then take_name r (c :: acc) else (rev acc, s)
  | [] => (rev acc, [])
  end.

(* after "<name": "/>" (empty element), ">" (content follows) *)
Inductive after_name := AEmpty (r : bytes) | AOpen (r : bytes) | ABad.
Definition classify (r1 : bytes) : after_name :=
  match r1 with
  | a :: r2 => if a =? 62 then AOpen r2
               else if a =? 47 then match r2 with b :: r3 => if b =? 62 then AEmpty r3 else ABad | [] => ABad end
               else ABad
  | [] => ABad
  end.
(* content of an element: nodes up to the close tag of the parent *)
Fixpoint parse_content (fuel : nat) (s : bytes) : option (list xnode * bytes) :=
  match fuel with
  | O => None
  | S f =>
      match s with
      | [] => Some ([], [])
      | c :: r =>
          if c =? 60 then
            match r with
            | [] => None
            | c2 :: _ =>
                if c2 =? 47 then Some ([], s)            (* "</": the caller's close tag *)
                else
                  let '(name, r1) := take_name r [] in
                  if negb (is_name name) then None else
                  match classify r1 with
                  | AEmpty r2 =>
                      match parse_content f r2 with
                      | Some (rest, r3) => Some (XElem name [] :: rest, r3)
                      | None => None
                      end
                  | AOpen r2 =>
                      match parse_content f r2 with
                      | Some (kids, r3) =>
                          match drop_prefix (tag_close name) r3 with
                          | Some r4 => match parse_content f r4 with
                                       | Some (rest, r5) => Some (XElem name kids :: rest, r5)
                                       | None => None
                                       end
                          | None => None
                          end
                      | None => None
                      end
                  | ABad => None
                  end
            end
          else
            match take_text (S (List.length s)) s [] with
            | Some (t, r1) => match parse_content f r1 with
                              | Some (rest, r2) => Some (XText t :: rest, r2)
                              | None => None
                              end
            | None => None
            end
      end
  end.
Definition xml_parse (doc : bytes) : option xnode :=
  match drop_prefix xml_decl doc with
  | Some r =>
      match parse_content (S (List.length r)) r with
      | Some ([XElem name kids], []) => Some (XElem name kids)
      | _ => None
      end
  | None => None
  end.

(* the tree a JSON value stands for *)
Definition leaf (key : option bytes) (t : bytes) : list xnode :=
  let txt := match t with [] => [] | _ => [XText t] end in
  match key with Some k => [XElem k txt] | None => txt end.
Fixpoint xtree (key : option bytes) (v : jv) : list xnode :=
  match raw_number v with
  | Some t => leaf key t
  | None =>
      match v with
      | JObj l => let kids := flat_map (fun kv => xtree (Some (str (fst kv))) (snd kv)) l in
                  match key with Some k => [XElem k kids] | None => kids end
      | JList l => flat_map (xtree (Some (match key with Some k => k | None => str "item" end))) l
      | JNull => match key with Some k => [XElem k []] | None => [] end
      | JStr s => leaf key s
      | JNum z => leaf key (show_Z z)
      | JBool b => leaf key (show_bool b)
      end
  end.

(* ---- does a document equal the writer's output for a value, up to the order of the members of
        its maps (HashMap iteration order differs between two runs of the tool)? ----
   xml_match key v s: the possible remainders of s after one rendering of v under key *)
Definition take_pref (p s : bytes) : list bytes := match drop_prefix p s with Some r => [r] | None => [] end.
Fixpoint remove_nth {A} (n : nat) (l : list A) : list A :=
  match n, l with
  | O, _ :: r => r
  | S n', x :: r => x :: remove_nth n' r
  | _, [] => []
  end.
Fixpoint xml_match (fuel : nat) (key : option bytes) (v : jv) (s : bytes) : list bytes :=
  match fuel with
  | O => []
  | S f =>
      match raw_number v with
      | Some t =>
          (* a number that is not an integer (its text has a point or an exponent): the JSON and the XML output
             print the same f32 / f64 with different numbers of digits, so any number text is accepted here (the
             values are compared through the BSON output); an integer too large for the tree encoding must
             appear digit for digit *)
          let is_num c := ((48 <=? c) && (c <=? 57)) || (c =? 43) || (c =? 45) || (c =? 46) || (c =? 101) || (c =? 69) in
          let is_float := existsb (fun c => (c =? 46) || (c =? 101) || (c =? 69)) t in
          let body r := if is_float
                        then match span_until (fun c => negb (is_num c)) r with ([], _) => [] | (_, r') => [r'] end
                        else take_pref t r in
          match key with
          | Some k => flat_map (take_pref (tag_close k)) (flat_map body (take_pref (tag_open k) s))
          | None => body s
          end
      | None =>
          match v with
          | JObj l =>
              let opened := match key with Some k => take_pref (tag_open k) s | None => [s] end in
              let inner := flat_map (xml_match_members f l) opened in
              match key with Some k => flat_map (take_pref (tag_close k)) inner | None => inner end
          | JList l =>
              let k := Some (match key with Some k => k | None => str "item" end) in
              fold_left (fun rems item => flat_map (xml_match f k item) rems) l [s]
          | JNull => match key with Some k => take_pref (tag_empty k) s | None => [s] end
          | JStr t => take_pref (wrap key (xml_escape t)) s
          | JNum z => take_pref (wrap key (xml_escape (show_Z z))) s
          | JBool b => take_pref (wrap key (xml_escape (show_bool b))) s
          end
      end
  end
with xml_match_members (fuel : nat) (l : list (string * jv)) (s : bytes) : list bytes :=
  match fuel with
  | O => []
  | S f =>
      match l with
      | [] => [s]
      | _ => flat_map (fun i => match nth_error l i with
                                | Some (k, v) => flat_map (xml_match_members f (remove_nth i l)) (xml_match f (Some (str k)) v s)
                                | None => []
                                end) (seq 0 (List.length l))
      end
  end.
(* fuel that suffices for a value: one per nesting level and per member *)
Fixpoint msize (v : jv) : nat :=
  match v with
  | JObj l => 2 + List.length l + list_sum (map (fun kv => msize (snd kv)) l)
  | JList l => 1 + list_sum (map msize l)
  | _ => 1
  end.
Definition xml_conforms (doc : bytes) (v : jv) : bool :=
  existsb (fun r => match r with [] => true | _ => false end)
          (flat_map (take_pref (tag_close (str "data")))
                    (flat_map (xml_match (msize v) None v) (take_pref (xml_decl ++ tag_open (str "data")) doc))).

(* equality of trees up to the order of the children (members of a map have no order) *)
Fixpoint remove_first {A} (p : A -> bool) (l : list A) : option (list A) :=
  match l with
  | [] => None
  | x :: r => if p x then Some r else match remove_first p r with Some r' => Some (x :: r') | None => None end
  end.
Fixpoint xequiv (fuel : nat) (a b : xnode) : bool :=
  match fuel with
  | O => false
  | S f =>
      match a, b with
      | XText s, XText t => bytes_eqb s t
      | XElem n ka, XElem m kb =>
          bytes_eqb n m &&
          (fix perm (la lb : list xnode) : bool :=
             match la with
             | [] => match lb with [] => true | _ => false end
             | x :: ra => match remove_first (xequiv f x) lb with Some lb' => perm ra lb' | None => false end
             end) ka kb
      | _, _ => false
      end
  end.
Fixpoint show_xnode (n : xnode) : bytes :=
  match n with
  | XText s => show_str s
  | XElem name kids => name ++ str "(" ++ intercalate (str ",") (map show_xnode kids) ++ str ")"
  end.
