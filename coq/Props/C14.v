(* C14 - Definition-driven, per-game and protocol-level queries agree.

   games (Gen/GamesTable.v) is the GAMES static of the crate as built from
   /repo's current tree; modules and hand_ports (Gen/ModulesTable.v) are
   translated from the game_query_mod! invocations and the hand-written game
   modules. A [call] names the protocol function and all its arguments; the
   protocol functions are deterministic in these and the server's behaviour. *)
From GD Require Import Base.Prelude Model.Net Model.Valve Model.Quake Model.Unreal2 Model.Dispatch.
From GD Require Import Gen.ModulesTable Gen.GamesTable Proofs.DispatchProofs Proofs.EngineAgree.
Require Import String.
Local Open Scope string_scope.

Theorem c14_translation_complete : module_translation_problems = [] /\ games_translation_problems = [].
Proof. exact nothing_outside_the_grammar. Qed.
Print Assumptions c14_translation_complete.

(* the three generic entry points differ only in the arguments they forward *)
Theorem c14_entry_points : forall d port t,
  generic_query d port = dispatch d port None None /\
  generic_query_with_timeout d port t = dispatch d port t None.
Proof. exact entry_points_one_dispatch. Qed.
Print Assumptions c14_entry_points.

(* for every game of the table (the first part: that is not a recorded finding), every port
   (given or omitted) and all timeout settings: the generic entry point makes
   exactly the call "protocol function with the definition's parameters" (a
   proprietary game's module being called with the definition's default port),
   and the game's dedicated module makes the same call (an app id that is not
   checked and not special-cased by the parser may differ) *)
Theorem c14_every_game_agrees : forall d, In d games ->
  (is_known d = false ->
   forall port t, resolve hand_ports (dispatch d port t None) = resolve hand_ports (proto_call d port t)) /\
  (forall m, In m (mods_of modules d) -> forall port, call_equiv (generic_query d port) (module_call m port)).
Proof. exact every_game_agrees. Qed.
Print Assumptions c14_every_game_agrees.

(* the decision procedure behind it is sound for every definition and row,
   not only those of today's table *)
Theorem c14_agree_sound : forall d m, agree d m = true ->
  forall port, call_equiv (generic_query d port) (module_call m port).
Proof. exact agree_sound. Qed.
Print Assumptions c14_agree_sound.
(* calls that are equivalent in that sense behave the same on every script: either they are the same call, or both
   are Valve queries with the same result and the same trace (the app ids of a Source engine matter only through the
   app-id check and the three ids the parser special-cases) *)
Theorem c14_engines_agree_same_run : forall bz port g t e e', engines_agree (g_check_app_id g) e e' = true ->
  forall n, Valve.query bz port e (Some g) t n = Valve.query bz port e' (Some g) t n.
Proof. exact engines_agree_same_run. Qed.
Print Assumptions c14_engines_agree_same_run.
Theorem c14_equivalent_calls_same_run : forall bz a b, call_equiv a b ->
  a = b \/ (forall n, valve_run bz a n = valve_run bz b n /\ valve_run bz a n <> None).
Proof. exact call_equiv_same_run. Qed.
Print Assumptions c14_equivalent_calls_same_run.

Theorem c14_def_ok_sound : forall hand d, def_ok hand d = true ->
  forall port t, resolve hand (dispatch d port t None) = resolve hand (proto_call d port t).
Proof. exact generic_is_protocol_call. Qed.
Print Assumptions c14_def_ok_sound.

(* the recorded findings are exactly rows that do not agree; every module row
   belongs to a definition; the only non-proprietary definition without a
   generated module is Battalion 1944 *)
Theorem c14_known_are_refuted : forallb (fun d => negb (is_known d) || negb (row_ok d)) games = true.
Proof. exact known_are_refuted. Qed.
Print Assumptions c14_known_are_refuted.
Theorem c14_coverage :
  forallb (fun m => existsb (fun d => existsb (fun m' => String.eqb (m_id m') (m_id m)) (mods_of modules d)) games) modules = true /\
  map d_id (filter (fun d => negb (is_prop d) && match mods_of modules d with [] => true | _ => false end) games) = ["battalion1944"].
Proof. exact (conj modules_have_definitions definitions_without_module). Qed.
Print Assumptions c14_coverage.

Example c14_ex :
  match find (fun d => String.eqb (d_id d) "valheim") games with
  | Some d =>
      is_known d = false /\
      generic_query d None = CValve 2457 (Source (Some (892970, None))) (Some (mk_gather Enforce Skip true)) None /\
      map (fun m => module_call m (Some 9)) (mods_of modules d)
      = [CValve 9 (Source (Some (892970, None))) (Some (mk_gather Enforce Skip true)) None]
  | None => False
  end.
Proof. vm_compute. repeat split. Qed.
