(* C11 - Gather toggles and the app-id check behave as documented (Valve; the
   Unreal 2 rows are added with its model). *)
From GD Require Import Base.Prelude Model.Strings Model.Buffer Model.Net Model.Valve Model.Unreal2 Spec.ValveSpec Proofs.Gather.

(* the toggle itself, for any section function and any state *)
Theorem c11_skip_never_runs : forall A (m : M A) n, maybe_gather Skip m n = (Ok None, n).
Proof. exact gather_skip. Qed.
Print Assumptions c11_skip_never_runs.
Theorem c11_try_isolates : forall A (m : M A) n e n', m n = (Err e, n') -> maybe_gather Try m n = (Ok None, n').
Proof. exact gather_try_err. Qed.
Print Assumptions c11_try_isolates.
Theorem c11_try_keeps : forall A (m : M A) n a n', m n = (Ok a, n') -> maybe_gather Try m n = (Ok (Some a), n').
Proof. exact gather_try_ok. Qed.
Print Assumptions c11_try_keeps.
Theorem c11_enforce_propagates : forall A (m : M A) n e n', m n = (Err e, n') -> maybe_gather Enforce m n = (Err e, n').
Proof. exact gather_enforce_err. Qed.
Print Assumptions c11_enforce_propagates.

(* the Valve query: info, then the app-id decision exactly as specified
   (Spec.ValveSpec.appid_ok), then the sections; over all scripts *)
Theorem c11_valve_query_structure : forall bz port e g t n,
  Valve.query bz port e (Some g) t n =
  match info_phase bz port e t n with
  | (Ok info, n1) =>
      if appid_ok e g (si_appid info) then sections bz port e g t info n1 else (Err BadGame, n1)
  | (o, n1) => (ofail o, n1)
  end.
Proof. exact query_structure. Qed.
Print Assumptions c11_valve_query_structure.

Theorem c11_valve_skip_players : forall bz port e g t info n, g_players g = Skip ->
  sections bz port e g t info n =
  (do* rules := maybe_gather (g_rules g) (get_server_rules bz port (ts_retries_or_default t) e (si_protocol_version info)) in
   mret (mk_resp info None rules)) n.
Proof. exact sections_skip_players. Qed.
Print Assumptions c11_valve_skip_players.
Theorem c11_valve_skip_rules : forall bz port e g t info n, g_rules g = Skip ->
  sections bz port e g t info n =
  (do* players := maybe_gather (g_players g) (get_server_players bz port (ts_retries_or_default t) e (si_protocol_version info)) in
   mret (mk_resp info players None)) n.
Proof. exact sections_skip_rules. Qed.
Print Assumptions c11_valve_skip_rules.
Theorem c11_valve_try_players : forall bz port e g t info n x n',
  g_players g = Try ->
  get_server_players bz port (ts_retries_or_default t) e (si_protocol_version info) n = (Err x, n') ->
  sections bz port e g t info n =
  (do* rules := maybe_gather (g_rules g) (get_server_rules bz port (ts_retries_or_default t) e (si_protocol_version info)) in
   mret (mk_resp info None rules)) n'.
Proof. exact sections_try_players_err. Qed.
Print Assumptions c11_valve_try_players.
Theorem c11_valve_try_rules : forall bz port e g t info n players n1 x n',
  maybe_gather (g_players g) (get_server_players bz port (ts_retries_or_default t) e (si_protocol_version info)) n = (Ok players, n1) ->
  g_rules g = Try ->
  get_server_rules bz port (ts_retries_or_default t) e (si_protocol_version info) n1 = (Err x, n') ->
  sections bz port e g t info n = (Ok (mk_resp info players None), n').
Proof. exact sections_try_rules_err. Qed.
Print Assumptions c11_valve_try_rules.
Theorem c11_valve_enforce_players : forall bz port e g t info n x n',
  g_players g = Enforce ->
  get_server_players bz port (ts_retries_or_default t) e (si_protocol_version info) n = (Err x, n') ->
  sections bz port e g t info n = (Err x, n').
Proof. exact sections_enforce_players_err. Qed.
Print Assumptions c11_valve_enforce_players.
Theorem c11_valve_enforce_rules : forall bz port e g t info n players n1 x n',
  maybe_gather (g_players g) (get_server_players bz port (ts_retries_or_default t) e (si_protocol_version info)) n = (Ok players, n1) ->
  g_rules g = Enforce ->
  get_server_rules bz port (ts_retries_or_default t) e (si_protocol_version info) n1 = (Err x, n') ->
  sections bz port e g t info n = (Err x, n').
Proof. exact sections_enforce_rules_err. Qed.
Print Assumptions c11_valve_enforce_rules.

(* Unreal 2: info, then the two sections gated by their toggles (the toggle
   laws above apply to query_mr / query_players as to any section) *)
Theorem c11_unreal2_query_structure : forall port g t,
  u2_query port (Some g) t =
  (do* _ := udp_new port t in
   do* info := query_server_info port (ts_retries_or_default t) in
   do* mr := maybe_gather (ug_mr g) (query_mr port (ts_retries_or_default t)) in
   let mr := match mr with Some x => x | None => mk_u2mr [] [] end in
   let info := match map_lookup (str "GamePassword") (map (fun kv => (fst kv, concat (snd kv))) (mr_rules mr)) with
               | Some v => mk_u2info (ui_server_id info) (ui_ip info) (ui_game_port info) (ui_query_port info) (ui_name info)
                                     (ui_map info) (ui_game_type info) (ui_num_players info) (ui_max_players info)
                                     (bytes_eqb (map ascii_lower v) (str "true"))
               | None => info
               end in
   do* players := maybe_gather (ug_players g) (query_players port (ts_retries_or_default t) (ui_num_players info)) in
   mret (mk_u2resp info mr (match players with Some p => p | None => mk_u2ps [] [] end))).
Proof. reflexivity. Qed.
Print Assumptions c11_unreal2_query_structure.

(* ---- Unreal 2, section by section: what is left of the query once the info reply is decoded ---- *)
From GD Require Import Proofs.GatherUnreal2.
Theorem c11_unreal2_sections_mean : forall port g t,
  u2_query port (Some g) t
  = (do* _ := udp_new port t in do* info := query_server_info port (ts_retries_or_default t) in u2_sections port g t info)
  /\ (forall info, u2_sections port g t info
       = (do* mr := maybe_gather (ug_mr g) (query_mr port (ts_retries_or_default t)) in
          u2_players_phase port g t info (match mr with Some x => x | None => mk_u2mr [] [] end)))
  /\ (forall info mr, u2_players_phase port g t info mr
       = (do* players := maybe_gather (ug_players g) (query_players port (ts_retries_or_default t) (ui_num_players (u2_info_with info mr))) in
          mret (mk_u2resp (u2_info_with info mr) mr (match players with Some p => p | None => mk_u2ps [] [] end))))
  /\ (forall info, u2_info_with info (mk_u2mr [] []) = info).
Proof. intros port g t. repeat split. Qed.
Print Assumptions c11_unreal2_sections_mean.
(* Skip: never requested, absent; both skipped: the state is the one the info phase left *)
Theorem c11_unreal2_skip : forall port g t info n,
  (ug_mr g = Skip -> u2_sections port g t info n = u2_players_phase port g t info (mk_u2mr [] []) n)
  /\ (forall mr, ug_players g = Skip -> u2_players_phase port g t info mr n = (Ok (mk_u2resp (u2_info_with info mr) mr (mk_u2ps [] [])), n))
  /\ (ug_mr g = Skip -> ug_players g = Skip -> u2_sections port g t info n = (Ok (mk_u2resp info (mk_u2mr [] []) (mk_u2ps [] [])), n)).
Proof.
  intros port g t info n. split; [exact (u2_mr_skip port g t info n)|]. split; [intros mr; exact (u2_players_skip port g t info mr n)|exact (u2_both_skipped port g t info n)].
Qed.
Print Assumptions c11_unreal2_skip.
(* Try: a rules section that fails in any way - silent, malformed from the start or after well-formed pairs - leaves
   nothing behind: the query goes on exactly as if the section had been skipped, from the state the failure left (the
   password flag of the info reply included); a failing players section gives the response without players *)
Theorem c11_unreal2_try : forall port g t info n x n',
  (ug_mr g = Try -> query_mr port (ts_retries_or_default t) n = (Err x, n') ->
   u2_sections port g t info n = u2_players_phase port g t info (mk_u2mr [] []) n')
  /\ (forall mr, ug_players g = Try ->
      query_players port (ts_retries_or_default t) (ui_num_players (u2_info_with info mr)) n = (Err x, n') ->
      u2_players_phase port g t info mr n = (Ok (mk_u2resp (u2_info_with info mr) mr (mk_u2ps [] [])), n')).
Proof. intros port g t info n x n'. split; [exact (u2_mr_try_err port g t info n x n')|intros mr; exact (u2_players_try_err port g t info mr n x n')]. Qed.
Print Assumptions c11_unreal2_try.
(* Enforce: the section's failure is the query's failure *)
Theorem c11_unreal2_enforce : forall port g t info n x n',
  (ug_mr g = Enforce -> query_mr port (ts_retries_or_default t) n = (Err x, n') -> u2_sections port g t info n = (Err x, n'))
  /\ (forall mr, ug_players g = Enforce ->
      query_players port (ts_retries_or_default t) (ui_num_players (u2_info_with info mr)) n = (Err x, n') ->
      u2_players_phase port g t info mr n = (Err x, n')).
Proof. intros port g t info n x n'. split; [exact (u2_mr_enforce_err port g t info n x n')|intros mr; exact (u2_players_enforce_err port g t info mr n x n')]. Qed.
Print Assumptions c11_unreal2_enforce.
(* a section that succeeds is kept, under Try and under Enforce alike *)
Theorem c11_unreal2_kept : forall port g t info n n',
  (forall mr, ug_mr g <> Skip -> query_mr port (ts_retries_or_default t) n = (Ok mr, n') ->
   u2_sections port g t info n = u2_players_phase port g t info mr n')
  /\ (forall mr ps, ug_players g <> Skip ->
      query_players port (ts_retries_or_default t) (ui_num_players (u2_info_with info mr)) n = (Ok ps, n') ->
      u2_players_phase port g t info mr n = (Ok (mk_u2resp (u2_info_with info mr) mr ps), n')).
Proof. intros port g t info n n'. split; [intros mr; exact (u2_mr_ok port g t info n mr n')|intros mr ps; exact (u2_players_ok port g t info mr n ps n')]. Qed.
Print Assumptions c11_unreal2_kept.

(* ---- the Valve app-id decision, for every engine, setting and app id ---- *)
Theorem c11_appid_decision : forall g a,
  (g_check_app_id g = false -> forall e, appid_ok e g a = true)
  /\ (forall f, appid_ok (Source None) g a = true /\ appid_ok (GoldSrc f) g a = true)
  /\ (g_check_app_id g = true -> forall m d, appid_ok (Source (Some (m, d))) g a = true <-> (a = m \/ d = Some a)).
Proof.
  intros g a. split; [intros H e; exact (appid_check_off e g a H)|]. split; [intros f; exact (appid_no_expectation g a f)|intros H m d; exact (appid_check_on m d g a H)].
Qed.
Print Assumptions c11_appid_decision.
Theorem c11_valve_wrong_appid : forall bz port e g t n info n1,
  info_phase bz port e t n = (Ok info, n1) -> appid_ok e g (si_appid info) = false ->
  Valve.query bz port e (Some g) t n = (Err BadGame, n1).
Proof. exact wrong_appid_is_badgame. Qed.
Print Assumptions c11_valve_wrong_appid.
Theorem c11_valve_right_appid : forall bz port e g t n info n1,
  info_phase bz port e t n = (Ok info, n1) -> appid_ok e g (si_appid info) = true ->
  Valve.query bz port e (Some g) t n = sections bz port e g t info n1.
Proof. exact right_appid_goes_on. Qed.
Print Assumptions c11_valve_right_appid.

(* the app-id relation: main id, dedicated id, other id, no expectation *)
Example c11_ex_appid :
  appid_ok (Source (Some (440, Some 441))) (mk_gather Try Try true) 440 = true /\
  appid_ok (Source (Some (440, Some 441))) (mk_gather Try Try true) 441 = true /\
  appid_ok (Source (Some (440, Some 441))) (mk_gather Try Try true) 7 = false /\
  appid_ok (Source (Some (440, Some 441))) (mk_gather Try Try false) 7 = true /\
  appid_ok (Source None) (mk_gather Try Try true) 7 = true /\ appid_ok (GoldSrc false) (mk_gather Try Try true) 7 = true.
Proof. repeat split; reflexivity. Qed.
