(* C17 - Packet reader and wire codecs conform to a reference model.
   Theorems only; proofs live in Proofs/. *)
From GD Require Import Base.Prelude Model.Strings Model.Buffer Model.Unreal2Str Model.BufOps.
From GD Require Import Proofs.BufferLemmas Proofs.BufInv Proofs.Varint Proofs.ReadSpecs.

(* The reader's position always stays within the packet (and the packet is
   never modified), for every operation sequence of any length. *)
Theorem c17_inv_preserved : forall be ops b,
  buf_inv b -> buf_inv (run_bops_state be ops b) /\ buf_data (run_bops_state be ops b) = buf_data b.
Proof. intros be ops b H. exact (run_bops_good be ops (buf_data b) b (conj H eq_refl)). Qed.
Check c17_inv_preserved : forall be ops b,
  buf_inv b -> buf_inv (run_bops_state be ops b) /\ buf_data (run_bops_state be ops b) = buf_data b.
Print Assumptions c17_inv_preserved.

(* no reader operation panics while the invariant holds *)
Theorem c17_op_safe : forall be o b, buf_inv b -> safe (fst (run_bop be o b)).
Proof. exact run_bop_safe. Qed.
Print Assumptions c17_op_safe.

(* fixed-width read: bytes at the position, reader's byte order, advance = width *)
Theorem c17_read_at : forall be (x pre r : bytes),
  read_uint be (length x) (at_ pre (x ++ r)) = (Ok (val_of be x), at_ (pre ++ x) r).
Proof. exact read_uint_at. Qed.
Print Assumptions c17_read_at.
Theorem c17_read_signed_at : forall be (x pre r : bytes),
  read_int be (length x) (at_ pre (x ++ r))
  = (Ok (to_signed (8 * N.of_nat (length x)) (val_of be x)), at_ (pre ++ x) r).
Proof. exact read_int_at. Qed.
Print Assumptions c17_read_signed_at.
(* ... or fails leaving the position unchanged *)
Theorem c17_read_short : forall be w b, buf_inv b -> (length (rest b) < w)%nat ->
  read_uint be w b = (Err PacketUnderflow, b) /\ read_int be w b = (Err PacketUnderflow, b).
Proof. intros be w b H1 H2. exact (conj (read_uint_short be w b H1 H2) (read_int_short be w b H1 H2)). Qed.
Print Assumptions c17_read_short.
(* the value is the positional value in the byte order *)
Theorem c17_val_le : forall n v, v < 256 ^ N.of_nat n -> val_of false (le_bytes n v) = v.
Proof. exact val_of_le. Qed.
Print Assumptions c17_val_le.
Theorem c17_val_be : forall n v, v < 256 ^ N.of_nat n -> val_of true (be_bytes n v) = v.
Proof. exact val_of_be. Qed.
Print Assumptions c17_val_be.

(* string reads consume exactly the string and its delimiter, or the rest of
   the packet if unterminated *)
Theorem c17_utf8_terminated : forall d s pre r, ~ In d s -> utf8_valid s = true ->
  dec_utf8 d (at_ pre (s ++ d :: r)) = (Ok s, at_ (pre ++ s ++ [d]) r).
Proof. exact dec_utf8_terminated. Qed.
Print Assumptions c17_utf8_terminated.
Theorem c17_utf8_unterminated : forall d s pre, ~ In d s -> utf8_valid s = true ->
  dec_utf8 d (at_ pre s) = (Ok s, at_ (pre ++ s) []).
Proof. exact dec_utf8_unterminated. Qed.
Print Assumptions c17_utf8_unterminated.
Theorem c17_utf8_invalid : forall d b, buf_inv b ->
  utf8_valid (fst (span_until (N.eqb d) (rest b))) = false -> dec_utf8 d b = (Err PacketBad, b).
Proof. exact dec_utf8_invalid. Qed.
Print Assumptions c17_utf8_invalid.
Theorem c17_utf8_lp : forall d s pre r, ~ In d s -> utf8_valid s = true -> lenN s < 256 ->
  dec_utf8_lp d (at_ pre (lenN s :: s ++ r)) = (Ok s, at_ (pre ++ lenN s :: s) r).
Proof. exact dec_utf8_lp_spec. Qed.
Print Assumptions c17_utf8_lp.
Theorem c17_utf8_lp_short : forall d len tl pre, ~ In d tl -> (length tl < N.to_nat len)%nat ->
  dec_utf8_lp d (at_ pre (len :: tl)) = (Err PacketUnderflow, at_ pre (len :: tl)).
Proof. exact dec_utf8_lp_short. Qed.
Print Assumptions c17_utf8_lp_short.

(* VarInt: encode/decode mutually inverse over all 32-bit integers *)
Theorem c17_varint_roundtrip : forall z pre r, (- 2 ^ 31 <= z < 2 ^ 31)%Z ->
  get_varint (at_ pre (as_varint z ++ r)) = (Ok z, at_ (pre ++ as_varint z) r).
Proof. exact varint_roundtrip. Qed.
Print Assumptions c17_varint_roundtrip.
Theorem c17_varint_length : forall z, (1 <= length (as_varint z) <= 5)%nat.
Proof. exact as_varint_length. Qed.
Print Assumptions c17_varint_length.
Theorem c17_varint_overlong_rejected : forall c1 c2 c3 c4 c5 pre r,
  N.land c1 128 <> 0 -> N.land c2 128 <> 0 -> N.land c3 128 <> 0 -> N.land c4 128 <> 0 ->
  N.land c5 240 <> 0 ->
  fst (get_varint (at_ pre (c1 :: c2 :: c3 :: c4 :: c5 :: r))) = Err PacketBad.
Proof. exact varint_overlong_rejected. Qed.
Print Assumptions c17_varint_overlong_rejected.
Theorem c17_varint_consumes : forall b, buf_inv b ->
  cursor b <= cursor (snd (get_varint b)) /\ cursor (snd (get_varint b)) <= cursor b + 5.
Proof. exact get_varint_consumes. Qed.
Print Assumptions c17_varint_consumes.
Theorem c17_string_roundtrip : forall s enc pre r,
  utf8_valid s = true -> as_string s = Ok enc ->
  get_string (at_ pre (enc ++ r)) = (Ok s, at_ (pre ++ enc) r).
Proof. exact mc_string_roundtrip. Qed.
Print Assumptions c17_string_roundtrip.

(* the two helpers of utils.rs the packet readers use: the direction of a length mismatch, and the nibbles of a byte *)
From GD Require Import Proofs.UtilsSpecs.
Theorem c17_expected_size_direction : forall e s,
  (error_by_expected_size e s = Ok tt <-> e = s)
  /\ (error_by_expected_size e s = Err PacketOverflow <-> e < s)
  /\ (error_by_expected_size e s = Err PacketUnderflow <-> s < e).
Proof. exact expected_size_spec. Qed.
Print Assumptions c17_expected_size_direction.
Theorem c17_u8_lower_upper : forall n,
  u8_lower_upper n = (n mod 16, n / 16) /\ (n < 256 -> snd (u8_lower_upper n) * 16 + fst (u8_lower_upper n) = n /\ snd (u8_lower_upper n) < 16).
Proof. exact u8_lower_upper_spec. Qed.
Print Assumptions c17_u8_lower_upper.

(* hypotheses are satisfiable by non-trivial values *)
Example c17_ex_inv : buf_inv (at_ [1; 2] [3; 4; 0; 5]) /\
  run_bops_state false [OpRead false 2; OpUtf8 None; OpMove (-1)] (at_ [1; 2] [3; 4; 0; 5]) = at_ [1; 2; 3; 4] [0; 5].
Proof. split; reflexivity. Qed.
Example c17_ex_varint : as_varint 25565 = [221; 199; 1] /\ as_varint (-1) = [255; 255; 255; 255; 15]
  /\ fst (get_varint (at_ [] [255; 255; 255; 255; 31])) = Err PacketBad.
Proof. repeat split; reflexivity. Qed.
Example c17_ex_string : as_string (str "A") = Ok [1; 65] /\ utf8_valid [195; 169] = true /\ utf8_valid [192; 128] = false.
Proof. repeat split; reflexivity. Qed.
