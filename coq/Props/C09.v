(* C09 - Requests are the protocol's, go to the right port, and echo challenges.
   Rows proved so far: Valve. *)
From GD Require Import Base.Prelude Model.Strings Model.Buffer Model.Net Model.Valve Model.Quake Model.Unreal2 Proofs.Msafe Proofs.ValveTotal Proofs.QuakeTotal Proofs.Unreal2Total.

(* every datagram the query emits, for any script: addressed to the query's
   port, and a request of the A2S language *)
Theorem c09_valve_sends_are_requests : forall bz, (forall p s, safe (bz p s)) ->
  forall port e g t u tc sf, settings_ok t -> retries_ok t ->
  forall p d, In (SendEv p d) (n_trace (snd (Valve.query bz port e g t (net_init u tc sf)))) ->
  p = port /\ valve_request d.
Proof. exact valve_sends_are_requests. Qed.
Print Assumptions c09_valve_sends_are_requests.

Theorem c09_valve_no_other_socket : forall bz, (forall p s, safe (bz p s)) ->
  forall port e g t u tc sf, settings_ok t -> retries_ok t ->
  forall p c, ~ In (NewTcp p c) (n_trace (snd (Valve.query bz port e g t (net_init u tc sf)))).
Proof. exact valve_no_tcp. Qed.
Print Assumptions c09_valve_no_other_socket.

(* whatever the challenge value c (all byte strings, in particular all 2^32
   four-byte values), the next datagram sent carries exactly c *)
Theorem c09_valve_challenge_echoed : forall bz, (forall p s, safe (bz p s)) ->
  forall port f e protocol kind c n,
  exists evs, n_trace (snd (challenge_loop bz (S f) port e protocol kind (65, c) n))
              = evs ++ SendEv port (to_bytes kind (if kind =? 84 then info_payload ++ c else c)) :: n_trace n.
Proof. exact valve_challenge_echoed. Qed.
Print Assumptions c09_valve_challenge_echoed.

(* Quake 1/2/3: the only datagram ever sent is FF FF FF FF "status"|"getstatus" 00, to the query's port *)
Theorem c09_quake_sends_are_requests : forall port v t u tc sf, settings_ok t ->
  forall p d, In (SendEv p d) (n_trace (snd (Quake.client_query port v t (net_init u tc sf)))) ->
  p = port /\ d = [255; 255; 255; 255] ++ send_header v ++ [0].
Proof. exact quake_sends_are_requests. Qed.
Print Assumptions c09_quake_sends_are_requests.

(* Unreal 2: 79 00 00 00 <kind>, kind 0 (info), 1 (mutators and rules), 2 (players) *)
Theorem c09_unreal2_sends_are_requests : forall port g t u tc sf, settings_ok t ->
  forall p d, In (SendEv p d) (n_trace (snd (u2_query port g t (net_init u tc sf)))) ->
  p = port /\ (d = u2_request 0 \/ d = u2_request 1 \/ d = u2_request 2).
Proof. exact u2_sends_are_requests. Qed.
Print Assumptions c09_unreal2_sends_are_requests.

Example c09_ex_requests :
  to_bytes 84 (default_payload 84) = [255; 255; 255; 255; 84] ++ str "Source Engine Query" ++ [0]
  /\ to_bytes 85 (default_payload 85) = [255; 255; 255; 255; 85; 255; 255; 255; 255]
  /\ valve_request ([255; 255; 255; 255; 86; 1; 2; 3; 4]).
Proof.
  split; [reflexivity|split; [reflexivity|]]. exists 86. split; [right; right; reflexivity|right; exists [1; 2; 3; 4]; reflexivity].
Qed.
