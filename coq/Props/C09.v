(* C09 - Requests are the protocol's, go to the right port, and echo challenges.
   Rows proved: every UDP protocol of the library. *)
From GD Require Import Base.Prelude Model.Strings Model.Buffer Model.Net Model.Valve Model.Quake Model.Unreal2 Proofs.Msafe Proofs.ValveTotal Proofs.QuakeTotal Proofs.Unreal2Total.

(* every datagram the query emits, for any script: addressed to the query's
   port, and a request of the A2S language *)
Theorem c09_valve_sends_are_requests : forall bz, (forall p s, safe (bz p s)) ->
  forall port e g t u tc sf, settings_ok t -> retries_ok t ->
  forall p d, In (SendEv p d) (n_trace (snd (Valve.query bz port e g t (net_init u tc sf)))) ->
  p = port /\ valve_request d.
Proof. exact valve_sends_are_requests. Qed.
Print Assumptions c09_valve_sends_are_requests.

Theorem c09_valve_no_other_socket : forall bz, (forall p s, safe (bz p s)) ->
  forall port e g t u tc sf, settings_ok t -> retries_ok t ->
  forall p c, ~ In (NewTcp p c) (n_trace (snd (Valve.query bz port e g t (net_init u tc sf)))).
Proof. exact valve_no_tcp. Qed.
Print Assumptions c09_valve_no_other_socket.

(* whatever the challenge value c (all byte strings, in particular all 2^32
   four-byte values), the next datagram sent carries exactly c *)
Theorem c09_valve_challenge_echoed : forall bz, (forall p s, safe (bz p s)) ->
  forall port f e protocol kind c n,
  exists evs, n_trace (snd (challenge_loop bz (S f) port e protocol kind (65, c) n))
              = evs ++ SendEv port (to_bytes kind (if kind =? 84 then info_payload ++ c else c)) :: n_trace n.
Proof. exact valve_challenge_echoed. Qed.
Print Assumptions c09_valve_challenge_echoed.

(* Quake 1/2/3: the only datagram ever sent is FF FF FF FF "status"|"getstatus" 00, to the query's port *)
Theorem c09_quake_sends_are_requests : forall port v t u tc sf, settings_ok t ->
  forall p d, In (SendEv p d) (n_trace (snd (Quake.client_query port v t (net_init u tc sf)))) ->
  p = port /\ d = [255; 255; 255; 255] ++ send_header v ++ [0].
Proof. exact quake_sends_are_requests. Qed.
Print Assumptions c09_quake_sends_are_requests.

(* Unreal 2: 79 00 00 00 <kind>, kind 0 (info), 1 (mutators and rules), 2 (players) *)
Theorem c09_unreal2_sends_are_requests : forall port g t u tc sf, settings_ok t ->
  forall p d, In (SendEv p d) (n_trace (snd (u2_query port g t (net_init u tc sf)))) ->
  p = port /\ (d = u2_request 0 \/ d = u2_request 1 \/ d = u2_request 2).
Proof. exact u2_sends_are_requests. Qed.
Print Assumptions c09_unreal2_sends_are_requests.

Example c09_ex_requests :
  to_bytes 84 (default_payload 84) = [255; 255; 255; 255; 84] ++ str "Source Engine Query" ++ [0]
  /\ to_bytes 85 (default_payload 85) = [255; 255; 255; 255; 85; 255; 255; 255; 255]
  /\ valve_request ([255; 255; 255; 255; 86; 1; 2; 3; 4]).
Proof.
  split; [reflexivity|split; [reflexivity|]]. exists 86. split; [right; right; reflexivity|right; exists [1; 2; 3; 4]; reflexivity].
Qed.

(* ---- GameSpy 1 / 2 / 3, JC2-MP, Savage 2, Mindustry, Minecraft Bedrock, The Ship, Battalion 1944 ----
   udp_query_contract q port reqs, in full: from the initial state, for every script, q returns a value
   or an error, every datagram it sends goes to [port] and is in the request language [reqs], it makes
   no field-driven reservation and opens no TCP connection. *)
From GD Require Import Model.Gamespy Model.Games Model.View Model.Minecraft Proofs.GamesTotal Proofs.GamespyTotal Proofs.ValveGamesTotal.
Theorem c09_udp_query_contract_means : forall A (q : M A) port reqs,
  udp_query_contract q port reqs <->
  (forall u tc sf,
     safe (fst (q (net_init u tc sf)))
     /\ (forall p d, In (SendEv p d) (n_trace (snd (q (net_init u tc sf)))) -> p = port /\ reqs d)
     /\ reserves (snd (q (net_init u tc sf))) = []
     /\ (forall p c, ~ In (NewTcp p c) (n_trace (snd (q (net_init u tc sf)))))).
Proof. exact (fun A q port reqs => conj (fun x => x) (fun x => x)). Qed.
Print Assumptions c09_udp_query_contract_means.

(* the GameSpy 3 request language: the handshake FE FD 09 <session 00 00 00 01>, or the data request
   FE FD 00 <session> <challenge as 4 big-endian bytes, absent when the server sent 0> <payload> *)
Theorem c09_gs3_language_means : forall payload d,
  gs3_language payload d <->
  (d = [254; 253; 9; 0; 0; 0; 1]
   \/ exists c : option Z, d = [254; 253; 0; 0; 0; 0; 1] ++ (match c with Some z => be_bytes 4 (of_signed 32 z) | None => [] end) ++ payload).
Proof. exact (fun payload d => conj (fun x => x) (fun x => x)). Qed.
Print Assumptions c09_gs3_language_means.

Theorem c09_gamespy_requests : forall port t, settings_ok t ->
  udp_query_contract (gs1_query port t) port (fun d => d = str "\status\xserverquery")
  /\ udp_query_contract (gs2_query port t) port (fun d => d = [254; 253; 0; 0; 0; 0; 1; 255; 255; 255])
  /\ udp_query_contract (gs3_query port t) port (gs3_language [255; 255; 255; 1])
  /\ udp_query_contract (gs3_query_vars port t) port (gs3_language [255; 255; 255; 1])
  /\ udp_query_contract (jc2m_query port t) port (gs3_language [255; 255; 255; 2]).
Proof.
  exact (fun port t H => conj (gamespy1_contract port t H) (conj (gamespy2_contract port t H) (conj (gamespy3_contract port t H)
          (conj (gamespy3_vars_contract port t H) (jc2m_contract port t H))))).
Qed.
Print Assumptions c09_gamespy_requests.

Theorem c09_single_game_requests : forall port t, settings_ok t ->
  udp_query_contract (savage2_query port t) port (fun d => d = [1])
  /\ udp_query_contract (mindustry_query port t) port (fun d => d = [254; 1])
  /\ udp_query_contract (query_bedrock port t) port (fun d => d = bedrock_ping).
Proof. exact (fun port t H => conj (savage2_contract port t H) (conj (mindustry_contract port t H) (bedrock_contract port t H))). Qed.
Print Assumptions c09_single_game_requests.

(* The Ship and Battalion 1944 send what the Valve query sends *)
Theorem c09_valve_games_requests : forall bz, (forall p s, safe (bz p s)) -> forall port t, settings_ok t ->
  (forall u tc sf p d, In (SendEv p d) (n_trace (snd (theship_query bz port t (net_init u tc sf)))) -> p = port /\ valve_request d)
  /\ (forall u tc sf p d, In (SendEv p d) (n_trace (snd (battalion_query bz port (net_init u tc sf)))) -> p = port /\ valve_request d).
Proof.
  exact (fun bz Hbz port t Hs => conj (fun u tc sf => proj1 (proj2 (theship_contract bz Hbz port t Hs u tc sf)))
                                      (fun u tc sf => proj1 (proj2 (battalion_contract bz Hbz port u tc sf)))).
Qed.
Print Assumptions c09_valve_games_requests.

(* ---- Minecraft (TCP and UDP): for every script, every connection is opened to the query's port, and everything sent
   goes to that port and is a request of the variant's protocol: the Java handshake carrying the configured host name,
   protocol version and the port, then the status request and the ping, each framed by its length; the Bedrock
   unconnected ping; the legacy ping of the group; no reservation is driven by a field of a reply ---- *)
From GD Require Import Proofs.MinecraftRequests.
Theorem c09_minecraft_trace_language_means : forall port reqs e,
  Qnet port reqs e = match e with
                     | SendEv p d => p = port /\ reqs d
                     | NewTcp p _ => p = port
                     | NewUdp p => p = port
                     | Reserve _ => False
                     | _ => True
                     end.
Proof. exact (fun port reqs e => eq_refl). Qed.
Print Assumptions c09_minecraft_trace_language_means.
Theorem c09_minecraft_java_requests_means : forall port rs d,
  java_requests port rs d <->
  ((exists hs, as_string (rs_hostname rs) = Ok hs
               /\ d = mc_frame ([0] ++ as_varint (rs_protocol_version rs) ++ hs ++ le_bytes 2 port ++ [1]))
   \/ d = mc_frame [0] \/ d = mc_frame [1]).
Proof. intros; reflexivity. Qed.
Print Assumptions c09_minecraft_java_requests_means.
Theorem c09_minecraft_java_requests : forall json, (forall t, json t <> None) -> forall port t rs, settings_ok t ->
  Mok (Qnet port (java_requests port (match rs with Some r => r | None => rs_default end))) (query_java json port t rs).
Proof. exact java_requests_ok. Qed.
Print Assumptions c09_minecraft_java_requests.
Theorem c09_minecraft_legacy_requests : forall g port t, settings_ok t ->
  Mok (Qnet port (fun d => d = legacy_request g)) (query_legacy_specific g port t).
Proof. exact legacy_requests_ok. Qed.
Print Assumptions c09_minecraft_legacy_requests.
Theorem c09_minecraft_bedrock_requests : forall port t, settings_ok t ->
  Mok (Qnet port (fun d => d = bedrock_ping)) (query_bedrock port t).
Proof. exact bedrock_requests_ok. Qed.
Print Assumptions c09_minecraft_bedrock_requests.
Theorem c09_minecraft_auto_requests : forall json, (forall t, json t <> None) -> forall port t rs, settings_ok t ->
  Mok (Qnet port (auto_requests port (match rs with Some r => r | None => rs_default end))) (query_auto json port t rs).
Proof. exact auto_requests_ok. Qed.
Print Assumptions c09_minecraft_auto_requests.
