(* C08 - Multi-datagram responses do not depend on arrival order.
   Valve split packets (GameSpy 1/3 and Unreal 2 rows are added as their
   models land; see DESIGN.md). *)
From Coq Require Import Permutation.
From GD Require Import Base.Prelude Model.Strings Model.Buffer Model.Net Model.Valve Proofs.ValveOrder.

Theorem c08_valve_order_independent : forall bz l l',
  Permutation l l' -> NoDup (map sp_number l) -> reassemble bz l = reassemble bz l'.
Proof. exact reassemble_perm. Qed.
Print Assumptions c08_valve_order_independent.

Theorem c08_valve_duplicate_is_error : forall bz l,
  ~ NoDup (map sp_number l) -> forall n, reassemble bz l n = (Err PacketBad, n).
Proof. exact reassemble_dup. Qed.
Print Assumptions c08_valve_duplicate_is_error.

Theorem c08_valve_gap_is_error : forall bz l n,
  numbered_from 0 (sort_splits l) = false -> reassemble bz l n = (Err PacketBad, n).
Proof. exact reassemble_gap. Qed.
Print Assumptions c08_valve_gap_is_error.

(* non-vacuity: a two-packet response received in both orders *)
Example c08_ex :
  let p0 := mk_split 4294967294 7 2 0 1248 None [255; 255; 255; 255; 69] in
  let p1 := mk_split 4294967294 7 2 1 1248 None [1; 0; 65; 0; 66; 0] in
  NoDup (map sp_number [p0; p1]) /\
  fst (reassemble (fun _ _ => Err Decompress) [p1; p0] (net_init [] [] [])) = Ok (69, [1; 0; 65; 0; 66; 0]) /\
  fst (reassemble (fun _ _ => Err Decompress) [p0; p0] (net_init [] [] [])) = Err PacketBad.
Proof.
  cbv zeta. split; [|split; reflexivity].
  constructor; [intros [H|[]]; discriminate|constructor; [intros []|constructor]].
Qed.

(* Unreal 2 multi-packet lists: the wire format carries no sequence numbers, so
   the client cannot restore an order: recorded finding (known_findings.json),
   with its witness: the same two player datagrams in both orders *)
From GD Require Import Model.Unreal2.
Definition u2_ex_info : bytes := [128; 0; 0; 0; 0] ++ [1; 0; 0; 0] ++ [1; 0] ++ [2; 0; 0; 0] ++ [3; 0; 0; 0] ++ [1; 0] ++ [1; 0] ++ [1; 0] ++ [2; 0; 0; 0] ++ [8; 0; 0; 0].
Definition u2_ex_p1 : bytes := [128; 0; 0; 0; 2] ++ [1; 0; 0; 0] ++ [2; 65; 0] ++ [5; 0; 0; 0] ++ [0; 0; 0; 0] ++ [0; 0; 0; 0].
Definition u2_ex_p2 : bytes := [128; 0; 0; 0; 2] ++ [2; 0; 0; 0] ++ [2; 66; 0] ++ [6; 0; 0; 0] ++ [0; 0; 0; 0] ++ [0; 0; 0; 0].
Theorem c08_unreal2_order_refuted :
  fst (u2_query 7778 (Some (mk_u2g Enforce Skip)) None (net_init [Datagram u2_ex_info; Datagram u2_ex_p1; Datagram u2_ex_p2] [] []))
  <> fst (u2_query 7778 (Some (mk_u2g Enforce Skip)) None (net_init [Datagram u2_ex_info; Datagram u2_ex_p2; Datagram u2_ex_p1] [] [])).
Proof. vm_compute. discriminate. Qed.
Print Assumptions c08_unreal2_order_refuted.
