(* C08 - Multi-datagram responses do not depend on arrival order.
   Valve split packets (GameSpy 1/3 and Unreal 2 rows are added as their
   models land; see DESIGN.md). *)
From Coq Require Import Permutation.
From GD Require Import Base.Prelude Model.Strings Model.Buffer Model.Net Model.Valve Proofs.ValveOrder.

Theorem c08_valve_order_independent : forall bz l l',
  Permutation l l' -> NoDup (map sp_number l) -> reassemble bz l = reassemble bz l'.
Proof. exact reassemble_perm. Qed.
Print Assumptions c08_valve_order_independent.

Theorem c08_valve_duplicate_is_error : forall bz l,
  ~ NoDup (map sp_number l) -> forall n, reassemble bz l n = (Err PacketBad, n).
Proof. exact reassemble_dup. Qed.
Print Assumptions c08_valve_duplicate_is_error.

Theorem c08_valve_gap_is_error : forall bz l n,
  numbered_from 0 (sort_splits l) = false -> reassemble bz l n = (Err PacketBad, n).
Proof. exact reassemble_gap. Qed.
Print Assumptions c08_valve_gap_is_error.

(* non-vacuity: a two-packet response received in both orders *)
Example c08_ex :
  let p0 := mk_split 4294967294 7 2 0 1248 None [255; 255; 255; 255; 69] in
  let p1 := mk_split 4294967294 7 2 1 1248 None [1; 0; 65; 0; 66; 0] in
  NoDup (map sp_number [p0; p1]) /\
  fst (reassemble (fun _ _ => Err Decompress) [p1; p0] (net_init [] [] [])) = Ok (69, [1; 0; 65; 0; 66; 0]) /\
  fst (reassemble (fun _ _ => Err Decompress) [p0; p0] (net_init [] [] [])) = Err PacketBad.
Proof.
  cbv zeta. split; [|split; reflexivity].
  constructor; [intros [H|[]]; discriminate|constructor; [intros []|constructor]].
Qed.

(* Unreal 2 multi-packet lists: the wire format carries no sequence numbers, so
   the client cannot restore an order: recorded finding (known_findings.json),
   with its witness: the same two player datagrams in both orders *)
From GD Require Import Model.Unreal2.
Definition u2_ex_info : bytes := [128; 0; 0; 0; 0] ++ [1; 0; 0; 0] ++ [1; 0] ++ [2; 0; 0; 0] ++ [3; 0; 0; 0] ++ [1; 0] ++ [1; 0] ++ [1; 0] ++ [2; 0; 0; 0] ++ [8; 0; 0; 0].
Definition u2_ex_p1 : bytes := [128; 0; 0; 0; 2] ++ [1; 0; 0; 0] ++ [2; 65; 0] ++ [5; 0; 0; 0] ++ [0; 0; 0; 0] ++ [0; 0; 0; 0].
Definition u2_ex_p2 : bytes := [128; 0; 0; 0; 2] ++ [2; 0; 0; 0] ++ [2; 66; 0] ++ [6; 0; 0; 0] ++ [0; 0; 0; 0] ++ [0; 0; 0; 0].
Theorem c08_unreal2_order_refuted :
  fst (u2_query 7778 (Some (mk_u2g Enforce Skip)) None (net_init [Datagram u2_ex_info; Datagram u2_ex_p1; Datagram u2_ex_p2] [] []))
  <> fst (u2_query 7778 (Some (mk_u2g Enforce Skip)) None (net_init [Datagram u2_ex_info; Datagram u2_ex_p2; Datagram u2_ex_p1] [] [])).
Proof. vm_compute. discriminate. Qed.
Print Assumptions c08_unreal2_order_refuted.

(* GameSpy 3: each splitnum packet is stored under its own number (the step of
   gs3_packets_loop is [put]), so the assembled response does not depend on the
   arrival order of packets with distinct numbers. GameSpy 1 parts and the
   termination of both loops (wait until every part up to the final one is
   there, fixes 97f13c6 and cd2e729) are decided by the permutation and
   duplication streams of the check. *)
From GD Require Import Model.Gamespy Spec.Rand Spec.GamespySpec Proofs.GamespyOrder.
From Coq Require Import Permutation.
Theorem c08_gamespy3_assembly_order_independent : forall pkts pkts' vs,
  Permutation pkts pkts' -> NoDup (map fst pkts) -> collect pkts vs = collect pkts' vs.
Proof. exact collect_order_independent. Qed.
Print Assumptions c08_gamespy3_assembly_order_independent.

(* the whole loop and the whole query: the packets of a reply, each once, in ANY arrival order - the client goes on
   reading until every packet has arrived (also when the one flagged last comes first), puts each into its place and
   returns exactly what it returns for the order sent *)
From GD Require Import Proofs.Gamespy2Roundtrip Proofs.Gamespy3Reply Proofs.Gamespy3Query Proofs.Gamespy3Order.
Theorem c08_gamespy3_loop_any_order : forall (todo done : list (nat * bytes)) n fuel t sn cur tr,
  todo <> [] -> (n <= 128)%nat -> (length todo <= fuel)%nat ->
  NoDup (map fst (done ++ todo)) -> (forall p, In p (done ++ todo) -> (fst p < n)%nat /\ snd p <> [] /\ (length (snd p) + 17 <= 2048)%nat) ->
  length (done ++ todo) = n ->
  exists tr',
    gs3_packets_loop fuel (collect done []) (if has_last n done then Some n else None)
      (mknet (map Datagram (map (dg n) todo)) t [] sn cur tr)
    = (Ok (collect (done ++ todo) []), mknet [] t [] sn cur tr').
Proof. exact packets_any_order. Qed.
Print Assumptions c08_gamespy3_loop_any_order.
Theorem c08_gamespy3_query_any_order : forall port s dgs, wf_s3 s = true ->
  (- 2147483648 <= s3_challenge s < 2147483648)%Z -> (length (show_Z (s3_challenge s)) <= 10)%nat ->
  (length (s3_payloads s) <= 128)%nat -> Forall (fun p => (length p + 17 <= 2048)%nat) (s3_payloads s) ->
  Permutation dgs (s3_packets s) ->
  fst (gs3_query port None (script_net (s3_handshake s :: dgs))) = Ok (s3_expected s).
Proof. exact gs3_query_any_order. Qed.
Print Assumptions c08_gamespy3_query_any_order.

(* GameSpy 1: the parts of a reply (each "queryid\<id>.<n>", the last one also "final"), each once, in ANY arrival order:
   the loop goes on until every part has arrived - also when the part carrying "final" comes first -, refuses nothing, and
   the variables it returns are those of the reply sent in order as a finite map: a permutation of the association list
   with distinct names, which is what the public query_vars (a HashMap) returns.  (The typed response on top of these
   variables for other arrival orders is decided by the permutation stream of the check.) *)
From GD Require Import Proofs.Str Proofs.Gamespy1Assembly Proofs.Gamespy1Order.
Theorem c08_gamespy1_parts_mean : forall qid ff p,
  p_text qid ff p = concat (map (Str.chunk 92) (p_grp p ++ (if p_last p
      then (if ff then [(str "final", []); (str "queryid", show_N qid ++ [46] ++ show_N (p_idx p))]
            else [(str "queryid", show_N qid ++ [46] ++ show_N (p_idx p)); (str "final", [])])
      else [(str "queryid", show_N qid ++ [46] ++ show_N (p_idx p))]))).
Proof. reflexivity. Qed.
Print Assumptions c08_gamespy1_parts_mean.
Theorem c08_gamespy1_loop_any_order : forall (todo done : list part1) qid ff n fuel t f sn cur tr,
  todo <> [] -> (length todo <= fuel)%nat ->
  NoDup (map p_idx (done ++ todo)) ->
  (forall p, In p (done ++ todo) -> 0 < p_idx p <= N.of_nat n /\ p_grp p <> [] /\ Forall pair_ok (p_grp p)
                                    /\ (length (p_text qid ff p) <= 1024)%nat /\ (p_last p = true <-> p_idx p = N.of_nat n)) ->
  length (done ++ todo) = n -> qid <= 18446744073709551615 -> N.of_nat n < 4294967296 ->
  exists tr',
    gs1_loop fuel (match done with [] => None | _ => Some qid end) (map p_idx done)
             (if seen_last done then Some (N.of_nat n) else None) (vals_of done)
             (mknet (map Datagram (map (p_text qid ff) todo)) t f sn cur tr)
    = (Ok (vals_of (done ++ todo)), mknet [] t f sn cur tr').
Proof. exact gs1_parts_any_order. Qed.
Print Assumptions c08_gamespy1_loop_any_order.
Theorem c08_gamespy1_vars_any_order : forall port s dgs,
  Forall pair_ok (s1_vars s) -> s1_qid s <= 18446744073709551615 ->
  Forall (fun d => (length d <= 1024)%nat) (s1_script s) -> N.of_nat (length (s1_script s)) < 4294967296 ->
  NoDup (map fst (s1_vars s)) ->
  Permutation dgs (s1_script s) ->
  exists vals, fst (gs1_query_vars port None (script_net dgs)) = Ok vals /\ Permutation vals (s1_vars s) /\ NoDup (map fst vals).
Proof. exact gs1_vars_any_order. Qed.
Print Assumptions c08_gamespy1_vars_any_order.

(* GameSpy 1: a part that arrives twice.  After any in-order prefix of parts that are not the last, a datagram carrying a
   part number that has already been received ends the attempt with PacketBad: it is neither taken nor waited out *)
From GD Require Import Proofs.Gamespy1Partial Proofs.Gamespy1Dup.
Theorem c08_gamespy1_open_parts_mean : forall qid ff j g r,
  texts_open qid ff j [] = [] /\ texts_open qid ff j (g :: r) = part_text g qid (N.of_nat (S j)) false ff :: texts_open qid ff (S j) r.
Proof. intros. split; reflexivity. Qed.
Print Assumptions c08_gamespy1_open_parts_mean.
Theorem c08_gamespy1_duplicate_part : forall (groups : list (list (bytes * bytes))) qid ff vals g i (last : bool) fuel (u : list udp_event) t f sn cur tr,
  groups <> [] ->
  Forall (fun g => g <> [] /\ Forall pair_ok g) groups ->
  Forall (fun d => (length d <= 1024)%nat) (texts_open qid ff 0 groups) ->
  qid <= 18446744073709551615 -> N.of_nat (length groups) < 4294967296 ->
  nokey (str "final") vals -> nokey (str "queryid") vals ->
  g <> [] -> Forall pair_ok g -> (length (part_text g qid i last ff) <= 1024)%nat ->
  0 < i <= N.of_nat (length groups) ->
  exists tr',
    gs1_loop (length groups + S fuel) None [] None vals
             (mknet (map Datagram (texts_open qid ff 0 groups) ++ Datagram (part_text g qid i last ff) :: u) t f sn cur tr)
    = (Err PacketBad, mknet u t f sn cur tr').
Proof. exact gs1_duplicate_part_is_refused. Qed.
Print Assumptions c08_gamespy1_duplicate_part.

(* tests: a generated multi-packet GameSpy 3 response and a multi-part GameSpy 1
   response, received in reverse order, give the in-order result *)
Example c08_ex_gamespy :
  let s3 := fst (gen_s3 5) in
  let s1 := fst (gen_s1 4) in
  (2 <=? length (s3_packets s3))%nat = true /\
  bytes_eqb (show_outcome show_gs3 (fst (gs3_query 1 None (net_init (map Datagram (s3_handshake s3 :: rev (s3_packets s3))) [] []))))
            (show_outcome show_gs3 (Ok (s3_expected s3))) = true /\
  (2 <=? length (s1_script s1))%nat = true /\
  bytes_eqb (show_outcome show_gs1 (fst (gs1_query 1 None (net_init (map Datagram (rev (s1_script s1))) [] []))))
            (show_outcome show_gs1 (Ok (s1_expected s1))) = true.
Proof. vm_compute. repeat split. Qed.
