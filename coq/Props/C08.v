(* C08 - Multi-datagram responses do not depend on arrival order.
   Valve split packets (GameSpy 1/3 and Unreal 2 rows are added as their
   models land; see DESIGN.md). *)
From Coq Require Import Permutation.
From GD Require Import Base.Prelude Model.Strings Model.Buffer Model.Net Model.Valve Proofs.ValveOrder.

Theorem c08_valve_order_independent : forall bz l l',
  Permutation l l' -> NoDup (map sp_number l) -> reassemble bz l = reassemble bz l'.
Proof. exact reassemble_perm. Qed.
Print Assumptions c08_valve_order_independent.

Theorem c08_valve_duplicate_is_error : forall bz l,
  ~ NoDup (map sp_number l) -> forall n, reassemble bz l n = (Err PacketBad, n).
Proof. exact reassemble_dup. Qed.
Print Assumptions c08_valve_duplicate_is_error.

Theorem c08_valve_gap_is_error : forall bz l n,
  numbered_from 0 (sort_splits l) = false -> reassemble bz l n = (Err PacketBad, n).
Proof. exact reassemble_gap. Qed.
Print Assumptions c08_valve_gap_is_error.

(* non-vacuity: a two-packet response received in both orders *)
Example c08_ex :
  let p0 := mk_split 4294967294 7 2 0 1248 None [255; 255; 255; 255; 69] in
  let p1 := mk_split 4294967294 7 2 1 1248 None [1; 0; 65; 0; 66; 0] in
  NoDup (map sp_number [p0; p1]) /\
  fst (reassemble (fun _ _ => Err Decompress) [p1; p0] (net_init [] [] [])) = Ok (69, [1; 0; 65; 0; 66; 0]) /\
  fst (reassemble (fun _ _ => Err Decompress) [p0; p0] (net_init [] [] [])) = Err PacketBad.
Proof.
  cbv zeta. split; [|split; reflexivity].
  constructor; [intros [H|[]]; discriminate|constructor; [intros []|constructor]].
Qed.
