(* C18 - Settings are validated; no accepted configuration can panic. *)
From GD Require Import Base.Prelude Model.Strings Model.StrOps Model.Buffer Model.Net Model.Valve Model.Settings.
From GD Require Import Proofs.Msafe Proofs.ValveTotal Proofs.SettingsProofs.

(* every public construction path (constructor, Default, command-line flags,
   deserialisation), whatever its arguments: an accepted setting has no zero
   read, write or connect duration *)
Theorem c18_accepted_nonzero : forall p t, construct p = Ok t -> ts_nonzero t = true.
Proof. exact accepted_nonzero. Qed.
Print Assumptions c18_accepted_nonzero.
Theorem c18_zero_rejected : forall r w c n, (nonzero r && nonzero w && nonzero c) = false ->
  construct (PNew r w c n) = Err InvalidInput /\ construct (PSerde c r w n) = Err InvalidInput.
Proof. exact zero_rejected. Qed.
Print Assumptions c18_zero_rejected.
Theorem c18_zero_flag_rejected : forall s, parse_unsigned u64_max s = Some 0 -> parse_duration_secs s = None.
Proof. exact zero_flag_rejected. Qed.
Print Assumptions c18_zero_flag_rejected.
Theorem c18_accepted_settings_ok : forall p t, construct p = Ok t -> settings_ok t /\ retries_ok t.
Proof. exact accepted_settings_ok. Qed.
Print Assumptions c18_accepted_settings_ok.

(* hence: any accepted configuration, with any retry count (usize::MAX
   included) and any duration, can be used for a (Valve) query on any script
   without panicking *)
Theorem c18_accepted_usable : forall bz, (forall p s, safe (bz p s)) ->
  forall path t, construct path = Ok t ->
  forall port e g u tc sf, safe (fst (Valve.query bz port e g t (net_init u tc sf))).
Proof.
  intros bz Hbz path t H port e g u tc sf. destruct (accepted_settings_ok path t H) as [Hs Hr].
  exact (valve_total bz Hbz port e g t u tc sf Hs Hr).
Qed.
Print Assumptions c18_accepted_usable.

(* ... and for every other modelled protocol entry point: Quake 1-3, Unreal 2 (every gather setting), GameSpy 1 / 2 / 3,
   JC2-MP, Savage 2, Mindustry and the five Minecraft queries (the JSON reader being any total function) *)
From GD Require Import Model.Quake Model.Unreal2 Model.Gamespy Model.Games Model.Minecraft Proofs.SettingsUsable.
Theorem c18_accepted_usable_everywhere : forall path t, construct path = Ok t ->
  forall port u tc sf,
    (forall v, safe (fst (client_query port v t (net_init u tc sf))))
    /\ (forall g, safe (fst (u2_query port g t (net_init u tc sf))))
    /\ safe (fst (gs1_query port t (net_init u tc sf)))
    /\ safe (fst (gs2_query port t (net_init u tc sf)))
    /\ safe (fst (gs3_query port t (net_init u tc sf)))
    /\ safe (fst (gs3_query_vars port t (net_init u tc sf)))
    /\ safe (fst (jc2m_query port t (net_init u tc sf)))
    /\ safe (fst (savage2_query port t (net_init u tc sf)))
    /\ safe (fst (mindustry_query port t (net_init u tc sf)))
    /\ (forall json rs, (forall x, json x <> None) ->
          safe (fst (query_auto json port t rs (net_init u tc sf))) /\
          safe (fst (query_java json port t rs (net_init u tc sf))) /\
          safe (fst (query_bedrock port t (net_init u tc sf))) /\
          safe (fst (query_legacy port t (net_init u tc sf))) /\
          (forall g, safe (fst (query_legacy_specific g port t (net_init u tc sf))))).
Proof. exact accepted_usable_everywhere. Qed.
Print Assumptions c18_accepted_usable_everywhere.

Example c18_ex : construct (PNew (Some (0, 1)) None (Some (18446744073709551615, 0)) 18446744073709551615)
                 = Ok (Some (mkts (Some (18446744073709551615, 0)) (Some (0, 1)) None 18446744073709551615))
  /\ construct (PClap None (Some (str "0")) None None) = Err InvalidInput
  /\ construct (PClap None (Some (str "+7")) None (Some (str "2"))) = Ok (Some (mkts (Some (4, 0)) (Some (7, 0)) (Some (4, 0)) 2))
  /\ construct (PSerde None (Some (0, 0)) None 0) = Err InvalidInput.
Proof. repeat split; reflexivity. Qed.
