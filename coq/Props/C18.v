(* C18 - Settings are validated; no accepted configuration can panic. *)
From GD Require Import Base.Prelude Model.Strings Model.StrOps Model.Buffer Model.Net Model.Valve Model.Settings.
From GD Require Import Proofs.Msafe Proofs.ValveTotal Proofs.SettingsProofs.

(* every public construction path (constructor, Default, command-line flags,
   deserialisation), whatever its arguments: an accepted setting has no zero
   read, write or connect duration *)
Theorem c18_accepted_nonzero : forall p t, construct p = Ok t -> ts_nonzero t = true.
Proof. exact accepted_nonzero. Qed.
Print Assumptions c18_accepted_nonzero.
Theorem c18_zero_rejected : forall r w c n, (nonzero r && nonzero w && nonzero c) = false ->
  construct (PNew r w c n) = Err InvalidInput /\ construct (PSerde c r w n) = Err InvalidInput.
Proof. exact zero_rejected. Qed.
Print Assumptions c18_zero_rejected.
Theorem c18_zero_flag_rejected : forall s, parse_unsigned u64_max s = Some 0 -> parse_duration_secs s = None.
Proof. exact zero_flag_rejected. Qed.
Print Assumptions c18_zero_flag_rejected.
Theorem c18_accepted_settings_ok : forall p t, construct p = Ok t -> settings_ok t /\ retries_ok t.
Proof. exact accepted_settings_ok. Qed.
Print Assumptions c18_accepted_settings_ok.

(* hence: any accepted configuration, with any retry count (usize::MAX
   included) and any duration, can be used for a (Valve) query on any script
   without panicking *)
Theorem c18_accepted_usable : forall bz, (forall p s, safe (bz p s)) ->
  forall path t, construct path = Ok t ->
  forall port e g u tc sf, safe (fst (Valve.query bz port e g t (net_init u tc sf))).
Proof.
  intros bz Hbz path t H port e g u tc sf. destruct (accepted_settings_ok path t H) as [Hs Hr].
  exact (valve_total bz Hbz port e g t u tc sf Hs Hr).
Qed.
Print Assumptions c18_accepted_usable.

Example c18_ex : construct (PNew (Some (0, 1)) None (Some (18446744073709551615, 0)) 18446744073709551615)
                 = Ok (Some (mkts (Some (18446744073709551615, 0)) (Some (0, 1)) None 18446744073709551615))
  /\ construct (PClap None (Some (str "0")) None None) = Err InvalidInput
  /\ construct (PClap None (Some (str "+7")) None (Some (str "2"))) = Ok (Some (mkts (Some (4, 0)) (Some (7, 0)) (Some (4, 0)) 2))
  /\ construct (PSerde None (Some (0, 0)) None 0) = Err InvalidInput.
Proof. repeat split; reflexivity. Qed.
