(* C13 - No reply can make a query reserve unbounded memory.
   Rows proved: every UDP protocol of the library. *)
From GD Require Import Base.Prelude Model.Strings Model.Buffer Model.Net Model.Valve Model.Quake Model.Unreal2 Proofs.Msafe Proofs.ValveTotal Proofs.QuakeTotal Proofs.Unreal2Total.

(* every reservation whose size comes from a field of a reply is at most 1 MiB
   (<= the 16 MiB allowance), for every script *)
Theorem c13_valve_reserves_bounded : forall bz, (forall p s, safe (bz p s)) ->
  forall port e g t u tc sf, settings_ok t -> retries_ok t ->
  Forall (fun k => k <= max_decompressed_size) (reserves (snd (Valve.query bz port e g t (net_init u tc sf)))).
Proof. exact valve_reserves_bounded. Qed.
Print Assumptions c13_valve_reserves_bounded.

(* Quake: no reservation is driven by a field of the reply at all *)
Theorem c13_quake_no_reserve : forall port v t u tc sf, settings_ok t ->
  reserves (snd (Quake.client_query port v t (net_init u tc sf))) = [].
Proof. exact quake_no_reserve. Qed.
Print Assumptions c13_quake_no_reserve.

(* Unreal 2: the announced player count reserves at most 50 slots *)
Theorem c13_unreal2_reserves_bounded : forall port g t u tc sf, settings_ok t ->
  Forall (fun k => k <= 50) (reserves (snd (u2_query port g t (net_init u tc sf)))).
Proof. exact u2_reserves_bounded. Qed.
Print Assumptions c13_unreal2_reserves_bounded.

Example c13_ex_bound : max_decompressed_size = 1048576 /\ max_decompressed_size <= 16 * 1048576.
Proof. split; [reflexivity|]. unfold max_decompressed_size. discriminate. Qed.
(* a compressed split header announcing 4 GiB is refused before anything is reserved *)
Example c13_ex_huge :
  let n := Valve.query (fun _ _ => Err Decompress) 27015 (Source None) None None
             (net_init [Datagram ([254; 255; 255; 255; 1; 0; 0; 128; 1; 0; 224; 4] ++ [255; 255; 255; 255; 0; 0; 0; 0; 66; 90])] [] []) in
  fst n = Err Decompress /\ reserves (snd n) = [].
Proof. split; reflexivity. Qed.

(* GameSpy 1 / 2 / 3, JC2-MP, Savage 2, Mindustry, Minecraft Bedrock: no reservation is driven by a
   field of a reply (GameSpy 1 did reserve `maxplayers` slots before fix 9a43a73) *)
From GD Require Import Model.Gamespy Model.Games Model.View Model.Minecraft Proofs.GamesTotal Proofs.GamespyTotal Proofs.ValveGamesTotal.
Theorem c13_gamespy_no_reserve : forall port t u tc sf, settings_ok t ->
  reserves (snd (gs1_query port t (net_init u tc sf))) = []
  /\ reserves (snd (gs2_query port t (net_init u tc sf))) = []
  /\ reserves (snd (gs3_query port t (net_init u tc sf))) = []
  /\ reserves (snd (gs3_query_vars port t (net_init u tc sf))) = []
  /\ reserves (snd (jc2m_query port t (net_init u tc sf))) = [].
Proof.
  exact (fun port t u tc sf H =>
    conj (proj1 (proj2 (proj2 (gamespy1_contract port t H u tc sf))))
   (conj (proj1 (proj2 (proj2 (gamespy2_contract port t H u tc sf))))
   (conj (proj1 (proj2 (proj2 (gamespy3_contract port t H u tc sf))))
   (conj (proj1 (proj2 (proj2 (gamespy3_vars_contract port t H u tc sf))))
         (proj1 (proj2 (proj2 (jc2m_contract port t H u tc sf)))))))).
Qed.
Print Assumptions c13_gamespy_no_reserve.
Theorem c13_single_games_no_reserve : forall port t u tc sf, settings_ok t ->
  reserves (snd (savage2_query port t (net_init u tc sf))) = []
  /\ reserves (snd (mindustry_query port t (net_init u tc sf))) = []
  /\ reserves (snd (query_bedrock port t (net_init u tc sf))) = [].
Proof.
  exact (fun port t u tc sf H =>
    conj (proj1 (proj2 (proj2 (savage2_contract port t H u tc sf))))
   (conj (proj1 (proj2 (proj2 (mindustry_contract port t H u tc sf))))
         (proj1 (proj2 (proj2 (bedrock_contract port t H u tc sf)))))).
Qed.
Print Assumptions c13_single_games_no_reserve.
(* The Ship and Battalion 1944: the Valve bound *)
Theorem c13_valve_games_reserves_bounded : forall bz, (forall p s, safe (bz p s)) -> forall port t u tc sf, settings_ok t ->
  Forall (fun k => k <= max_decompressed_size) (reserves (snd (theship_query bz port t (net_init u tc sf))))
  /\ Forall (fun k => k <= max_decompressed_size) (reserves (snd (battalion_query bz port (net_init u tc sf)))).
Proof.
  exact (fun bz Hbz port t u tc sf Hs => conj (proj1 (proj2 (proj2 (theship_contract bz Hbz port t Hs u tc sf))))
                                              (proj1 (proj2 (proj2 (battalion_contract bz Hbz port u tc sf))))).
Qed.
Print Assumptions c13_valve_games_reserves_bounded.
(* the Minecraft queries over TCP (Java, the legacy variants, the auto-detecting query), the JSON reader being any total function *)
From GD Require Import Proofs.MinecraftNoReserve.
Theorem c13_minecraft_no_reserve : forall json, (forall t, json t <> None) -> forall port t rs u tc sf, settings_ok t ->
  reserves (snd (query_java json port t rs (net_init u tc sf))) = []
  /\ reserves (snd (query_auto json port t rs (net_init u tc sf))) = []
  /\ reserves (snd (query_legacy port t (net_init u tc sf))) = []
  /\ (forall g, reserves (snd (query_legacy_specific g port t (net_init u tc sf))) = []).
Proof. exact minecraft_no_reserve. Qed.
Print Assumptions c13_minecraft_no_reserve.
