(* C03 - Minecraft status replies decode exactly; auto-detect order holds.

   Proved for all inputs: the auto-detecting query is exactly "Java, else
   Bedrock, else legacy 1.6, else 1.4, else beta 1.8", an attempt being made
   only when every earlier one failed, on the network state the earlier ones
   left; it fails only with AutoQuery, only when all failed; and every Java
   status value (optional members present, absent or null, any member order,
   unknown members, sample of any length) is mapped to exactly that status.
   serde_json::from_str (JSON text -> value) is the trusted step in between.
   The Bedrock pong round trip is proved for every status (c03_bedrock_roundtrip),
   and so are the legacy kick packets: the 1.6 format (read by the 1.6 and the
   1.4 query) and the older U+00A7-separated format (read by the 1.4 and the
   beta 1.8 query), for every status text in UTF-16BE, surrogate pairs included. *)
From GD Require Import Base.Prelude Model.Strings Model.StrOps Model.Buffer Model.Net Model.Valve Model.Gamespy Model.View Model.Minecraft.
From GD Require Import Spec.Rand Spec.MinecraftSpec Proofs.MinecraftProofs Proofs.MinecraftRoundtrip Proofs.LegacyRoundtrip Proofs.MinecraftQuery.

Theorem c03_auto_java_first : forall json port t rs n r n1,
  query_java json port t rs n = (Ok r, n1) -> query_auto json port t rs n = (Ok r, n1).
Proof. exact auto_java_first. Qed.
Print Assumptions c03_auto_java_first.

Theorem c03_auto_bedrock_second : forall json port t rs n e n1 b n2,
  query_java json port t rs n = (Err e, n1) -> query_bedrock port t n1 = (Ok b, n2) ->
  query_auto json port t rs n = (Ok (java_of_bedrock b), n2).
Proof. exact auto_bedrock_second. Qed.
Print Assumptions c03_auto_bedrock_second.

Theorem c03_auto_legacy_third : forall json port t rs n e1 n1 e2 n2,
  query_java json port t rs n = (Err e1, n1) -> query_bedrock port t n1 = (Err e2, n2) ->
  query_auto json port t rs n =
    match query_legacy port t n2 with
    | (Err _, n3) => (Err AutoQuery, n3)
    | r => r
    end.
Proof. exact auto_legacy_third. Qed.
Print Assumptions c03_auto_legacy_third.

Theorem c03_legacy_order : forall port t n,
  query_legacy port t n =
    match query_legacy_specific V1_6 port t n with
    | (Err _, n1) =>
        match query_legacy_specific V1_4 port t n1 with
        | (Err _, n2) =>
            match query_legacy_specific VB1_8 port t n2 with
            | (Err _, n3) => (Err AutoQuery, n3)
            | r => r
            end
        | r => r
        end
    | r => r
    end.
Proof. exact legacy_order. Qed.
Print Assumptions c03_legacy_order.

Theorem c03_auto_fails_only_with_autoquery : forall json port t rs n e n',
  query_auto json port t rs n = (Err e, n') -> e = AutoQuery.
Proof. exact auto_fails_only_if_all_fail. Qed.
Print Assumptions c03_auto_fails_only_with_autoquery.

Theorem c03_java_status_decodes : forall s, wf_java_status s = true ->
  java_of_value (status_value s) = Ok (java_expected s).
Proof. exact java_status_decodes. Qed.
Print Assumptions c03_java_status_decodes.

(* every Bedrock pong (6 to 12+ fields, with or without the trailing separator,
   any edition / name / version text without ';' and NUL, counts below 2^32,
   any of the five game modes or none) decodes to exactly that status *)
Theorem c03_bedrock_roundtrip : forall s, wf_bedrock s ->
  run_r bedrock_parse (bedrock_pong s) = Ok (bedrock_expected s).
Proof. exact bedrock_roundtrip. Qed.
Print Assumptions c03_bedrock_roundtrip.

(* ---- legacy kick packets ----
   wf_legacy: version and message of the day are Unicode scalar values other than U+0000 (surrogate pairs on
   the wire for those above U+FFFF), the protocol number is an i32, the counts are u32; units_count < 65536:
   the kick packet's length field is 16 bits. For the older format the message may not contain U+00A7. *)
Theorem c03_wf_legacy_means : forall s,
  wf_legacy s = (forallb scalar_ok (ls_version s) && forallb scalar_ok (ls_motd s)
                 && (- 2147483648 <=? ls_protocol s)%Z && (ls_protocol s <? 2147483648)%Z
                 && (ls_online s <? 4294967296) && (ls_max s <? 4294967296))
  /\ (forall c, scalar_ok c = (0 <? c) && (c <? 1114112) && negb ((55296 <=? c) && (c <=? 57343))).
Proof. exact (fun s => conj eq_refl (fun c => eq_refl)). Qed.
Print Assumptions c03_wf_legacy_means.
Theorem c03_legacy_v16_roundtrip : forall s, wf_legacy s = true -> lenN (utf16be (v16_text s)) / 2 < 65536 ->
  legacy_parse V1_6 (kick (v16_text s)) = Ok (v16_expected s) /\ legacy_parse V1_4 (kick (v16_text s)) = Ok (v16_expected s).
Proof. exact v16_roundtrip. Qed.
Print Assumptions c03_legacy_v16_roundtrip.
Theorem c03_legacy_old_roundtrip : forall s, wf_legacy s = true -> forallb (fun c => negb (c =? 167)) (ls_motd s) = true ->
  lenN (utf16be (old_text s)) / 2 < 65536 ->
  legacy_parse V1_4 (kick (old_text s)) = Ok (old_expected V1_4 s) /\ legacy_parse VB1_8 (kick (old_text s)) = Ok (old_expected VB1_8 s).
Proof. exact old_roundtrip. Qed.
Print Assumptions c03_legacy_old_roundtrip.
(* ---- the whole queries ----
   each variant's query (socket, request, the server's reply, decoding) returns exactly the status; the JSON reader is an
   oracle: the hypothesis says what it returns for the text the server sent *)
Theorem c03_java_query : forall json port s u t sn cur tr,
  wf_java_status s = true -> utf8_valid (java_json s) = true -> lenN (java_json s) + 16 < 2147483648 ->
  json (java_json s) = Some (Some (status_value s)) ->
  exists n', query_java json port None None (mknet u (Stream (java_stream s) false :: t) [] sn cur tr) = (Ok (java_expected s), n').
Proof. exact java_query_roundtrip. Qed.
Print Assumptions c03_java_query.
Theorem c03_bedrock_query : forall port s u t sn cur tr, wf_bedrock s -> (length (bedrock_pong s) <= 1024)%nat ->
  exists n', query_bedrock port None (mknet (Datagram (bedrock_pong s) :: u) t [] sn cur tr) = (Ok (bedrock_expected s), n').
Proof. exact bedrock_query_roundtrip. Qed.
Print Assumptions c03_bedrock_query.
Theorem c03_legacy_query : forall g port data r u t sn cur tr, legacy_parse g data = Ok r ->
  exists n', query_legacy_specific g port None (mknet u (Stream data false :: t) [] sn cur tr) = (Ok r, n').
Proof. exact legacy_query_roundtrip. Qed.
Print Assumptions c03_legacy_query.

(* the auto-detecting query against a server that speaks any subset of the five variants (an unspoken variant refuses
   the connection, answers garbage or closes at once; Bedrock stays silent): the first variant spoken, in the order
   Java, Bedrock, legacy 1.6, 1.4, beta 1.8, determines the result and its label; AutoQuery if none is spoken *)
Theorem c03_wf_world_means : forall json w,
  wf_world json w <->
  (match w_java w with
   | Some s => wf_java_status s = true /\ utf8_valid (java_json s) = true /\ lenN (java_json s) + 16 < 2147483648
               /\ json (java_json s) = Some (Some (status_value s))
   | None => True
   end
   /\ match w_bedrock w with Some s => wf_bedrock s /\ (length (bedrock_pong s) <= 1024)%nat | None => True end
   /\ match w_v16 w with Some s => wf_legacy s = true /\ lenN (utf16be (v16_text s)) / 2 < 65536 | None => True end
   /\ match w_v14 w with Some s => wf_legacy s = true /\ forallb (fun c => negb (c =? 167)) (ls_motd s) = true /\ lenN (utf16be (old_text s)) / 2 < 65536 | None => True end
   /\ match w_vb18 w with Some s => wf_legacy s = true /\ forallb (fun c => negb (c =? 167)) (ls_motd s) = true /\ lenN (utf16be (old_text s)) / 2 < 65536 | None => True end).
Proof. intros; reflexivity. Qed.
Print Assumptions c03_wf_world_means.
Theorem c03_auto_query_on_every_world : forall json port w, wf_world json w ->
  fst (query_auto json port None None (net_init (world_udp w) (world_tcp w) [])) = auto_expected w.
Proof. exact auto_world_roundtrip. Qed.
Print Assumptions c03_auto_query_on_every_world.
(* a test: a world that speaks only the two oldest variants meets the hypotheses *)
Example c03_ex_world :
  let l := mk_ls 47 (str "1.4.7") [77; 8364; 128512] 3 20 in
  let w := mk_world None None None (Some l) (Some l) 1 in
  wf_world (fun _ => Some None) w /\ auto_expected w = Ok (old_expected V1_4 l).
Proof. split; [|reflexivity]. unfold wf_world. cbn. repeat split; vm_compute; reflexivity. Qed.

Example c03_wf_legacy_nonvacuous :
  existsb (fun seed => let s := fst (gen_legacy true seed) in
             wf_legacy s && forallb (fun c => negb (c =? 167)) (ls_motd s) && existsb (fun c => 65535 <? c) (ls_motd s ++ ls_version s))
          (map (fun i => 7919 * N.of_nat i + 13) (seq 1 60)) = true.
Proof. vm_compute. reflexivity. Qed.

(* generated statuses meet the hypothesis; and, as tests, the Bedrock and
   legacy formats decode on generated states *)
Example c03_wf_nonvacuous : forallb (fun seed => wf_java_status (fst (gen_java seed))) [1; 2; 3; 4; 5; 6; 7; 8] = true.
Proof. vm_compute. reflexivity. Qed.
Example c03_ex_bedrock : forallb (fun seed => let s := fst (gen_bedrock seed) in
    bytes_eqb (show_outcome show_bedrock (run_r bedrock_parse (bedrock_pong s))) (show_outcome show_bedrock (Ok (bedrock_expected s))))
    [1; 2; 3; 4; 5; 6; 7; 8; 9; 10] = true.
Proof. vm_compute. reflexivity. Qed.
Example c03_ex_legacy : forallb (fun seed => let s := fst (gen_legacy true seed) in
    bytes_eqb (show_outcome show_java (legacy_parse VB1_8 (kick (old_text s)))) (show_outcome show_java (Ok (old_expected VB1_8 s)))
    && bytes_eqb (show_outcome show_java (legacy_parse V1_6 (kick (v16_text s)))) (show_outcome show_java (Ok (v16_expected s))))
    [1; 2; 3; 4; 5; 6; 7; 8; 9; 10] = true.
Proof. vm_compute. reflexivity. Qed.
