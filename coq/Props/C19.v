(* C19 - The CLI prints a well-formed, faithful document or a clean error (PARTIAL).

   Model/Cli.v models the XML writer of the CLI (json_to_xml over quick-xml)
   and a parser for XML 1.1 documents of the shape it produces. Proved for all
   values: when map keys are XML names and strings hold no literal control
   characters, the document is well-formed and parses to exactly the tree of the
   value (c19_document_roundtrip); outside that class the document is not
   well-formed (known findings, witnesses below). The check compares the
   binary's XML output with the model's rendering, up to the order of the members
   of maps (xml_conforms); that test accepts the model's own rendering of every
   value (c19_conformance_accepts_the_writer).
   JSON, BSON and debug outputs, exit status and error messages are observed on
   the real binary (not modelled). *)
From GD Require Import Base.Prelude Model.Strings Model.View Model.Cli Proofs.CliProofs Proofs.CliConforms.

Theorem c19_text_roundtrip_partial : forall s rest acc f, texts_ok s = true ->
  take_text (S (length s + f)) (xml_escape s ++ 60 :: rest) acc = Some (rev acc ++ s, 60 :: rest).
Proof. exact take_text_escape. Qed.
Print Assumptions c19_text_roundtrip_partial.

Theorem c19_leaf_element_roundtrip_partial : forall k s p rest f,
  is_name k = true -> texts_ok s = true ->
  parse_content (S (S (S f))) (tag_open k ++ xml_escape s ++ tag_close k ++ tag_close p ++ rest)
  = Some ([XElem k (match s with [] => [] | _ => [XText s] end)], tag_close p ++ rest).
Proof. exact leaf_element_roundtrip. Qed.
Print Assumptions c19_leaf_element_roundtrip_partial.

(* the XML document, for every value: whenever the keys of all maps are XML
   names and no string holds a literal control character (ok), the writer's
   output is well-formed and parses to exactly the tree of the value: every
   member under its own name, list elements repeated under the key of the list,
   null as an empty element, text unescaped back to the original *)
Theorem c19_document_roundtrip : forall l,
  raw_number (JObj l) = None -> ok (JObj l) = true ->
  xml_parse (xml_document (JObj l)) = Some (XElem (str "data") (xtree None (JObj l))).
Proof. exact document_roundtrip. Qed.
Print Assumptions c19_document_roundtrip.

(* and compositionally, for a value under any name key followed by anything that parses *)
Theorem c19_every_value_renders : forall v, ok v = true -> forall k tail nodes r ft,
  is_name k = true -> parse_content ft tail = Some (nodes, r) ->
  parse_content (cost v + ft) (json_to_xml (Some k) v ++ tail) = Some (xtree (Some k) v ++ nodes, r).
Proof. exact every_value_renders. Qed.
Print Assumptions c19_every_value_renders.

Definition c19_full_statement (v : jv) : Prop :=
  xml_parse (xml_document v) = Some (XElem (str "data") (xtree None v)).

(* known findings, as witnesses: a map key that is not a name, and a literal
   control character, give documents that are not well-formed *)
Example c19_refuted_key : xml_parse (xml_document (JObj [("rules"%string, JObj [("a b"%string, JStr (str "1"))])])) = None.
Proof. vm_compute. reflexivity. Qed.
Example c19_refuted_control : xml_parse (xml_document (JObj [("name"%string, JStr [1])])) = None.
Proof. vm_compute. reflexivity. Qed.
Example c19_ok_nonvacuous : ok (JObj [("name"%string, JStr (str "a<b & ""c"""));
         ("players"%string, JList [JObj [("name"%string, JStr (str "x")); ("score"%string, JNum (-3))]]);
         ("duration"%string, JObj [("$raw"%string, JStr (str "12.5"))])]) = true.
Proof. vm_compute. reflexivity. Qed.
Example c19_ex : c19_full_statement
  (JObj [("name"%string, JStr (str "a<b & ""c"""));
         ("players"%string, JList [JObj [("name"%string, JStr (str "x")); ("score"%string, JNum (-3))]; JObj [("name"%string, JStr []); ("score"%string, JNull)]]);
         ("has_password"%string, JBool true)]).
Proof. vm_compute. reflexivity. Qed.

(* the conformance test applied to the tool's XML output ("this is the writer's rendering of the value,
   for some order of the members of its maps") accepts the writer model's own rendering of every value
   whose non-integer numbers are number text: a document it rejects is not that rendering *)
Theorem c19_conformance_accepts_the_writer : forall l, raw_number (JObj l) = None -> raw_ok (JObj l) = true ->
  xml_conforms (xml_document (JObj l)) (JObj l) = true.
Proof. exact conforms_own_rendering. Qed.
Print Assumptions c19_conformance_accepts_the_writer.
(* ... for every key and whatever follows the element *)
Theorem c19_match_complete : forall v k rest, raw_ok v = true ->
  In rest (xml_match (msize v) (Some k) v (json_to_xml (Some k) v ++ rest)).
Proof. exact match_complete. Qed.
Print Assumptions c19_match_complete.
