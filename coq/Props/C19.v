(* C19 - The CLI prints a well-formed, faithful document or a clean error (PARTIAL).

   Model/Cli.v models the XML writer of the CLI (json_to_xml over quick-xml)
   and a parser for XML 1.1 documents of the shape it produces. Proved for all
   inputs: text content survives the writer's escaping, and an element with a
   name key and text without literal control characters parses back to exactly
   that name and text. The check compares the binary's XML output byte for
   byte with the model's rendering and judges well-formedness with the parser.
   JSON, BSON and debug outputs, exit status and error messages are observed on
   the real binary (not modelled). *)
From GD Require Import Base.Prelude Model.Strings Model.View Model.Cli Proofs.CliProofs.

Theorem c19_text_roundtrip_partial : forall s rest acc f, texts_ok s = true ->
  take_text (S (length s + f)) (xml_escape s ++ 60 :: rest) acc = Some (rev acc ++ s, 60 :: rest).
Proof. exact take_text_escape. Qed.
Print Assumptions c19_text_roundtrip_partial.

Theorem c19_leaf_element_roundtrip_partial : forall k s p rest f,
  is_name k = true -> texts_ok s = true ->
  parse_content (S (S (S f))) (tag_open k ++ xml_escape s ++ tag_close k ++ tag_close p ++ rest)
  = Some ([XElem k (match s with [] => [] | _ => [XText s] end)], tag_close p ++ rest).
Proof. exact leaf_element_roundtrip. Qed.
Print Assumptions c19_leaf_element_roundtrip_partial.

(* the full statement (decided per document by the check): for every value v
   whose map keys are XML names and whose strings have no literal control
   characters, xml_parse (xml_document v) = Some (XElem "data" (xtree None v)) *)
Definition c19_full_statement (v : jv) : Prop :=
  xml_parse (xml_document v) = Some (XElem (str "data") (xtree None v)).

(* known findings, as witnesses: a map key that is not a name, and a literal
   control character, give documents that are not well-formed *)
Example c19_refuted_key : xml_parse (xml_document (JObj [("rules"%string, JObj [("a b"%string, JStr (str "1"))])])) = None.
Proof. vm_compute. reflexivity. Qed.
Example c19_refuted_control : xml_parse (xml_document (JObj [("name"%string, JStr [1])])) = None.
Proof. vm_compute. reflexivity. Qed.
Example c19_ex : c19_full_statement
  (JObj [("name"%string, JStr (str "a<b & ""c"""));
         ("players"%string, JList [JObj [("name"%string, JStr (str "x")); ("score"%string, JNum (-3))]; JObj [("name"%string, JStr []); ("score"%string, JNull)]]);
         ("has_password"%string, JBool true)]).
Proof. vm_compute. reflexivity. Qed.
