(* C04 - GameSpy 1/2/3 replies are decoded completely: proved at the query level for all three.

   The full statement - for every server state s,
     gs1_query / gs2_query / gs3_query on the script of s = Ok (expected s)
   - is proved for GameSpy 1 (c04_gs1_decoded_completely: multi-part assembly with query ids and 'final', typed
   fields, every player with its optional fields, unused entries exact), for GameSpy 2 (c04_gs2_decoded_completely:
   every variable, every player and team cell, any column order, unknown columns, unknown variables) and for GameSpy 3
   (c04_gs3_decoded_completely: handshake, data request, all packets, all variables, all players over any number of
   packets, re-sent names, teams).  Side conditions are those of the transport (each datagram within the receive
   size, parts / packets in the order sent: other arrival orders are C08) and the domains of the Rust types.
   The Examples evaluate the same statements on generated states (tests, not theorems). *)
From GD Require Import Base.Prelude Model.Strings Model.StrOps Model.Buffer Model.Net Model.Valve Model.Gamespy.
From GD Require Import Spec.Rand Spec.ValveSpec Spec.QuakeSpec Spec.GamespySpec Proofs.Str Proofs.GamespyProofs Proofs.Gamespy2Roundtrip Proofs.Jc2mRoundtrip Proofs.Gamespy3Roundtrip Proofs.Gamespy3Reply Proofs.Gamespy3Query Proofs.Gamespy1Assembly Proofs.Gamespy1Players Proofs.Gamespy1Build Proofs.Gamespy1Response.

Theorem c04_gs1_pairs_partial : forall k v l m,
  Forall (fun kv => no_delim 92 (fst kv) /\ no_delim 92 (snd kv)) ((k, v) :: l) ->
  insert_pairs (split 92 (remove_first_char (concat (map (chunk 92) ((k, v) :: l))))) m
  = fold_left ins ((k, v) :: l) m.
Proof. exact gs1_part_decodes. Qed.
Print Assumptions c04_gs1_pairs_partial.

Theorem c04_gs3_request_carries_challenge_partial : forall port c n,
  let '(o, n') := gs3_data_request port [255; 255; 255; 1] c n in
  exists rest, n_trace n' = SendEv port ([254; 253; 0; 0; 0; 0; 1]
                 ++ match c with Some z => be_bytes 4 (of_signed 32 z) | None => [] end ++ [255; 255; 255; 1]) :: rest.
Proof. exact gs3_request_bytes. Qed.
Print Assumptions c04_gs3_request_carries_challenge_partial.

(* GameSpy 1, the whole exchange of query_vars: the variables are cut into parts at any pair boundary, every part is
   labelled '\queryid\<id>.<n>', the last one carries '\final\' before or after its label; received in the order sent,
   the parts are assembled into exactly the variables sent, in order (side conditions of the transport: each part within
   the 1024-byte receive).  pair_ok: texts are valid UTF-8 without NUL and without a backslash, no variable is called
   'final' or 'queryid' *)
Theorem c04_pair_ok_means : forall kv,
  pair_ok kv <-> (no_nul (fst kv) = true /\ no_nul (snd kv) = true /\ ~ In 92 (fst kv) /\ ~ In 92 (snd kv)
                  /\ fst kv <> str "final" /\ fst kv <> str "queryid").
Proof. intros; reflexivity. Qed.
Print Assumptions c04_pair_ok_means.
Theorem c04_gs1_vars_assembled : forall port s,
  Forall pair_ok (s1_vars s) -> s1_qid s <= 18446744073709551615 ->
  Forall (fun d => (length d <= 1024)%nat) (s1_script s) -> N.of_nat (length (s1_script s)) < 4294967296 ->
  fst (gs1_query_vars port None (script_net (s1_script s))) = Ok (fold_left ins (s1_vars s) []).
Proof. exact gs1_vars_roundtrip. Qed.
Print Assumptions c04_gs1_vars_assembled.
(* a test: generated states meet the hypotheses and have several parts *)
Example c04_ex_gs1_assembly_hyps :
  existsb (fun seed => let s := fst (gen_s1 seed) in
             forallb (fun kv => no_nul (fst kv) && no_nul (snd kv) && negb (existsb (N.eqb 92) (fst kv)) && negb (existsb (N.eqb 92) (snd kv))
                                && negb (bytes_eqb (fst kv) (str "final")) && negb (bytes_eqb (fst kv) (str "queryid"))) (s1_vars s)
             && forallb (fun d => (length d <=? 1024)%nat) (s1_script s) && (2 <=? length (s1_script s))%nat)
          [1; 2; 3; 4; 5; 6; 7; 8] = true.
Proof. vm_compute. reflexivity. Qed.

(* GameSpy 1, the full statement: the whole query returns exactly the expected response - typed fields, every player
   (per-player variables '<kind>_<index>' with optional team / face / skin / mesh / deaths / health / ngsecret, numbers
   padded with spaces or not, 'player' or 'playername'), the administrator under either name, and as unused entries
   exactly the server's other variables.  wf_s1: numbers fit the Rust types, the password and tournament texts mean
   what the state says, the server's own variables are not called like a standard or a per-player variable *)
Theorem c04_wf_s1_means : forall s,
  wf_s1 s = ((s1_max s <? 4294967296) && optb (fun n => n <? 256) (s1_min s)
             && match password_means (snd (s1_password s)) with Some b => Bool.eqb b (fst (s1_password s)) | None => false end
             && optb tour_ok (s1_tournament s)
             && forallb p1_ok (s1_players s) && (lenN (s1_players s) <? 4294967296)
             && forallb (fun kv => negb (existsb (bytes_eqb (fst kv)) s1_std_keys) && negb (looks_player (fst kv))) (s1_extras s)
             && (lenN (s1_vars s) <=? 18446744073709551615)).
Proof. exact (fun s => eq_refl). Qed.
Print Assumptions c04_wf_s1_means.
Theorem c04_gs1_response_from_variables : forall s, wf_s1 s = true -> gs1_build (s1_vars s) = Ok (s1_expected s).
Proof. exact gs1_build_ok. Qed.
Print Assumptions c04_gs1_response_from_variables.
Theorem c04_gs1_decoded_completely : forall port s,
  wf_s1 s = true -> Forall pair_ok (s1_vars s) -> nodupb (map fst (s1_vars s)) = true ->
  s1_qid s <= 18446744073709551615 ->
  Forall (fun d => (length d <= 1024)%nat) (s1_script s) -> N.of_nat (length (s1_script s)) < 4294967296 ->
  fst (gs1_query port None (script_net (s1_script s))) = Ok (s1_expected s).
Proof. exact gs1_query_roundtrip. Qed.
Print Assumptions c04_gs1_decoded_completely.
(* a test: the states the correspondence run generates meet the hypotheses; some have several parts and players *)
Example c04_ex_gs1_hyps :
  forallb (fun seed => let s := fst (gen_s1 seed) in
             wf_s1 s && nodupb (map fst (s1_vars s)) && forallb (fun d => (length d <=? 1024)%nat) (s1_script s)) [1; 2; 3; 4; 5; 6; 7; 8; 9; 10; 11; 12] = true
  /\ (let s := fst (gen_s1 1) in (length (s1_script s) = 7 /\ length (s1_players s) = 6)%nat).
Proof. vm_compute. repeat split; reflexivity. Qed.

(* ---- GameSpy 2, the full statement ----
   wf_s2: texts are valid UTF-8 without NUL, numbers fit their Rust types (maxplayers, numplayers,
   minplayers u32; score, ping, team u16), fewer than 256 players and teams (the row count is one
   byte), the server's own variables have non-empty names that are pairwise distinct and differ
   from the six standard ones. *)
Theorem c04_wf_s2_means : forall s,
  wf_s2 s = (no_nul (s2_name s) && no_nul (s2_map s) && no_nul (s2_password s) && (s2_max s <? 4294967296)
             && optb (fun n => n <? 4294967296) (s2_num s) && optb (fun n => n <? 4294967296) (s2_min s)
             && (forallb kv_ok (s2_extras s)
                 && forallb (fun kv => negb (existsb (bytes_eqb (fst kv)) std_keys)) (s2_extras s)
                 && nodupb (map fst (s2_extras s)))
             && forallb (fun p => no_nul (p2_name p) && (p2_score p <? 65536) && (p2_ping p <? 65536) && (p2_team p <? 65536)) (s2_players s)
             && (length (s2_players s) <? 256)%nat
             && forallb (fun t => no_nul (t2_name t) && (t2_score t <? 65536)) (s2_teams s)
             && (length (s2_teams s) <? 256)%nat).
Proof. exact (fun s => eq_refl). Qed.
Print Assumptions c04_wf_s2_means.

Theorem c04_gs2_reply_decoded_completely : forall s, wf_s2 s = true -> gs2_parse (s2_reply s) = Ok (s2_expected s).
Proof. exact gs2_roundtrip. Qed.
Print Assumptions c04_gs2_reply_decoded_completely.

Theorem c04_gs2_decoded_completely : forall port s, wf_s2 s = true -> (length (s2_reply s) <= 1024)%nat ->
  fst (gs2_query port None (net_init (map Datagram [s2_reply s]) [] [])) = Ok (s2_expected s).
Proof. exact gs2_query_roundtrip. Qed.
Print Assumptions c04_gs2_decoded_completely.

(* GameSpy 3: what the server sends is s3_payloads, each behind a packet header;
   the client decodes those payloads to exactly the server state: every
   variable, every player over all packets (sections with start indices, a name
   cut at a packet end and sent again in the next one), every team. *)
Theorem c04_gs3_packets_are_payloads : forall s,
  s3_packets s = map (fun ib => [0; 0; 0; 0; 1] ++ cstr (str "splitnum")
                                ++ [(fst ib + (if Nat.eqb (S (N.to_nat (fst ib))) (length (s3_payloads s)) then 128 else 0)); 0] ++ snd ib)
                     (indexed 0 (s3_payloads s)).
Proof. exact s3_packets_payloads. Qed.
Print Assumptions c04_gs3_packets_are_payloads.

Theorem c04_wf_s3_means : forall s,
  wf_s3 s = (no_nul (s3_name s) && no_nul (s3_map s) && no_nul (s3_mode s) && no_nul (s3_ver s) && no_nul (snd (s3_password s))
             && (s3_max s <? 4294967296) && optb (fun n => n <? 256) (s3_min s) && optb (fun n => n <? 4294967296) (s3_num s)
             && optb (fun v => no_nul (snd v) && tour_means v) (s3_tournament s)
             && extras_ok_for s3_keys (s3_extras s)
             && forallb p3_ok (s3_players s) && (length (s3_players s) <? 256)%nat
             && forallb t3_ok (s3_teams s)
             && match password_means (snd (s3_password s)) with Some b => Bool.eqb b (fst (s3_password s)) | None => false end).
Proof. exact (fun s => eq_refl). Qed.
Print Assumptions c04_wf_s3_means.

Theorem c04_gs3_payloads_decoded_completely : forall s, wf_s3 s = true -> gs3_build (s3_payloads s) = Ok (s3_expected s).
Proof. exact gs3_roundtrip. Qed.
Print Assumptions c04_gs3_payloads_decoded_completely.

(* the whole query: socket, handshake with the challenge, data request, every packet in the order sent,
   reassembly, decoding.  The side conditions are those of the transport: the challenge is an i32 whose text
   fits the 16-byte handshake receive, at most 128 packets (7-bit packet number), each within the 2048-byte receive *)
Theorem c04_gs3_decoded_completely : forall port s, wf_s3 s = true ->
  (- 2147483648 <= s3_challenge s < 2147483648)%Z -> (length (show_Z (s3_challenge s)) <= 10)%nat ->
  (length (s3_payloads s) <= 128)%nat -> Forall (fun p => (length p + 17 <= 2048)%nat) (s3_payloads s) ->
  fst (gs3_query port None (script_net (s3_script s))) = Ok (s3_expected s).
Proof. exact gs3_query_roundtrip. Qed.
Print Assumptions c04_gs3_decoded_completely.
Example c04_ex_gs3_query_hyps : (- 2147483648 <= s3_challenge ex_s3 < 2147483648)%Z /\ (length (show_Z (s3_challenge ex_s3)) <= 10)%nat
  /\ (length (s3_payloads ex_s3) <= 128)%nat /\ forallb (fun p => (length p + 17 <=? 2048)%nat) (s3_payloads ex_s3) = true.
Proof. exact ex_s3_query. Qed.

(* the hypotheses are met by a server with three packets, a cut name sent again, teams and its own variable *)
Example c04_ex_gs3_wf : wf_s3 ex_s3 = true /\ (length (s3_payloads ex_s3) = 3)%nat.
Proof. exact ex_s3_wf. Qed.

(* a test, not a theorem: the states the correspondence run generates satisfy wf_s3, so the theorem speaks about them *)
Example c04_ex_gs3_generated_wf : forallb (fun seed => wf_s3 (fst (gen_s3 seed))) [1; 2; 3; 4; 5; 6; 7; 8; 9; 10; 11; 12; 13; 14; 15; 16; 17; 18; 19; 20] = true.
Proof. vm_compute. reflexivity. Qed.

(* the full statements (not proved; decided per generated state by the check) *)
Definition c04_full_statement_gs1 (s : s1_state) : Prop :=
  fst (gs1_query 7777 None (script_net (s1_script s))) = Ok (s1_expected s).
Definition c04_full_statement_gs2 (s : s2_state) : Prop :=
  fst (gs2_query 7777 None (script_net [s2_reply s])) = Ok (s2_expected s).
Definition c04_full_statement_gs3 (s : s3_state) : Prop :=
  fst (gs3_query 7777 None (script_net (s3_script s))) = Ok (s3_expected s).

(* tests, not theorems: the statements hold on generated states *)
Example c04_ex_gs1 : forallb (fun seed => let s := fst (gen_s1 seed) in
    bytes_eqb (show_outcome show_gs1 (fst (gs1_query 7777 None (script_net (s1_script s)))))
              (show_outcome show_gs1 (Ok (s1_expected s)))) [1; 2; 3; 5; 8; 13] = true.
Proof. vm_compute. reflexivity. Qed.
Example c04_ex_gs2 : forallb (fun seed => let s := fst (gen_s2 seed) in
    bytes_eqb (show_outcome show_gs2 (fst (gs2_query 7777 None (script_net [s2_reply s]))))
              (show_outcome show_gs2 (Ok (s2_expected s)))) [1; 2; 3; 5; 8; 13] = true.
Proof. vm_compute. reflexivity. Qed.
Example c04_ex_gs3 : forallb (fun seed => let s := fst (gen_s3 seed) in
    bytes_eqb (show_outcome show_gs3 (fst (gs3_query 7777 None (script_net (s3_script s)))))
              (show_outcome show_gs3 (Ok (s3_expected s)))) [1; 2; 3; 5; 8; 13] = true.
Proof. vm_compute. reflexivity. Qed.

(* the password flag of GameSpy 1 / 3 (and JC2-MP) replies: the word true / false in ANY capitalisation, or 0 / 1; the
   variable is removed from the map; a reply without it is refused *)
From GD Require Import Proofs.GamespyPassword.
Theorem c04_password_flag : forall (m : vmap) v, vm_get (str "password") m = Some v ->
  (lower_ascii v = str "true" -> has_password m = Ok (true, map_remove (str "password") m))
  /\ (lower_ascii v = str "false" -> has_password m = Ok (false, map_remove (str "password") m))
  /\ (v = str "0" -> has_password m = Ok (false, map_remove (str "password") m))
  /\ (v = str "1" -> has_password m = Ok (true, map_remove (str "password") m)).
Proof. exact has_password_words. Qed.
Print Assumptions c04_password_flag.
Theorem c04_password_absent : forall (m : vmap), vm_get (str "password") m = None -> has_password m = Err PacketBad.
Proof. exact has_password_absent. Qed.
Print Assumptions c04_password_absent.
Example c04_password_capitalisations :
  lower_ascii (str "True") = str "true" /\ lower_ascii (str "TRUE") = str "true" /\ lower_ascii (str "tRuE") = str "true"
  /\ lower_ascii (str "False") = str "false" /\ lower_ascii (str "FALSE") = str "false".
Proof. exact capitalisations. Qed.

(* the tournament flag of GameSpy 1: absent means true; the word in any capitalisation; anything else is a parse error *)
Theorem c04_tournament_flag : forall (m : vmap),
  (vm_get (str "tournament") m = None -> tournament_of m = Ok (true, map_remove (str "tournament") m))
  /\ (forall v, vm_get (str "tournament") m = Some v ->
        (lower_ascii v = str "true" -> tournament_of m = Ok (true, map_remove (str "tournament") m))
        /\ (lower_ascii v = str "false" -> tournament_of m = Ok (false, map_remove (str "tournament") m))
        /\ (parse_bool (lower_ascii v) = None -> tournament_of m = Err TypeParse)).
Proof. exact tournament_spec. Qed.
Print Assumptions c04_tournament_flag.
