(* C04 - GameSpy 1/2/3 replies are decoded completely (GameSpy 2: proved; 1 and 3: PARTIAL as theorems).

   The full statement - for every server state s,
     gs1_query / gs2_query / gs3_query on the script of s = Ok (expected s)
   - is proved for GameSpy 2 (c04_gs2_decoded_completely: every variable, every
   player and team cell, any column order, unknown columns, unknown variables).
   For GameSpy 1 and 3 it is kept below as c04_full_statement_*; proved for all
   inputs there: the '\key\value' grammar of GameSpy 1 is decoded exactly, pair
   by pair and in order, and the GameSpy 3 data request carries the server's
   challenge; the rest is checked by evaluation on generated states in the
   correspondence run (Examples here), not proved. *)
From GD Require Import Base.Prelude Model.Strings Model.StrOps Model.Buffer Model.Net Model.Valve Model.Gamespy.
From GD Require Import Spec.Rand Spec.ValveSpec Spec.QuakeSpec Spec.GamespySpec Proofs.Str Proofs.GamespyProofs Proofs.Gamespy2Roundtrip.

Theorem c04_gs1_pairs_partial : forall k v l m,
  Forall (fun kv => no_delim 92 (fst kv) /\ no_delim 92 (snd kv)) ((k, v) :: l) ->
  insert_pairs (split 92 (remove_first_char (concat (map (chunk 92) ((k, v) :: l))))) m
  = fold_left ins ((k, v) :: l) m.
Proof. exact gs1_part_decodes. Qed.
Print Assumptions c04_gs1_pairs_partial.

Theorem c04_gs3_request_carries_challenge_partial : forall port c n,
  let '(o, n') := gs3_data_request port [255; 255; 255; 1] c n in
  exists rest, n_trace n' = SendEv port ([254; 253; 0; 0; 0; 0; 1]
                 ++ match c with Some z => be_bytes 4 (of_signed 32 z) | None => [] end ++ [255; 255; 255; 1]) :: rest.
Proof. exact gs3_request_bytes. Qed.
Print Assumptions c04_gs3_request_carries_challenge_partial.

(* ---- GameSpy 2, the full statement ----
   wf_s2: texts are valid UTF-8 without NUL, numbers fit their Rust types (maxplayers, numplayers,
   minplayers u32; score, ping, team u16), fewer than 256 players and teams (the row count is one
   byte), the server's own variables have non-empty names that are pairwise distinct and differ
   from the six standard ones. *)
Theorem c04_wf_s2_means : forall s,
  wf_s2 s = (no_nul (s2_name s) && no_nul (s2_map s) && no_nul (s2_password s) && (s2_max s <? 4294967296)
             && optb (fun n => n <? 4294967296) (s2_num s) && optb (fun n => n <? 4294967296) (s2_min s)
             && (forallb kv_ok (s2_extras s)
                 && forallb (fun kv => negb (existsb (bytes_eqb (fst kv)) std_keys)) (s2_extras s)
                 && nodupb (map fst (s2_extras s)))
             && forallb (fun p => no_nul (p2_name p) && (p2_score p <? 65536) && (p2_ping p <? 65536) && (p2_team p <? 65536)) (s2_players s)
             && (length (s2_players s) <? 256)%nat
             && forallb (fun t => no_nul (t2_name t) && (t2_score t <? 65536)) (s2_teams s)
             && (length (s2_teams s) <? 256)%nat).
Proof. exact (fun s => eq_refl). Qed.
Print Assumptions c04_wf_s2_means.

Theorem c04_gs2_reply_decoded_completely : forall s, wf_s2 s = true -> gs2_parse (s2_reply s) = Ok (s2_expected s).
Proof. exact gs2_roundtrip. Qed.
Print Assumptions c04_gs2_reply_decoded_completely.

Theorem c04_gs2_decoded_completely : forall port s, wf_s2 s = true -> (length (s2_reply s) <= 1024)%nat ->
  fst (gs2_query port None (net_init (map Datagram [s2_reply s]) [] [])) = Ok (s2_expected s).
Proof. exact gs2_query_roundtrip. Qed.
Print Assumptions c04_gs2_decoded_completely.

(* the full statements (not proved; decided per generated state by the check) *)
Definition c04_full_statement_gs1 (s : s1_state) : Prop :=
  fst (gs1_query 7777 None (script_net (s1_script s))) = Ok (s1_expected s).
Definition c04_full_statement_gs2 (s : s2_state) : Prop :=
  fst (gs2_query 7777 None (script_net [s2_reply s])) = Ok (s2_expected s).
Definition c04_full_statement_gs3 (s : s3_state) : Prop :=
  fst (gs3_query 7777 None (script_net (s3_script s))) = Ok (s3_expected s).

(* tests, not theorems: the statements hold on generated states *)
Example c04_ex_gs1 : forallb (fun seed => let s := fst (gen_s1 seed) in
    bytes_eqb (show_outcome show_gs1 (fst (gs1_query 7777 None (script_net (s1_script s)))))
              (show_outcome show_gs1 (Ok (s1_expected s)))) [1; 2; 3; 5; 8; 13] = true.
Proof. vm_compute. reflexivity. Qed.
Example c04_ex_gs2 : forallb (fun seed => let s := fst (gen_s2 seed) in
    bytes_eqb (show_outcome show_gs2 (fst (gs2_query 7777 None (script_net [s2_reply s]))))
              (show_outcome show_gs2 (Ok (s2_expected s)))) [1; 2; 3; 5; 8; 13] = true.
Proof. vm_compute. reflexivity. Qed.
Example c04_ex_gs3 : forallb (fun seed => let s := fst (gen_s3 seed) in
    bytes_eqb (show_outcome show_gs3 (fst (gs3_query 7777 None (script_net (s3_script s)))))
              (show_outcome show_gs3 (Ok (s3_expected s)))) [1; 2; 3; 5; 8; 13] = true.
Proof. vm_compute. reflexivity. Qed.
