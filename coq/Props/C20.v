(* C20 - The game-id naming checker is total and self-consistent.
   Model/IdCheck.v models crates/id-tests (ASCII names and ids); n2w stands for
   number_to_words, about which only the stated hypothesis is used. *)
From GD Require Import Base.Prelude Model.StrOps Model.IdCheck Proofs.IdProofs.
From GD Require Import Model.Dispatch Gen.GamesTable.
Require Import String.

(* totality: every list of games whose names (with their mod part and first
   bracketed part) are outside the parser's documented "Text after number-"
   class is checked without a panic, for every proposed id *)
Theorem c20_total : forall n2w,
  (forall c r, is_digit c = true -> exists t, n2w (c :: r) = Some t /\ t <> []) ->
  forall games, Forall (fun ig => name_parses (snd ig)) games ->
  exists fs, test_game_name_rules n2w games = Ok fs.
Proof. exact checker_total. Qed.
Print Assumptions c20_total.

(* the parser has exactly one way to fail, and a name none of whose pieces is
   "<digits>-" does not meet it *)
Theorem c20_parser_ok_or_documented_panic : forall name,
  (exists g, extract_parts name = Ok g) \/ extract_parts name = Panic site_explicit_panic.
Proof. exact extract_parts_ok_or_panic. Qed.
Print Assumptions c20_parser_ok_or_documented_panic.
Theorem c20_no_number_dash_no_panic : forall ws,
  (forall w m, In w ws -> strip_suffix_byte 45 w = Some m -> all_digits m = false) ->
  accumulate None ws = Ok ws.
Proof. exact accumulate_plain. Qed.
Print Assumptions c20_no_number_dash_no_panic.

(* one game: the id is accepted exactly when it is the id the checker expects
   for the name (which does not depend on the proposed id); a rejected id is
   told exactly that expected id, whatever it was *)
Theorem c20_single_plain : forall n2w id name g e w st,
  extract_parts name = Ok g ->
  expected_core n2w [] g false = Ok (e, w, st) ->
  split_once 45 (pn_name g) = None ->
  (test_single_game_rule n2w id name = Ok [] <-> id = e) /\
  (id <> e -> exists st', test_single_game_rule n2w id name
                        = Ok (lc_fail id (pn_name g) ++ [mkfail id (pn_name g) e st'])).
Proof. exact single_plain. Qed.
Print Assumptions c20_single_plain.

(* 'Game - Mod': accepted exactly for the id expected for the full name or the
   id expected for the mod part; a rejected id is told both *)
Theorem c20_single_mod : forall n2w id name g e w st x mn pm em wm stm,
  extract_parts name = Ok g ->
  expected_core n2w [] g false = Ok (e, w, st) ->
  split_once 45 (pn_name g) = Some (x, mn) ->
  extract_parts mn = Ok pm ->
  expected_core n2w [] pm true = Ok (em, wm, stm) ->
  (test_single_game_rule n2w id name = Ok [] <-> id = e \/ id = em) /\
  (id <> e -> id <> em -> exists stm' st', test_single_game_rule n2w id name
       = Ok (lc_fail id (pn_name g) ++ (lc_fail id (pn_name pm) ++ [mkfail id (pn_name pm) em stm'])
             ++ [mkfail id (pn_name g) e st'])).
Proof. exact single_mod. Qed.
Print Assumptions c20_single_mod.

(* the shipped definitions table (Gen/GamesTable.v, dumped from the built
   crate on every run) passes; its only leading number is 7 *)
Definition shipped : list (bytes * bytes) := map (fun d => (str (d_id d), str (d_name d))) games.
Definition n2w_shipped (d : bytes) : option bytes := if bytes_eqb d (str "7") then Some (str "seven") else None.
Theorem c20_shipped_table_passes : test_game_name_rules n2w_shipped shipped = Ok [].
Proof. vm_compute. reflexivity. Qed.
Print Assumptions c20_shipped_table_passes.

(* the documented panic is real (known finding), and the hypotheses above are
   met by real names *)
Example c20_known_class : extract_parts (str "2-Player Game") = Panic site_explicit_panic.
Proof. vm_compute. reflexivity. Qed.
Example c20_ex :
  exists g pm, extract_parts (str "Grand Theft Auto V - FiveM (2013)") = Ok g /\
    expected_core n2w_shipped [] g false = Ok (str "gta5f", [str "Grand"; str "Theft"; str "Auto"; str "5"; str "FiveM"],
                                               [ConvertRomanNumeralsToArabic; MoreThanTwoWordsMakeAcronym]) /\
    split_once 45 (pn_name g) = Some (str "Grand Theft Auto V ", str " FiveM ") /\
    extract_parts (str " FiveM ") = Ok pm /\
    expected_core n2w_shipped [] pm true = Ok (str "fivem", [str "FiveM"], [IfModForQueriesProcessOnlyModName; TwoWordsOrLessUseFullWords]).
Proof. eexists; eexists. vm_compute. repeat split. Qed.
