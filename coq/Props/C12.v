(* C12 - Timeouts bound every blocking step on real sockets (PARTIAL).

   What a model can carry: (1) creating a socket applies the configured read and
   write timeouts (and, for TCP, connects under the connect timeout) before any
   receive; a refused connection fails at once with SocketConnect; (2) against
   a peer that never answers, a retried unit performs exactly retries + 1
   receives and returns PacketReceive, so with (1) it returns within
   (retries + 1) x read timeout. That a receive on a real socket returns when
   its timeout expires, and that bytes reach the peer unmodified, is measured
   on loopback sockets by the check (IPv4 and IPv6), not proved. *)
From GD Require Import Base.Prelude Model.Strings Model.Buffer Model.Net Model.Quake Model.Unreal2 Proofs.TimeoutProofs.

Theorem c12_udp_socket_applies_timeouts : forall port t n,
  n_trace (snd (udp_new port t n))
  = ApplyTimeout (fst (ts_rw_or_default t)) (snd (ts_rw_or_default t)) :: NewUdp port :: n_trace n.
Proof. exact udp_new_trace. Qed.
Print Assumptions c12_udp_socket_applies_timeouts.

Theorem c12_tcp_socket_applies_timeouts : forall port t d st r n,
  n_tcp n = Stream d st :: r ->
  n_trace (snd (tcp_new port t n))
  = ApplyTimeout (fst (ts_rw_or_default t)) (snd (ts_rw_or_default t)) :: NewTcp port (ts_connect_or_default t) :: n_trace n.
Proof. exact tcp_new_trace. Qed.
Print Assumptions c12_tcp_socket_applies_timeouts.

Theorem c12_refused_connection_fails_at_once : forall port t r n,
  n_tcp n = Refused :: r \/ n_tcp n = [] -> fst (tcp_new port t n) = Err SocketConnect.
Proof. exact tcp_new_refused. Qed.
Print Assumptions c12_refused_connection_fails_at_once.

Theorem c12_silent_peer_costs_retries_plus_one : forall A (a : M A) r n,
  one_receive a -> silent n ->
  exists n', retry_on_timeout r a n = (Err PacketReceive, n') /\ recvs n' = (recvs n + N.to_nat r + 1)%nat.
Proof. intros A. exact (@silent_peer_costs_retries_plus_one A). Qed.
Print Assumptions c12_silent_peer_costs_retries_plus_one.

(* the retried units of the UDP protocols are such attempts *)
Theorem c12_send_then_receive : forall port d size, one_receive (do* _ := send port d in udp_recv size).
Proof. exact send_recv_one_receive. Qed.
Print Assumptions c12_send_then_receive.
Theorem c12_quake_unit : forall port v, one_receive (get_data_impl port v).
Proof. exact quake_one_receive. Qed.
Print Assumptions c12_quake_unit.

(* ... and so are the retried units of Valve (one request), GameSpy 1 / 2 / 3 and JC2-MP (the whole exchange), Minecraft
   Bedrock and Unreal 2 (one request) *)
From GD Require Import Model.Valve Model.Gamespy Model.Games Model.Minecraft Proofs.TimeoutUnits.
Theorem c12_other_units :
  (forall bz port e protocol kind payload, one_receive (get_request_data_impl bz port e protocol kind payload))
  /\ (forall port, one_receive (gs1_values_impl port))
  /\ (forall port, one_receive (gs2_request_impl port))
  /\ (forall port, one_receive (gs3_packets_impl port))
  /\ (forall port, one_receive (jc2m_packets_impl port))
  /\ (forall port, one_receive (bedrock_info_impl port))
  /\ (forall port kind, one_receive (do* _ := send port (u2_request kind) in udp_recv (Some u2_packet_size))).
Proof.
  exact (conj valve_one_receive (conj gs1_one_receive (conj gs2_one_receive (conj gs3_one_receive (conj jc2m_one_receive
        (conj bedrock_one_receive unreal2_one_receive)))))).
Qed.
Print Assumptions c12_other_units.

(* a Valve server that answers every request with a challenge and the challenged request with nothing: one attempt is
   request, challenge, challenged request, silence - two receives, one of them waiting for the read timeout -, and with
   r retries the unit makes exactly r + 1 such attempts (2 (r + 1) receives), fails with a timeout-class error and
   leaves the rest of the script alone: the wait is (r + 1) x read timeout, not (r + 1)^2 *)
From GD Require Import Proofs.ValveChallengeSilent.
Theorem c12_valve_challenged_then_silent : forall bz port retries e protocol kind (cs : list (N * N * N * N)) (u : list udp_event) t sn cur tr,
  length cs = S (N.to_nat retries) ->
  exists err sn' tr',
    get_request_data bz port retries e protocol kind
      (mknet (flat_map (fun c => let '(c1, c2, c3, c4) := c in [Datagram [255; 255; 255; 255; 65; c1; c2; c3; c4]; Timeout]) cs ++ u) t [] sn cur tr)
    = (Err err, mknet u t [] sn' cur tr')
    /\ timeout_class err = true
    /\ recvs (mknet u t [] sn' cur tr') = (recvs (mknet u t [] sn cur tr) + 2 * (N.to_nat retries + 1))%nat.
Proof. exact valve_unit_challenged_then_silent. Qed.
Print Assumptions c12_valve_challenged_then_silent.

(* the model's side of "received datagrams are delivered unmodified up to the requested size": a receive hands over the
   first `size` bytes of the datagram (1024 when no size is requested), the whole datagram when it fits; the sizes the
   Valve, Unreal 2 and default receives ask for.  That the operating system delivers datagrams this way is measured. *)
From GD Require Import Proofs.ReceiveContract.
Theorem c12_receive_contract : forall size d (u : list udp_event) t f sn cur tr,
  udp_recv size (mknet (Datagram d :: u) t f sn cur tr)
  = (Ok (firstn (N.to_nat (match size with Some s => s | None => 1024 end)) d), mknet u t f sn cur (RecvEv size :: tr))
  /\ ((length d <= N.to_nat (match size with Some s => s | None => 1024 end))%nat ->
      udp_recv size (mknet (Datagram d :: u) t f sn cur tr) = (Ok d, mknet u t f sn cur (RecvEv size :: tr))).
Proof. exact (fun size d u t f sn cur tr => conj (receive_contract size d u t f sn cur tr) (receive_whole size d u t f sn cur tr)). Qed.
Print Assumptions c12_receive_contract.
Theorem c12_receive_sizes : packet_size = 6144 /\ u2_packet_size = 1024 /\ default_packet_size = 1024.
Proof. exact receive_sizes. Qed.
Print Assumptions c12_receive_sizes.

Example c12_ex : silent (net_init [] [] []) /\ recvs (net_init [] [] []) = 0%nat.
Proof. repeat split. Qed.
