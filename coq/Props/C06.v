(* C06 - Unreal 2 replies decode strings and lists without loss or addition. *)
From GD Require Import Base.Prelude Model.Strings Model.StrOps Model.Buffer Model.Unreal2Str Model.Net Model.Valve Model.Unreal2 Spec.Unreal2Spec.
From GD Require Import Proofs.BufferLemmas Proofs.Msafe Proofs.Unreal2StrProofs Proofs.Unreal2Total.

(* latin1: for EVERY length byte below 0x80 and every content (text outside the
   control range, colour codes with any components but 1b, optional terminating
   NUL) the decoder returns exactly the text, colour codes removed, nothing
   added or dropped, and consumes exactly the string *)
Theorem c06_latin1_string : forall segs (nul : bool) pre r,
  forallb seg_ok8 segs = true ->
  lenN (raw_of segs ++ (if nul then [0] else [])) < 128 ->
  dec_unreal2 (at_ pre (enc_ustring (mk_ws Latin1 segs nul) ++ r))
  = (Ok (expected_ustring (mk_ws Latin1 segs nul)), at_ (pre ++ enc_ustring (mk_ws Latin1 segs nul)) r).
Proof. exact u2_latin1_string. Qed.
Print Assumptions c06_latin1_string.
(* UCS-2: every length byte 0x80..0xff, every scalar value (surrogate pairs
   included); excluded: the 01-marker quirk (first byte after the length = 01) *)
Theorem c06_ucs2_string : forall segs (nul : bool) pre r,
  forallb seg_ok segs = true ->
  let raw := raw_of segs ++ (if nul then [0] else []) in
  let units := flat_map utf16_units1 raw in
  forallb scalar_ok raw = true -> lenN units < 128 ->
  (match utf16le units ++ r with 1 :: _ => False | _ => True end) ->
  dec_unreal2 (at_ pre (enc_ustring (mk_ws Ucs2 segs nul) ++ r))
  = (Ok (expected_ustring (mk_ws Ucs2 segs nul)), at_ (pre ++ enc_ustring (mk_ws Ucs2 segs nul)) r).
Proof. exact u2_ucs2_string. Qed.
Print Assumptions c06_ucs2_string.
(* what "colour and control codes removed" means, on any segment list *)
Theorem c06_clean : forall segs (nul : bool), forallb seg_ok segs = true ->
  u2_clean (raw_of segs ++ (if nul then [0] else [])) = text_of segs.
Proof. exact u2_clean_segs. Qed.
Print Assumptions c06_clean.
(* the whole query, for every script: total; only the three 79 00 00 00 <kind>
   requests are sent; at most 50 player slots are reserved *)
Theorem c06_u2_total : forall port g t u tc sf, settings_ok t -> safe (fst (u2_query port g t (net_init u tc sf))).
Proof. exact u2_total. Qed.
Print Assumptions c06_u2_total.

(* non-vacuity: a 46-character name (length byte 0x2f), a colour code with a
   dark component, an end-to-end run *)
Example c06_ex_long :
  let w := mk_ws Latin1 [Txt (repeat 65 46)] true in
  fst (dec_unreal2 (buf_new (enc_ustring w))) = Ok (repeat 65 46).
Proof. vm_compute. reflexivity. Qed.
Example c06_ex_colour :
  let w := mk_ws Latin1 [Colour 1 1 1; Txt (str "Shadow")] true in
  forallb seg_ok8 (ws_segs w) = true /\ fst (dec_unreal2 (buf_new (enc_ustring w))) = Ok (str "Shadow").
Proof. split; vm_compute; reflexivity. Qed.
