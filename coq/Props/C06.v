(* C06 - Unreal 2 replies decode strings and lists without loss or addition. *)
From GD Require Import Base.Prelude Model.Strings Model.StrOps Model.Buffer Model.Unreal2Str Model.Net Model.Valve Model.Unreal2 Spec.Unreal2Spec.
From GD Require Import Proofs.BufferLemmas Proofs.Msafe Proofs.Unreal2StrProofs Proofs.Unreal2Total Proofs.Unreal2Lists Proofs.Unreal2Accum Proofs.Unreal2Query.

(* latin1: for EVERY length byte below 0x80 and every content (text outside the
   control range, colour codes with any components but 1b, optional terminating
   NUL) the decoder returns exactly the text, colour codes removed, nothing
   added or dropped, and consumes exactly the string *)
Theorem c06_latin1_string : forall segs (nul : bool) pre r,
  forallb seg_ok8 segs = true ->
  lenN (raw_of segs ++ (if nul then [0] else [])) < 128 ->
  dec_unreal2 (at_ pre (enc_ustring (mk_ws Latin1 segs nul) ++ r))
  = (Ok (expected_ustring (mk_ws Latin1 segs nul)), at_ (pre ++ enc_ustring (mk_ws Latin1 segs nul)) r).
Proof. exact u2_latin1_string. Qed.
Print Assumptions c06_latin1_string.
(* UCS-2: every length byte 0x80..0xff, every scalar value (surrogate pairs
   included); excluded: the 01-marker quirk (first byte after the length = 01) *)
Theorem c06_ucs2_string : forall segs (nul : bool) pre r,
  forallb seg_ok segs = true ->
  let raw := raw_of segs ++ (if nul then [0] else []) in
  let units := flat_map utf16_units1 raw in
  forallb scalar_ok raw = true -> lenN units < 128 ->
  (match utf16le units ++ r with 1 :: _ => False | _ => True end) ->
  dec_unreal2 (at_ pre (enc_ustring (mk_ws Ucs2 segs nul) ++ r))
  = (Ok (expected_ustring (mk_ws Ucs2 segs nul)), at_ (pre ++ enc_ustring (mk_ws Ucs2 segs nul)) r).
Proof. exact u2_ucs2_string. Qed.
Print Assumptions c06_ucs2_string.
(* what "colour and control codes removed" means, on any segment list *)
Theorem c06_clean : forall segs (nul : bool), forallb seg_ok segs = true ->
  u2_clean (raw_of segs ++ (if nul then [0] else [])) = text_of segs.
Proof. exact u2_clean_segs. Qed.
Print Assumptions c06_clean.
(* ---- the lists ----
   ws_ok: a wire string of either encoding within its length byte (Latin-1 below 0x80 bytes; UCS-2 below 0x80
   units, not empty and not starting with the byte 01 - the marker quirk).
   One datagram of mutators / rules: every key / value pair comes back, in order (a "mutator" key, in any case,
   adds to the mutator set; any other key appends its value to that rule's values). One datagram of players:
   every player comes back with every field, those with ping 0 as bots, each group in the order sent. *)
Theorem c06_ws_ok_means : forall w,
  ws_ok w <->
  match ws_enc w with
  | Latin1 => forallb seg_ok8 (ws_segs w) = true /\ lenN (raw_of (ws_segs w) ++ (if ws_nul w then [0] else [])) < 128
  | Ucs2 =>
      let raw := raw_of (ws_segs w) ++ (if ws_nul w then [0] else []) in
      let units := flat_map utf16_units1 raw in
      forallb seg_ok (ws_segs w) = true /\ forallb scalar_ok raw = true /\ lenN units < 128
      /\ (match utf16le units with [] => False | 1 :: _ => False | _ => True end)
  end.
Proof. exact (fun w => conj (fun x => x) (fun x => x)). Qed.
Print Assumptions c06_ws_ok_means.
Theorem c06_rules_datagram : forall l acc, Forall (fun kv => ws_ok (fst kv) /\ ws_ok (snd kv)) l ->
  with_headers 1 (enc_u2_pairs l) (parse_mr (S (length (enc_u2_pairs l))) acc) = Ok (expected_pairs l acc).
Proof. exact rules_datagram_decodes. Qed.
Print Assumptions c06_rules_datagram.
Theorem c06_players_datagram : forall l acc,
  Forall (fun p => let '(id, name, ping, score, sid) := p in
                   id < 4294967296 /\ ws_ok name /\ ping < 4294967296 /\ (- 2147483648 <= score < 2147483648)%Z /\ sid < 4294967296) l ->
  with_headers 2 (enc_u2_players l) (parse_u2_players (S (length (enc_u2_players l))) acc)
  = Ok (mk_u2ps (ups_players acc ++ filter (fun p => negb (up_ping p =? 0)) (map expected_player l))
                (ups_bots acc ++ filter (fun p => up_ping p =? 0) (map expected_player l))).
Proof. exact players_datagram_decodes. Qed.
Print Assumptions c06_players_datagram.

(* the whole query, for every script: total; only the three 79 00 00 00 <kind>
   requests are sent; at most 50 player slots are reserved *)
(* lists that span several datagrams: the players of all the datagrams of the reply, in arrival order, players and
   bots apart; reading stops once the announced number is reached.  Mutators and rules: every further datagram of
   that kind adds its pairs until nothing more arrives (side condition: each datagram within the 1024-byte receive) *)
Theorem c06_players_accumulate : forall (rest : list (list (N * wire_string * N * Z * N))) g fuel num acc t f sn cur tr,
  Forall (Forall player_ok) (g :: rest) -> Forall (fun x => x <> []) (g :: rest) ->
  Forall (fun x => (length (enc_u2_players x) <= 1024)%nat) rest ->
  num = count_ps acc + lenN (concat (g :: rest)) ->
  (length rest < fuel)%nat ->
  exists tr', more_players fuel num acc (enc_u2_players g) (mknet (map Datagram (map enc_u2_players rest)) t f sn cur tr)
              = (Ok (fold_left add_player (map expected_player (concat (g :: rest))) acc), mknet [] t f sn cur tr').
Proof. exact players_accumulate. Qed.
Print Assumptions c06_players_accumulate.
Theorem c06_rules_accumulate : forall (rest : list (list (wire_string * wire_string))) fuel acc (u : list udp_event) t f sn cur tr,
  Forall (Forall (fun kv => ws_ok (fst kv) /\ ws_ok (snd kv))) rest ->
  Forall (fun x => (length (enc_u2_pairs x) <= 1024)%nat) rest ->
  (length rest < fuel)%nat ->
  (u = [] \/ exists u', u = Timeout :: u') ->
  exists tr', more_mr fuel acc (mknet (map Datagram (map enc_u2_pairs rest) ++ u) t f sn cur tr)
              = (Ok (fold_left (fun a l => expected_pairs l a) rest acc), mknet (tl u) t f sn cur tr').
Proof. exact rules_accumulate. Qed.
Print Assumptions c06_rules_accumulate.

(* the whole query: server info, mutators and rules over all their datagrams (ended by silence), the password flag
   taken from the GamePassword rule, the players over all their datagrams until the announced number is reached.
   wf_u2: numbers are u32, strings are well-formed wire strings of either encoding, at least one datagram of rules,
   no empty datagram of players; sizes_ok: every datagram within the 1024-byte receive. *)
Theorem c06_wf_u2_means : forall st,
  wf_u2 st <-> (wf_info st
                /\ Forall (Forall (fun kv => ws_ok (fst kv) /\ ws_ok (snd kv))) (us_pairs st) /\ us_pairs st <> []
                /\ Forall (Forall player_ok) (us_players st) /\ Forall (fun x => x <> []) (us_players st)).
Proof. intros; reflexivity. Qed.
Print Assumptions c06_wf_u2_means.
Theorem c06_info_datagram : forall st, wf_info st -> with_headers 0 (enc_u2_info st) parse_u2_info = Ok (info_of st).
Proof. exact info_datagram_decodes. Qed.
Print Assumptions c06_info_datagram.
Theorem c06_query_decoded_completely : forall port st g, wf_u2 st -> sizes_ok st -> ug_mr g <> Skip -> ug_players g <> Skip ->
  fst (u2_query port (Some g) None (net_init (u2_script st g) [] [])) = Ok (u2_expected st g).
Proof. exact u2_query_roundtrip. Qed.
Print Assumptions c06_query_decoded_completely.
Example c06_ex_query_hyps : wf_u2 ex_u2 /\ sizes_ok ex_u2.
Proof. exact ex_u2_ok. Qed.

Theorem c06_u2_total : forall port g t u tc sf, settings_ok t -> safe (fst (u2_query port g t (net_init u tc sf))).
Proof. exact u2_total. Qed.
Print Assumptions c06_u2_total.

(* non-vacuity: a 46-character name (length byte 0x2f), a colour code with a
   dark component, an end-to-end run *)
Example c06_ex_long :
  let w := mk_ws Latin1 [Txt (repeat 65 46)] true in
  fst (dec_unreal2 (buf_new (enc_ustring w))) = Ok (repeat 65 46).
Proof. vm_compute. reflexivity. Qed.
Example c06_ex_colour :
  let w := mk_ws Latin1 [Colour 1 1 1; Txt (str "Shadow")] true in
  forallb seg_ok8 (ws_segs w) = true /\ fst (dec_unreal2 (buf_new (enc_ustring w))) = Ok (str "Shadow").
Proof. split; vm_compute; reflexivity. Qed.
(* the hypotheses of the list theorems are met: a Latin-1 key with terminator, a UCS-2 value with a
   non-ASCII text and a colour code, a player with a negative score, a bot *)
Example c06_ex_lists :
  let k := mk_ws Latin1 [Txt (str "Mutator")] true in
  let v := mk_ws Ucs2 [Colour 200 26 0; Txt [233; 8364; 128512]] false in
  (ws_ok k /\ ws_ok v)
  /\ with_headers 1 (enc_u2_pairs [(k, v)]) (parse_mr (S (length (enc_u2_pairs [(k, v)]))) (mk_u2mr [] []))
     = Ok (mk_u2mr [utf8_encode [233; 8364; 128512]] [])
  /\ with_headers 2 (enc_u2_players [(7, v, 30, (-5)%Z, 9); (8, k, 0, 2%Z, 0)]) (parse_u2_players 200 (mk_u2ps [] []))
     = Ok (mk_u2ps [mk_u2p 7 (utf8_encode [233; 8364; 128512]) 30 (-5) 9] [mk_u2p 8 (str "Mutator") 0 2 0]).
Proof. split; [split; vm_compute; repeat split; discriminate|]. split; vm_compute; reflexivity. Qed.
