(* C07 - Single-game protocols map every field.
   Round trips of the reply parsers of Savage 2, Mindustry and Frontlines: Fuel
   of War on the wire encodings of Spec/GamesSpec.v, for every state: each
   field of the reply comes back in the correspondingly named response field.
   PARTIAL: for Just Cause 2: Multiplayer, The Ship and Battalion 1944 the
   statement (the c07_full_statement definitions) is decided per generated state by the
   correspondence run; Eco (HTTP) is outside. *)
From GD Require Import Base.Prelude Model.Strings Model.StrOps Model.Buffer Model.Net Model.Valve Model.Gamespy Model.Games.
From GD Require Import Spec.Rand Spec.ValveSpec Spec.ValveGen Spec.GamespySpec Spec.GamesSpec Proofs.GamesProofs.

Theorem c07_savage2_roundtrip : forall s, wf_savage2 s = true ->
  run_r savage2_parse (savage2_reply s) = Ok (ss_resp s).
Proof. exact savage2_roundtrip. Qed.
Print Assumptions c07_savage2_roundtrip.

Theorem c07_mindustry_roundtrip : forall r, wf_mindustry r = true ->
  run_r mindustry_parse (mindustry_reply r (gm_code (mi_gamemode r))) = Ok r.
Proof. exact mindustry_roundtrip. Qed.
Print Assumptions c07_mindustry_roundtrip.

Theorem c07_ffow_roundtrip : forall s,
  let r := fs_resp s in
  no_nul (ff_name r) = true -> no_nul (ff_map r) = true -> no_nul (ff_active_mod r) = true ->
  no_nul (ff_game_mode r) = true -> no_nul (ff_description r) = true -> no_nul (ff_game_version r) = true ->
  length (fs_skip s) = 2%nat -> ff_time_left r < 65536 ->
  server_type_from (fs_st s) = Ok (ff_server_type r) -> environment_from (fs_env s) = Ok (ff_environment_type r) ->
  ff_has_password r = (fs_pw s =? 1) -> ff_vac_secured r = (fs_vac s =? 1) ->
  run_r ffow_parse (ffow_payload s) = Ok r.
Proof. exact ffow_roundtrip. Qed.
Print Assumptions c07_ffow_roundtrip.

(* the hypotheses are met by generated states, strings of 128..255 bytes included *)
Example c07_wf_nonvacuous :
  forallb (fun seed => wf_savage2 (fst (gen_savage2 seed))) [1; 2; 3; 4; 5] = true /\
  forallb (fun seed => wf_mindustry (fst (fst (gen_mindustry seed)))) [1; 2; 3; 4; 5; 6; 7; 8] = true /\
  existsb (fun seed => let r := fst (fst (gen_mindustry seed)) in wf_mindustry r && (127 <? lenN (mi_host r)))
          (map (fun i => 7919 * N.of_nat i + 13) (seq 1 400)) = true.
Proof. vm_compute. repeat split. Qed.

(* full statements for the remaining games (decided by the check, not proved) *)
Definition script_of (dgs : list bytes) : net := net_init (map Datagram dgs) [] [].
Definition c07_full_statement_jc2m (s : jc_state) : Prop :=
  fst (jc2m_query 7777 None (script_of (jc_script s))) = Ok (jc_expected s).
Definition c07_full_statement_theship (st : vstate) (o : vopts) : Prop :=
  fst (theship_query (fun _ _ => Err Decompress) 27015 None (script_of (valve_script st o gathering_default))) = ship_expected st.
Definition c07_full_statement_battalion (st : vstate) (o : vopts) : Prop :=
  fst (battalion_query (fun _ _ => Err Decompress) 7780 (script_of (valve_script st o gathering_default))) = bat_expected st.
