(* C07 - Single-game protocols map every field.
   Round trips of the reply parsers of Savage 2, Mindustry and Frontlines: Fuel
   of War on the wire encodings of Spec/GamesSpec.v, for every state: each
   field of the reply comes back in the correspondingly named response field.
   Just Cause 2: Multiplayer: the data packet is decoded to exactly the state
   (every variable, every player). The Ship and Battalion 1944: with the Valve
   round trip (C02) the query returns every field of the three replies under its
   own name, the bat_* rules applied and removed. Eco: every member of the
   Info object of the parsed JSON document arrives in the response field the
   table names, whatever the order of the members and whatever unknown members
   the document has; a missing member fails the query (JSON text -> value and
   HTTP are run for real in the correspondence check, not modelled). *)
From GD Require Import Base.Prelude Model.Strings Model.StrOps Model.Buffer Model.Net Model.Valve Model.Gamespy Model.Games.
From GD Require Import Spec.Rand Spec.ValveSpec Spec.ValveGen Spec.GamespySpec Spec.GamesSpec Proofs.GamesProofs.
From GD Require Import Model.View Model.Eco Spec.EcoSpec Proofs.EcoRoundtrip Proofs.Jc2mQuery.
From GD Require Import Proofs.Msafe Proofs.ValveTransport Proofs.Gamespy2Roundtrip Proofs.Jc2mRoundtrip Proofs.ValveGamesRoundtrip.

Theorem c07_savage2_roundtrip : forall s, wf_savage2 s = true ->
  run_r savage2_parse (savage2_reply s) = Ok (ss_resp s).
Proof. exact savage2_roundtrip. Qed.
Print Assumptions c07_savage2_roundtrip.

Theorem c07_mindustry_roundtrip : forall r, wf_mindustry r = true ->
  run_r mindustry_parse (mindustry_reply r (gm_code (mi_gamemode r))) = Ok r.
Proof. exact mindustry_roundtrip. Qed.
Print Assumptions c07_mindustry_roundtrip.

Theorem c07_ffow_roundtrip : forall s,
  let r := fs_resp s in
  no_nul (ff_name r) = true -> no_nul (ff_map r) = true -> no_nul (ff_active_mod r) = true ->
  no_nul (ff_game_mode r) = true -> no_nul (ff_description r) = true -> no_nul (ff_game_version r) = true ->
  length (fs_skip s) = 2%nat -> ff_time_left r < 65536 ->
  server_type_from (fs_st s) = Ok (ff_server_type r) -> environment_from (fs_env s) = Ok (ff_environment_type r) ->
  ff_has_password r = (fs_pw s =? 1) -> ff_vac_secured r = (fs_vac s =? 1) ->
  run_r ffow_parse (ffow_payload s) = Ok r.
Proof. exact ffow_roundtrip. Qed.
Print Assumptions c07_ffow_roundtrip.

(* the hypotheses are met by generated states, strings of 128..255 bytes included *)
Example c07_wf_nonvacuous :
  forallb (fun seed => wf_savage2 (fst (gen_savage2 seed))) [1; 2; 3; 4; 5] = true /\
  forallb (fun seed => wf_mindustry (fst (fst (gen_mindustry seed)))) [1; 2; 3; 4; 5; 6; 7; 8] = true /\
  existsb (fun seed => let r := fst (fst (gen_mindustry seed)) in wf_mindustry r && (127 <? lenN (mi_host r)))
          (map (fun i => 7919 * N.of_nat i + 13) (seq 1 400)) = true.
Proof. vm_compute. repeat split. Qed.

(* ---- Just Cause 2: Multiplayer ----
   wf_jc: texts valid UTF-8 without NUL, maxplayers / numplayers u32, pings and the announced count u16,
   the server's own variables with non-empty, pairwise distinct names different from the six the client
   reads, and the password text means the state's flag (true / false in any case, or a number: non-zero). *)
Theorem c07_wf_jc_means : forall s,
  wf_jc s = (no_nul (js_version s) && no_nul (js_description s) && no_nul (js_name s) && no_nul (snd (js_password s))
             && (js_max s <? 4294967296) && optb (fun n => n <? 4294967296) (js_num s)
             && extras_ok_for jc_keys (js_extras s)
             && forallb (fun p => no_nul (jp_name p) && no_nul (jp_steam_id p) && (jp_ping p <? 65536)) (js_players s)
             && (lenN (js_players s) <? 4294967296) && (js_count s <? 65536)
             && match password_means (snd (js_password s)) with Some b => Bool.eqb b (fst (js_password s)) | None => false end).
Proof. exact (fun s => eq_refl). Qed.
Print Assumptions c07_wf_jc_means.
Theorem c07_jc2m_roundtrip : forall s, wf_jc s = true ->
  jc2m_build (flat_map (fun kv => cstr (fst kv) ++ cstr (snd kv)) (jc_vars s) ++ nul ++ be16' (js_count s)
              ++ flat_map (fun p => cstr (jp_name p) ++ cstr (jp_steam_id p) ++ be16' (jp_ping p)) (js_players s))
  = Ok (jc_expected s).
Proof. exact jc2m_roundtrip. Qed.
Print Assumptions c07_jc2m_roundtrip.

(* ---- The Ship and Battalion 1944: the hypotheses are those of the Valve round trip (C02) ---- *)
Theorem c07_theship_roundtrip : forall bz port t st o,
  wf_state ship_engine st = true -> settings_ok t -> retries_ok t ->
  reply_ok bz ship_engine 0 (vo_info o) (enc_info (vs_info st)) ->
  reply_ok bz ship_engine (info_protocol_of (vs_info st)) (vo_players o) (enc_players (vs_players st)) ->
  reply_ok bz ship_engine (info_protocol_of (vs_info st)) (vo_rules o) (enc_rules (vs_rules st)) ->
  fst (theship_query bz port t (net_init (map Datagram (valve_script st o gathering_default)) [] [])) = ship_expected st.
Proof. exact theship_roundtrip. Qed.
Print Assumptions c07_theship_roundtrip.
Theorem c07_battalion_roundtrip : forall bz port st o,
  wf_state bat_engine st = true ->
  reply_ok bz bat_engine 0 (vo_info o) (enc_info (vs_info st)) ->
  reply_ok bz bat_engine (info_protocol_of (vs_info st)) (vo_players o) (enc_players (vs_players st)) ->
  reply_ok bz bat_engine (info_protocol_of (vs_info st)) (vo_rules o) (enc_rules (vs_rules st)) ->
  fst (battalion_query bz port (net_init (map Datagram (valve_script st o gathering_default)) [] [])) = bat_expected st.
Proof. exact battalion_roundtrip. Qed.
Print Assumptions c07_battalion_roundtrip.
(* the mappings themselves, for every Valve response *)
Theorem c07_battalion_mapping : forall r, (ob* r' := bat_overrides r in Ok (game_of_valve r')) = bat_spec r.
Proof. exact bat_overrides_spec. Qed.
Print Assumptions c07_battalion_mapping.

Example c07_wf_jc_nonvacuous :
  existsb (fun seed => let s := fst (gen_jc seed) in wf_jc s && negb (Nat.eqb (length (js_players s)) 0) && negb (Nat.eqb (length (js_extras s)) 0))
          [1; 2; 3; 4; 5; 6; 7; 8; 9; 10; 11; 12; 13; 14; 15; 16] = true.
Proof. vm_compute. reflexivity. Qed.

(* the query-level statement for JC2-MP (handshake, skipped header bytes) is decided by the check, not proved *)
(* full statements for the remaining games (decided by the check, not proved) *)
Definition script_of (dgs : list bytes) : net := net_init (map Datagram dgs) [] [].
Definition c07_full_statement_jc2m (s : jc_state) : Prop :=
  fst (jc2m_query 7777 None (script_of (jc_script s))) = Ok (jc_expected s).
Definition c07_full_statement_theship (st : vstate) (o : vopts) : Prop :=
  fst (theship_query (fun _ _ => Err Decompress) 27015 None (script_of (valve_script st o gathering_default))) = ship_expected st.
Definition c07_full_statement_battalion (st : vstate) (o : vopts) : Prop :=
  fst (battalion_query (fun _ _ => Err Decompress) 7780 (script_of (valve_script st o gathering_default))) = bat_expected st.

(* Just Cause 2: Multiplayer, the whole query: handshake with the challenge, data request, the data packet behind its
   11 skipped header bytes (side conditions of the transport: the challenge is an i32 whose text fits the 16-byte
   handshake receive, the packet fits the 2048-byte receive) *)
Theorem c07_jc2m_query_roundtrip : forall port s, wf_jc s = true ->
  length (js_skip s) = 11%nat ->
  (- 2147483648 <= js_challenge s < 2147483648)%Z -> (length (show_Z (js_challenge s)) <= 10)%nat ->
  (length (jc_data s) + 16 <= 2048)%nat ->
  fst (jc2m_query port None (script_net (jc_script s))) = Ok (jc_expected s).
Proof. exact jc2m_query_roundtrip. Qed.
Print Assumptions c07_jc2m_query_roundtrip.

Example c07_jc2m_query_nonvacuous :
  existsb (fun seed => let s := fst (gen_jc seed) in
             wf_jc s && negb (Nat.eqb (length (js_players s)) 0) && Nat.eqb (length (js_skip s)) 11
             && (-2147483648 <=? js_challenge s)%Z && (js_challenge s <? 2147483648)%Z && (length (show_Z (js_challenge s)) <=? 10)%nat
             && (length (jc_data s) + 16 <=? 2048)%nat)
          [1; 2; 3; 4; 5; 6; 7; 8; 9; 10; 11; 12; 13; 14; 15; 16] = true.
Proof. vm_compute. reflexivity. Qed.

(* ---- Eco ---- *)
(* the table the theorem speaks about: member of Info, its type, field of the response (games/eco/types.rs) *)
Theorem c07_eco_table_means :
  map (fun r => (fst (fst r), snd r)) eco_table =
  [("External", "external"); ("GamePort", "port"); ("WebPort", "query_port"); ("IsLAN", "is_lan"); ("Description", "description");
   ("DetailedDescription", "description_detailed"); ("EconomyDesc", "description_economy"); ("Category", "category");
   ("OnlinePlayers", "players_online"); ("TotalPlayers", "players_maximum"); ("OnlinePlayersNames", "players"); ("AdminOnline", "admin_online");
   ("TimeSinceStart", "time_since_start"); ("TimeLeft", "time_left"); ("Animals", "animals"); ("Plants", "plants"); ("Laws", "laws");
   ("WorldSize", "world_size"); ("Version", "game_version"); ("SkillSpecializationSetting", "skill_specialization_setting"); ("Language", "language");
   ("HasPassword", "has_password"); ("HasMeteor", "has_meteor"); ("DistributionStationItems", "distribution_station_items"); ("Playtimes", "playtimes");
   ("DiscordAddress", "discord_address"); ("IsPaused", "is_paused"); ("ActiveAndOnlinePlayers", "active_and_online_players");
   ("PeakActivePlayers", "peak_active_players"); ("MaxActivePlayers", "max_active_players"); ("ShelfLifeMultiplier", "shelf_life_multiplier");
   ("ExhaustionAfterHours", "exhaustion_after_hours"); ("IsLimitingHours", "is_limiting_hours"); ("ServerAchievementsDict", "server_achievements_dict");
   ("RelayAddress", "relay_address"); ("Access", "access"); ("JoinUrl", "connect")]%string.
Proof. exact eq_refl. Qed.
Print Assumptions c07_eco_table_means.

Theorem c07_eco_roundtrip : forall ibits fint s before after top,
  wf_eco s = true ->
  (forall k, In k (map fst before) \/ In k (map fst after) -> ~ In k table_keys) ->
  ~ In "Info"%string (map fst top) ->
  eco_map (eco_doc ibits fint s before after top) = Ok (eco_expected s).
Proof. exact eco_roundtrip. Qed.
Print Assumptions c07_eco_roundtrip.

Theorem c07_eco_nothing_fabricated : forall info key t name, In (key, t, name) eco_table -> ~ In key (map fst info) ->
  exists e, eco_map (JObj [("Info"%string, JObj info)]) = Err e.
Proof. exact eco_member_missing. Qed.
Print Assumptions c07_eco_nothing_fabricated.

Theorem c07_eco_member_twice_is_error : forall key t name v1 v2 a b c, In (key, t, name) eco_table ->
  exists e, eco_map (JObj [("Info"%string, JObj (a ++ (key, v1) :: b ++ (key, v2) :: c))]) = Err e.
Proof. exact eco_member_twice. Qed.
Print Assumptions c07_eco_member_twice_is_error.

(* the hypotheses can be met *)
Example c07_eco_nonvacuous :
  let s := [VBool true; VU32 3000; VU32 3001; VBool false; VStr (str "d"); VStr (str "long"); VStr (str "eco"); VStr (str "c"); VU32 2; VU32 4294967295;
            VNames [str "ann"; str "bob"]; VBool true; VF64 4615063718147915776; VF64 0; VU32 1; VU32 2; VU32 3; VStr []; VStr (str "0.11"); VStr []; VStr (str "en");
            VBool false; VBool true; VStr []; VStr []; VStr []; VBool false; VU32 0; VU32 5; VU32 9; VF64 1; VF64 2; VBool true; VDict [(str "k", str "v")];
            VStr []; VStr (str "public"); VStr (str "eco://join")] in
  wf_eco s = true /\ eco_map (eco_doc (fun _ => 0) (fun _ => None) s [("Extra"%string, JNull)] [("gamePort"%string, JStr (str "another member"))] [("Other"%string, JNull)]) = Ok (eco_expected s).
Proof. vm_compute. split; reflexivity. Qed.
