(* C16 - Master-server filters are encoded faithfully and paging is complete. *)
From Coq Require Import Permutation.
From GD Require Import Base.Prelude Model.Strings Model.StrOps Model.Buffer Model.Net Model.Master Proofs.Str Spec.MasterSpec.
From GD Require Import Proofs.ValveTransport Proofs.Master.

(* The filter string conforms to the protocol's grammar and denotes exactly the
   filters of each group - for EVERY iteration order of the three maps (the
   lists below are the maps' values in any order) *)
Theorem c16_filters_denote : forall plain nand nor,
  forallb filter_wf plain = true -> forallb filter_wf nand = true -> forallb filter_wf nor = true ->
  denote (sf_bytes_ord plain nand nor) = Some (mk_groups (pairs_of plain) (pairs_of nand) (pairs_of nor)).
Proof. exact denote_sf_bytes. Qed.
Print Assumptions c16_filters_denote.
(* two iteration orders denote the same set of filters *)
Theorem c16_order_irrelevant : forall l l', Permutation l l' -> Permutation (pairs_of l) (pairs_of l').
Proof. exact pairs_of_perm. Qed.
Print Assumptions c16_order_irrelevant.
(* a later filter of the same kind replaces the earlier, in its own group only *)
Theorem c16_insert_last_wins : forall ops g k,
  fmap_lookup k (sf_group g (fold_left (fun s gf => sf_insert (fst gf) (snd gf) s) ops sf_new)) = last_of ops g k.
Proof. exact insert_last_wins. Qed.
Print Assumptions c16_insert_last_wins.
(* the request: '1', region byte, "ip:port" NUL, filter string *)
Theorem c16_payload_shape : forall region fb a1 a2 a3 a4 p,
  construct_payload region fb (a1, a2, a3, a4, p)
  = [49; region] ++ (show_N a1 ++ [46] ++ show_N a2 ++ [46] ++ show_N a3 ++ [46] ++ show_N a4) ++ [58] ++ show_N p ++ [0] ++ fb.
Proof. reflexivity. Qed.
Print Assumptions c16_payload_shape.
(* the decimal renderings used in it read back as the numbers *)
Theorem c16_decimal_roundtrip : forall n, dec_read (show_N n) = Some n.
Proof. exact show_N_read. Qed.
Print Assumptions c16_decimal_roundtrip.

(* paging: any number of full pages followed by a page holding the terminator
   at any position: all listed addresses in order, without the terminator *)
Theorem c16_paging_complete : forall port region fb l,
  pages_ok zero_addr (l_pages l) -> page_ok (l_final_before l ++ zero_addr :: l_final_after l) ->
  forallb (fun a => negb (is_terminator a)) (l_final_before l) = true ->
  consumes (master_query port region fb) (listing_script l) (listing_expected l).
Proof. exact master_query_complete. Qed.
Print Assumptions c16_paging_complete.
Theorem c16_one_page_decoded : forall port region fb p last, page_ok p ->
  consumes (query_specific port region fb last) [enc_page p] p.
Proof. exact query_specific_page. Qed.
Print Assumptions c16_one_page_decoded.

Example c16_ex_filters :
  let sf := fold_left (fun s gf => sf_insert (fst gf) (snd gf) s)
              [(Plain, RunsMap (str "de_dust2")); (Nor, IsSecured true); (Plain, RunsMap (str "cs_office")); (Nand, HasTags []);
               (Nand, RunsAppID 440)] sf_new in
  sf_bytes sf = str "\map\cs_office\nand\1\appid\440\nor\1\secure\1" ++ [0]
  /\ denote (sf_bytes sf) = Some (mk_groups [(str "map", str "cs_office")] [(str "appid", str "440")] [(str "secure", str "1")]).
Proof. split; reflexivity. Qed.
Example c16_ex_paging :
  let l := mk_listing [[(1, 2, 3, 4, 27015); (5, 6, 7, 8, 27016)]] [(9, 9, 9, 9, 1)] [(7, 7, 7, 7, 7)] in
  pages_ok zero_addr (l_pages l) /\
  fst (master_query 27011 3 [0] (net_init (map Datagram (listing_script l)) [] []))
  = Ok [(1, 2, 3, 4, 27015); (5, 6, 7, 8, 27016); (9, 9, 9, 9, 1)].
Proof.
  cbv zeta. split; [|vm_compute; reflexivity].
  cbn [pages_ok l_pages]. split; [|exact I]. unfold full_page, page_ok. repeat split; try reflexivity; try discriminate.
Qed.
