(* C01 - Hostile server responses never crash or hang a query.
   Rows proved so far: valve::query (every Valve game wrapper calls it). *)
From GD Require Import Base.Prelude Model.Strings Model.Buffer Model.Net Model.Valve Model.Quake Model.Unreal2 Proofs.Msafe Proofs.ValveTotal Proofs.QuakeTotal Proofs.Unreal2Total.

(* For every reply script (any datagrams, timeouts, send failures, in any
   order and number), every engine, gather and accepted timeout setting, the
   query returns Ok or Err: never Panic, Abort, nor runs out of fuel (i.e. it
   stops once the script is exhausted = the server has gone silent). *)
Theorem c01_valve_total : forall bz, (forall p s, safe (bz p s)) ->
  forall port e g t u tc sf, settings_ok t -> retries_ok t ->
  safe (fst (Valve.query bz port e g t (net_init u tc sf))).
Proof. exact valve_total. Qed.
Print Assumptions c01_valve_total.

(* the script is only ever consumed: the number of receives is bounded by it *)
Theorem c01_valve_script_shrinks : forall bz, (forall p s, safe (bz p s)) ->
  forall port e g t n, settings_ok t -> retries_ok t ->
  (length (n_udp (snd (Valve.query bz port e g t n))) <= length (n_udp n))%nat.
Proof. intros bz Hbz port e g t n Hs Hr. exact (proj1 (proj2 (valve_query_ok bz Hbz port e g t Hs Hr n))). Qed.
Print Assumptions c01_valve_script_shrinks.

(* Quake 1/2/3 *)
Theorem c01_quake_total : forall port v t u tc sf, settings_ok t ->
  safe (fst (Quake.client_query port v t (net_init u tc sf))).
Proof. exact quake_total. Qed.
Print Assumptions c01_quake_total.

(* Unreal 2 *)
Theorem c01_unreal2_total : forall port g t u tc sf, settings_ok t -> safe (fst (u2_query port g t (net_init u tc sf))).
Proof. exact u2_total. Qed.
Print Assumptions c01_unreal2_total.

(* hypotheses are satisfiable: default settings, and a hostile script *)
Example c01_ex_settings : settings_ok None /\ retries_ok None /\ settings_ok (Some ts_default).
Proof. repeat split; intros d H; inversion H; reflexivity. Qed.
Example c01_ex_hostile :
  fst (Valve.query (fun _ _ => Err Decompress) 27015 (Source None) None None
         (net_init [Datagram [254; 255; 255; 255; 1; 0; 0; 128; 0; 0; 0; 0]; Datagram []; Timeout] [] []))
  = Err PacketUnderflow.
Proof. reflexivity. Qed.
