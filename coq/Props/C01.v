(* C01 - Hostile server responses never crash or hang a query.
   Rows proved: every UDP / TCP protocol of the library (Valve and the games on it, Quake, Unreal 2,
   GameSpy 1 / 2 / 3, JC2-MP, Savage 2, Mindustry, all Minecraft entry points). Not modelled: Eco (HTTP),
   Epic and Minetest (HTTP + TLS). *)
From GD Require Import Base.Prelude Model.Strings Model.Buffer Model.Net Model.Valve Model.Quake Model.Unreal2 Proofs.Msafe Proofs.ValveTotal Proofs.QuakeTotal Proofs.Unreal2Total.
From GD Require Import Model.Gamespy Model.Games Model.View Model.Minecraft Proofs.GamesTotal.

(* For every reply script (any datagrams, timeouts, send failures, in any
   order and number), every engine, gather and accepted timeout setting, the
   query returns Ok or Err: never Panic, Abort, nor runs out of fuel (i.e. it
   stops once the script is exhausted = the server has gone silent). *)
Theorem c01_valve_total : forall bz, (forall p s, safe (bz p s)) ->
  forall port e g t u tc sf, settings_ok t -> retries_ok t ->
  safe (fst (Valve.query bz port e g t (net_init u tc sf))).
Proof. exact valve_total. Qed.
Print Assumptions c01_valve_total.

(* the script is only ever consumed: the number of receives is bounded by it *)
Theorem c01_valve_script_shrinks : forall bz, (forall p s, safe (bz p s)) ->
  forall port e g t n, settings_ok t -> retries_ok t ->
  (length (n_udp (snd (Valve.query bz port e g t n))) <= length (n_udp n))%nat.
Proof. intros bz Hbz port e g t n Hs Hr. exact (proj1 (proj2 (valve_query_ok bz Hbz port e g t Hs Hr n))). Qed.
Print Assumptions c01_valve_script_shrinks.

(* Quake 1/2/3 *)
Theorem c01_quake_total : forall port v t u tc sf, settings_ok t ->
  safe (fst (Quake.client_query port v t (net_init u tc sf))).
Proof. exact quake_total. Qed.
Print Assumptions c01_quake_total.

(* Unreal 2 *)
Theorem c01_unreal2_total : forall port g t u tc sf, settings_ok t -> safe (fst (u2_query port g t (net_init u tc sf))).
Proof. exact u2_total. Qed.
Print Assumptions c01_unreal2_total.

(* hypotheses are satisfiable: default settings, and a hostile script *)
Example c01_ex_settings : settings_ok None /\ retries_ok None /\ settings_ok (Some ts_default).
Proof. repeat split; intros d H; inversion H; reflexivity. Qed.
Example c01_ex_hostile :
  fst (Valve.query (fun _ _ => Err Decompress) 27015 (Source None) None None
         (net_init [Datagram [254; 255; 255; 255; 1; 0; 0; 128; 0; 0; 0; 0]; Datagram []; Timeout] [] []))
  = Err PacketUnderflow.
Proof. reflexivity. Qed.

(* Savage 2, Mindustry and every Minecraft entry point (Java, Bedrock, legacy
   1.6 / 1.4 / beta 1.8, the legacy chain and the auto-detecting query): for
   every script of datagrams, TCP streams and send failures the query returns a
   response or an error. json stands for serde_json::from_str, assumed only to
   answer (with a value or with "invalid"). *)
Theorem c01_savage2_total : forall port t u tc sf, settings_ok t ->
  safe (fst (savage2_query port t (net_init u tc sf))).
Proof. exact savage2_total. Qed.
Print Assumptions c01_savage2_total.
Theorem c01_mindustry_total : forall port t u tc sf, settings_ok t ->
  safe (fst (mindustry_query port t (net_init u tc sf))).
Proof. exact mindustry_total. Qed.
Print Assumptions c01_mindustry_total.
Theorem c01_minecraft_total : forall json port t rs u tc sf,
  (forall x, json x <> None) -> settings_ok t ->
  safe (fst (query_auto json port t rs (net_init u tc sf))) /\
  safe (fst (query_java json port t rs (net_init u tc sf))) /\
  safe (fst (query_bedrock port t (net_init u tc sf))) /\
  safe (fst (query_legacy port t (net_init u tc sf))) /\
  (forall g, safe (fst (query_legacy_specific g port t (net_init u tc sf)))).
Proof. exact minecraft_total. Qed.
Print Assumptions c01_minecraft_total.
(* the reply parsers of Frontlines: Fuel of War and of the Minecraft formats never leave the packet *)
Theorem c01_parsers_safe : Rsafe ffow_parse /\ Rsafe savage2_parse /\ Rsafe mindustry_parse /\ Rsafe bedrock_parse
  /\ (forall g d, safe (legacy_parse g d)) /\ (forall v, safe (java_of_value v)).
Proof. exact (conj ffow_parse_safe (conj savage2_parse_safe (conj mindustry_parse_safe (conj bedrock_parse_safe (conj legacy_parse_safe java_of_value_safe))))). Qed.
Print Assumptions c01_parsers_safe.

(* GameSpy 1 / 2 / 3 (every GameSpy game wrapper calls one of these), the GameSpy 3 variables-only
   query Minecraft's GameSpy path uses, and Just Cause 2: Multiplayer: for every script the query
   returns a response or an error. The loops of these protocols (parts of a GameSpy 1 reply, packets
   of a GameSpy 3 reply, key/value runs, tables, player sections) are fuelled in the model by the
   length of what is left to read; the theorem includes that the fuel never runs out, i.e. every
   round consumes a byte or a datagram. *)
From GD Require Import Proofs.GamespyTotal Proofs.ValveGamesTotal.
Theorem c01_gamespy_total : forall port t u tc sf, settings_ok t ->
  safe (fst (gs1_query port t (net_init u tc sf))) /\
  safe (fst (gs2_query port t (net_init u tc sf))) /\
  safe (fst (gs3_query port t (net_init u tc sf))) /\
  safe (fst (gs3_query_vars port t (net_init u tc sf))) /\
  safe (fst (jc2m_query port t (net_init u tc sf))).
Proof.
  exact (fun port t u tc sf H => conj (gamespy1_total port t u tc sf H) (conj (gamespy2_total port t u tc sf H)
          (conj (gamespy3_total port t u tc sf H) (conj (gamespy3_vars_total port t u tc sf H) (jc2m_total port t u tc sf H))))).
Qed.
Print Assumptions c01_gamespy_total.

(* The Ship, Battalion 1944 and Frontlines: Fuel of War sit on the Valve exchange *)
Theorem c01_valve_games_total : forall bz, (forall p s, safe (bz p s)) -> forall port t u tc sf, settings_ok t ->
  safe (fst (theship_query bz port t (net_init u tc sf))) /\
  safe (fst (battalion_query bz port (net_init u tc sf))) /\
  safe (fst (ffow_query bz port t (net_init u tc sf))).
Proof.
  exact (fun bz Hbz port t u tc sf H => conj (theship_total bz Hbz port t u tc sf H)
          (conj (battalion_total bz Hbz port u tc sf) (ffow_total bz Hbz port t u tc sf H))).
Qed.
Print Assumptions c01_valve_games_total.
