(* C05 - Quake 1/2/3 status replies yield all variables and players. *)
From GD Require Import Base.Prelude Model.Strings Model.StrOps Model.Buffer Model.Net Model.Valve Model.Quake Spec.QuakeSpec.
From GD Require Import Proofs.BufferLemmas Proofs.Msafe Proofs.QuakeTotal Proofs.QuakeRoundtrip Proofs.QuakeQuery Spec.Rand.

(* every player line a conforming server sends (numeric fields over their full
   ranges, names quoted - possibly with spaces - or bare, optional address)
   decodes to exactly that player *)
Theorem c05_player_line : forall v q p, wf_qplayer v q p = true ->
  parse_player v (split_player_line (enc_player_line q p)) = Ok p.
Proof. exact line_decodes. Qed.
Print Assumptions c05_player_line.
(* one player entry per player line, in order, for any number of lines, with
   or without the terminating NUL *)
Theorem c05_player_lines : forall v ps qs acc pre fuel (nul : bool), wf_lines v qs ps = true ->
  (length (enc_lines qs ps) < fuel)%nat ->
  fst (get_players fuel v acc (at_ pre (enc_lines qs ps ++ (if nul then [0] else [])))) = Ok (rev acc ++ ps).
Proof. exact players_decode. Qed.
Print Assumptions c05_player_lines.
(* the variable block decodes to exactly the variables sent *)
Theorem c05_variables : forall vars pre rest, forallb var_ok vars = true ->
  get_server_values (at_ pre (concat (map kvb vars) ++ 10 :: rest))
  = (Ok (fold_left (fun m kv => map_insert (fst kv) (snd kv) m) vars []), at_ (pre ++ concat (map kvb vars) ++ [10]) rest).
Proof. exact vars_decode. Qed.
Print Assumptions c05_variables.
(* numbers are read back exactly *)
Theorem c05_numbers : forall bound n, n <= bound -> parse_u bound (show_N n) = Ok n.
Proof. exact parse_u_show. Qed.
Print Assumptions c05_numbers.
Theorem c05_scores : forall z, (- 2147483648 <= z < 2147483648)%Z -> parse_i32 (show_Z z) = Ok z.
Proof. exact parse_i32_show. Qed.
Print Assumptions c05_scores.
(* for every script: no panic (C01 row), the only datagram sent is the
   version's status request (C09 row) *)
Theorem c05_quake_total : forall port v t u tc sf, settings_ok t ->
  safe (fst (client_query port v t (net_init u tc sf))).
Proof. exact quake_total. Qed.
Print Assumptions c05_quake_total.

(* ---- the whole query ----
   wf_qstate: variable names and values are UTF-8 without backslash, newline and NUL, names pairwise
   distinct; every player line is well-formed for the version. quake_expected st = Some r: the server
   sends a host name, a map and a maximum (a u8 in decimal) under one of their spellings; r takes each
   from the first spelling present, lists every player, and keeps as unused entries every variable that
   was not used - the second spelling of a variable included. *)
Theorem c05_wf_qstate_means : forall v st,
  wf_qstate v st = (forallb (fun kv => var_text (fst kv) && var_text (snd kv)) (qs_vars st) && nodup_keys (qs_vars st)
                    && wf_lines v (qs_quoted st) (qs_players st)).
Proof. exact (fun v st => eq_refl). Qed.
Print Assumptions c05_wf_qstate_means.
Theorem c05_query_returns_the_state : forall port v st r, wf_qstate v st = true -> quake_expected st = Some r ->
  (length (quake_reply v st) <= 1024)%nat ->
  fst (client_query port v None (net_init [Datagram (quake_reply v st)] [] [])) = Ok r.
Proof. exact quake_query_roundtrip. Qed.
Print Assumptions c05_query_returns_the_state.
Example c05_wf_nonvacuous :
  forallb (fun seed => let st := fst (gen_qstate Q3 seed) in wf_qstate Q3 st && match quake_expected st with Some _ => true | None => false end) [1; 2; 3; 4; 5; 6] = true
  /\ existsb (fun seed => let st := fst (gen_qstate Q1 seed) in
                wf_qstate Q1 st && match var_value (str "hostname") (qs_vars st), var_value (str "sv_hostname") (qs_vars st) with Some _, Some _ => true | _, _ => false end)
             (map (fun i => 7919 * N.of_nat i + 13) (seq 1 40)) = true.
Proof. vm_compute. split; reflexivity. Qed.

(* non-vacuity, end to end on a concrete Quake 2 server *)
Example c05_ex :
  let st := mk_qstate [(str "hostname", str "my server"); (str "dmflags", str "16"); (str "mapname", str "q2dm1"); (str "maxclients", str "8")]
                      [P2 (mk_q2p 5 10 (str "bob smith") None); P2 (mk_q2p (-1) 999 (str "x") (Some (str "10.0.0.1:27901")))] [true; false] true in
  fst (client_query 27910 Q2 None (net_init [Datagram (quake_reply Q2 st)] [] []))
  = Ok (mk_qresp (str "my server") (str "q2dm1") (qs_players st) 2 8 None [(str "dmflags", str "16")])
  /\ quake_expected st = Some (mk_qresp (str "my server") (str "q2dm1") (qs_players st) 2 8 None [(str "dmflags", str "16")]).
Proof. split; vm_compute; reflexivity. Qed.

(* the quotes around a name, skin or address field: a field wrapped in quotes (two characters at least) loses exactly the
   two, every other field - a lone quote character included - is left as it is; the function is total *)
From GD Require Import Proofs.QuakeQuotes.
Theorem c05_wrapping_quotes : forall s,
  remove_wrapping_quotes ([34] ++ s ++ [34]) = s
  /\ remove_wrapping_quotes [34] = [34]
  /\ ((exists inner, s = [34] ++ inner ++ [34] /\ remove_wrapping_quotes s = inner) \/ remove_wrapping_quotes s = s).
Proof. exact (fun s => conj (quotes_wrapped s) (conj quotes_lone (quotes_spec s))). Qed.
Print Assumptions c05_wrapping_quotes.
