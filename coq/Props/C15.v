(* C15 - The protocol-independent view equals the protocol-specific data.

   response_impls / player_impls / response_json_body / player_json_body
   (Gen/CommonImpls.v) are translated from /repo's source on every run;
   spec_responses / spec_players (Spec/ViewSpec.v) say, by hand, which
   protocol-specific field each accessor stands for. [r] ranges over every
   value of the response type (every tree of named fields). *)
From GD Require Import Base.Prelude Model.View Gen.CommonImpls Model.ViewInst Spec.ViewSpec.
From GD Require Import Proofs.ViewProofs.
Require Import String Permutation.
Local Open Scope string_scope.

(* every impl in the source has a specification and vice versa; nothing fell
   outside the translator's grammar; each response names its player type *)
Theorem c15_every_impl_specified :
  translation_problems = [] /\
  map fst response_impls = map fst spec_responses /\
  map fst player_impls = map fst spec_players /\
  map (fun kt => ti_player (snd kt)) response_impls = map (fun ks => sp_player (snd ks)) spec_responses.
Proof. exact (conj no_translation_problems (conj responses_covered (conj players_covered player_types_agree))). Qed.
Print Assumptions c15_every_impl_specified.

(* each of the ten accessors of every response type returns exactly the value
   of the field the specification names (None for an absent one) *)
Theorem c15_view_equals_fields : forall key s, In (key, s) spec_responses ->
  forall a, In a (map fst response_kinds) ->
  forall r, i_response_acc key a r = eval_s (spec_acc s a) r.
Proof. exact response_view_agrees. Qed.
Print Assumptions c15_view_equals_fields.

Theorem c15_player_view_equals_fields : forall key s, In (key, s) spec_players ->
  forall a, In a (map fst player_kinds) ->
  forall p, i_player_acc key a p = eval_s (spec_acc s a) p.
Proof. exact player_view_agrees. Qed.
Print Assumptions c15_player_view_equals_fields.

(* the JSON form has exactly the ten keys (two per player), in some order, and
   under each key exactly the specified value; the players are all the
   response's players, in order *)
Theorem c15_json_exact : forall key s, In (key, s) spec_responses ->
  forall r, i_response_json key r = spec_json ks pks s r.
Proof. exact response_json_agrees. Qed.
Print Assumptions c15_json_exact.
Theorem c15_json_keys : Permutation ks json_keys /\ Permutation pks player_json_keys.
Proof. exact (conj json_keys_perm player_json_keys_perm). Qed.
Print Assumptions c15_json_keys.

(* as_original wraps the response (the player) itself in the expected variant *)
Theorem c15_original_retrievable :
  (forall key s, In (key, s) spec_responses -> orig_of response_impls key = Some (sp_orig s)) /\
  (forall key s, In (key, s) spec_players -> orig_of player_impls key = Some (sp_orig s)).
Proof. exact (conj response_orig_agrees player_orig_agrees). Qed.
Print Assumptions c15_original_retrievable.

(* the statements are about something: a Valve response with two players *)
Definition ex_valve : jv :=
  JObj [("info", JObj [("name", JStr (str "srv")); ("map", JStr (str "de_dust2")); ("game_mode", JStr (str "cs"));
                       ("game_version", JStr (str "1.0")); ("players_online", JNum 2); ("players_maximum", JNum 16);
                       ("players_bots", JNum 0); ("has_password", JBool true)]);
        ("players", JList [JObj [("name", JStr (str "a")); ("score", JNum (-3))];
                           JObj [("name", JStr (str "b")); ("score", JNum 70000)]])].
Example c15_ex :
  i_response_acc "valve" "players_maximum" ex_valve = Some (JNum 16) /\
  i_response_acc "valve" "map" ex_valve = Some (JStr (str "de_dust2")) /\
  option_map (canon_json json_keys player_json_keys) (i_response_json "valve" ex_valve) =
    Some (JObj [("description", JNull); ("game_mode", JStr (str "cs")); ("game_version", JStr (str "1.0"));
                ("has_password", JBool true); ("map", JStr (str "de_dust2")); ("name", JStr (str "srv"));
                ("players", JList [JObj [("name", JStr (str "a")); ("score", JNum (-3))];
                                   JObj [("name", JStr (str "b")); ("score", JNum 70000)]]);
                ("players_bots", JNum 0); ("players_maximum", JNum 16); ("players_online", JNum 2)]).
Proof. repeat split; reflexivity. Qed.
