(* C02 - Valve A2S replies are decoded field for field. *)
From GD Require Import Base.Prelude Model.Strings Model.Buffer Model.Net Model.Valve Spec.ValveSpec.
From GD Require Import Proofs.Msafe Proofs.ValveRoundtrip Proofs.ValveTransport.

(* For every server state in the specification's domain (wf_state: UTF-8
   strings without NUL, full numeric ranges, 0-255 players, 0-65535 rules, any
   extra-data flag combination, Source or obsolete GoldSrc layout, The Ship
   fields iff the engine is The Ship's), every engine, gather setting and
   accepted timeout setting, any number of challenge rounds per request, and
   any transport that delivers the three replies: the response is exactly the
   expected one (or BadGame when the app id is refused). *)
Theorem c02_valve_roundtrip : forall bz port e g t st o,
  wf_state e st = true -> settings_ok t -> retries_ok t ->
  reply_ok bz e 0 (vo_info o) (enc_info (vs_info st)) ->
  reply_ok bz e (info_protocol_of (vs_info st)) (vo_players o) (enc_players (vs_players st)) ->
  reply_ok bz e (info_protocol_of (vs_info st)) (vo_rules o) (enc_rules (vs_rules st)) ->
  fst (Valve.query bz port e (Some g) t (net_init (map Datagram (valve_script st o g)) [] []))
  = valve_expected_outcome st e g.
Proof. exact valve_roundtrip. Qed.
Print Assumptions c02_valve_roundtrip.

(* the four transports deliver (reply_ok), with 0..n challenge rounds *)
Theorem c02_single_delivers : forall bz e protocol chs payload kind body,
  payload = kind :: body -> kind <> 65 -> Forall challenge_ok chs ->
  lenN (simple_header ++ payload) <= packet_size ->
  reply_ok bz e protocol (mk_ropts chs Single) payload.
Proof. exact reply_ok_single. Qed.
Print Assumptions c02_single_delivers.
Theorem c02_source_split_delivers : forall bz ids protocol chs cuts id payload kind body,
  payload = kind :: body -> kind <> 65 -> Forall challenge_ok chs ->
  id < 2147483648 -> lenN cuts < 255 ->
  Forall (fun d => lenN d <= packet_size)
         (transport_packets (SplitSrc cuts id ((protocol =? 7) && engine_is (Source ids) 240)) payload) ->
  reply_ok bz (Source ids) protocol (mk_ropts chs (SplitSrc cuts id ((protocol =? 7) && engine_is (Source ids) 240))) payload.
Proof. exact reply_ok_split_src. Qed.
Print Assumptions c02_source_split_delivers.
Theorem c02_goldsrc_split_delivers : forall bz force protocol chs cuts id payload kind body,
  payload = kind :: body -> kind <> 65 -> Forall challenge_ok chs ->
  id < 4294967296 -> lenN cuts < 15 ->
  Forall (fun d => lenN d <= packet_size) (transport_packets (SplitGold cuts id) payload) ->
  reply_ok bz (GoldSrc force) protocol (mk_ropts chs (SplitGold cuts id)) payload.
Proof. exact reply_ok_split_gold. Qed.
Print Assumptions c02_goldsrc_split_delivers.
(* compressed: under the stated hypothesis on the bzip2 oracle *)
Theorem c02_compressed_split_delivers : forall bz ids protocol chs cuts id comp payload kind body,
  payload = kind :: body -> kind <> 65 -> Forall challenge_ok chs ->
  id < 2147483648 -> lenN cuts < 255 ->
  lenN (simple_header ++ payload) <= max_decompressed_size -> crc32 (simple_header ++ payload) < 4294967296 ->
  bz comp (lenN (simple_header ++ payload)) = Ok (simple_header ++ payload) ->
  Forall (fun d => lenN d <= packet_size)
         (transport_packets (SplitBz cuts id ((protocol =? 7) && engine_is (Source ids) 240) comp) payload) ->
  reply_ok bz (Source ids) protocol (mk_ropts chs (SplitBz cuts id ((protocol =? 7) && engine_is (Source ids) 240) comp)) payload.
Proof. exact reply_ok_split_bz. Qed.
Print Assumptions c02_compressed_split_delivers.

(* the parsers alone (payload = bytes after the reply's type byte) *)
Theorem c02_source_info : forall e s, wf_info e (SrcInfo s) = true ->
  fst (parse_source_info e (buf_new (tl (enc_src_info s)))) = Ok (expected_info (SrcInfo s)).
Proof. exact src_info_roundtrip. Qed.
Print Assumptions c02_source_info.
Theorem c02_goldsrc_info : forall g, wf_info (GoldSrc true) (GoldInfo g) = true ->
  fst (parse_goldsrc_info (buf_new (tl (enc_gold_info g)))) = Ok (expected_info (GoldInfo g)).
Proof. exact gold_info_roundtrip. Qed.
Print Assumptions c02_goldsrc_info.
Theorem c02_players : forall e l, forallb (wf_player e) l = true -> lenN l < 256 ->
  fst (players_parser e (buf_new (tl (enc_players l)))) = Ok (map expected_player l).
Proof. exact players_roundtrip. Qed.
Print Assumptions c02_players.
Theorem c02_rules : forall l,
  forallb (fun kv => no_nul (fst kv) && no_nul (snd kv)) l = true -> lenN l < 65536 ->
  fst ((let* count := read_u16 in parse_rules (N.to_nat count) []) (buf_new (tl (enc_rules l))))
  = Ok (fold_left (fun m kv => map_insert (fst kv) (snd kv) m) l []).
Proof. exact rules_roundtrip. Qed.
Print Assumptions c02_rules.

(* non-vacuity: a concrete server, two players, a rule, extra data, one
   challenge round on the info request and a 3-packet Source split of the rules *)
Definition ex_state : vstate :=
  mk_vstate (SrcInfo (mk_src 17 (str "srv") (str "de_dust2") (str "cstrike") (str "CS") 10 2 16 0 100 108 0 1 None (str "1.0")
                       (Some (mk_edf (Some 27015) None (Some (27020, str "tv")) (Some (str "a,b")) (Some 240)))))
            [mk_ps 0 (str "alice") 5 1092616192 None; mk_ps 1 (str "bob") (-3) 0 None]
            [(str "mp_timelimit", str "30")].
Definition ex_opts : vopts :=
  mk_vopts (mk_ropts [[1; 2; 3; 4]] Single) (mk_ropts [] Single) (mk_ropts [] (SplitSrc [8%nat; 8%nat] 77 false)).
Example c02_ex_wf : wf_state (Source (Some (240, None))) ex_state = true.
Proof. reflexivity. Qed.
Example c02_ex_run :
  fst (Valve.query (fun _ _ => Err Decompress) 27015 (Source (Some (240, None))) (Some gathering_default) None
         (net_init (map Datagram (valve_script ex_state ex_opts gathering_default)) [] []))
  = valve_expected_outcome ex_state (Source (Some (240, None))) gathering_default
  /\ valve_expected_outcome ex_state (Source (Some (240, None))) gathering_default = Ok (valve_expected ex_state (Source (Some (240, None))) gathering_default).
Proof. split; vm_compute; reflexivity. Qed.
