(* C02 - placeholder while the round-trip proofs are being written: only the
   definitions are checked to be well-typed and to compute on an example. *)
From GD Require Import Base.Prelude Model.Strings Model.Buffer Model.Net Model.Valve Spec.ValveSpec.
