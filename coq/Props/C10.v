(* C10 - Retries: at most r+1 attempts, only after timeouts, same result. *)
From GD Require Import Base.Prelude Model.Strings Model.Buffer Model.Net Model.Valve Model.Quake Model.Unreal2 Proofs.Retry.

(* the helper against its abstract description, for every attempt function,
   every state and every retry count *)
Theorem c10_retry_spec : forall A (att : M A) r n,
  let l := retry_outcomes (S (N.to_nat r)) att n in
  (1 <= length l <= N.to_nat r + 1)%nat
  /\ retry_on_timeout r att n = last l (att n)
  /\ (forall pre x post, l = pre ++ x :: post -> post <> [] -> is_timeout x = true)
  /\ ((length l < N.to_nat r + 1)%nat -> is_timeout (last l (att n)) = false).
Proof. exact retry_spec. Qed.
Print Assumptions c10_retry_spec.

Theorem c10_all_timeout_fails : forall A (att : M A) r n,
  (forall m, is_timeout (att m) = true) ->
  exists e n', retry_on_timeout r att n = (Err e, n') /\ timeout_class e = true.
Proof. exact retry_all_timeout. Qed.
Print Assumptions c10_all_timeout_fails.

Theorem c10_first_reply_wins : forall A (att : M A) r j n m,
  (j <= N.to_nat r)%nat -> timeouts_then att j n m -> is_timeout (att m) = false ->
  retry_on_timeout r att n = att m.
Proof. exact retry_first_reply_wins. Qed.
Print Assumptions c10_first_reply_wins.

(* Valve: every request unit (request + challenge rounds) is run through the helper *)
Theorem c10_valve_unit_retried : forall bz port retries e protocol kind,
  get_request_data bz port retries e protocol kind
  = retry_on_timeout retries (get_request_data_impl bz port e protocol kind (default_payload kind)).
Proof. reflexivity. Qed.
Print Assumptions c10_valve_unit_retried.

(* Quake: the whole exchange (request + reply) is the retried unit *)
Theorem c10_quake_unit_retried : forall port v t,
  Quake.client_query port v t
  = (do* _ := udp_new port t in
     do* data := retry_on_timeout (ts_retries_or_default t) (get_data_impl port v) in
     mlift (fst ((let* vars := get_server_values in
                  let* players := get_players (S (length data)) v [] in
                  let '(name, vars) := take_var (str "hostname") (str "sv_hostname") vars in
                  let* name := lift (need name) in
                  let '(map, vars) := take_var (str "mapname") (str "map") vars in
                  let* map := lift (need map) in
                  let '(maxc, vars) := take_var (str "maxclients") (str "sv_maxclients") vars in
                  let* maxc := lift (need maxc) in
                  let* maxn := lift (parse_u 255 maxc) in
                  let '(version, vars) := take_var (str "version") (str "*version") vars in
                  ret (mk_qresp name map players (lenN players mod 256) maxn version vars)) (buf_new data)))).
Proof. reflexivity. Qed.
Print Assumptions c10_quake_unit_retried.

(* Unreal 2: each request (send + first reply) is the retried unit *)
Theorem c10_unreal2_unit_retried : forall port retries kind,
  u2_get_request_data port retries kind
  = retry_on_timeout retries (do* _ := send port (u2_request kind) in udp_recv (Some u2_packet_size)).
Proof. reflexivity. Qed.
Print Assumptions c10_unreal2_unit_retried.

Example c10_ex : (* two timeouts then a reply, r = 2 *)
  let att : M N := fun n => match n_udp n with
                            | Datagram d :: r => (Ok (lenN d), mknet r [] [] 0 None [])
                            | _ :: r => (Err PacketReceive, mknet r [] [] 0 None [])
                            | [] => (Err PacketReceive, n) end in
  fst (retry_on_timeout 2 att (net_init [Timeout; Timeout; Datagram [1; 2; 3]] [] [])) = Ok 3
  /\ fst (retry_on_timeout 1 att (net_init [Timeout; Timeout; Datagram [1; 2; 3]] [] [])) = Err PacketReceive.
Proof. split; reflexivity. Qed.
