(* C10 - Retries: at most r+1 attempts, only after timeouts, same result. *)
From GD Require Import Base.Prelude Model.Strings Model.Buffer Model.Net Model.Gamespy Model.Games Model.Minecraft Model.Valve Model.Quake Model.Unreal2
  Proofs.Retry Proofs.Msafe Proofs.RetryProtocols.

(* the helper against its abstract description, for every attempt function,
   every state and every retry count *)
Theorem c10_retry_spec : forall A (att : M A) r n,
  let l := retry_outcomes (S (N.to_nat r)) att n in
  (1 <= length l <= N.to_nat r + 1)%nat
  /\ retry_on_timeout r att n = last l (att n)
  /\ (forall pre x post, l = pre ++ x :: post -> post <> [] -> is_timeout x = true)
  /\ ((length l < N.to_nat r + 1)%nat -> is_timeout (last l (att n)) = false).
Proof. exact retry_spec. Qed.
Print Assumptions c10_retry_spec.

Theorem c10_all_timeout_fails : forall A (att : M A) r n,
  (forall m, is_timeout (att m) = true) ->
  exists e n', retry_on_timeout r att n = (Err e, n') /\ timeout_class e = true.
Proof. exact retry_all_timeout. Qed.
Print Assumptions c10_all_timeout_fails.

Theorem c10_first_reply_wins : forall A (att : M A) r j n m,
  (j <= N.to_nat r)%nat -> timeouts_then att j n m -> is_timeout (att m) = false ->
  retry_on_timeout r att n = att m.
Proof. exact retry_first_reply_wins. Qed.
Print Assumptions c10_first_reply_wins.

(* Valve: every request unit (request + challenge rounds) is run through the helper *)
Theorem c10_valve_unit_retried : forall bz port retries e protocol kind,
  get_request_data bz port retries e protocol kind
  = retry_on_timeout retries (get_request_data_impl bz port e protocol kind (default_payload kind)).
Proof. reflexivity. Qed.
Print Assumptions c10_valve_unit_retried.

(* Quake: the whole exchange (request + reply) is the retried unit *)
Theorem c10_quake_unit_retried : forall port v t,
  Quake.client_query port v t
  = (do* _ := udp_new port t in
     do* data := retry_on_timeout (ts_retries_or_default t) (get_data_impl port v) in
     mlift (fst ((let* vars := get_server_values in
                  let* players := get_players (S (length data)) v [] in
                  let '(name, vars) := take_var (str "hostname") (str "sv_hostname") vars in
                  let* name := lift (need name) in
                  let '(map, vars) := take_var (str "mapname") (str "map") vars in
                  let* map := lift (need map) in
                  let '(maxc, vars) := take_var (str "maxclients") (str "sv_maxclients") vars in
                  let* maxc := lift (need maxc) in
                  let* maxn := lift (parse_u 255 maxc) in
                  let '(version, vars) := take_var (str "version") (str "*version") vars in
                  ret (mk_qresp name map players (lenN players mod 256) maxn version vars)) (buf_new data)))).
Proof. reflexivity. Qed.
Print Assumptions c10_quake_unit_retried.

(* Unreal 2: each request (send + first reply) is the retried unit *)
Theorem c10_unreal2_unit_retried : forall port retries kind,
  u2_get_request_data port retries kind
  = retry_on_timeout retries (do* _ := send port (u2_request kind) in udp_recv (Some u2_packet_size)).
Proof. reflexivity. Qed.
Print Assumptions c10_unreal2_unit_retried.

(* ---- every fault vector, for the protocols whose retried unit is one request and one reply ----
   A fault vector v is a list over {false = no reply arrives, true = the request cannot be
   sent}; faults_match v says that the script starts with exactly these faults and gives what
   is left of it.  retried_unit att sz f, in full:
     - |v| <= r faults and then a datagram d: retry_on_timeout r att returns f (d cut to the
       receive size) - the parse of that reply, whatever it is, valid or malformed, and the same
       as with no fault - after exactly |v| + 1 requests, the rest of the script untouched;
     - r + 1 faults: Err PacketSend / Err PacketReceive (that of the last fault) after exactly
       r + 1 requests. *)
Check @retried_unit : forall A : Type, M A -> option N -> (bytes -> outcome A) -> Prop.
Theorem c10_retried_unit_means : forall A (att : M A) sz f,
  retried_unit att sz f <->
  ((forall v r n d rest,
      (length v <= N.to_nat r)%nat ->
      faults_match v (n_sends n) (n_fail n) (n_udp n) = Some (Datagram d :: rest) ->
      existsb (N.eqb (n_sends n + N.of_nat (length v))) (n_fail n) = false ->
      exists m, retry_on_timeout r att n
                = (f (firstn (N.to_nat (match sz with Some s => s | None => default_packet_size end)) d), m)
                /\ n_sends m = n_sends n + N.of_nat (length v) + 1 /\ n_udp m = rest)
   /\ (forall v last r n u,
      length v = N.to_nat r ->
      faults_match (v ++ [last]) (n_sends n) (n_fail n) (n_udp n) = Some u ->
      exists m, retry_on_timeout r att n = (Err (if last then PacketSend else PacketReceive), m)
                /\ n_sends m = n_sends n + r + 1 /\ n_udp m = u)).
Proof. exact (fun A att sz f => conj (fun x => x) (fun x => x)). Qed.
Print Assumptions c10_retried_unit_means.

Theorem c10_bedrock_every_fault_vector : forall port t,
  query_bedrock port t = (do* _ := udp_new port t in retry_on_timeout (ts_retries_or_default t) (bedrock_info_impl port))
  /\ retried_unit (bedrock_info_impl port) None (run_r bedrock_parse).
Proof. exact (fun port t => conj eq_refl (bedrock_retried port)). Qed.
Print Assumptions c10_bedrock_every_fault_vector.

Theorem c10_gamespy2_every_fault_vector : forall port t,
  gs2_query port t = (do* _ := udp_new port t in
                      do* d := retry_on_timeout (ts_retries_or_default t) (gs2_request_impl port) in mlift (gs2_parse d))
  /\ retried_unit (gs2_request_impl port) None (fun d => run_r (gs2_header d) d).
Proof. exact (fun port t => conj eq_refl (gs2_retried port)). Qed.
Print Assumptions c10_gamespy2_every_fault_vector.

Theorem c10_quake_every_fault_vector : forall port v,
  retried_unit (get_data_impl port v) None (fun d => run_r (quake_header v) d).
Proof. exact quake_retried. Qed.
Print Assumptions c10_quake_every_fault_vector.

Theorem c10_unreal2_every_fault_vector : forall port retries kind,
  u2_get_request_data port retries kind = retry_on_timeout retries (u2_attempt port kind)
  /\ retried_unit (u2_attempt port kind) (Some u2_packet_size) (fun d => Ok d).
Proof. exact (fun port retries kind => conj eq_refl (unreal2_retried port kind)). Qed.
Print Assumptions c10_unreal2_every_fault_vector.

(* Mindustry opens a socket per attempt; settings_ok = no zero duration, what TimeoutSettings::new guarantees *)
Theorem c10_mindustry_every_fault_vector : forall port t, settings_ok t ->
  mindustry_query port t = retry_on_timeout (ts_retries_or_default t) (mindustry_attempt port t)
  /\ retried_unit (mindustry_attempt port t) (Some 500) (run_r mindustry_parse).
Proof. exact (fun port t Hs => conj eq_refl (mindustry_retried port t Hs)). Qed.
Print Assumptions c10_mindustry_every_fault_vector.

(* the parsers of these replies never fail with a timeout-class error themselves *)
Theorem c10_malformed_is_not_a_timeout :
  Rnt bedrock_parse /\ Rnt mindustry_parse /\ (forall d, Rnt (gs2_header d)) /\ (forall v, Rnt (quake_header v)).
Proof. exact (conj bedrock_parse_nt (conj mindustry_parse_nt (conj gs2_header_nt quake_header_nt))). Qed.
Print Assumptions c10_malformed_is_not_a_timeout.

(* GameSpy 1 / 3, JC2-MP, Minecraft Java and legacy: the whole exchange is the retried unit *)
Theorem c10_exchange_units_retried : forall port t,
  gs1_query_vars port t = (do* _ := udp_new port t in retry_on_timeout (ts_retries_or_default t) (gs1_values_impl port))
  /\ gs3_packets port t = (do* _ := udp_new port t in retry_on_timeout (ts_retries_or_default t) (gs3_packets_impl port))
  /\ jc2m_query port t = (do* _ := udp_new port t in
                          do* d := retry_on_timeout (ts_retries_or_default t) (jc2m_packets_impl port) in mlift (jc2m_build d))
  /\ (forall g, query_legacy_specific g port t
               = (do* _ := tcp_new port t in retry_on_timeout (ts_retries_or_default t) (legacy_info_impl g port))).
Proof. exact (fun port t => conj eq_refl (conj eq_refl (conj eq_refl (fun g => eq_refl)))). Qed.
Print Assumptions c10_exchange_units_retried.

(* ---- lost replies inside the exchanges of several steps: any vector of faults (the handshake reply lost; the handshake
   answered, then the data reply lost) no longer than the retry count, followed by a valid exchange, gives exactly the
   fault-free result.  GameSpy 1: requests that get no answer at all. ---- *)
From GD Require Import Spec.GamespySpec Spec.GamesSpec Proofs.Gamespy2Roundtrip Proofs.Jc2mRoundtrip Proofs.Gamespy3Reply Proofs.Gamespy1Assembly Proofs.Gamespy1Response
  Proofs.Gamespy3Retry Proofs.Jc2mRetry Proofs.Gamespy1Retry.
Theorem c10_fault_events_mean : forall s f,
  fault_events s f = match f with LostHandshake => [Timeout] | LostData => [Datagram (s3_handshake s); Timeout] end.
Proof. intros s f; destruct f; reflexivity. Qed.
Print Assumptions c10_fault_events_mean.
Theorem c10_gs3_lost_replies_retried : forall port s,
  (- 2147483648 <= s3_challenge s < 2147483648)%Z -> (length (show_Z (s3_challenge s)) <= 10)%nat ->
  forall t v, settings_ok t -> (length v <= N.to_nat (ts_retries_or_default t))%nat ->
  wf_s3 s = true -> (length (s3_payloads s) <= 128)%nat -> Forall (fun p => (length p + 17 <= 2048)%nat) (s3_payloads s) ->
  fst (gs3_query port t (net_init (flat_map (fault_events s) v ++ map Datagram (s3_script s)) [] [])) = Ok (s3_expected s).
Proof. exact gs3_lost_replies_retried. Qed.
Print Assumptions c10_gs3_lost_replies_retried.
Theorem c10_jc2m_lost_replies_retried : forall port s,
  (- 2147483648 <= js_challenge s < 2147483648)%Z -> (length (show_Z (js_challenge s)) <= 10)%nat ->
  length (js_skip s) = 11%nat -> (length (jc_data s) + 16 <= 2048)%nat ->
  forall t v, settings_ok t -> (length v <= N.to_nat (ts_retries_or_default t))%nat -> wf_jc s = true ->
  fst (jc2m_query port t (net_init (flat_map (jc_fault_events s) v ++ map Datagram (jc_script s)) [] [])) = Ok (jc_expected s).
Proof. exact jc2m_lost_replies_retried. Qed.
Print Assumptions c10_jc2m_lost_replies_retried.
Theorem c10_gs1_unanswered_requests_retried : forall port s,
  Forall pair_ok (s1_vars s) -> s1_qid s <= 18446744073709551615 ->
  Forall (fun d => (length d <= 1024)%nat) (s1_script s) -> N.of_nat (length (s1_script s)) < 4294967296 ->
  forall t k, settings_ok t -> (k <= N.to_nat (ts_retries_or_default t))%nat ->
  wf_s1 s = true -> nodupb (map fst (s1_vars s)) = true ->
  fst (gs1_query port t (net_init (repeat Timeout k ++ map Datagram (s1_script s)) [] [])) = Ok (s1_expected s).
Proof. exact gs1_unanswered_requests_retried. Qed.
Print Assumptions c10_gs1_unanswered_requests_retried.

(* ---- silence in the middle of a GameSpy 3 reply: some of the packets of the reply arrive (any of them, each at most once,
   in any order, at least one missing), then nothing.  The attempt ends with the receive timeout having consumed exactly
   those events; mixed with the two faults above, any number of times up to the retry count, the result is the fault-free one. ---- *)
From GD Require Import Proofs.GamespyOrder Proofs.Gamespy3Query Proofs.Gamespy3Order Proofs.Gamespy3Partial.
Theorem c10_gs3_partial_fault_means : forall s f,
  fault_events2 s f = match f with
                      | NoHandshake => [Timeout]
                      | NoData => [Datagram (s3_handshake s); Timeout]
                      | PartialData got => Datagram (s3_handshake s) :: map Datagram (map (dg (length (s3_payloads s))) got) ++ [Timeout]
                      end
  /\ (fault_ok s f <-> match f with
                      | PartialData got => NoDup (map fst got) /\ incl got (reply_items s) /\ (length got < length (s3_payloads s))%nat
                      | _ => True
                      end)
  /\ map (dg (length (s3_payloads s))) (reply_items s) = s3_packets s.
Proof. intros s f. split; [destruct f; reflexivity|]. split; [destruct f; reflexivity|]. exact (reply_items_are_the_packets s). Qed.
Print Assumptions c10_gs3_partial_fault_means.
Theorem c10_gs3_partial_reply_times_out : forall (todo done : list item) n fuel (u : list udp_event) t sn cur tr,
  (n <= 128)%nat -> (length todo < fuel)%nat ->
  NoDup (map fst (done ++ todo)) -> (forall p, In p (done ++ todo) -> (fst p < n)%nat /\ (length (snd p) + 17 <= 2048)%nat) ->
  (length (done ++ todo) < n)%nat ->
  exists tr',
    gs3_packets_loop fuel (collect done []) (if has_last n done then Some n else None)
      (mknet (map Datagram (map (dg n) todo) ++ Timeout :: u) t [] sn cur tr)
    = (Err PacketReceive, mknet u t [] sn cur tr').
Proof. exact packets_partial_then_timeout. Qed.
Print Assumptions c10_gs3_partial_reply_times_out.
Theorem c10_gs3_partial_replies_retried : forall port s,
  (- 2147483648 <= s3_challenge s < 2147483648)%Z -> (length (show_Z (s3_challenge s)) <= 10)%nat ->
  (length (s3_payloads s) <= 128)%nat -> Forall (fun p => (length p + 17 <= 2048)%nat) (s3_payloads s) ->
  forall t v, settings_ok t -> Forall (fault_ok s) v -> (length v <= N.to_nat (ts_retries_or_default t))%nat ->
  wf_s3 s = true ->
  fst (gs3_query port t (net_init (flat_map (fault_events2 s) v ++ map Datagram (s3_script s)) [] [])) = Ok (s3_expected s).
Proof. exact gs3_partial_replies_retried. Qed.
Print Assumptions c10_gs3_partial_replies_retried.
(* test: a generated reply of several packets; all but the first arrive, then silence.  With one retry the answer is the
   fault-free one, with none the query fails with the receive timeout *)
Example c10_gs3_partial_ex :
  let s3 := fst (gen_s3 5) in
  let got := skipn 1 (reply_items s3) in
  let net := net_init (fault_events2 s3 (PartialData got) ++ map Datagram (s3_script s3)) [] [] in
  fault_ok s3 (PartialData got) /\ got <> [] /\
  bytes_eqb (show_outcome show_gs3 (fst (gs3_query 1 (Some (mkts (Some (4, 0)) (Some (4, 0)) (Some (4, 0)) 1)) net)))
            (show_outcome show_gs3 (Ok (s3_expected s3))) = true /\
  bytes_eqb (show_outcome show_gs3 (fst (gs3_query 1 None net))) (show_outcome show_gs3 (Err PacketReceive)) = true.
Proof.
  cbv zeta. split; [|split; [vm_compute; discriminate|vm_compute; split; reflexivity]].
  split; [|split].
  - assert (E : map fst (skipn 1 (reply_items (fst (gen_s3 5)))) = skipn 1 (seq 0 (length (s3_payloads (fst (gen_s3 5)))))).
    { unfold reply_items. rewrite <- items_from_fst. generalize (items_from 0 (s3_payloads (fst (gen_s3 5)))). intros l. destruct l; reflexivity. }
    rewrite E. generalize (length (s3_payloads (fst (gen_s3 5)))). intros n. destruct n as [|n]; [constructor|]. cbn [seq skipn]. apply seq_NoDup.
  - intros p Hp. rewrite <- (firstn_skipn 1 (reply_items (fst (gen_s3 5)))). apply in_or_app. right. exact Hp.
  - vm_compute. lia.
Qed.

(* ---- silence in the middle of a GameSpy 1 reply: the first k parts of a reply of several parts arrive (k below the
   number of parts; k = 0 is a request that gets no answer), then nothing.  Any number of such attempts up to the retry
   count, then a valid reply, gives the fault-free result. ---- *)
From GD Require Import Proofs.Gamespy1Partial.
Theorem c10_gs1_cut_means : forall s k, silent_after s k = map Datagram (firstn k (s1_script s)) ++ [Timeout].
Proof. reflexivity. Qed.
Print Assumptions c10_gs1_cut_means.
Theorem c10_gs1_cut_replies_retried : forall port s,
  Forall pair_ok (s1_vars s) -> s1_qid s <= 18446744073709551615 ->
  Forall (fun d => (length d <= 1024)%nat) (s1_script s) -> N.of_nat (length (s1_script s)) < 4294967296 ->
  forall t ks, settings_ok t -> Forall (fun k => (k < length (s1_script s))%nat) ks -> (length ks <= N.to_nat (ts_retries_or_default t))%nat ->
  wf_s1 s = true -> nodupb (map fst (s1_vars s)) = true ->
  fst (gs1_query port t (net_init (flat_map (silent_after s) ks ++ map Datagram (s1_script s)) [] [])) = Ok (s1_expected s).
Proof. exact gs1_cut_replies_retried. Qed.
Print Assumptions c10_gs1_cut_replies_retried.
(* test: a generated reply of several parts; all but the last arrive, then silence.  With one retry the answer is the
   fault-free one, with none the query fails with the receive timeout *)
Example c10_gs1_cut_ex :
  let s1 := fst (gen_s1 4) in
  let k := (length (s1_script s1) - 1)%nat in
  let net := net_init (silent_after s1 k ++ map Datagram (s1_script s1)) [] [] in
  (1 <=? k)%nat = true /\ (k <? length (s1_script s1))%nat = true /\
  bytes_eqb (show_outcome show_gs1 (fst (gs1_query 1 (Some (mkts (Some (4, 0)) (Some (4, 0)) (Some (4, 0)) 1)) net)))
            (show_outcome show_gs1 (Ok (s1_expected s1))) = true /\
  bytes_eqb (show_outcome show_gs1 (fst (gs1_query 1 None net))) (show_outcome show_gs1 (Err PacketReceive)) = true.
Proof. vm_compute. repeat split. Qed.

(* ---- the retries run out inside these exchanges: retries + 1 faulty attempts (any mix of the faults above), then
   anything at all - even a valid reply: the query fails with a timeout-class error and has consumed exactly the events of
   those attempts; what follows is untouched, so no further attempt was made. ---- *)
From GD Require Import Proofs.RetryExhaust.
Theorem c10_exactly_r_plus_1_timeouts_give_up : forall A (att : M A) r n m, timeouts_then att (S (N.to_nat r)) n m ->
  exists e, retry_on_timeout r att n = (Err e, m) /\ timeout_class e = true.
Proof. exact @retry_exhausted. Qed.
Print Assumptions c10_exactly_r_plus_1_timeouts_give_up.
Theorem c10_gs3_retries_exhausted : forall port s,
  (- 2147483648 <= s3_challenge s < 2147483648)%Z -> (length (show_Z (s3_challenge s)) <= 10)%nat ->
  (length (s3_payloads s) <= 128)%nat -> Forall (fun p => (length p + 17 <= 2048)%nat) (s3_payloads s) ->
  forall t v (rest : list udp_event),
  settings_ok t -> Forall (fault_ok s) v -> length v = S (N.to_nat (ts_retries_or_default t)) ->
  exists e n', gs3_query port t (net_init (flat_map (fault_events2 s) v ++ rest) [] []) = (Err e, n')
               /\ timeout_class e = true /\ n_udp n' = rest.
Proof. exact gs3_retries_exhausted. Qed.
Print Assumptions c10_gs3_retries_exhausted.
Theorem c10_gs1_retries_exhausted : forall port s,
  Forall pair_ok (s1_vars s) -> s1_qid s <= 18446744073709551615 ->
  Forall (fun d => (length d <= 1024)%nat) (s1_script s) -> N.of_nat (length (s1_script s)) < 4294967296 ->
  forall t ks (rest : list udp_event),
  settings_ok t -> Forall (fun k => (k < length (s1_script s))%nat) ks -> length ks = S (N.to_nat (ts_retries_or_default t)) ->
  exists e n', gs1_query port t (net_init (flat_map (silent_after s) ks ++ rest) [] []) = (Err e, n')
               /\ timeout_class e = true /\ n_udp n' = rest.
Proof. exact gs1_retries_exhausted. Qed.
Print Assumptions c10_gs1_retries_exhausted.
Theorem c10_jc2m_retries_exhausted : forall port s,
  (- 2147483648 <= js_challenge s < 2147483648)%Z -> (length (show_Z (js_challenge s)) <= 10)%nat ->
  forall t v (rest : list udp_event),
  settings_ok t -> length v = S (N.to_nat (ts_retries_or_default t)) ->
  exists e n', jc2m_query port t (net_init (flat_map (jc_fault_events s) v ++ rest) [] []) = (Err e, n')
               /\ timeout_class e = true /\ n_udp n' = rest.
Proof. exact jc2m_retries_exhausted. Qed.
Print Assumptions c10_jc2m_retries_exhausted.

Example c10_ex : (* two timeouts then a reply, r = 2 *)
  let att : M N := fun n => match n_udp n with
                            | Datagram d :: r => (Ok (lenN d), mknet r [] [] 0 None [])
                            | _ :: r => (Err PacketReceive, mknet r [] [] 0 None [])
                            | [] => (Err PacketReceive, n) end in
  fst (retry_on_timeout 2 att (net_init [Timeout; Timeout; Datagram [1; 2; 3]] [] [])) = Ok 3
  /\ fst (retry_on_timeout 1 att (net_init [Timeout; Timeout; Datagram [1; 2; 3]] [] [])) = Err PacketReceive.
Proof. split; reflexivity. Qed.
