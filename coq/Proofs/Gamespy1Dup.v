(* C08, GameSpy 1: a part that arrives twice.  After any in-order prefix of a reply of several parts, a datagram carrying
   a part number that has already been received ends the attempt with PacketBad (it is neither taken nor waited out). *)
From GD Require Import Base.Prelude Model.Strings Model.StrOps Model.Buffer Model.Net Model.Valve Model.Gamespy.
From GD Require Import Spec.ValveSpec Spec.QuakeSpec Spec.GamespySpec.
From GD Require Import Proofs.BufferLemmas Proofs.ReadSpecs Proofs.Str Proofs.Utf8 Proofs.ValveRoundtrip Proofs.QuakeRoundtrip Proofs.GamesProofs
  Proofs.GamespyProofs Proofs.IdProofs Proofs.GamespyOrder Proofs.Gamespy2Roundtrip Proofs.Gamespy3Query Proofs.Gamespy1Assembly Proofs.Gamespy1Partial.
From Coq Require Import ZifyBool ZifyNat ZifyN Lia.

(* one part whose number is already among those received *)
Lemma gs1_step_duplicate : forall (g : list (bytes * bytes)) qid ff i (last : bool) recvd ps ex vals fu (u : list udp_event) t f sn cur tr,
  g <> [] -> Forall pair_ok g -> (length (part_text g qid i last ff) <= 1024)%nat ->
  qid <= usize_max' -> 0 < i < 4294967296 -> nokey fin vals -> nokey qidk vals ->
  (recvd = None \/ recvd = Some qid) -> existsb (N.eqb i) ps = true ->
  gs1_loop (S fu) recvd ps ex vals (mknet (Datagram (part_text g qid i last ff) :: u) t f sn cur tr)
  = (Err PacketBad, mknet u t f sn cur (RecvEv None :: tr)).
Proof.
  intros g qid ff i last recvd ps ex vals fu u t f sn cur tr Hgne Hg Hs1 Hq Hi Hf Hk Hrecvd Hdup.
  destruct (pair_ok_parts g Hg) as [Gc [Gd [Gf Gq]]].
  set (text := part_text g qid i last ff) in *.
  assert (Hclean : no_nul text = true).
  { unfold text, part_text. apply clean_chunks. apply Forall_app. split; [exact Gc|].
    eapply Forall_impl; [|apply labels_ok]. intros kv [H _]. exact H. }
  destruct g as [|[k v] l]; [contradiction|].
  assert (Htxt : text = 92 :: k ++ [92] ++ v ++ concat (map (chunk 92) (l ++ labels qid i last ff))).
  { unfold text, part_text. cbn [app map concat]. unfold chunk at 1. cbn [fst snd app]. rewrite <- !app_assoc. reflexivity. }
  cbn [gs1_loop]. unfold mbind at 1. unfold udp_recv. cbn [n_udp n_tcp n_fail n_sends n_cur n_trace].
  rewrite firstn_all2 by (change (N.to_nat default_packet_size) with 1024%nat; exact Hs1).
  assert (Hread : run_r Gamespy.read_cstr text = Ok text).
  { unfold run_r, Gamespy.read_cstr. change (buf_new text) with (at_ [] text). apply no_nul_spec in Hclean. destruct Hclean as [Hn Hv].
    rewrite dec_utf8_unterminated by assumption. reflexivity. }
  rewrite Hread. rewrite (match_nonempty text) by (rewrite Htxt; discriminate).
  assert (Hins : insert_pairs (split 92 (remove_first_char text)) vals = fold_left ins (labels qid i last ff) (fold_left ins ((k, v) :: l) vals)).
  { unfold text, part_text. cbn [app]. rewrite gs1_part_decodes.
    - change ((k, v) :: l ++ labels qid i last ff) with (((k, v) :: l) ++ labels qid i last ff). rewrite fold_left_app. reflexivity.
    - change ((k, v) :: l ++ labels qid i last ff) with (((k, v) :: l) ++ labels qid i last ff). apply Forall_app. split; [exact Gd|].
      eapply Forall_impl; [|apply labels_ok]. intros kv [_ H]. exact H. }
  rewrite Hins. set (M := fold_left ins ((k, v) :: l) vals).
  assert (HMf : nokey fin M) by (apply nokey_fold; assumption).
  assert (HMq : nokey qidk M) by (apply nokey_fold; assumption).
  destruct (labels_effect M qid i last ff HMf HMq) as [Lg Lr].
  unfold vm_remove. change (str "final") with fin. rewrite Lg, Lr.
  change (str "queryid") with qidk. rewrite (get_app_last qidk _ M HMq). rewrite (remove_app_last qidk _ M HMq).
  rewrite qid_text_split. cbn [hd]. rewrite (parse_unsigned_show usize_max' qid Hq). cbn [need obind].
  rewrite (parse_unsigned_show usize_max' i) by (unfold usize_max'; lia). cbn [need obind].
  rewrite Hdup.
  assert (Hwrong : match recvd with Some r0 => negb (qid =? r0) | None => false end = false)
    by (destruct Hrecvd as [->| ->]; [reflexivity|rewrite N.eqb_refl; reflexivity]).
  rewrite Hwrong. reflexivity.
Qed.

(* an in-order prefix of parts that are not the last: the loop takes them and goes on *)
Lemma gs1_prefix_taken : forall (groups : list (list (bytes * bytes))) qid ff j vals fuel (u : list udp_event) t f sn cur tr,
  groups <> [] ->
  Forall (fun g => g <> [] /\ Forall pair_ok g) groups ->
  Forall (fun d => (length d <= 1024)%nat) (texts_open qid ff j groups) ->
  qid <= usize_max' -> N.of_nat (j + length groups) < 4294967296 ->
  nokey fin vals -> nokey qidk vals ->
  exists tr',
    gs1_loop (length groups + fuel) (match j with O => None | S _ => Some qid end) (part_numbers j) None vals
             (mknet (map Datagram (texts_open qid ff j groups) ++ u) t f sn cur tr)
    = gs1_loop fuel (Some qid) (part_numbers (j + length groups)) None (fold_left ins (concat groups) vals) (mknet u t f sn cur tr')
    /\ nokey fin (fold_left ins (concat groups) vals) /\ nokey qidk (fold_left ins (concat groups) vals).
Proof.
  induction groups as [|g rest IH]; intros qid ff j vals fuel u t f sn cur tr Hne Hok Hsz Hq Hj Hf Hk; [contradiction|].
  inversion Hok as [|? ? [Hgne Hg] Hok']; subst. cbn [texts_open] in Hsz. inversion Hsz as [|? ? Hs1 Hsz']; subst.
  cbn [texts_open map app length Nat.add].
  rewrite (gs1_step_nonlast g qid ff j vals (length rest + fuel) _ t f sn cur tr Hgne Hg Hs1 Hq ltac:(cbn [length] in Hj; lia) Hf Hk).
  destruct (pair_ok_parts g Hg) as [_ [_ [Gf Gq]]].
  assert (Hf' : nokey fin (fold_left ins g vals)) by (apply nokey_fold; assumption).
  assert (Hk' : nokey qidk (fold_left ins g vals)) by (apply nokey_fold; assumption).
  destruct rest as [|g2 rest].
  - cbn [texts_open map app length Nat.add concat]. rewrite app_nil_r. replace (j + 1)%nat with (S j) by lia.
    eexists. split; [reflexivity|split; assumption].
  - destruct (IH qid ff (S j) (fold_left ins g vals) fuel u t f sn cur (RecvEv None :: tr) ltac:(discriminate) Hok' Hsz' Hq
                 ltac:(cbn [length] in *; lia) Hf' Hk') as [tr' [E [F1 F2]]].
    exists tr'. cbn [concat]. rewrite fold_left_app. replace (j + S (length (g2 :: rest)))%nat with (S j + length (g2 :: rest))%nat by lia.
    split; [exact E|split; assumption].
Qed.

(* ... and then a part that has been received before *)
Theorem gs1_duplicate_part_is_refused : forall (groups : list (list (bytes * bytes))) qid ff vals g i (last : bool) fuel (u : list udp_event) t f sn cur tr,
  groups <> [] ->
  Forall (fun g => g <> [] /\ Forall pair_ok g) groups ->
  Forall (fun d => (length d <= 1024)%nat) (texts_open qid ff 0 groups) ->
  qid <= usize_max' -> N.of_nat (length groups) < 4294967296 ->
  nokey fin vals -> nokey qidk vals ->
  g <> [] -> Forall pair_ok g -> (length (part_text g qid i last ff) <= 1024)%nat ->
  0 < i <= N.of_nat (length groups) ->
  exists tr',
    gs1_loop (length groups + S fuel) None [] None vals
             (mknet (map Datagram (texts_open qid ff 0 groups) ++ Datagram (part_text g qid i last ff) :: u) t f sn cur tr)
    = (Err PacketBad, mknet u t f sn cur tr').
Proof.
  intros groups qid ff vals g i last fuel u t f sn cur tr Hne Hok Hsz Hq Hn Hf Hk Hg Hgok Hgs Hi.
  destruct (gs1_prefix_taken groups qid ff 0 vals (S fuel) (Datagram (part_text g qid i last ff) :: u) t f sn cur tr Hne Hok Hsz Hq
              ltac:(cbn [Nat.add]; exact Hn) Hf Hk) as [tr' [E [F1 F2]]].
  cbn [Nat.add] in E. change (part_numbers 0) with (@nil N) in E. cbv iota in E. rewrite E.
  rewrite (gs1_step_duplicate g qid ff i last (Some qid) (part_numbers (length groups)) None _ fuel u t f sn cur tr' Hg Hgok Hgs Hq ltac:(lia) F1 F2
             (or_intror eq_refl)).
  - eexists. reflexivity.
  - apply existsb_exists. exists i. split; [|apply N.eqb_refl]. unfold part_numbers. apply in_map_iff.
    exists (N.to_nat i - 1)%nat. split; [lia|apply in_seq; lia].
Qed.
