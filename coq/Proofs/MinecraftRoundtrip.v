(* C03: round trips of the Bedrock pong and of the legacy kick packets. *)
From GD Require Import Base.Prelude Model.Strings Model.StrOps Model.Buffer Model.Net Model.Valve Model.Gamespy Model.View Model.Minecraft.
From GD Require Import Spec.MinecraftSpec Proofs.Utf8 Proofs.BufferLemmas Proofs.ReadSpecs Proofs.ValveRoundtrip Proofs.Str Proofs.QuakeRoundtrip Proofs.GamesProofs.
From Coq Require Import ZifyBool ZifyNat ZifyN Lia.

(* ---- split of an intercalated list ---- *)
Lemma intercalate_cons (sep x y : bytes) r : intercalate sep (x :: y :: r) = x ++ sep ++ intercalate sep (y :: r).
Proof. reflexivity. Qed.
Lemma split_intercalate d f fs :
  Forall (fun x => ~ In d x) (f :: fs) -> split d (intercalate [d] (f :: fs)) = f :: fs.
Proof.
  revert f. induction fs as [|g fs IH]; intros f H.
  - inversion H; subst. cbn [intercalate]. unfold split. rewrite split_on_field by assumption. reflexivity.
  - inversion H as [|? ? Hf Hr]; subst. rewrite intercalate_cons. unfold split. cbn [app].
    rewrite split_on_app by exact Hf. cbn [rev app]. f_equal. apply IH. exact Hr.
Qed.
Lemma split_intercalate_trailing d f fs :
  Forall (fun x => ~ In d x) (f :: fs) -> split d (intercalate [d] (f :: fs) ++ [d]) = (f :: fs) ++ [[]].
Proof.
  revert f. induction fs as [|g fs IH]; intros f H.
  - inversion H; subst. cbn [intercalate]. unfold split. rewrite split_on_app by assumption. reflexivity.
  - inversion H as [|? ? Hf Hr]; subst. rewrite intercalate_cons. unfold split.
    rewrite <- !app_assoc. cbn [app].
    rewrite split_on_app by exact Hf. cbn [rev app]. f_equal. apply IH. exact Hr.
Qed.

Lemma switch_chunk_at (x pre r : bytes) :
  switch_endian_chunk (length x) (at_ pre (x ++ r)) = (Ok (buf_new x), at_ (pre ++ x) r).
Proof.
  unfold switch_endian_chunk. rewrite move_at. cbn [at_ rest]. rewrite take_n_app. reflexivity.
Qed.

(* ---- Bedrock ---- *)
Definition field_ok (f : bytes) : Prop := utf8_valid f = true /\ ~ In 0 f /\ ~ In 59 f.
Lemma intercalate_valid fs : Forall field_ok fs ->
  utf8_valid (intercalate [59] fs) = true /\ ~ In 0 (intercalate [59] fs).
Proof.
  induction fs as [|f fs IH]; intros H; [split; [reflexivity|intros []]|].
  inversion H as [|? ? [Hv [H0 _]] Hr]; subst. destruct fs as [|g fs]; [split; assumption|].
  destruct (IH Hr) as [IHv IH0]. rewrite intercalate_cons. split.
  - apply utf8_valid_app; [exact Hv|]. apply (utf8_valid_app [59]); [reflexivity|exact IHv].
  - intros Hin. apply in_app_or in Hin. destruct Hin as [Hin|Hin]; [exact (H0 Hin)|].
    cbn [app] in Hin. destruct Hin as [Hin|Hin]; [discriminate|exact (IH0 Hin)].
Qed.

Definition bedrock_wire (guid text : bytes) : bytes :=
  [28; 17; 34; 51; 68; 85; 102; 119; 136] ++ guid
  ++ [0; 255; 255; 0; 254; 254; 254; 254; 253; 253; 253; 253; 18; 52; 86; 120]
  ++ be_bytes 2 (lenN text) ++ text.

(* the header and the status text *)
Lemma bedrock_header guid text :
  length guid = 8%nat -> lenN text < 65536 -> utf8_valid text = true -> ~ In 0 text ->
  forall st, split 59 text = st -> (6 <= length st)%nat ->
  run_r bedrock_parse (bedrock_wire guid text) =
    (let g i := nth i st [] in
     ob* maxp := need (parse_unsigned u32_max (g 5%nat)) TypeParse in
     ob* online := need (parse_unsigned u32_max (g 4%nat)) TypeParse in
     ob* gm := match nth_error st 8 with None => Ok None | Some v => ob* m := gamemode_of v in Ok (Some m) end in
     Ok (mk_bedrock (g 0%nat) (g 1%nat) (g 3%nat) (g 2%nat) maxp online (nth_error st 6) (nth_error st 7) gm McBedrock)).
Proof.
  intros Hg Hl Hv H0 st Hst H6.
  unfold run_r, bedrock_parse, bedrock_wire. change (buf_new ?d) with (at_ [] d).
  cbn [app].
  erewrite bind_ok by apply read_u8_lt. cbn [negb N.eqb Pos.eqb].
  erewrite bind_ok by (apply (read_uint_at false [17; 34; 51; 68; 85; 102; 119; 136])).
  change (val_of false [17; 34; 51; 68; 85; 102; 119; 136]) with 9833440827789222417. rewrite N.eqb_refl. cbn [negb].
  match goal with |- context [at_ ?pre (guid ++ ?r)] =>
    pose proof (move_at guid pre r) as M; rewrite Hg in M; change (Z.of_nat 8) with 8%Z in M end.
  erewrite bind_ok by exact M. clear M.
  erewrite bind_ok by (apply (read_uint_at false [0; 255; 255; 0; 254; 254; 254; 254])).
  change (val_of false [0; 255; 255; 0; 254; 254; 254; 254]) with 18374403896610127616. rewrite N.eqb_refl. cbn [negb].
  erewrite bind_ok by (apply (read_uint_at false [253; 253; 253; 253; 18; 52; 86; 120])).
  change (val_of false [253; 253; 253; 253; 18; 52; 86; 120]) with 8671175388723805693. rewrite N.eqb_refl. cbn [negb].
  assert (Lb : length (be_bytes 2 (lenN text)) = 2%nat) by (unfold be_bytes; rewrite rev_length; apply le_bytes_length).
  match goal with |- context [at_ ?pre (be_bytes 2 (lenN text) ++ ?r)] =>
    pose proof (switch_chunk_at (be_bytes 2 (lenN text)) pre r) as M; rewrite Lb in M end.
  erewrite bind_ok by exact M. clear M.
  assert (Er : fst (read_uint true 2 (buf_new (be_bytes 2 (lenN text)))) = Ok (lenN text)).
  { change (buf_new ?d) with (at_ [] d).
    pose proof (read_uint_at true (be_bytes 2 (lenN text)) [] []) as E. rewrite app_nil_r, Lb in E. rewrite E. cbn [fst].
    rewrite val_of_be by (cbn; lia). reflexivity. }
  rewrite Er. erewrite bind_ok by apply lift_ok.
  unfold remaining_length. cbn [at_ over rest N.eqb].
  unfold error_by_expected_size. rewrite !N.ltb_irrefl.
  erewrite bind_ok by apply lift_ok.
  erewrite bind_ok by (apply dec_utf8_unterminated; assumption).
  rewrite Hst.
  replace (length st <? 6)%nat with false by (symmetry; apply Nat.ltb_ge; exact H6).
  destruct (parse_unsigned u32_max (nth 5 st [])) as [mx|]; [|reflexivity].
  cbn [need lift bind obind].
  destruct (parse_unsigned u32_max (nth 4 st [])) as [on|]; [|reflexivity].
  cbn [need lift bind obind].
  destruct (nth_error st 8) as [v|]; [destruct (gamemode_of v) as [m| | | |]|]; reflexivity.
Qed.

Lemma utf8_ascii l : forallb (fun c => c <? 128) l = true -> utf8_encode l = l.
Proof.
  induction l as [|c l IH]; intros H; [reflexivity|]. cbn [forallb] in H. apply andb_prop in H. destruct H as [Hc Hl].
  unfold utf8_encode in *. cbn [flat_map]. rewrite IH by exact Hl. unfold utf8_encode1. rewrite Hc. reflexivity.
Qed.
Lemma u8s_show_N n : u8s (show_N n) = show_N n.
Proof.
  apply utf8_ascii. apply forallb_forall. intros c Hc. pose proof (show_N_digits n c Hc). lia.
Qed.
Lemma u8s_mode m : u8s (mode_text m) = mode_text m /\ gamemode_of (mode_text m) = Ok m.
Proof. destruct m; split; reflexivity. Qed.

Definition wf_bedrock (s : bedrock_status) : Prop :=
  length (bs_guid s) = 8%nat /\ Forall field_ok (map u8s (bedrock_fields s)) /\
  lenN (bedrock_text s) < 65536 /\ bs_online s < 4294967296 /\ bs_max s < 4294967296.

Theorem bedrock_roundtrip : forall s, wf_bedrock s ->
  run_r bedrock_parse (bedrock_pong s) = Ok (bedrock_expected s).
Proof.
  intros s [Hg [Hf [Hl [Hon Hmx]]]].
  assert (Ew : bedrock_pong s = bedrock_wire (bs_guid s) (bedrock_text s)).
  { unfold bedrock_pong, bedrock_wire. reflexivity. }
  rewrite Ew. clear Ew.
  (* the fields the client will see *)
  set (fs := map u8s (bedrock_fields s)) in *.
  set (st := fs ++ (if bs_trails s then [[]] else [])).
  assert (Hfs : exists f r, fs = f :: r) by (unfold fs, bedrock_fields; cbn [map app]; eauto).
  destruct Hfs as [f0 [fr Efs]].
  assert (Hnd : Forall (fun x => ~ In 59 x) (f0 :: fr)).
  { rewrite <- Efs. eapply Forall_impl; [|exact Hf]. intros a [_ [_ H]]. exact H. }
  assert (Hsplit : split 59 (bedrock_text s) = st).
  { unfold bedrock_text, st. fold fs. rewrite Efs. change (str ";") with [59]. destruct (bs_trails s).
    - apply split_intercalate_trailing. exact Hnd.
    - rewrite !app_nil_r. apply split_intercalate. exact Hnd. }
  assert (Hvalid : utf8_valid (bedrock_text s) = true /\ ~ In 0 (bedrock_text s)).
  { unfold bedrock_text. fold fs. change (str ";") with [59]. destruct (intercalate_valid fs Hf) as [Hv H0].
    destruct (bs_trails s); [|rewrite app_nil_r; split; assumption]. split.
    - apply utf8_valid_app; [exact Hv|reflexivity].
    - intros Hin. apply in_app_or in Hin. destruct Hin as [Hin|[Hin|[]]]; [exact (H0 Hin)|discriminate]. }
  destruct Hvalid as [Hv H0].
  assert (H6 : (6 <= length st)%nat).
  { unfold st, fs, bedrock_fields. rewrite app_length, map_length, app_length. cbn [length]. lia. }
  rewrite (bedrock_header (bs_guid s) (bedrock_text s) Hg Hl Hv H0 st Hsplit H6).
  (* the numbers and the mode *)
  unfold st, fs, bedrock_fields, bedrock_expected, bs_trails, bedrock_fields.
  destruct s as [ed name proto ver on mx more mode guid tr]. cbn [bs_edition bs_name bs_protocol bs_version bs_online bs_max bs_more bs_mode bs_guid bs_trailing] in *.
  cbn [map app nth].
  rewrite !u8s_show_N, !parse_unsigned_show by (unfold u32_max; lia). cbn [need obind].
  destruct more as [|a [|b r]]; [| |destruct mode as [m|]];
    cbn [map app length Nat.eqb negb andb nth_error];
    destruct tr; cbn [app nth_error andb negb Nat.eqb length map];
    try (destruct (u8s_mode m) as [E1 E2]; rewrite ?E1, ?E2); try reflexivity.
Qed.
