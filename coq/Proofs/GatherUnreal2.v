(* C11: the Unreal 2 sections under Skip / Try / Enforce, and the Valve app-id decision spelt out. *)
From GD Require Import Base.Prelude Model.Strings Model.Buffer Model.Net Model.Valve Model.Unreal2 Spec.ValveSpec Proofs.Gather.
From Coq Require Import ZifyBool ZifyNat ZifyN Lia.

(* ---------- Unreal 2 ---------- *)
Definition u2_no_mr : u2_mr := mk_u2mr [] [].
Definition u2_no_players : u2_players := mk_u2ps [] [].
(* the password flag comes from the rules when they say so *)
Definition u2_info_with (info : u2_info) (mr : u2_mr) : u2_info :=
  match map_lookup (str "GamePassword") (map (fun kv => (fst kv, concat (snd kv))) (mr_rules mr)) with
  | Some v => mk_u2info (ui_server_id info) (ui_ip info) (ui_game_port info) (ui_query_port info) (ui_name info)
                        (ui_map info) (ui_game_type info) (ui_num_players info) (ui_max_players info)
                        (bytes_eqb (map ascii_lower v) (str "true"))
  | None => info
  end.
(* what the query does once the info reply has been decoded, and once the rules section is settled *)
Definition u2_players_phase (port : N) (g : u2_gather) (t : option tsettings) (info : u2_info) (mr : u2_mr) : M u2_response :=
  do* players := maybe_gather (ug_players g) (query_players port (ts_retries_or_default t) (ui_num_players (u2_info_with info mr))) in
  mret (mk_u2resp (u2_info_with info mr) mr (match players with Some p => p | None => u2_no_players end)).
Definition u2_sections (port : N) (g : u2_gather) (t : option tsettings) (info : u2_info) : M u2_response :=
  do* mr := maybe_gather (ug_mr g) (query_mr port (ts_retries_or_default t)) in
  u2_players_phase port g t info (match mr with Some x => x | None => u2_no_mr end).

Lemma u2_query_sections : forall port g t,
  u2_query port (Some g) t =
  (do* _ := udp_new port t in do* info := query_server_info port (ts_retries_or_default t) in u2_sections port g t info).
Proof. reflexivity. Qed.
Lemma u2_info_without_rules : forall info, u2_info_with info u2_no_mr = info.
Proof. reflexivity. Qed.

(* rules section *)
Lemma u2_mr_skip : forall port g t info n, ug_mr g = Skip ->
  u2_sections port g t info n = u2_players_phase port g t info u2_no_mr n.
Proof. intros port g t info n H. unfold u2_sections. rewrite H. reflexivity. Qed.
Lemma u2_mr_try_err : forall port g t info n x n', ug_mr g = Try ->
  query_mr port (ts_retries_or_default t) n = (Err x, n') ->
  u2_sections port g t info n = u2_players_phase port g t info u2_no_mr n'.
Proof. intros port g t info n x n' H E. unfold u2_sections. rewrite H. unfold mbind at 1. rewrite (gather_try_err _ _ _ _ _ E). reflexivity. Qed.
Lemma u2_mr_enforce_err : forall port g t info n x n', ug_mr g = Enforce ->
  query_mr port (ts_retries_or_default t) n = (Err x, n') ->
  u2_sections port g t info n = (Err x, n').
Proof. intros port g t info n x n' H E. unfold u2_sections. rewrite H. unfold mbind at 1. rewrite (gather_enforce_err _ _ _ _ _ E). reflexivity. Qed.
Lemma u2_mr_ok : forall port g t info n mr n', ug_mr g <> Skip ->
  query_mr port (ts_retries_or_default t) n = (Ok mr, n') ->
  u2_sections port g t info n = u2_players_phase port g t info mr n'.
Proof.
  intros port g t info n mr n' H E. unfold u2_sections. unfold mbind at 1. destruct (ug_mr g); [contradiction| |].
  - rewrite (gather_try_ok _ _ _ _ _ E). reflexivity.
  - rewrite (gather_enforce_ok _ _ _ _ _ E). reflexivity.
Qed.
(* players section *)
Lemma u2_players_skip : forall port g t info mr n, ug_players g = Skip ->
  u2_players_phase port g t info mr n = (Ok (mk_u2resp (u2_info_with info mr) mr u2_no_players), n).
Proof. intros port g t info mr n H. unfold u2_players_phase. rewrite H. reflexivity. Qed.
Lemma u2_players_try_err : forall port g t info mr n x n', ug_players g = Try ->
  query_players port (ts_retries_or_default t) (ui_num_players (u2_info_with info mr)) n = (Err x, n') ->
  u2_players_phase port g t info mr n = (Ok (mk_u2resp (u2_info_with info mr) mr u2_no_players), n').
Proof. intros port g t info mr n x n' H E. unfold u2_players_phase. rewrite H. unfold mbind at 1. rewrite (gather_try_err _ _ _ _ _ E). reflexivity. Qed.
Lemma u2_players_enforce_err : forall port g t info mr n x n', ug_players g = Enforce ->
  query_players port (ts_retries_or_default t) (ui_num_players (u2_info_with info mr)) n = (Err x, n') ->
  u2_players_phase port g t info mr n = (Err x, n').
Proof. intros port g t info mr n x n' H E. unfold u2_players_phase. rewrite H. unfold mbind at 1. rewrite (gather_enforce_err _ _ _ _ _ E). reflexivity. Qed.
Lemma u2_players_ok : forall port g t info mr n ps n', ug_players g <> Skip ->
  query_players port (ts_retries_or_default t) (ui_num_players (u2_info_with info mr)) n = (Ok ps, n') ->
  u2_players_phase port g t info mr n = (Ok (mk_u2resp (u2_info_with info mr) mr ps), n').
Proof.
  intros port g t info mr n ps n' H E. unfold u2_players_phase. unfold mbind at 1. destruct (ug_players g); [contradiction| |].
  - rewrite (gather_try_ok _ _ _ _ _ E). reflexivity.
  - rewrite (gather_enforce_ok _ _ _ _ _ E). reflexivity.
Qed.
(* both sections skipped: nothing is requested after the info reply, the state is the one the info phase left *)
Lemma u2_both_skipped : forall port g t info n, ug_mr g = Skip -> ug_players g = Skip ->
  u2_sections port g t info n = (Ok (mk_u2resp info u2_no_mr u2_no_players), n).
Proof. intros port g t info n H1 H2. rewrite (u2_mr_skip _ _ _ _ _ H1), (u2_players_skip _ _ _ _ _ _ H2). reflexivity. Qed.

(* ---------- the Valve app-id decision ---------- *)
Lemma appid_check_off : forall e g a, g_check_app_id g = false -> appid_ok e g a = true.
Proof. intros e g a H. unfold appid_ok. destruct e as [[[x d]|]|f]; try reflexivity. rewrite H. cbn [negb]. apply orb_true_r. Qed.
Lemma appid_no_expectation : forall g a f, appid_ok (Source None) g a = true /\ appid_ok (GoldSrc f) g a = true.
Proof. intros. split; reflexivity. Qed.
Lemma appid_check_on : forall m d g a, g_check_app_id g = true ->
  (appid_ok (Source (Some (m, d))) g a = true <-> (a = m \/ d = Some a)).
Proof.
  intros m d g a H. unfold appid_ok. rewrite H. cbn [negb]. rewrite orb_false_r. split.
  - intros E. apply orb_prop in E. destruct E as [E|E]; [left; lia|]. destruct d as [d'|]; [|discriminate]. right. f_equal. lia.
  - intros [-> | ->]; [rewrite N.eqb_refl; reflexivity|]. rewrite N.eqb_refl. apply orb_true_r.
Qed.

Section Valve.
  Variable bz : bytes -> N -> outcome bytes.
  (* a server of another game: the query ends with BadGame in the state the info phase left - no section is requested *)
  Lemma wrong_appid_is_badgame : forall port e g t n info n1,
    info_phase bz port e t n = (Ok info, n1) -> appid_ok e g (si_appid info) = false ->
    Valve.query bz port e (Some g) t n = (Err BadGame, n1).
  Proof. intros port e g t n info n1 E H. rewrite query_structure, E, H. reflexivity. Qed.
  Lemma right_appid_goes_on : forall port e g t n info n1,
    info_phase bz port e t n = (Ok info, n1) -> appid_ok e g (si_appid info) = true ->
    Valve.query bz port e (Some g) t n = sections bz port e g t info n1.
  Proof. intros port e g t n info n1 E H. rewrite query_structure, E, H. reflexivity. Qed.
End Valve.
