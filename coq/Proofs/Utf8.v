(* UTF-8 validity is compositional. *)
From GD Require Import Base.Prelude Model.Strings.
From Coq Require Import ZifyBool ZifyNat ZifyN.

Lemma utf8_valid_app : forall a b, utf8_valid a = true -> utf8_valid b = true -> utf8_valid (a ++ b) = true.
Proof.
  intro a. remember (length a) as n eqn:Hn. revert a Hn.
  induction n as [n IH] using lt_wf_ind. intros a Hn b Ha Hb.
  destruct a as [|x a]; [exact Hb|].
  cbn [app]. cbn [utf8_valid] in Ha |- *.
  destruct (x <? 128).
  - apply (IH (length a)); [subst; cbn; lia|reflexivity|exact Ha|exact Hb].
  - destruct (in_rng 194 223 x).
    + destruct a as [|y a]; [discriminate|]. cbn [app]. apply andb_prop in Ha. destruct Ha as [H1 H2]. rewrite H1. cbn [andb].
      apply (IH (length a)); [subst; cbn; lia|reflexivity|exact H2|exact Hb].
    + destruct (in_rng 224 239 x).
      * destruct a as [|y [|z a]]; try discriminate. cbn [app].
        apply andb_prop in Ha. destruct Ha as [H1 H2]. rewrite H1. cbn [andb].
        apply (IH (length a)); [subst; cbn; lia|reflexivity|exact H2|exact Hb].
      * destruct (in_rng 240 244 x); [|discriminate].
        destruct a as [|y [|z [|w a]]]; try discriminate. cbn [app].
        apply andb_prop in Ha. destruct Ha as [H1 H2]. rewrite H1. cbn [andb].
        apply (IH (length a)); [subst; cbn; lia|reflexivity|exact H2|exact Hb].
Qed.

Lemma utf8_valid_concat : forall l, forallb utf8_valid l = true -> utf8_valid (concat l) = true.
Proof.
  induction l as [|x l IH]; intro H; [reflexivity|]. cbn [forallb] in H. apply andb_prop in H. destruct H as [H1 H2].
  cbn [concat]. apply utf8_valid_app; [exact H1|apply IH; exact H2].
Qed.

Lemma utf8_valid_ascii : forall l, forallb (fun c => c <? 128) l = true -> utf8_valid l = true.
Proof.
  induction l as [|x l IH]; intro H; [reflexivity|]. cbn [forallb] in H. apply andb_prop in H. destruct H as [H1 H2].
  cbn [utf8_valid]. rewrite H1. apply IH. exact H2.
Qed.
