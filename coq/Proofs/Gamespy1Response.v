(* C04, GameSpy 1: the variables a server sends -> exactly the expected typed response *)
From GD Require Import Base.Prelude Model.Strings Model.StrOps Model.Buffer Model.Net Model.Valve Model.Gamespy.
From GD Require Import Spec.ValveSpec Spec.QuakeSpec Spec.GamespySpec.
From GD Require Import Proofs.BufferLemmas Proofs.ReadSpecs Proofs.Str Proofs.Utf8 Proofs.ValveRoundtrip Proofs.QuakeRoundtrip Proofs.GamesProofs
  Proofs.GamespyProofs Proofs.IdProofs Proofs.ValveGamesRoundtrip Proofs.Gamespy2Roundtrip Proofs.Jc2mRoundtrip Proofs.Gamespy3Roundtrip Proofs.Gamespy3Reply
  Proofs.Gamespy3Query Proofs.Gamespy1Assembly Proofs.Gamespy1Players Proofs.Gamespy1Build.
From Coq Require Import ZifyBool ZifyNat ZifyN Lia.

Definition s1_std_keys : list bytes :=
  map str ["hostname"; "mapname"; "gametype"; "gamever"; "maxplayers"; "password"; "minplayers"; "maptitle"; "AdminEMail"; "AdminName"; "admin"; "tournament"]%string.
Definition looks_player (k : bytes) : bool :=
  match split 95 k with
  | [kind; ids] => existsb (bytes_eqb kind) gs1_player_kinds && match parse_unsigned usize_max' ids with Some _ => true | None => false end
  | _ => false
  end.
Lemma not_looks_pkey bound k : looks_player k = false -> is_pkey bound k = None.
Proof.
  unfold looks_player, is_pkey. destruct (split 95 k) as [|kind [|ids [|x r]]]; try reflexivity.
  destruct (parse_unsigned usize_max' ids); [|reflexivity]. intros H. rewrite andb_true_r in H. rewrite H. reflexivity.
Qed.
Lemma looks_pkey bound k kind i : is_pkey bound k = Some (kind, i) -> looks_player k = true.
Proof.
  unfold looks_player, is_pkey. destruct (split 95 k) as [|kd [|ids [|x r]]]; try discriminate.
  destruct (parse_unsigned usize_max' ids); [|discriminate]. destruct (existsb _ _); [reflexivity|discriminate].
Qed.

Definition pvars (ps : list s1_player) (i0 : N) : list (bytes * bytes) :=
  flat_map (fun ip => s1_player_vars (fst ip) (snd ip)) (indexed i0 ps).
Lemma pvars_named : forall ps i0, pvars ps i0 = flat_map (fun ip => named (fst ip) (snd ip)) (indexed i0 (map pfields1 ps)).
Proof. induction ps as [|p ps IH]; intros i0; [reflexivity|]. unfold pvars in *. cbn [indexed map flat_map fst snd]. rewrite player_vars_named, IH. reflexivity. Qed.
Lemma pvars_length : forall ps i0, (length ps <= length (pvars ps i0))%nat.
Proof.
  induction ps as [|p ps IH]; intros i0; [cbn; lia|]. unfold pvars in *. cbn [indexed flat_map fst snd length]. rewrite app_length, player_vars_named.
  specialize (IH (i0 + 1)). unfold named. rewrite map_length. destruct (pfields1_kinds p) as [_ [Hne _]]. destruct (pfields1 p); [contradiction|cbn [length]; lia].
Qed.
(* every per-player variable has a name of the per-player shape *)
Lemma pvars_look : forall ps i0, N.of_nat (length ps) + i0 <= usize_max' -> Forall (fun kv => looks_player (fst kv) = true) (pvars ps i0).
Proof.
  induction ps as [|p ps IH]; intros i0 Hb; [constructor|]. unfold pvars in *. cbn [indexed flat_map fst snd]. apply Forall_app. split.
  - rewrite player_vars_named. unfold named. apply Forall_forall. intros kv Hin. apply in_map_iff in Hin. destruct Hin as [[kind v] [<- Hin]]. cbn [fst snd].
    destruct (pfields1_kinds p) as [Hk _]. unfold kinds_ok in Hk. rewrite Forall_forall in Hk. destruct (Hk _ Hin) as [H1 H2]. cbn [fst] in H1, H2.
    apply (looks_pkey (i0 + 1) _ kind i0). apply pkey_name; [exact H1|exact H2|lia|cbn [length] in Hb; lia].
  - apply IH. cbn [length] in Hb. lia.
Qed.

Definition tour_ok (v : bool * bytes) : bool := match parse_bool (lower_ascii (snd v)) with Some b => Bool.eqb b (fst v) | None => false end.
(* what a server may send (beyond the well-formedness of the texts, which the transport needs: C04 assembly) *)
Definition wf_s1 (s : s1_state) : bool :=
  (s1_max s <? 4294967296) && optb (fun n => n <? 256) (s1_min s)
  && match password_means (snd (s1_password s)) with Some b => Bool.eqb b (fst (s1_password s)) | None => false end
  && optb tour_ok (s1_tournament s)
  && forallb p1_ok (s1_players s) && (lenN (s1_players s) <? 4294967296)
  && forallb (fun kv => negb (existsb (bytes_eqb (fst kv)) s1_std_keys) && negb (looks_player (fst kv))) (s1_extras s)
  && (lenN (s1_vars s) <=? usize_max').

Lemma omap_players ps : forallb p1_ok ps = true -> omap_list gs1_make_player (map pmap (map pfields1 ps)) = Ok (map expected_player1 ps).
Proof.
  induction ps as [|p ps IH]; intros H; [reflexivity|]. cbn [forallb] in H. apply andb_prop in H. destruct H as [Hp Hps].
  cbn [map omap_list]. rewrite pmap_fields, (make_player1 p Hp). cbn [obind]. rewrite (IH Hps). reflexivity.
Qed.

(* ---------- variables that are not in a list of look-alikes ---------- *)
Lemma look_absent k (l : vmap) : Forall (fun kv => looks_player (fst kv) = true) l -> looks_player k = false ->
  vm_get k l = None /\ map_remove k l = l.
Proof.
  intros Hl Hk. induction Hl as [|[k' v] l Hx _ IH]; [split; reflexivity|]. destruct IH as [I1 I2]. cbn [fst] in Hx.
  assert (E : bytes_eqb k k' = false) by (apply bytes_eqb_neq; intros ->; rewrite Hx in Hk; discriminate).
  rewrite vm_get_cons, map_remove_cons, E, I1, I2. split; reflexivity.
Qed.
Lemma std_not_player : forallb (fun k => negb (looks_player k)) s1_std_keys = true.
Proof. vm_compute. reflexivity. Qed.
Lemma std_key_facts k : existsb (bytes_eqb (str k)) s1_std_keys = true -> In (str k) s1_std_keys /\ looks_player (str k) = false.
Proof.
  intros H. pose proof (key_in _ _ H) as Hin. split; [exact Hin|]. pose proof std_not_player as Hs. rewrite forallb_forall in Hs.
  specialize (Hs _ Hin). apply negb_true_iff in Hs. exact Hs.
Qed.

(* optional members pass through the lookups unchanged *)
Lemma opt_id (o : option bytes) : match option_map (fun v : bytes => v) o with Some v => Some v | None => None end = o.
Proof. destruct o; reflexivity. Qed.
Lemma opt_min (o : option N) : optb (fun n => n <? 256) o = true ->
  opt_parse (match option_map show_N o with Some v => Some v | None => None end) (parse_unsigned u8_max) = Ok o.
Proof. destruct o as [n|]; cbn [optb option_map opt_parse]; [|reflexivity]. intros H. rewrite parse_unsigned_show by (unfold u8_max; lia). reflexivity. Qed.
Lemma opt_tour (o : option (bool * bytes)) : optb tour_ok o = true ->
  need (parse_bool (lower_ascii (match (match option_map snd o with Some v => Some v | None => None end) with Some x => x | None => str "true" end))) TypeParse
  = Ok (match o with Some v => fst v | None => true end).
Proof.
  destruct o as [[b t]|]; cbn [optb option_map fst snd]; [|reflexivity]. unfold tour_ok. cbn [fst snd]. intros H.
  destruct (parse_bool (lower_ascii t)) as [b'|]; [|discriminate]. apply Bool.eqb_prop in H. subst b'. reflexivity.
Qed.

(* ---------- the per-player variables leave, everything else stays ---------- *)
Lemma Forall_opt {A} (P : bytes * bytes -> Prop) (o : option A) g : (forall a, Forall P (g a)) -> Forall P (opt_list o g).
Proof. intros H. destruct o; cbn [opt_list]; [apply H|constructor]. Qed.
Lemma split_vars (X ext : list (bytes * bytes)) ps :
  Forall (fun kv => looks_player (fst kv) = false) X -> Forall (fun kv => looks_player (fst kv) = false) ext ->
  lenN (X ++ ext ++ pvars ps 0) <= usize_max' ->
  gs1_split_players (lenN (X ++ ext ++ pvars ps 0)) (X ++ ext ++ pvars ps 0) [] = (X ++ ext, map pmap (map pfields1 ps)).
Proof.
  intros HX He Hb. set (bound := lenN (X ++ ext ++ pvars ps 0)) in *.
  rewrite app_assoc. rewrite split_keep.
  2:{ apply Forall_app. split; (eapply Forall_impl; [|eassumption]); intros kv Hk; apply not_looks_pkey; exact Hk. }
  rewrite pvars_named.
  pose proof (split_all_players bound (map pfields1 ps) []) as Hs. cbn [length Nat.add app] in Hs. change (N.of_nat 0) with 0 in Hs.
  rewrite Hs; [cbn [fst snd]; rewrite app_nil_r; reflexivity| | |exact Hb].
  - apply Forall_forall. intros f Hin. apply in_map_iff in Hin. destruct Hin as [p [<- _]]. destruct (pfields1_kinds p) as [H1 [H2 _]]. split; assumption.
  - rewrite map_length. pose proof (pvars_length ps 0) as Hl. unfold bound, lenN. rewrite !app_length. lia.
Qed.

Lemma forallb_and {A} (f g : A -> bool) l : forallb (fun x => f x && g x) l = forallb f l && forallb g l.
Proof. induction l as [|x l IH]; [reflexivity|]. cbn [forallb]. rewrite IH. destruct (f x), (g x), (forallb f l), (forallb g l); reflexivity. Qed.

Ltac strip L tl :=
  lazymatch L with
  | ?a ++ tl => constr:(a)
  | ?x :: ?r => let r' := strip r tl in constr:(x :: r')
  | ?a ++ ?r => let r' := strip r tl in constr:(a ++ r')
  end.
Lemma forallb_not_look (l : list (bytes * bytes)) : forallb (fun kv => negb (looks_player (fst kv))) l = true -> Forall (fun kv => looks_player (fst kv) = false) l.
Proof. intros H. apply Forall_forall. intros kv Hin. rewrite forallb_forall in H. specialize (H kv Hin). apply negb_true_iff in H. exact H. Qed.
Ltac sg1 Xg := segs; rewrite ?Xg by reflexivity; segs; rewrite ?opt_id; reflexivity.
Ltac treq1 Xg Xr k := erewrite (take_req_eq k); [|sg1 Xg|sg1 Xr]; cbn [obind].
Ltac vrem1 Xg Xr k := erewrite (vm_remove_eq (str k)); [|sg1 Xg|sg1 Xr]; cbv beta iota.

Theorem gs1_build_ok : forall s, wf_s1 s = true -> gs1_build (s1_vars s) = Ok (s1_expected s).
Proof.
  intros s H. unfold wf_s1 in H. do 7 (apply andb_prop in H; destruct H as [H ?]).
  rename H into Hmax, H0 into Hlen, H1 into Hext, H2 into Hnp, H3 into Hps, H4 into Htour, H5 into Hpw, H6 into Hmin.
  rewrite forallb_and in Hext. apply andb_prop in Hext. destruct Hext as [Hestd Helook].
  apply N.leb_le in Hlen. apply N.ltb_lt in Hmax. apply N.ltb_lt in Hnp.
  set (pv := pvars (s1_players s) 0).
  assert (Hpvlen : (length (s1_players s) <= length pv)%nat) by apply pvars_length.
  assert (Hvars : s1_vars s = ([(str "hostname", s1_name s); (str "mapname", s1_map s); (str "gametype", s1_mode s); (str "gamever", s1_ver s);
                                (str "maxplayers", show_N (s1_max s)); (str "password", snd (s1_password s))]
                               ++ opt_list (s1_min s) (fun v => [(str "minplayers", show_N v)])
                               ++ opt_list (s1_title s) (fun v => [(str "maptitle", v)])
                               ++ opt_list (s1_mail s) (fun v => [(str "AdminEMail", v)])
                               ++ opt_list (s1_admin s) (fun v => [((if fst v then str "AdminName" else str "admin"), snd v)])
                               ++ s1_admin_extra s
                               ++ opt_list (s1_tournament s) (fun v => [(str "tournament", snd v)])
                               ++ s1_extras s ++ pv)) by reflexivity.
  assert (Hvl : lenN pv <= usize_max').
  { rewrite Hvars in Hlen. unfold lenN in *. rewrite !app_length in Hlen. lia. }
  assert (Hlook : Forall (fun kv => looks_player (fst kv) = true) pv).
  { apply pvars_look. unfold lenN in Hvl. lia. }
  set (tail := s1_extras s ++ pv) in *.
  assert (Xg : forall k, existsb (bytes_eqb (str k)) s1_std_keys = true -> vm_get (str k) tail = None).
  { intros k Hk. destruct (std_key_facts k Hk) as [Hin Hnl]. unfold tail. rewrite vm_get_app.
    rewrite (proj1 (ext_get_for s1_std_keys _ _ Hin Hestd)). exact (proj1 (look_absent _ _ Hlook Hnl)). }
  assert (Xr : forall k, existsb (bytes_eqb (str k)) s1_std_keys = true -> map_remove (str k) tail = tail).
  { intros k Hk. destruct (std_key_facts k Hk) as [Hin Hnl]. unfold tail. rewrite map_remove_app.
    rewrite (proj2 (ext_get_for s1_std_keys _ _ Hin Hestd)), (proj2 (look_absent _ _ Hlook Hnl)). reflexivity. }
  assert (Eg : forall k, existsb (bytes_eqb (str k)) s1_std_keys = true -> vm_get (str k) (s1_extras s) = None)
    by (intros k Hk; destruct (std_key_facts k Hk) as [Hin _]; exact (proj1 (ext_get_for s1_std_keys _ _ Hin Hestd))).
  assert (Er : forall k, existsb (bytes_eqb (str k)) s1_std_keys = true -> map_remove (str k) (s1_extras s) = s1_extras s)
    by (intros k Hk; destruct (std_key_facts k Hk) as [Hin _]; exact (proj2 (ext_get_for s1_std_keys _ _ Hin Hestd))).
  unfold password_means in Hpw.
  rewrite Hvars. unfold gs1_build, s1_expected, s1_admin_extra.
  destruct (s1_admin s) as [[ab av]|]; [destruct ab; [destruct (s1_admin_too s) as [extra|]|]|]; cbn [opt_list fst snd].
  all: treq1 Xg Xr "maxplayers"%string; rewrite parse_unsigned_show by (unfold u32_max; lia); cbn [need obind].
  all: vrem1 Xg Xr "minplayers"%string; rewrite (opt_min _ Hmin); cbn [obind].
  (* the per-player variables move into the players' maps *)
  all: match goal with |- context [gs1_split_players (lenN ?L) ?L []] =>
         let X := strip L tail in
         replace L with (X ++ tail) by (cbn [app]; rewrite <- ?app_assoc; cbn [app]; rewrite <- ?app_assoc; reflexivity)
       end.
  all: unfold tail, pv; rewrite split_vars;
    [ | repeat first [apply Forall_cons; [reflexivity|] | apply Forall_app; split | apply Forall_opt; intros | apply Forall_nil]
      | apply forallb_not_look; exact Helook
      | fold pv; fold tail; rewrite Hvars in Hlen; unfold s1_admin_extra in Hlen; cbn [opt_list fst snd] in Hlen; unfold lenN in *; rewrite ?app_length in *; cbn [length] in *; rewrite ?app_length in *; cbn [length] in *; lia ].
  all: cbv beta iota; rewrite (omap_players _ Hps); cbn [obind].
  all: treq1 Eg Er "hostname"%string; treq1 Eg Er "mapname"%string.
  all: vrem1 Eg Er "maptitle"%string; vrem1 Eg Er "AdminEMail"%string; vrem1 Eg Er "AdminName"%string.
  all: try (vrem1 Eg Er "admin"%string).
  all: unfold has_password; vrem1 Eg Er "password"%string; cbn [need obind].
  all: destruct (parse_bool (lower_ascii (snd (s1_password s)))) as [b|];
    [|destruct (parse_unsigned u8_max (lower_ascii (snd (s1_password s)))) as [n|]; [|discriminate]];
    cbn [need obind]; apply Bool.eqb_prop in Hpw; rewrite Hpw.
  all: treq1 Eg Er "gametype"%string; treq1 Eg Er "gamever"%string.
  all: unfold tournament_of; vrem1 Eg Er "tournament"%string; rewrite (opt_tour _ Htour); cbn [obind].
  all: change (2 ^ 32) with 4294967296; unfold lenN; rewrite map_length; rewrite N.mod_small by (unfold lenN in Hnp; lia).
  all: destruct (s1_title s), (s1_mail s); reflexivity.
Qed.

(* ---------- the whole query ---------- *)
Theorem gs1_query_roundtrip : forall port s,
  wf_s1 s = true -> Forall pair_ok (s1_vars s) -> nodupb (map fst (s1_vars s)) = true ->
  s1_qid s <= usize_max' ->
  Forall (fun d => (length d <= 1024)%nat) (s1_script s) -> N.of_nat (length (s1_script s)) < 4294967296 ->
  fst (gs1_query port None (script_net (s1_script s))) = Ok (s1_expected s).
Proof.
  intros port s Hwf Hok Hnd Hq Hsz Hn.
  pose proof (gs1_vars_roundtrip port s Hok Hq Hsz Hn) as Hv.
  rewrite fold_ins_fresh in Hv; [|apply forallb_forall; intros; reflexivity|exact Hnd]. cbn [app] in Hv.
  unfold gs1_query, mbind. destruct (gs1_query_vars port None (script_net (s1_script s))) as [o n'] eqn:E. cbn [fst] in Hv. subst o.
  unfold mlift. cbn [fst]. apply gs1_build_ok. exact Hwf.
Qed.
