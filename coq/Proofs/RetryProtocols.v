(* C10 for the protocols whose retried unit is "send one request, receive one
   datagram, parse it" (GameSpy 2, Minecraft Bedrock, Mindustry, Quake, each
   Unreal 2 request): for EVERY fault vector over {silent, send failure}
   followed by a reply - of every length, for every retry count - the result
   is that of the first reply, the number of requests is the number of faults
   plus one, and a malformed reply is not asked for again; r + 1 faults give
   the receive / send error of the last one after exactly r + 1 requests.

   Also: the parsers of these protocols never answer with a timeout-class
   error themselves (Rnt), which is what "malformed" means for the helper. *)
From GD Require Import Base.Prelude Model.Strings Model.Buffer Model.Net Model.Gamespy Model.Games Model.Minecraft
  Model.Quake Model.Unreal2 Proofs.Retry Proofs.Msafe.
From Coq Require Import ZifyBool ZifyNat ZifyN Lia.

(* ---------- errors of the readers are never timeout-class ---------- *)
Definition nt {A} (o : outcome A) : Prop := match o with Err e => timeout_class e = false | _ => True end.
Definition Rnt {A} (m : R A) : Prop := forall b, nt (fst (m b)).

Lemma Rnt_ret A (a : A) : Rnt (ret a).
Proof. intros b. exact I. Qed.
Lemma Rnt_fail A e : timeout_class e = false -> Rnt (@fail A e).
Proof. intros H b. exact H. Qed.
Lemma Rnt_lift A (o : outcome A) : nt o -> Rnt (lift o).
Proof. intros H b. exact H. Qed.
Lemma Rnt_bind A B (m : R A) (f : A -> R B) : Rnt m -> (forall a, Rnt (f a)) -> Rnt (bind m f).
Proof.
  intros Hm Hf b. unfold bind. pose proof (Hm b) as H1.
  destruct (m b) as [[a|e| | |] b']; cbn [fst] in *; try exact I; [apply Hf|exact H1].
Qed.
Lemma Rnt_if A (c : bool) (m1 m2 : R A) : Rnt m1 -> Rnt m2 -> Rnt (if c then m1 else m2).
Proof. destruct c; intros; assumption. Qed.
Lemma Rnt_read_raw w : Rnt (read_raw w).
Proof. intros b. unfold read_raw. destruct (over b =? 0); [destruct (take_n w (rest b)) as [[x r]|]|]; cbn; trivial. Qed.
Lemma Rnt_read_uint be w : Rnt (read_uint be w).
Proof. unfold read_uint. apply Rnt_bind; [apply Rnt_read_raw|intro; apply Rnt_ret]. Qed.
Lemma Rnt_read_int be w : Rnt (read_int be w).
Proof. unfold read_int. apply Rnt_bind; [apply Rnt_read_raw|intro; apply Rnt_ret]. Qed.
Lemma Rnt_read_u8 : Rnt read_u8.
Proof. apply Rnt_read_uint. Qed.
Lemma Rnt_move_cursor off : Rnt (move_cursor off).
Proof.
  intros b. unfold move_cursor. destruct (_ || _); [reflexivity|].
  destruct (0 <=? _)%Z; [destruct (take_n _ _) as [[x r]|]|destruct (retreat _ _ _) as [[p r]|]]; cbn; trivial.
Qed.
Lemma Rnt_switch_endian_chunk size : Rnt (switch_endian_chunk size).
Proof.
  intros b. unfold switch_endian_chunk. pose proof (Rnt_move_cursor (Z.of_nat size) b) as H.
  destruct (move_cursor (Z.of_nat size) b) as [[u|e| | |] b']; cbn [fst ofail] in *; trivial.
  destruct (take_n size (rest b)) as [[x r]|]; exact I.
Qed.
Lemma Rnt_dec_utf8 d : Rnt (dec_utf8 d).
Proof.
  intros b. unfold dec_utf8, with_slice. destruct (over b =? 0); [|reflexivity].
  destruct (span_until _ _). destruct (utf8_valid _); cbn; trivial.
Qed.
Lemma Rnt_dec_utf8_lp d : Rnt (dec_utf8_lp d).
Proof.
  intros b. unfold dec_utf8_lp, with_slice. destruct (over b =? 0); [|reflexivity].
  destruct (rest b) as [|len tl]; [reflexivity|]. destruct (span_until _ _) as [s after].
  destruct (take_n _ tl) as [[s' r]|]; [destruct (utf8_valid s')|]; cbn; trivial.
Qed.
Lemma Rnt_remaining_bytes : Rnt (fun b => (remaining_bytes b, b)).
Proof. intros b. cbn [fst]. unfold remaining_bytes. destruct (over b =? 0); exact I. Qed.
Lemma Rnt_run A (m : R A) d : Rnt m -> nt (run_r m d).
Proof. intros H. exact (H (buf_new d)). Qed.

(* ---------- the parsers ---------- *)
Lemma nt_need A (o : option A) e : timeout_class e = false -> nt (Gamespy.need o e).
Proof. intros H. destruct o; [exact I|exact H]. Qed.

Lemma bedrock_parse_nt : Rnt bedrock_parse.
Proof.
  unfold bedrock_parse.
  apply Rnt_bind; [apply Rnt_read_u8|intro id]. apply Rnt_if; [apply Rnt_fail; reflexivity|].
  apply Rnt_bind; [apply Rnt_read_uint|intro nonce]. apply Rnt_if; [apply Rnt_fail; reflexivity|].
  apply Rnt_bind; [apply Rnt_move_cursor|intros _].
  apply Rnt_bind; [apply Rnt_read_uint|intro m1]. apply Rnt_if; [apply Rnt_fail; reflexivity|].
  apply Rnt_bind; [apply Rnt_read_uint|intro m2]. apply Rnt_if; [apply Rnt_fail; reflexivity|].
  apply Rnt_bind; [apply Rnt_switch_endian_chunk|intro chunk].
  apply Rnt_bind; [apply Rnt_lift; exact (Rnt_read_uint true 2 chunk)|intro len].
  intros b. unfold remaining_length. destruct (over b =? 0); [|exact I].
  generalize (lenN (rest b)) as rem. intro rem. revert b.
  match goal with |- forall b, nt (fst (?m b)) => change (Rnt m) end. apply Rnt_bind.
  { apply Rnt_lift. unfold error_by_expected_size. destruct (_ <? _); [reflexivity|]. destruct (_ <? _); [reflexivity|exact I]. }
  intros _. apply Rnt_bind; [apply Rnt_dec_utf8|intro s].
  apply Rnt_if; [apply Rnt_fail; reflexivity|].
  apply Rnt_bind; [apply Rnt_lift; apply nt_need; reflexivity|intro maxp].
  apply Rnt_bind; [apply Rnt_lift; apply nt_need; reflexivity|intro online].
  apply Rnt_bind; [|intro gm; apply Rnt_ret].
  apply Rnt_lift. destruct (nth_error _ 8) as [v|]; [|exact I].
  unfold gamemode_of. repeat (destruct (bytes_eqb v _); [exact I|]). reflexivity.
Qed.

Lemma mindustry_parse_nt : Rnt mindustry_parse.
Proof.
  unfold mindustry_parse, read_lp, read_i32be.
  repeat (apply Rnt_bind; [first [apply Rnt_dec_utf8_lp | apply Rnt_read_int | apply Rnt_read_u8]|intro]).
  apply Rnt_bind.
  { apply Rnt_lift. repeat (destruct (_ =? _); [exact I|]). reflexivity. }
  intro mode. repeat (apply Rnt_bind; [first [apply Rnt_dec_utf8_lp | apply Rnt_read_int]|intro]).
  intros b. pose proof (Rnt_dec_utf8_lp 0 b) as H. destruct (dec_utf8_lp 0 b) as [[x|e| | |] b']; cbn [fst ofail] in *; exact I.
Qed.

Definition gs2_header (d : bytes) : R bytes :=
  let* k := read_u8 in
  if negb (k =? 0) then fail PacketBad
  else let* sid := read_uint true 4 in
       if negb (sid =? 1) then fail PacketBad else ret d.
Lemma gs2_header_nt d : Rnt (gs2_header d).
Proof.
  unfold gs2_header. apply Rnt_bind; [apply Rnt_read_u8|intro k]. apply Rnt_if; [apply Rnt_fail; reflexivity|].
  apply Rnt_bind; [apply Rnt_read_uint|intro sid]. apply Rnt_if; [apply Rnt_fail; reflexivity|apply Rnt_ret].
Qed.

Definition quake_header (v : qver) : R bytes :=
  let* h := read_uint false 4 in
  if negb (h =? 4294967295) then fail PacketBad
  else
    let* rest := (fun b => (remaining_bytes b, b)) in
    if negb (starts_with (response_header v) rest) then fail PacketBad
    else
      let* _ := move_cursor (Z.of_nat (length (response_header v))) in
      fun b => (remaining_bytes b, b).
Lemma quake_header_nt v : Rnt (quake_header v).
Proof.
  unfold quake_header. apply Rnt_bind; [apply Rnt_read_uint|intro h]. apply Rnt_if; [apply Rnt_fail; reflexivity|].
  apply Rnt_bind; [apply Rnt_remaining_bytes|intro r]. apply Rnt_if; [apply Rnt_fail; reflexivity|].
  apply Rnt_bind; [apply Rnt_move_cursor|intros _; apply Rnt_remaining_bytes].
Qed.

(* ---------- one request, one reply ---------- *)
(* same script, sends and failures (the trace may differ) *)
Definition same_script (a b : net) : Prop :=
  n_udp a = n_udp b /\ n_fail a = n_fail b /\ n_sends a = n_sends b.

Section Ping.
  Context {A : Type}.
  Variables (port : N) (req : bytes) (sz : option N) (f : bytes -> outcome A).
  Definition ping : M A := do* _ := send port req in do* d := udp_recv sz in mlift (f d).
  (* the attempt, up to what it writes to the trace before the request *)
  Variable att : M A.
  Hypothesis Hatt : forall n, exists n', same_script n n' /\ att n = ping n'.

  Definition cut (d : bytes) : bytes :=
    firstn (N.to_nat (match sz with Some s => s | None => default_packet_size end)) d.

  (* a fault vector: true = the request cannot be sent, false = no reply arrives.
     [faults_match v idx fails udp] is what is left of the script after them. *)
  Fixpoint faults_match (v : list bool) (idx : N) (fails : list N) (udp : list udp_event) : option (list udp_event) :=
    match v with
    | [] => Some udp
    | true :: v' => if existsb (N.eqb idx) fails then faults_match v' (idx + 1) fails udp else None
    | false :: v' =>
        if existsb (N.eqb idx) fails then None
        else match udp with
             | Timeout :: u => faults_match v' (idx + 1) fails u
             | [] => faults_match v' (idx + 1) fails []
             | Datagram _ :: _ => None
             end
    end.

  Lemma att_sendfail n : existsb (N.eqb (n_sends n)) (n_fail n) = true ->
    exists m, att n = (Err PacketSend, m) /\ n_udp m = n_udp n /\ n_fail m = n_fail n /\ n_sends m = n_sends n + 1.
  Proof.
    intros H. destruct (Hatt n) as [n' [[Hu [Hf Hs]] E]]. rewrite E. unfold ping, mbind, send. rewrite <- Hs, <- Hf, H.
    eexists. split; [reflexivity|]. cbn. rewrite Hu, Hf. auto.
  Qed.
  Lemma att_recv n : existsb (N.eqb (n_sends n)) (n_fail n) = false ->
    exists m, n_fail m = n_fail n /\ n_sends m = n_sends n + 1 /\
      match n_udp n with
      | Datagram d :: u => att n = (f (cut d), m) /\ n_udp m = u
      | Timeout :: u => att n = (Err PacketReceive, m) /\ n_udp m = u
      | [] => att n = (Err PacketReceive, m) /\ n_udp m = []
      end.
  Proof.
    intros H. destruct (Hatt n) as [n' [[Hu [Hf Hs]] E]]. rewrite E. unfold ping, mbind, send. rewrite <- Hs, <- Hf, H.
    unfold udp_recv. cbn [n_udp n_tcp n_fail n_sends n_cur n_trace]. rewrite <- Hu.
    destruct (n_udp n) as [|[d|] u]; unfold mlift, cut; eexists; (split; [|split; [|split; reflexivity]]); cbn; auto.
  Qed.

  Lemma faults_are_timeouts : forall v n u,
    faults_match v (n_sends n) (n_fail n) (n_udp n) = Some u ->
    exists m, timeouts_then att (length v) n m /\ n_udp m = u /\ n_fail m = n_fail n
              /\ n_sends m = n_sends n + N.of_nat (length v).
  Proof.
    induction v as [|x v IH]; intros n u H.
    - cbn in H. inversion H; subst. exists n. split; [constructor|]. cbn [length]. repeat split; lia.
    - cbn [faults_match] in H. destruct x.
      + destruct (existsb (N.eqb (n_sends n)) (n_fail n)) eqn:Ef; [|discriminate].
        destruct (att_sendfail n Ef) as [m1 [E1 [U1 [F1 S1]]]].
        rewrite <- S1, <- F1, <- U1 in H. destruct (IH m1 u H) as [m [T [U [F S]]]].
        exists m. split; [eapply tt_step; [exact E1|reflexivity|exact T]|]. cbn [length]. repeat split; try congruence; lia.
      + destruct (existsb (N.eqb (n_sends n)) (n_fail n)) eqn:Ef; [discriminate|].
        destruct (att_recv n Ef) as [m1 [F1 [S1 R1]]].
        destruct (n_udp n) as [|[d|] u0]; [| discriminate |]; destruct R1 as [E1 U1];
          rewrite <- S1, <- F1, <- U1 in H; destruct (IH m1 u H) as [m [T [U [F S]]]];
          (exists m; split; [eapply tt_step; [exact E1|reflexivity|exact T]|]; cbn [length]; repeat split; try congruence; lia).
  Qed.

  (* j faults (j <= r), then a reply: its parse is the result - the same as with no
     fault at all - after exactly j + 1 requests; in particular a reply that does not
     parse is not asked for again *)
  Theorem faults_then_reply : forall v r n d rest,
    (length v <= N.to_nat r)%nat ->
    faults_match v (n_sends n) (n_fail n) (n_udp n) = Some (Datagram d :: rest) ->
    existsb (N.eqb (n_sends n + N.of_nat (length v))) (n_fail n) = false ->
    nt (f (cut d)) ->
    exists m, retry_on_timeout r att n = (f (cut d), m)
              /\ n_sends m = n_sends n + N.of_nat (length v) + 1 /\ n_udp m = rest.
  Proof.
    intros v r n d rest Hl Hm Hs Hnt.
    destruct (faults_are_timeouts v n _ Hm) as [m0 [T [U [F S]]]].
    assert (Ef : existsb (N.eqb (n_sends m0)) (n_fail m0) = false) by (rewrite S, F; exact Hs).
    destruct (att_recv m0 Ef) as [m [F1 [S1 R1]]]. rewrite U in R1. destruct R1 as [E1 U1].
    exists m. split; [|split; [lia|exact U1]].
    rewrite (retry_first_reply_wins A att r (length v) n m0 Hl T); [exact E1|].
    unfold is_timeout. rewrite E1. cbn [fst]. unfold nt in Hnt. destruct (f (cut d)); trivial.
  Qed.

  Lemma faults_match_app : forall v w idx fails udp,
    faults_match (v ++ w) idx fails udp =
    match faults_match v idx fails udp with
    | Some u => faults_match w (idx + N.of_nat (length v)) fails u
    | None => None
    end.
  Proof.
    induction v as [|x v IH]; intros w idx fails udp.
    - cbn. replace (idx + 0) with idx by lia. reflexivity.
    - cbn [app faults_match length]. replace (idx + N.of_nat (S (length v))) with (idx + 1 + N.of_nat (length v)) by lia.
      destruct x; destruct (existsb (N.eqb idx) fails); try reflexivity; [apply IH|].
      destruct udp as [|[d|] u]; try reflexivity; apply IH.
  Qed.

  Lemma retry_loop_exhaust : forall j n m0, timeouts_then att j n m0 ->
    forall e m last, att m0 = (Err e, m) -> timeout_class e = true ->
    retry_loop (S j) last att n = (Err e, m).
  Proof.
    intros j n m0 T. induction T as [n|j n e0 n' m0 Hatt0 Hcls T IH]; intros e m last E C.
    - cbn [retry_loop]. rewrite E, C. reflexivity.
    - change (retry_loop (S (S j)) last att n) with
        (match att n with
         | (Err e, n') => if timeout_class e then retry_loop (S j) e att n' else (Err e, n')
         | r => r end).
      rewrite Hatt0, Hcls. apply IH; assumption.
  Qed.

  (* r + 1 faults: the error of the last one, after exactly r + 1 requests *)
  Theorem faults_exhaust : forall v last r n u,
    length v = N.to_nat r ->
    faults_match (v ++ [last]) (n_sends n) (n_fail n) (n_udp n) = Some u ->
    exists m, retry_on_timeout r att n = (Err (if last then PacketSend else PacketReceive), m)
              /\ n_sends m = n_sends n + r + 1 /\ n_udp m = u.
  Proof.
    intros v last r n u Hl Hm. rewrite faults_match_app in Hm.
    destruct (faults_match v (n_sends n) (n_fail n) (n_udp n)) as [u0|] eqn:E0; [|discriminate].
    destruct (faults_are_timeouts v n u0 E0) as [m0 [T [U [F S]]]].
    unfold retry_on_timeout. rewrite <- Hl. cbn [faults_match] in Hm. destruct last.
    - destruct (existsb _ _) eqn:Ef in Hm; [|discriminate]. inversion Hm; subst u0.
      rewrite <- S, <- F in Ef. destruct (att_sendfail m0 Ef) as [m [E1 [U1 [F1 S1]]]].
      exists m. split; [apply (retry_loop_exhaust _ _ _ T _ _ _ E1 eq_refl)|]. split; [lia|congruence].
    - destruct (existsb _ _) eqn:Ef in Hm; [discriminate|].
      rewrite <- S, <- F in Ef. destruct (att_recv m0 Ef) as [m [F1 [S1 R1]]]. rewrite U in R1.
      destruct u0 as [|[d|] u1]; [| discriminate |]; inversion Hm; subst u; destruct R1 as [E1 U1];
        (exists m; split; [apply (retry_loop_exhaust _ _ _ T _ _ _ E1 eq_refl)|]; split; [lia|congruence]).
  Qed.
End Ping.

(* ---------- the protocols are such attempts ---------- *)
Lemma self_script n : same_script n n.
Proof. repeat split. Qed.

Lemma bedrock_is_ping port : forall n, exists n', same_script n n' /\ bedrock_info_impl port n = ping port bedrock_ping None (run_r bedrock_parse) n'.
Proof. intros n. exists n. split; [apply self_script|reflexivity]. Qed.

Lemma gs2_is_ping port : forall n, exists n', same_script n n' /\
  gs2_request_impl port n = ping port gs2_request None (fun d => run_r (gs2_header d) d) n'.
Proof. intros n. exists n. split; [apply self_script|reflexivity]. Qed.

Lemma quake_is_ping port v : forall n, exists n', same_script n n' /\
  get_data_impl port v n = ping port ([255; 255; 255; 255] ++ send_header v ++ [0]) None (fun d => run_r (quake_header v) d) n'.
Proof. intros n. exists n. split; [apply self_script|reflexivity]. Qed.

Definition u2_attempt (port : N) (kind : N) : M bytes :=
  do* _ := send port (u2_request kind) in udp_recv (Some u2_packet_size).
Lemma unreal2_is_ping port kind : forall n, exists n', same_script n n' /\
  u2_attempt port kind n = ping port (u2_request kind) (Some u2_packet_size) (fun d => Ok d) n'.
Proof.
  intros n. exists n. split; [apply self_script|]. unfold u2_attempt, ping, mbind.
  destruct (send port (u2_request kind) n) as [[u|e| | |] n1]; try reflexivity.
  unfold udp_recv, mlift. destruct (n_udp n1) as [|[d|] r]; reflexivity.
Qed.

(* Mindustry opens a socket per attempt: that only writes to the trace *)
Lemma udp_new_same_script port t n : settings_ok t ->
  exists n', udp_new port t n = (Ok tt, n') /\ same_script n n'.
Proof.
  intros Hs. unfold udp_new, apply_timeout, settings_ok in *. destruct (ts_rw_or_default t) as [r w]. destruct Hs as [Hr Hw].
  assert (Z1 : match r with Some d => dur_zero d | None => false end = false) by (destruct r; [apply Hr; reflexivity|reflexivity]).
  assert (Z2 : match w with Some d => dur_zero d | None => false end = false) by (destruct w; [apply Hw; reflexivity|reflexivity]).
  unfold mbind, log. cbn. rewrite Z1, Z2. cbn. eexists. split; [reflexivity|]. repeat split.
Qed.
Lemma mindustry_is_ping port t : settings_ok t -> forall n, exists n', same_script n n' /\
  mindustry_attempt port t n = ping port [254; 1] (Some 500) (run_r mindustry_parse) n'.
Proof.
  intros Hs n. destruct (udp_new_same_script port t n Hs) as [n' [E S]]. exists n'. split; [exact S|].
  unfold mindustry_attempt. unfold mbind at 1. rewrite E. reflexivity.
Qed.

(* ---------- the statement, per protocol ---------- *)
(* [att] behaves under retry_on_timeout as the property says, for every fault vector *)
Definition retried_unit {A} (att : M A) (sz : option N) (f : bytes -> outcome A) : Prop :=
  (forall v r n d rest,
     (length v <= N.to_nat r)%nat ->
     faults_match v (n_sends n) (n_fail n) (n_udp n) = Some (Datagram d :: rest) ->
     existsb (N.eqb (n_sends n + N.of_nat (length v))) (n_fail n) = false ->
     exists m, retry_on_timeout r att n = (f (cut sz d), m)
               /\ n_sends m = n_sends n + N.of_nat (length v) + 1 /\ n_udp m = rest)
  /\ (forall v last r n u,
     length v = N.to_nat r ->
     faults_match (v ++ [last]) (n_sends n) (n_fail n) (n_udp n) = Some u ->
     exists m, retry_on_timeout r att n = (Err (if last then PacketSend else PacketReceive), m)
               /\ n_sends m = n_sends n + r + 1 /\ n_udp m = u).

Lemma ping_retried A port req sz (f : bytes -> outcome A) (att : M A) :
  (forall n, exists n', same_script n n' /\ att n = ping port req sz f n') ->
  (forall d, nt (f d)) -> retried_unit att sz f.
Proof.
  intros Hatt Hnt. split.
  - intros v r n d rest Hl Hm Hs. apply (faults_then_reply port req sz f att Hatt v r n d rest Hl Hm Hs). apply Hnt.
  - intros v last r n u Hl Hm. exact (faults_exhaust port req sz f att Hatt v last r n u Hl Hm).
Qed.

Theorem bedrock_retried port : retried_unit (bedrock_info_impl port) None (run_r bedrock_parse).
Proof. apply (ping_retried _ port bedrock_ping); [apply bedrock_is_ping|intro d; apply Rnt_run, bedrock_parse_nt]. Qed.
Theorem gs2_retried port : retried_unit (gs2_request_impl port) None (fun d => run_r (gs2_header d) d).
Proof. apply (ping_retried _ port gs2_request); [apply gs2_is_ping|intro d; apply Rnt_run, gs2_header_nt]. Qed.
Theorem quake_retried port v : retried_unit (get_data_impl port v) None (fun d => run_r (quake_header v) d).
Proof. eapply ping_retried; [apply quake_is_ping|intro d; apply Rnt_run, quake_header_nt]. Qed.
Theorem unreal2_retried port kind : retried_unit (u2_attempt port kind) (Some u2_packet_size) (fun d => Ok d).
Proof. eapply ping_retried; [apply unreal2_is_ping|intro d; exact I]. Qed.
Theorem mindustry_retried port t : settings_ok t -> retried_unit (mindustry_attempt port t) (Some 500) (run_r mindustry_parse).
Proof. intros Hs. eapply ping_retried; [apply mindustry_is_ping; exact Hs|intro d; apply Rnt_run, mindustry_parse_nt]. Qed.

(* the premises are satisfiable: two silences and a failed send, then a reply, r = 3 *)
Example retried_unit_ex :
  faults_match [false; true; false] 0 [1] [Timeout; Timeout; Datagram [1; 2]; Timeout] = Some [Datagram [1; 2]; Timeout]
  /\ existsb (N.eqb (0 + 3)) [1] = false.
Proof. split; reflexivity. Qed.
