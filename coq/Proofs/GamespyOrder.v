(* C08, GameSpy 3: the packets of a response are put into place by their own
   number, so the assembled list does not depend on the arrival order. *)
From GD Require Import Base.Prelude Model.Gamespy.
From Coq Require Import Permutation ZifyBool ZifyNat Lia.

(* what gs3_packets_loop does with one packet *)
Definition put (pid : nat) (body : bytes) (vs : list bytes) : list bytes :=
  set_nth pid (fun _ => body) [] (pad_to (pid + 1) [] vs).
Definition collect (pkts : list (nat * bytes)) (vs : list bytes) : list bytes :=
  fold_left (fun acc p => put (fst p) (snd p) acc) pkts vs.

Lemma pad_to_nth n : forall (vs : list bytes) k,
  nth_error (pad_to n [] vs) k = if (k <? length vs)%nat then nth_error vs k else if (k <? n)%nat then Some [] else None.
Proof.
  induction n as [|n IH]; intros vs k.
  - cbn [pad_to]. destruct (Nat.ltb_spec k (length vs)) as [E|E]; [reflexivity|].
    replace (k <? 0)%nat with false by (symmetry; apply Nat.ltb_ge; lia).
    apply nth_error_None. exact E.
  - destruct vs as [|x r]; cbn [pad_to].
    + destruct k as [|k]; [reflexivity|]. cbn [nth_error length]. rewrite IH. cbn [length].
      replace (k <? 0)%nat with false by (symmetry; apply Nat.ltb_ge; lia).
      replace (S k <? 0)%nat with false by (symmetry; apply Nat.ltb_ge; lia).
      change (S k <? S n)%nat with (k <? n)%nat. reflexivity.
    + destruct k as [|k]; [reflexivity|]. cbn [nth_error length]. rewrite IH.
      change (S k <? S (length r))%nat with (k <? length r)%nat.
      change (S k <? S n)%nat with (k <? n)%nat. reflexivity.
Qed.
Lemma set_nth_nth (i : nat) (x : bytes) : forall vs k, (i < length vs)%nat ->
  nth_error (set_nth i (fun _ => x) [] vs) k = if Nat.eqb k i then Some x else nth_error vs k.
Proof.
  induction i as [|i IH]; intros vs k Hi; destruct vs as [|v r]; cbn [length] in Hi; try lia.
  - destruct k; reflexivity.
  - destruct k as [|k]; [reflexivity|]. cbn [set_nth nth_error]. rewrite IH by lia. reflexivity.
Qed.
Lemma pad_to_length n : forall vs : list bytes, length (pad_to n [] vs) = Nat.max n (length vs).
Proof.
  induction n as [|n IH]; intros vs; [reflexivity|]. destruct vs as [|x r]; cbn [pad_to length]; rewrite IH; cbn [length]; lia.
Qed.
Lemma put_nth i x vs k :
  nth_error (put i x vs) k =
    if Nat.eqb k i then Some x
    else if (k <? length vs)%nat then nth_error vs k else if (k <? i + 1)%nat then Some [] else None.
Proof.
  unfold put. rewrite set_nth_nth by (rewrite pad_to_length; lia). rewrite pad_to_nth. reflexivity.
Qed.
Lemma set_nth_length (i : nat) (x : bytes) : forall vs, (i < length vs)%nat -> length (set_nth i (fun _ => x) [] vs) = length vs.
Proof.
  induction i as [|i IH]; intros vs Hi; destruct vs as [|v r]; cbn [length] in *; try lia; cbn [set_nth length]; [reflexivity|].
  rewrite IH by lia. reflexivity.
Qed.
Lemma put_length i x vs : length (put i x vs) = Nat.max (i + 1) (length vs).
Proof. unfold put. rewrite set_nth_length by (rewrite pad_to_length; lia). apply pad_to_length. Qed.

Lemma nth_error_ext {A} (a b : list A) : (forall k, nth_error a k = nth_error b k) -> a = b.
Proof.
  revert b. induction a as [|x a IH]; intros b H.
  - destruct b as [|y b]; [reflexivity|]. specialize (H 0%nat). discriminate.
  - destruct b as [|y b]; [specialize (H 0%nat); discriminate|].
    pose proof (H 0%nat) as H0. cbn in H0. inversion H0; subst. f_equal. apply IH. intros k. exact (H (S k)).
Qed.

(* two packets with different numbers can be put in either order *)
Lemma put_comm i j x y vs : i <> j -> put i x (put j y vs) = put j y (put i x vs).
Proof.
  intros Hij. apply nth_error_ext. intros k. rewrite !put_nth, !put_length.
  destruct (Nat.eqb_spec k i) as [Ei|Ei]; destruct (Nat.eqb_spec k j) as [Ej|Ej]; subst;
    try contradiction;
    repeat match goal with |- context [(?a <? ?b)%nat] => destruct (Nat.ltb_spec a b) end;
    try reflexivity; try lia.
Qed.

(* hence: any arrival order of packets with distinct numbers assembles the same list *)
Theorem collect_order_independent pkts pkts' vs :
  Permutation pkts pkts' -> NoDup (map fst pkts) -> collect pkts vs = collect pkts' vs.
Proof.
  intros P. revert vs. induction P as [|p l l' P IH|p q l|l l' l'' P1 IH1 P2 IH2]; intros vs Hnd.
  - reflexivity.
  - cbn [collect fold_left]. apply IH. inversion Hnd; assumption.
  - cbn [collect fold_left]. f_equal. apply put_comm. cbn [map] in Hnd. inversion Hnd as [|? ? Hin _]; subst.
    intros E. apply Hin. left. exact E.
  - rewrite IH1 by exact Hnd. apply IH2. eapply Permutation_NoDup; [apply Permutation_map; exact P1|exact Hnd].
Qed.
