(* C13: the Minecraft queries (Java, legacy, Bedrock, the auto-detecting one) make no field-driven reservation, on any
   script: their traces consist of socket set-up, requests and receives only. *)
From GD Require Import Base.Prelude Model.Strings Model.StrOps Model.Buffer Model.Net Model.Valve Model.Gamespy Model.Games Model.View Model.Minecraft.
From GD Require Import Proofs.BufferLemmas Proofs.BufInv Proofs.Msafe Proofs.QuakeTotal Proofs.GamesTotal Proofs.MinecraftRequests.

Lemma no_reserve_events port reqs : forall evs, Forall (Qnet port reqs) evs ->
  flat_map (fun e => match e with Reserve k => [k] | _ => [] end) evs = [].
Proof.
  induction 1 as [|e evs He _ IH]; [reflexivity|]. cbn [flat_map]. rewrite IH, app_nil_r. destruct e; try reflexivity. contradiction.
Qed.
Lemma Mok_no_reserve {A} port reqs (m : M A) : Mok (Qnet port reqs) m ->
  forall u tc sf, reserves (snd (m (net_init u tc sf))) = [].
Proof.
  intros H u tc sf. destruct (H (net_init u tc sf)) as [_ [_ [evs [E F]]]]. unfold reserves. rewrite E. cbn [net_init n_trace].
  rewrite app_nil_r. exact (no_reserve_events port reqs evs F).
Qed.

Section Java.
  Variable json : bytes -> option (option jv).
  Hypothesis json_total : forall t, json t <> None.
  Theorem minecraft_no_reserve : forall port t rs u tc sf, settings_ok t ->
    reserves (snd (query_java json port t rs (net_init u tc sf))) = []
    /\ reserves (snd (query_auto json port t rs (net_init u tc sf))) = []
    /\ reserves (snd (query_legacy port t (net_init u tc sf))) = []
    /\ (forall g, reserves (snd (query_legacy_specific g port t (net_init u tc sf))) = []).
  Proof.
    intros port t rs u tc sf H. repeat split.
    - exact (Mok_no_reserve _ _ _ (java_requests_ok json json_total port t rs H) u tc sf).
    - exact (Mok_no_reserve _ _ _ (auto_requests_ok json json_total port t rs H) u tc sf).
    - exact (Mok_no_reserve _ _ _ (legacy_auto_requests_ok port t H) u tc sf).
    - intros g. exact (Mok_no_reserve _ _ _ (legacy_requests_ok g port t H) u tc sf).
  Qed.
End Java.
