(* C10, GameSpy 3: silence in the middle of a reply.  Some of the packets of the reply arrive (any of them, in any order,
   but not all), then nothing: the attempt ends with the receive timeout, having consumed exactly those events, and the
   retry starts the exchange again.  Mixed with the lost handshake / lost data reply faults, any number of times up to
   the retry count, the query returns what it returns without faults. *)
From GD Require Import Base.Prelude Model.Strings Model.StrOps Model.Buffer Model.Net Model.Valve Model.Gamespy.
From GD Require Import Spec.ValveSpec Spec.QuakeSpec Spec.GamespySpec.
From GD Require Import Proofs.BufferLemmas Proofs.ReadSpecs Proofs.Str Proofs.Utf8 Proofs.ValveRoundtrip Proofs.QuakeRoundtrip Proofs.GamesProofs
  Proofs.GamespyProofs Proofs.IdProofs Proofs.GamespyOrder Proofs.Gamespy2Roundtrip Proofs.Jc2mRoundtrip Proofs.Gamespy3Roundtrip Proofs.Gamespy3Reply Proofs.Gamespy3Query
  Proofs.Gamespy3Order Proofs.Msafe Proofs.Retry Proofs.RetryProtocols.
From Coq Require Import ZifyBool ZifyNat ZifyN Lia.

(* fewer than n numbers: one below n is not among them *)
Lemma missing_index : forall n (l : list nat), (length l < n)%nat -> exists j, (j < n)%nat /\ ~ In j l.
Proof.
  induction n as [|n IH]; intros l Hl; [lia|].
  destruct (in_dec Nat.eq_dec n l) as [Hin|Hni]; [|exists n; split; [lia|exact Hni]].
  pose proof (remove_length_lt Nat.eq_dec l n Hin) as Hr.
  destruct (IH (remove Nat.eq_dec n l) ltac:(lia)) as [j [Hj Hnj]].
  exists j. split; [lia|]. intros H. apply Hnj. apply in_in_remove; [lia|exact H].
Qed.

(* some packets, not all of them, then silence *)
Theorem packets_partial_then_timeout : forall (todo done : list item) n fuel (u : list udp_event) t sn cur tr,
  (n <= 128)%nat -> (length todo < fuel)%nat ->
  NoDup (map fst (done ++ todo)) -> (forall p, In p (done ++ todo) -> (fst p < n)%nat /\ (length (snd p) + 17 <= 2048)%nat) ->
  (length (done ++ todo) < n)%nat ->
  exists tr',
    gs3_packets_loop fuel (collect done []) (if has_last n done then Some n else None)
      (mknet (map Datagram (map (dg n) todo) ++ Timeout :: u) t [] sn cur tr)
    = (Err PacketReceive, mknet u t [] sn cur tr').
Proof.
  induction todo as [|[i body] rest IH]; intros done n fuel u t sn cur tr Hn Hf Hnd Hall Hlen.
  - destruct fuel as [|fu]; [cbn in Hf; lia|]. cbn [map app]. eexists. reflexivity.
  - destruct fuel as [|fu]; [cbn in Hf; lia|].
    destruct (Hall (i, body) ltac:(apply in_or_app; right; left; reflexivity)) as [Hi Hs]. cbn [fst snd] in Hi, Hs.
    cbn [map app]. rewrite (loop_step n fu _ _ i body _ t sn cur tr Hi Hn Hs). cbv zeta.
    assert (Hc : put i body (collect done []) = collect (done ++ [(i, body)]) []) by (rewrite collect_app; reflexivity).
    assert (He : (if Nat.eqb (S i) n then Some n else if has_last n done then Some n else None) = (if has_last n (done ++ [(i, body)]) then Some n else None)).
    { unfold has_last. rewrite existsb_app. cbn [existsb fst]. destruct (Nat.eqb (S i) n); cbn [orb]; [rewrite orb_true_r|rewrite orb_false_r]; reflexivity. }
    rewrite Hc, He.
    assert (Hnd' : NoDup (map fst ((done ++ [(i, body)]) ++ rest))) by (rewrite <- app_assoc; exact Hnd).
    assert (Hall' : forall p, In p ((done ++ [(i, body)]) ++ rest) -> (fst p < n)%nat /\ (length (snd p) + 17 <= 2048)%nat)
      by (intros p Hp; apply Hall; rewrite <- app_assoc in Hp; exact Hp).
    assert (Hlen' : (length ((done ++ [(i, body)]) ++ rest) < n)%nat) by (rewrite <- app_assoc; exact Hlen).
    clear Hnd Hall Hlen. rename Hnd' into Hnd, Hall' into Hall, Hlen' into Hlen.
    assert (Hnr : reached (collect (done ++ [(i, body)]) []) (if has_last n (done ++ [(i, body)]) then Some n else None) = false).
    { destruct (has_last n (done ++ [(i, body)])); [|reflexivity].
      destruct (missing_index n (map fst ((done ++ [(i, body)]) ++ rest)) ltac:(rewrite map_length; exact Hlen)) as [j [Hj Hnj]].
      apply (not_reached _ n j Hj). apply collect_absent; [|right; destruct j; reflexivity].
      intros Hin. apply Hnj. rewrite map_app. apply in_or_app. left. exact Hin. }
    rewrite Hnr.
    destruct (IH (done ++ [(i, body)]) n fu u t sn cur (RecvEv (Some 2048) :: tr) Hn ltac:(cbn [length] in *; lia) Hnd Hall Hlen) as [tr' E].
    exists tr'. exact E.
Qed.

(* ---------- the faults of one exchange ---------- *)
Inductive gs3_fault2 :=
| NoHandshake                       (* the handshake is not answered *)
| NoData                            (* the handshake is answered, the data request is not *)
| PartialData (got : list item).    (* some packets of the reply arrive, then nothing *)

Section Faults.
  Variable port : N.
  Variable s : s3_state.
  Hypothesis Hc : (- 2147483648 <= s3_challenge s < 2147483648)%Z.
  Hypothesis Hcl : (length (show_Z (s3_challenge s)) <= 10)%nat.
  Hypothesis Hn : (length (s3_payloads s) <= 128)%nat.
  Hypothesis Hsz : Forall (fun p => (length p + 17 <= 2048)%nat) (s3_payloads s).

  Definition npk : nat := length (s3_payloads s).
  (* the packets of the reply, numbered *)
  Definition reply_items : list item := items_from 0 (s3_payloads s).
  Lemma reply_items_are_the_packets : map (dg npk) reply_items = s3_packets s.
  Proof.
    unfold reply_items. rewrite <- (items_of_indexed (s3_payloads s) 0), map_map, s3_packets_payloads.
    apply map_ext. intros ib. unfold dg, item_of, pk, npk. cbn [fst snd]. rewrite N2Nat.id. reflexivity.
  Qed.

  Definition fault_events2 (f : gs3_fault2) : list udp_event :=
    match f with
    | NoHandshake => [Timeout]
    | NoData => [Datagram (s3_handshake s); Timeout]
    | PartialData got => Datagram (s3_handshake s) :: map Datagram (map (dg npk) got) ++ [Timeout]
    end.
  (* the packets that arrive are packets of the reply, each at most once, and at least one is missing *)
  Definition fault_ok (f : gs3_fault2) : Prop :=
    match f with
    | PartialData got => NoDup (map fst got) /\ incl got reply_items /\ (length got < npk)%nat
    | _ => True
    end.

  Lemma attempt_fault2 f (u : list udp_event) t sn cur tr : fault_ok f -> exists sn' tr',
    gs3_packets_impl port (mknet (fault_events2 f ++ u) t [] sn cur tr) = (Err PacketReceive, mknet u t [] sn' cur tr').
  Proof.
    intros Hok. destruct f as [| |got]; cbn [fault_events2 app].
    - do 2 eexists. reflexivity.
    - unfold gs3_packets_impl. erewrite mbind_ok by (apply gs3_handshake_ok; assumption).
      unfold gs3_data_request. erewrite mbind_ok by apply send_ok. do 2 eexists. reflexivity.
    - destruct Hok as [Hnd [Hincl Hlen]].
      unfold gs3_packets_impl. cbn [n_udp].
      erewrite mbind_ok by (apply gs3_handshake_ok; assumption).
      unfold gs3_data_request. erewrite mbind_ok by apply send_ok.
      rewrite <- app_assoc. cbn [app].
      match goal with |- context [gs3_packets_loop ?fu [] None] => match goal with |- context [mknet (_ ++ Timeout :: u) ?t1 [] ?sn1 ?cur1 ?tr1] =>
        destruct (packets_partial_then_timeout got [] npk fu u t1 sn1 cur1 tr1 Hn) as [tr' E] end end.
      + cbn [length]. rewrite !app_length, !map_length. cbn [length]. lia.
      + exact Hnd.
      + cbn [app]. intros p Hp. apply Hincl in Hp. destruct (items_from_in _ _ _ Hp) as [H1 H2]. split; [unfold npk; lia|].
        rewrite Forall_forall in Hsz. apply Hsz. exact H2.
      + exact Hlen.
      + change (collect [] []) with (@nil bytes) in E. change (has_last npk []) with false in E. cbv iota in E.
        unfold mbind at 1. rewrite E. do 2 eexists. reflexivity.
  Qed.

  Lemma faults_are_timeouts_gs3' : forall v (u : list udp_event) t sn cur tr, Forall fault_ok v -> exists sn' tr',
    timeouts_then (gs3_packets_impl port) (length v) (mknet (flat_map fault_events2 v ++ u) t [] sn cur tr) (mknet u t [] sn' cur tr').
  Proof.
    induction v as [|f v IH]; intros u t sn cur tr Hv; [do 2 eexists; constructor|].
    inversion Hv as [|? ? Hf Hv']; subst.
    cbn [flat_map length]. rewrite <- app_assoc.
    destruct (attempt_fault2 f (flat_map fault_events2 v ++ u) t sn cur tr Hf) as [sn1 [tr1 E1]].
    destruct (IH u t sn1 cur tr1 Hv') as [sn2 [tr2 T]].
    exists sn2, tr2. eapply tt_step; [exact E1|reflexivity|exact T].
  Qed.

  Theorem gs3_partial_replies_retried : forall t v,
    settings_ok t -> Forall fault_ok v -> (length v <= N.to_nat (ts_retries_or_default t))%nat ->
    wf_s3 s = true ->
    fst (gs3_query port t (net_init (flat_map fault_events2 v ++ map Datagram (s3_script s)) [] [])) = Ok (s3_expected s).
  Proof.
    intros t v Hs Hok Hv Hwf. unfold gs3_query, gs3_packets, net_init.
    destruct (udp_new_same_script port t (mknet (flat_map fault_events2 v ++ map Datagram (s3_script s)) [] [] 0 None []) Hs) as [n1 [E1 [U1 [F1 S1]]]].
    destruct n1 as [u1 t1 f1 sn1 cur1 tr1]. cbn [n_udp n_fail n_sends] in U1, F1, S1. subst u1 f1.
    unfold mbind at 1. unfold mbind at 1. rewrite E1.
    destruct (faults_are_timeouts_gs3' v (map Datagram (s3_script s)) t1 sn1 cur1 tr1 Hok) as [sn2 [tr2 T]].
    destruct (gs3_packets_impl_ok port s t1 sn2 cur1 tr2 Hc Hcl Hn Hsz) as [n' E].
    rewrite (retry_first_reply_wins _ _ _ _ _ _ Hv T) by (unfold is_timeout; rewrite E; reflexivity).
    rewrite E. unfold mlift. cbn [fst]. apply gs3_roundtrip. exact Hwf.
  Qed.
End Faults.
