(* Delimiter-separated text: split / join lemmas shared by the backslash
   formats (master-server filters, Quake, GameSpy 1). *)
From GD Require Import Base.Prelude Model.StrOps.
From Coq Require Import ZifyBool ZifyNat ZifyN.

Lemma split_on_field : forall d s cur, ~ In d s -> split_on d s cur = [rev cur ++ s].
Proof.
  intros d s. induction s as [|x s IH]; intros cur Hn; cbn [split_on].
  - rewrite app_nil_r. reflexivity.
  - destruct (x =? d) eqn:E; [exfalso; apply Hn; left; lia|].
    rewrite IH by (intro H; apply Hn; right; exact H). cbn [rev]. rewrite <- app_assoc. reflexivity.
Qed.
Lemma split_on_app : forall d s r cur, ~ In d s ->
  split_on d (s ++ d :: r) cur = (rev cur ++ s) :: split_on d r [].
Proof.
  intros d s. induction s as [|x s IH]; intros r cur Hn; cbn [split_on app].
  - rewrite N.eqb_refl, app_nil_r. reflexivity.
  - destruct (x =? d) eqn:E; [exfalso; apply Hn; left; lia|].
    rewrite IH by (intro H; apply Hn; right; exact H). cbn [rev]. rewrite <- app_assoc. reflexivity.
Qed.

(* ---- decimal rendering and reading are mutually inverse ---- *)
Lemma dec_digits_read : forall fuel n acc, n < 2 ^ N.of_nat fuel ->
  fold_left dec_step (dec_digits fuel n acc) (Some 0) = fold_left dec_step acc (Some n).
Proof.
  induction fuel as [|f IH]; intros n acc Hn.
  - cbn in Hn. assert (n = 0) by lia. subst. reflexivity.
  - cbn [dec_digits]. destruct (n <? 10) eqn:E.
    + cbn [fold_left dec_step]. assert (H1 : (48 <=? 48 + n mod 10) && (48 + n mod 10 <=? 57) = true) by lia.
      rewrite H1. f_equal. f_equal. rewrite N.mod_small by lia. lia.
    + rewrite IH.
      * cbn [fold_left dec_step]. assert (H1 : (48 <=? 48 + n mod 10) && (48 + n mod 10 <=? 57) = true).
        { pose proof (N.mod_lt n 10). lia. }
        rewrite H1. f_equal. f_equal. pose proof (N.div_mod n 10). lia.
      * rewrite Nat2N.inj_succ, N.pow_succ_r' in Hn. apply N.div_lt_upper_bound; lia.
Qed.

Lemma dec_digits_nonempty : forall fuel n acc, dec_digits (S fuel) n acc <> [].
Proof.
  intros fuel n. revert n. induction fuel as [|f IH]; intros n acc; cbn [dec_digits].
  - destruct (n <? 10); discriminate.
  - destruct (n <? 10); [discriminate|]. apply IH.
Qed.

Lemma show_N_read : forall n, dec_read (show_N n) = Some n.
Proof.
  intro n. unfold dec_read, show_N.
  pose proof (dec_digits_nonempty (N.to_nat (N.log2 n)) n []) as Hne.
  destruct (dec_digits (S (N.to_nat (N.log2 n))) n []) eqn:E; [contradiction|]. rewrite <- E.
  rewrite dec_digits_read; [reflexivity|].
  rewrite Nat2N.inj_succ, N2Nat.id.
  destruct (N.eq_dec n 0) as [->|Hz]; [reflexivity|]. apply N.log2_spec. lia.
Qed.

(* digits contain neither a backslash nor NUL *)
Lemma dec_digits_clean : forall fuel n acc c, In c (dec_digits fuel n acc) -> In c acc \/ (48 <= c /\ c <= 57).
Proof.
  induction fuel as [|f IH]; intros n acc c H; cbn [dec_digits] in H; [left; exact H|].
  assert (Hd : 48 <= 48 + n mod 10 /\ 48 + n mod 10 <= 57) by (pose proof (N.mod_lt n 10); lia).
  destruct (n <? 10).
  - destruct H as [<-|H]; [right; exact Hd|left; exact H].
  - apply IH in H. destruct H as [[<-|H]|H]; [right; exact Hd|left; exact H|right; exact H].
Qed.
Lemma show_N_digits : forall n c, In c (show_N n) -> 48 <= c /\ c <= 57.
Proof. intros n c H. unfold show_N in H. apply dec_digits_clean in H. destruct H as [[]|H]; exact H. Qed.

(* ---- a string of '\key\value' chunks splits back into its keys and values ---- *)
Definition no_delim (d : N) (s : bytes) : Prop := ~ In d s.
Definition chunk (d : N) (kv : bytes * bytes) : bytes := [d] ++ fst kv ++ [d] ++ snd kv.
Fixpoint flat_kv (l : list (bytes * bytes)) : list bytes :=
  match l with [] => [] | (k, v) :: r => k :: v :: flat_kv r end.

Lemma split_chunks : forall d (l : list (bytes * bytes)) k v,
  Forall (fun kv => no_delim d (fst kv) /\ no_delim d (snd kv)) ((k, v) :: l) ->
  split d (k ++ [d] ++ v ++ concat (map (chunk d) l)) = k :: v :: flat_kv l.
Proof.
  intros d l. induction l as [|[k' v'] l IH]; intros k v Hall.
  - inversion Hall as [|x xs [Hk Hv] _]; subst. cbn [map concat fst snd] in *. rewrite app_nil_r.
    unfold split. cbn [app]. rewrite split_on_app by exact Hk. cbn [rev app]. rewrite split_on_field by exact Hv. reflexivity.
  - inversion Hall as [|x xs [Hk Hv] Hrest]; subst. cbn [fst snd] in *.
    cbn [map concat flat_kv]. unfold chunk at 1. cbn [fst snd].
    unfold split. cbn [app]. rewrite split_on_app by exact Hk. cbn [rev app]. f_equal.
    rewrite split_on_app by exact Hv. cbn [rev app]. f_equal.
    rewrite <- app_assoc. cbn [app]. exact (IH k' v' Hrest).
Qed.
