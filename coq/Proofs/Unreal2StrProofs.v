(* C06: the Unreal 2 string decoder returns exactly the text that was sent,
   for both encodings, every length byte, with colour codes removed. *)
From GD Require Import Base.Prelude Model.Strings Model.StrOps Model.Buffer Model.Unreal2Str Model.Net Model.Unreal2 Spec.Unreal2Spec.
From GD Require Import Proofs.BufferLemmas Proofs.ReadSpecs Proofs.Varint.
From Coq Require Import ZifyBool ZifyNat ZifyN.
Ltac Zify.zify_post_hook ::= Z.div_mod_to_equations.

(* text characters of the domain: no NUL, no control codes 01..1a, no escape *)
Definition plain (c : N) : bool := 27 <? c.
Definition seg_ok (s : seg) : bool :=
  match s with
  | Txt cs => forallb plain cs
  | Colour r g b => negb (r =? 27) && negb (g =? 27) && negb (b =? 27)
  end.

(* stripping the colour codes of an encoded string leaves its text; [k] is the
   pending skip count, 0 or 1 (1 = the character right after a colour code) *)
Lemma strip_colour_text : forall cs k rest, k <= 1 -> forallb plain cs = true ->
  strip_colour k (cs ++ rest) = cs ++ strip_colour (match cs with [] => k | _ => 0 end) rest.
Proof.
  induction cs as [|c cs IH]; intros k rest Hk H; [reflexivity|].
  cbn [forallb] in H. apply andb_prop in H. destruct H as [Hc Hcs]. unfold plain in Hc.
  cbn [app strip_colour]. destruct (c =? 27) eqn:E; [lia|].
  assert (Hz : k - 1 = 0) by lia. rewrite Hz. cbn [N.eqb]. f_equal.
  rewrite (IH 0 rest) by (try lia; exact Hcs). destruct cs; reflexivity.
Qed.
Lemma strip_colour_code : forall r g b k rest, r <> 27 -> g <> 27 -> b <> 27 ->
  strip_colour k (27 :: r :: g :: b :: rest) = strip_colour 1 rest.
Proof.
  intros r g b k rest Hr Hg Hb. cbn [strip_colour]. change (27 =? 27) with true. cbv iota.
  destruct (r =? 27) eqn:E1; [lia|]. change (4 - 1) with 3. change (3 =? 0) with false. cbv iota.
  destruct (g =? 27) eqn:E2; [lia|]. change (3 - 1) with 2. change (2 =? 0) with false. cbv iota.
  destruct (b =? 27) eqn:E3; [lia|]. change (2 - 1) with 1. change (1 =? 0) with false. cbv iota. reflexivity.
Qed.

Lemma strip_colour_segs : forall segs k tail, k <= 1 -> forallb seg_ok segs = true ->
  (forall k', k' <= 1 -> strip_colour k' tail = tail) ->
  strip_colour k (raw_of segs ++ tail) = text_of segs ++ tail.
Proof.
  induction segs as [|s segs IH]; intros k tail Hk H Ht; [cbn; apply Ht; exact Hk|].
  cbn [forallb] in H. apply andb_prop in H. destruct H as [Hs Hsegs].
  change (raw_of (s :: segs)) with (seg_raw s ++ raw_of segs).
  change (text_of (s :: segs)) with ((match s with Txt c => c | Colour _ _ _ => [] end) ++ text_of segs).
  destruct s as [cs|r g b]; cbn [seg_raw].
  - rewrite <- !app_assoc. cbn [seg_ok] in Hs. rewrite strip_colour_text by assumption. f_equal.
    apply IH; [destruct cs; lia|exact Hsegs|exact Ht].
  - cbn [seg_ok] in Hs. apply andb_prop in Hs. destruct Hs as [Hs Hb]. apply andb_prop in Hs. destruct Hs as [Hr Hg].
    cbn [app]. rewrite strip_colour_code by lia. cbn [app]. apply IH; [lia|exact Hsegs|exact Ht].
Qed.

Lemma text_plain : forall segs, forallb seg_ok segs = true -> forallb plain (text_of segs) = true.
Proof.
  unfold text_of. induction segs as [|s segs IH]; intro H; [reflexivity|]. cbn [forallb] in H. apply andb_prop in H. destruct H as [Hs Hsegs].
  cbn [flat_map]. rewrite forallb_app. rewrite (IH Hsegs). destruct s; cbn [seg_ok] in Hs; [rewrite Hs; reflexivity|reflexivity].
Qed.

Lemma strip_control_plain : forall l tail, forallb plain l = true -> strip_control (l ++ tail) = l ++ strip_control tail.
Proof.
  induction l as [|c l IH]; intros tail H; [reflexivity|]. cbn [forallb] in H. apply andb_prop in H. destruct H as [Hc Hl].
  unfold plain in Hc. unfold strip_control in *. cbn [app filter].
  destruct ((0 <? c) && (c <=? 26)) eqn:E; [lia|]. cbn [negb]. rewrite IH by exact Hl. reflexivity.
Qed.

Lemma trim_start_plain : forall l, forallb plain l = true -> trim_start_nul l = l.
Proof. intros [|c l] H; [reflexivity|]. cbn [forallb] in H. apply andb_prop in H. destruct H as [Hc _]. unfold plain in Hc. destruct c; [lia|reflexivity]. Qed.

(* cleaning: colour codes out, optional terminating NUL out, text untouched *)
Lemma u2_clean_segs : forall segs (nul : bool), forallb seg_ok segs = true ->
  u2_clean (raw_of segs ++ (if nul then [0] else [])) = text_of segs.
Proof.
  intros segs nul H. pose proof (text_plain segs H) as Hp. unfold u2_clean.
  rewrite strip_colour_segs; [|lia|exact H|intros k' Hk'; destruct nul; [cbn [strip_colour]; change (0 =? 27) with false; cbv iota; destruct (k' - 1 =? 0) eqn:E; [reflexivity|lia]|reflexivity]].
  rewrite strip_control_plain by exact Hp.
  assert (Hsc : strip_control (if nul then [0] else []) = (if nul then [0] else [])) by (destruct nul; reflexivity).
  rewrite Hsc. unfold trim_nul.
  destruct nul.
  - destruct (text_of segs) as [|c l] eqn:E; [reflexivity|].
    assert (Hstart : trim_start_nul ((c :: l) ++ [0]) = (c :: l) ++ [0]).
    { cbn [app]. cbn [forallb] in Hp. apply andb_prop in Hp. destruct Hp as [Hc _].
      unfold plain in Hc. destruct c; [lia|reflexivity]. }
    rewrite Hstart, rev_app_distr. cbn [rev app trim_start_nul].
    change (rev l ++ [c]) with (rev (c :: l)).
    rewrite trim_start_plain by (rewrite forallb_forall in *; intros x Hx; apply Hp; apply in_rev; exact Hx).
    apply rev_involutive.
  - rewrite app_nil_r. rewrite (trim_start_plain (text_of segs)) by exact Hp.
    rewrite trim_start_plain by (rewrite forallb_forall in *; intros x Hx; apply Hp; apply in_rev; exact Hx).
    apply rev_involutive.
Qed.

(* w1252 fixes NUL, the escape and the control range, and keeps text plain *)
Lemma w1252_low : forall c, c < 128 -> w1252 c = c.
Proof. intros c H. unfold w1252, in_rng. destruct ((128 <=? c) && (c <=? 159)) eqn:E; [lia|reflexivity]. Qed.
Lemma w1252_plain : forall c, c < 256 -> plain c = true -> plain (w1252 c) = true.
Proof.
  intros c Hc Hp.
  pose proof (N_forall_lt (fun c => implb (plain c) (plain (w1252 c))) 256 eq_refl c Hc) as H. cbv beta in H.
  rewrite Hp in H. exact H.
Qed.
Definition seg_map (s : seg) : seg := match s with Txt cs => Txt (map w1252 cs) | Colour r g b => Colour (w1252 r) (w1252 g) (w1252 b) end.

Lemma w1252_27 : forall c, c < 256 -> c <> 27 -> w1252 c <> 27.
Proof.
  intros c Hc Hn. pose proof (N_forall_lt (fun c => (c =? 27) || negb (w1252 c =? 27)) 256 eq_refl c Hc) as H. cbv beta in H. lia.
Qed.
Definition seg_ok8 (s : seg) : bool :=
  seg_ok s && match s with Txt cs => forallb (fun c => c <? 256) cs | Colour r g b => (r <? 256) && (g <? 256) && (b <? 256) end.
Lemma seg_map_ok : forall s, seg_ok8 s = true -> seg_ok (seg_map s) = true.
Proof.
  intros [cs|r g b] H; unfold seg_ok8 in H; apply andb_prop in H; destruct H as [H1 H2]; cbn [seg_map seg_ok] in *.
  - rewrite forallb_forall in *. intros x Hx. apply in_map_iff in Hx. destruct Hx as [c [<- Hc]].
    apply w1252_plain; [specialize (H2 c Hc); lia|apply H1; exact Hc].
  - repeat (apply andb_prop in H1; destruct H1 as [H1 ?]). repeat (apply andb_prop in H2; destruct H2 as [H2 ?]).
    pose proof (w1252_27 r). pose proof (w1252_27 g). pose proof (w1252_27 b). lia.
Qed.
Lemma raw_of_map : forall segs, map w1252 (raw_of segs) = raw_of (map seg_map segs).
Proof.
  induction segs as [|s segs IH]; [reflexivity|].
  change (raw_of (s :: segs)) with (seg_raw s ++ raw_of segs). rewrite map_app, IH.
  change (raw_of (map seg_map (s :: segs))) with (seg_raw (seg_map s) ++ raw_of (map seg_map segs)). f_equal.
  destruct s; cbn [seg_raw seg_map map]; [reflexivity|]. rewrite (w1252_low 27) by lia. reflexivity.
Qed.
Lemma text_of_map : forall segs, text_of (map seg_map segs) = map w1252 (text_of segs).
Proof.
  unfold text_of. induction segs as [|s segs IH]; [reflexivity|]. cbn [map flat_map]. rewrite map_app, IH. destruct s; reflexivity.
Qed.

(* a latin1 string: the length byte is followed by exactly that many bytes *)
Theorem u2_latin1_string : forall segs (nul : bool) pre r,
  forallb seg_ok8 segs = true ->
  lenN (raw_of segs ++ (if nul then [0] else [])) < 128 ->
  dec_unreal2 (at_ pre (enc_ustring (mk_ws Latin1 segs nul) ++ r))
  = (Ok (expected_ustring (mk_ws Latin1 segs nul)), at_ (pre ++ enc_ustring (mk_ws Latin1 segs nul)) r).
Proof.
  intros segs nul pre r Hok Hlen. unfold enc_ustring, expected_ustring. cbn [ws_enc ws_segs ws_nul].
  set (raw := raw_of segs ++ (if nul then [0] else [])) in *.
  unfold dec_unreal2, with_slice. cbn [at_ over rest N.eqb app].
  destruct (128 <=? lenN raw) eqn:E; [lia|].
  replace (N.to_nat (lenN raw)) with (length raw) by (unfold lenN; lia). rewrite take_n_app.
  replace (length raw) with (N.to_nat (lenN raw)) by (unfold lenN; lia). f_equal.
  - f_equal. f_equal. subst raw. rewrite map_app, raw_of_map.
    assert (Hn : map w1252 (if nul then [0] else []) = (if nul then [0] else [])) by (destruct nul; reflexivity).
    rewrite Hn, u2_clean_segs, text_of_map; [reflexivity|].
    rewrite forallb_forall in *. intros x Hx. apply in_map_iff in Hx. destruct Hx as [s [<- Hs]]. apply seg_map_ok, Hok, Hs.
  - replace (1 + N.to_nat (lenN raw))%nat with (length (lenN raw :: raw)) by (cbn [length]; unfold lenN; lia).
    apply (advance_at (lenN raw :: raw) pre r).
Qed.

(* ---- UCS-2 ---- *)
Definition scalar_ok (c : N) : bool := (c <? 1114112) && negb (in_rng 55296 57343 c).
Lemma utf16_roundtrip : forall l, forallb scalar_ok l = true -> utf16_scalars (flat_map utf16_units1 l) = Some l.
Proof.
  induction l as [|c l IH]; intro H; [reflexivity|]. cbn [forallb] in H. apply andb_prop in H. destruct H as [Hc Hl].
  unfold scalar_ok, in_rng in Hc. cbn [flat_map]. unfold utf16_units1 at 1.
  destruct (c <? 65536) eqn:E.
  - cbn [app utf16_scalars]. unfold in_rng. destruct ((55296 <=? c) && (c <=? 56319)) eqn:E1; [lia|].
    destruct ((56320 <=? c) && (c <=? 57343)) eqn:E2; [lia|]. rewrite (IH Hl). reflexivity.
  - cbn [app utf16_scalars]. unfold in_rng.
    set (hi := 55296 + (c - 65536) / 1024). set (lo := 56320 + (c - 65536) mod 1024).
    assert (H1 : (55296 <=? hi) && (hi <=? 56319) = true) by (subst hi; lia).
    assert (H2 : (56320 <=? lo) && (lo <=? 57343) = true) by (subst lo; lia).
    rewrite H1, H2, (IH Hl). f_equal. f_equal. subst hi lo. lia.
Qed.
Lemma units_lt : forall l, forallb scalar_ok l = true -> Forall (fun u => u < 65536) (flat_map utf16_units1 l).
Proof.
  induction l as [|c l IH]; intro H; [constructor|]. cbn [forallb] in H. apply andb_prop in H. destruct H as [Hc Hl].
  unfold scalar_ok, in_rng in Hc. cbn [flat_map]. apply Forall_app. split; [|apply IH; exact Hl].
  unfold utf16_units1. destruct (c <? 65536) eqn:E; repeat constructor; lia.
Qed.
Lemma u16_units_le : forall units, Forall (fun u => u < 65536) units -> u16_units false (utf16le units) = units.
Proof.
  induction units as [|u units IH]; intro H; [reflexivity|]. inversion H; subst. cbn [utf16le flat_map app u16_units].
  change (flat_map (fun u0 : N => [u0 mod 256; u0 / 256]) units) with (utf16le units). rewrite IH by assumption. f_equal. lia.
Qed.
Lemma utf16le_length : forall units, length (utf16le units) = (2 * length units)%nat.
Proof. induction units as [|u units IH]; [reflexivity|]. cbn [utf16le flat_map app length] in *. unfold utf16le in IH. rewrite IH. lia. Qed.

(* a UCS-2 string (outside the 01-marker quirk): 2 x (length byte & 7f) bytes of UTF-16LE *)
Theorem u2_ucs2_string : forall segs (nul : bool) pre r,
  forallb seg_ok segs = true ->
  let raw := raw_of segs ++ (if nul then [0] else []) in
  let units := flat_map utf16_units1 raw in
  forallb scalar_ok raw = true -> lenN units < 128 ->
  (match utf16le units ++ r with 1 :: _ => False | _ => True end) ->
  dec_unreal2 (at_ pre (enc_ustring (mk_ws Ucs2 segs nul) ++ r))
  = (Ok (expected_ustring (mk_ws Ucs2 segs nul)), at_ (pre ++ enc_ustring (mk_ws Ucs2 segs nul)) r).
Proof.
  intros segs nul pre r Hok raw units Hsc Hlen Hq. unfold enc_ustring, expected_ustring. cbn [ws_enc ws_segs ws_nul].
  fold raw. fold units. unfold dec_unreal2, with_slice. cbn [at_ over rest N.eqb app].
  destruct (128 <=? 128 + lenN units) eqn:E; [|lia].
  replace (((128 + lenN units) mod 128) * 2) with (2 * lenN units) by lia.
  assert (Hbody : match utf16le units ++ r with 1 :: tl' => (2%nat, tl') | _ => (1%nat, utf16le units ++ r) end = (1%nat, utf16le units ++ r)).
  { destruct (utf16le units ++ r) as [|x tl]; [reflexivity|]. destruct x as [|p]; [reflexivity|]. destruct p; try reflexivity. contradiction. }
  rewrite Hbody.
  replace (N.to_nat (2 * lenN units)) with (length (utf16le units)) by (rewrite utf16le_length; unfold lenN; lia).
  rewrite take_n_app, (u16_units_le units (units_lt raw Hsc)). subst units. rewrite (utf16_roundtrip raw Hsc).
  f_equal.
  - subst raw. rewrite u2_clean_segs by exact Hok. reflexivity.
  - replace (1 + length (utf16le (flat_map utf16_units1 raw)))%nat
      with (length ((128 + lenN (flat_map utf16_units1 raw)) :: utf16le (flat_map utf16_units1 raw))) by (cbn [length]; lia).
    apply (advance_at ((128 + lenN (flat_map utf16_units1 raw)) :: utf16le (flat_map utf16_units1 raw)) pre r).
Qed.
