(* C17 invariant: every reader operation keeps the cursor inside the packet and
   leaves the packet's bytes untouched. *)
From GD Require Import Base.Prelude Model.Strings Model.Buffer Model.Unreal2Str Model.BufOps Proofs.BufferLemmas.
From Coq Require Import ZifyBool ZifyNat ZifyN.

(* invariant + the packet is [d] *)
Definition good (d : bytes) (b : buf) : Prop := buf_inv b /\ buf_data b = d.
Definition preserves {A} (m : R A) : Prop := forall d b, good d b -> good d (snd (m b)).

Lemma preserves_ret : forall A (a : A), preserves (ret a).
Proof. intros A a d b H. exact H. Qed.
Lemma preserves_fail : forall A e, preserves (@fail A e).
Proof. intros A e d b H. exact H. Qed.
Lemma preserves_bind : forall A B (m : R A) (f : A -> R B),
  preserves m -> (forall a, preserves (f a)) -> preserves (bind m f).
Proof.
  intros A B m f Hm Hf d b H. unfold bind. specialize (Hm d b H).
  destruct (m b) as [[a| | | |] b']; cbn [snd] in *; try exact Hm. apply Hf. exact Hm.
Qed.

Lemma good_advance : forall d n b, good d b -> (n <= length (rest b))%nat -> good d (advance n b).
Proof. intros d n b [Hi Hd] Hn. split; [apply advance_inv; assumption|]. rewrite buf_data_advance. exact Hd. Qed.

Lemma preserves_read_raw : forall w, preserves (read_raw w).
Proof.
  intros w d b [Hi Hd]. rewrite read_raw_spec by exact Hi.
  destruct (w <=? length (rest b))%nat eqn:E; cbn [snd]; [|split; assumption].
  split; [reflexivity|]. unfold buf_data in *; cbn [pre_rev rest].
  rewrite <- Hd, !rev_append_rev, rev_app_distr, rev_involutive, <- app_assoc, firstn_skipn. reflexivity.
Qed.

Lemma preserves_read_uint : forall be w, preserves (read_uint be w).
Proof. intros. unfold read_uint. apply preserves_bind; [apply preserves_read_raw|intro; apply preserves_ret]. Qed.
Lemma preserves_read_int : forall be w, preserves (read_int be w).
Proof. intros. unfold read_int. apply preserves_bind; [apply preserves_read_raw|intro; apply preserves_ret]. Qed.

Lemma preserves_move_cursor : forall off, preserves (move_cursor off).
Proof.
  intros off d b [Hi Hd]. split.
  - destruct (move_cursor_inv off b) as [H|H]; [exact H|rewrite H; exact Hi].
  - rewrite move_cursor_data. exact Hd.
Qed.

Lemma preserves_switch : forall n, preserves (switch_endian_chunk n).
Proof.
  intros n d b H. unfold switch_endian_chunk.
  pose proof (preserves_move_cursor (Z.of_nat n) d b H) as Hm.
  destruct (move_cursor (Z.of_nat n) b) as [[u| | | |] b']; cbn [snd] in *; try exact Hm.
  destruct (take_n n (rest b)) as [[x r]|]; exact Hm.
Qed.

Lemma preserves_with_slice : forall A (f : bytes -> buf -> outcome A * buf),
  (forall d b, good d b -> good d (snd (f (rest b) b))) -> preserves (with_slice f).
Proof. intros A f Hf d b H. unfold with_slice. destruct (over b =? 0); [apply Hf; exact H|exact H]. Qed.

Lemma span_until_length : forall A (p : A -> bool) l, (length (fst (span_until p l)) <= length l)%nat.
Proof.
  induction l as [|x l IH]; cbn; [lia|]. destruct (p x); cbn; [lia|].
  destruct (span_until p l); cbn in *. lia.
Qed.

Lemma preserves_dec_utf8 : forall dl, preserves (dec_utf8 dl).
Proof.
  intro dl. unfold dec_utf8. apply preserves_with_slice. intros d b H.
  destruct (span_until (N.eqb dl) (rest b)) as [s aft] eqn:E.
  destruct (utf8_valid s); cbn [snd]; [|exact H].
  apply good_advance; [exact H|]. apply Nat.le_min_r.
Qed.

Lemma preserves_dec_utf8_lp : forall dl, preserves (dec_utf8_lp dl).
Proof.
  intro dl. unfold dec_utf8_lp. apply preserves_with_slice. intros d b H.
  destruct (rest b) as [|len tl] eqn:Er; cbn [snd]; [exact H|].
  destruct (span_until (N.eqb dl) (firstn (N.to_nat len) tl)) as [s aft].
  set (position := match aft with [] => N.to_nat len | _ :: _ => length s end).
  destruct (take_n position tl) as [[s' r']|] eqn:Et; cbn [snd]; [|exact H].
  destruct (utf8_valid s'); cbn [snd]; [|exact H].
  apply good_advance; [exact H|]. rewrite Er. apply take_n_spec in Et. destruct Et as [-> Hl].
  cbn [length]. rewrite app_length. lia.
Qed.

Lemma preserves_dec_utf16 : forall be d0 d1, preserves (dec_utf16 be d0 d1).
Proof.
  intros be d0 d1. unfold dec_utf16. apply preserves_with_slice. intros d b H.
  match goal with |- context [utf16_scalars ?u] => destruct (utf16_scalars u) end; cbn [snd]; [|exact H].
  apply good_advance; [exact H|]. apply Nat.le_min_r.
Qed.

Lemma preserves_dec_unreal2 : preserves dec_unreal2.
Proof.
  unfold dec_unreal2. apply preserves_with_slice. intros d b H.
  destruct (rest b) as [|l tl] eqn:Er; cbn [snd]; [exact H|].
  destruct (128 <=? l).
  - set (sb := match tl with 1 :: tl' => (2%nat, tl') | _ => (1%nat, tl) end).
    assert (Hsb : (fst sb + length (snd sb) = length (l :: tl))%nat).
    { subst sb. destruct tl as [|[|[| |]] tl']; cbn; lia. }
    destruct sb as [start body]. cbn [fst snd] in Hsb.
    destruct (take_n _ body) as [[sd r']|] eqn:Et; cbn [snd]; [|exact H].
    match goal with |- context [utf16_scalars ?u] => destruct (utf16_scalars u) end; cbn [snd]; [|exact H].
    apply good_advance; [exact H|]. rewrite Er. apply take_n_spec in Et. destruct Et as [-> Hl].
    rewrite app_length in Hsb. lia.
  - destruct (take_n (N.to_nat l) tl) as [[sd r']|] eqn:Et; cbn [snd]; [|exact H].
    apply good_advance; [exact H|]. rewrite Er. apply take_n_spec in Et. destruct Et as [-> Hl].
    cbn [length]. rewrite app_length. lia.
Qed.

Lemma preserves_get_varint_loop : forall n i acc, preserves (get_varint_loop n i acc).
Proof.
  induction n as [|n IH]; intros i acc; cbn [get_varint_loop]; [apply preserves_ret|].
  apply preserves_bind; [apply preserves_read_uint|]. intro c.
  destruct (_ && _); [apply preserves_fail|]. destruct (_ =? 0); [apply preserves_ret|apply IH].
Qed.

Lemma preserves_get_string : preserves get_string.
Proof.
  unfold get_string. apply preserves_bind; [apply preserves_get_varint_loop|]. intros len d b H.
  destruct (remaining_length b) as [rem| | | |]; cbn [snd]; try exact H.
  destruct (rem <? _); cbn [snd]; [exact H|].
  pose proof (preserves_read_raw (N.to_nat (of_signed 64 len)) d b H) as Hr.
  destruct (read_raw _ b) as [[s| | | |] b']; cbn [snd] in *; try exact Hr.
  destruct (utf8_valid s); exact Hr.
Qed.

(* one operation of the C17 interpreter *)
Lemma run_bop_good : forall be o d b, good d b -> good d (snd (run_bop be o b)).
Proof.
  intros be o d b H. destruct o as [sg w|w|off|dl|dl|be16 dl| | | |size| |]; cbn [run_bop].
  - destruct sg.
    + pose proof (preserves_read_int be w d b H) as P. destruct (read_int be w b); exact P.
    + pose proof (preserves_read_uint be w d b H) as P. destruct (read_uint be w b); exact P.
  - pose proof (preserves_read_uint be w d b H) as P. destruct (read_uint be w b); exact P.
  - pose proof (preserves_move_cursor off d b H) as P. destruct (move_cursor off b); exact P.
  - pose proof (preserves_dec_utf8 (odflt dl 0) d b H) as P. destruct (dec_utf8 _ b); exact P.
  - pose proof (preserves_dec_utf8_lp (odflt dl 0) d b H) as P. destruct (dec_utf8_lp _ b); exact P.
  - destruct (odflt dl (0, 0)) as [d0 d1].
    pose proof (preserves_dec_utf16 be16 d0 d1 d b H) as P. destruct (dec_utf16 _ _ _ b); exact P.
  - pose proof (preserves_dec_unreal2 d b H) as P. destruct (dec_unreal2 b); exact P.
  - exact H.
  - exact H.
  - pose proof (preserves_switch size d b H) as P.
    destruct (switch_endian_chunk size b) as [[c| | | |] b']; exact P.
  - pose proof (preserves_get_varint_loop 5 0 0 d b H) as P. unfold get_varint. destruct (get_varint_loop 5 0 0 b); exact P.
  - pose proof (preserves_get_string d b H) as P. destruct (get_string b); exact P.
Qed.

Lemma run_bops_good : forall be ops d b, good d b -> good d (run_bops_state be ops b).
Proof.
  unfold run_bops_state. induction ops as [|o ops IH]; intros d b H; cbn [run_bops snd]; [exact H|].
  pose proof (run_bop_good be o d b H) as P.
  destruct (run_bop be o b) as [res b']. cbn [snd] in P.
  destruct (stops res); cbn [snd]; [exact P|].
  specialize (IH d b' P). destruct (run_bops be ops b'). exact IH.
Qed.

Lemma safe_omap : forall A B (f : A -> B) o, safe o -> safe (omap f o).
Proof. intros A B f [a| | | |] H; exact H. Qed.
Lemma read_uint_safe : forall be w b, buf_inv b -> safe (fst (read_uint be w b)).
Proof.
  intros be w b Hi. unfold read_uint, bind, ret. rewrite read_raw_spec by exact Hi.
  destruct (w <=? length (rest b))%nat; exact I.
Qed.

(* under the invariant no operation panics *)
Lemma run_bop_safe : forall be o b, buf_inv b -> safe (fst (run_bop be o b)).
Proof.
  intros be o b Hi. unfold buf_inv in Hi.
  assert (Hraw : forall w, safe (fst (read_raw w b))).
  { intro w. unfold read_raw. rewrite Hi. cbn. destruct (take_n w (rest b)) as [[x r]|]; exact I. }
  destruct o as [sg w|w|off|dl|dl|be16 dl| | | |size| |]; cbn [run_bop].
  - destruct sg.
    + unfold read_int, bind, ret. specialize (Hraw w). destruct (read_raw w b) as [[x| | | |] b']; cbn in *; auto.
    + unfold read_uint, bind, ret. specialize (Hraw w). destruct (read_raw w b) as [[x| | | |] b']; cbn in *; auto.
  - unfold read_uint, bind, ret. specialize (Hraw w). destruct (read_raw w b) as [[x| | | |] b']; cbn in *; auto.
  - unfold move_cursor. destruct (_ || _); [exact I|].
    destruct (0 <=? _)%Z; [destruct (take_n _ _) as [[x r]|]|destruct (retreat _ _ _) as [[p r]|]]; exact I.
  - unfold dec_utf8, with_slice. rewrite Hi. cbn. destruct (span_until _ _). destruct (utf8_valid _); exact I.
  - unfold dec_utf8_lp, with_slice. rewrite Hi. cbn. destruct (rest b) as [|len tl]; [exact I|].
    destruct (span_until _ _). destruct (take_n _ tl) as [[s' r']|]; [|exact I]. destruct (utf8_valid s'); exact I.
  - destruct (odflt dl (0, 0)) as [d0 d1]. unfold dec_utf16, with_slice. rewrite Hi. cbn.
    match goal with |- context [utf16_scalars ?u] => destruct (utf16_scalars u) end; exact I.
  - unfold dec_unreal2, with_slice. rewrite Hi. cbn. destruct (rest b) as [|l tl]; [exact I|].
    destruct (128 <=? l).
    + destruct (match tl with 1 :: tl' => (2%nat, tl') | _ => (1%nat, tl) end) as [start body].
      destruct (take_n _ body) as [[sd r']|]; [|exact I].
      match goal with |- context [utf16_scalars ?u] => destruct (utf16_scalars u) end; exact I.
    + destruct (take_n _ tl) as [[sd r']|]; exact I.
  - unfold remaining_bytes. rewrite Hi. exact I.
  - unfold remaining_length. rewrite Hi. exact I.
  - unfold switch_endian_chunk.
    assert (Hm : forall off, safe (fst (move_cursor off b)) /\
                  (forall u b', move_cursor (Z.of_nat size) b = (Ok u, b') -> exists x r, take_n size (rest b) = Some (x, r))).
    { intro off. split.
      - unfold move_cursor. destruct (_ || _); [exact I|].
        destruct (0 <=? _)%Z; [destruct (take_n _ _) as [[x r]|]|destruct (retreat _ _ _) as [[p r]|]]; exact I.
      - intros u b'. unfold move_cursor. destruct (_ || _); [discriminate|]. rewrite Hi.
        replace (Z.of_nat size + Z.of_N 0)%Z with (Z.of_nat size) by lia.
        destruct (0 <=? Z.of_nat size)%Z eqn:E; [|lia]. rewrite Nat2Z.id.
        destruct (take_n size (rest b)) as [[x r]|]; [eauto|discriminate]. }
    destruct (Hm (Z.of_nat size)) as [Hs Ht].
    destruct (move_cursor (Z.of_nat size) b) as [[u| | | |] b'] eqn:E; cbn in Hs; try contradiction; try exact I.
    destruct (Ht u b' eq_refl) as [x [r Hx]]. rewrite Hx. cbn [fst].
    apply safe_omap. apply read_uint_safe. reflexivity.
  - (* get_varint *)
    assert (G : forall n i acc b0, buf_inv b0 -> safe (fst (get_varint_loop n i acc b0))).
    { induction n as [|n IH]; intros i acc b0 H0; cbn [get_varint_loop]; [exact I|].
      unfold bind at 1. unfold read_u8, read_uint, bind, ret.
      rewrite read_raw_spec by exact H0. destruct (1 <=? length (rest b0))%nat; [|exact I].
      cbn. destruct (_ && _); [exact I|]. destruct (_ =? 0); [exact I|]. apply IH. reflexivity. }
    specialize (G 5%nat 0 0 b Hi). unfold get_varint. destruct (get_varint_loop 5 0 0 b) as [[z| | | |] b']; cbn in *; auto.
  - (* get_string *)
    assert (G : forall n i acc b0, buf_inv b0 -> safe (fst (get_varint_loop n i acc b0)) /\ buf_inv (snd (get_varint_loop n i acc b0))).
    { intros n i acc b0 H0. split.
      - revert i acc b0 H0. induction n as [|n IH]; intros i acc b0 H0; cbn [get_varint_loop]; [exact I|].
        unfold bind at 1. unfold read_u8, read_uint, bind, ret.
        rewrite read_raw_spec by exact H0. destruct (1 <=? length (rest b0))%nat; [|exact I].
        cbn. destruct (_ && _); [exact I|]. destruct (_ =? 0); [exact I|]. apply IH. reflexivity.
      - exact (proj1 (preserves_get_varint_loop n i acc (buf_data b0) b0 (conj H0 eq_refl))). }
    unfold get_string, get_varint, bind. destruct (G 5%nat 0 0 b Hi) as [G1 G2].
    destruct (get_varint_loop 5 0 0 b) as [[len| | | |] b'] eqn:E; cbn in G1; try contradiction; try exact I.
    cbn [snd] in G2. unfold remaining_length. rewrite G2. cbn.
    destruct (_ <? _); [exact I|]. rewrite read_raw_spec by exact G2.
    destruct (_ <=? _)%nat; [|exact I]. cbn. destruct (utf8_valid _); exact I.
Qed.
