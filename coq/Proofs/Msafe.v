(* A small logic for "for every script" statements about the reader monad R
   and the network monad M: no panic / abort / fuel exhaustion, the script only
   shrinks, and every new trace event satisfies a predicate Q. Used by C01
   (totality), C09 (request shapes) and C13 (reservations). *)
From GD Require Import Base.Prelude Model.Strings Model.Buffer Model.Net Proofs.BufferLemmas Proofs.BufInv.
From Coq Require Import ZifyBool ZifyNat ZifyN.

(* ---------- R ---------- *)
Definition Rsafe {A} (m : R A) : Prop :=
  forall b, buf_inv b -> safe (fst (m b)) /\ buf_inv (snd (m b)).

Lemma Rsafe_ret : forall A (a : A), Rsafe (ret a).
Proof. intros A a b H. split; [exact I|exact H]. Qed.
Lemma Rsafe_fail : forall A e, Rsafe (@fail A e).
Proof. intros A e b H. split; [exact I|exact H]. Qed.
Lemma Rsafe_lift : forall A (o : outcome A), safe o -> Rsafe (lift o).
Proof. intros A o Ho b H. split; [exact Ho|exact H]. Qed.
Lemma Rsafe_bind : forall A B (m : R A) (f : A -> R B), Rsafe m -> (forall a, Rsafe (f a)) -> Rsafe (bind m f).
Proof.
  intros A B m f Hm Hf b H. unfold bind. destruct (Hm b H) as [H1 H2].
  destruct (m b) as [[a|e| | |] b']; cbn [fst snd] in *; try contradiction; [apply Hf; exact H2|split; [exact I|exact H2]].
Qed.
Lemma Rsafe_read_raw : forall w, Rsafe (read_raw w).
Proof.
  intros w b H. rewrite read_raw_spec by exact H. destruct (w <=? length (rest b))%nat; cbn [fst snd]; split; try exact I; [reflexivity|exact H].
Qed.
Lemma Rsafe_read_uint : forall be w, Rsafe (read_uint be w).
Proof. intros. unfold read_uint. apply Rsafe_bind; [apply Rsafe_read_raw|intro; apply Rsafe_ret]. Qed.
Lemma Rsafe_read_int : forall be w, Rsafe (read_int be w).
Proof. intros. unfold read_int. apply Rsafe_bind; [apply Rsafe_read_raw|intro; apply Rsafe_ret]. Qed.
Lemma Rsafe_read_u8 : Rsafe read_u8.
Proof. apply Rsafe_read_uint. Qed.
Lemma Rsafe_move_cursor : forall off, Rsafe (move_cursor off).
Proof.
  intros off b H. split.
  - unfold move_cursor. destruct (_ || _); [exact I|].
    destruct (0 <=? _)%Z; [destruct (take_n _ _) as [[x r]|]|destruct (retreat _ _ _) as [[p r]|]]; exact I.
  - destruct (move_cursor_inv off b) as [Hm|Hm]; [exact Hm|rewrite Hm; exact H].
Qed.
Lemma Rsafe_dec_utf8 : forall d, Rsafe (dec_utf8 d).
Proof.
  intros d b H. split.
  - unfold dec_utf8, with_slice. rewrite H. cbn. destruct (span_until _ _). destruct (utf8_valid _); exact I.
  - exact (proj1 (preserves_dec_utf8 d (buf_data b) b (conj H eq_refl))).
Qed.
Lemma Rsafe_remaining : Rsafe (fun b => (remaining_bytes b, b)).
Proof. intros b H. cbn [fst snd]. unfold remaining_bytes. rewrite H. split; [exact I|exact H]. Qed.
Lemma Rsafe_run : forall A (m : R A) d, Rsafe m -> safe (fst (m (buf_new d))).
Proof. intros A m d H. exact (proj1 (H (buf_new d) eq_refl)). Qed.
Lemma Rsafe_if : forall A (c : bool) (m1 m2 : R A), Rsafe m1 -> Rsafe m2 -> Rsafe (if c then m1 else m2).
Proof. intros A [] m1 m2 H1 H2; assumption. Qed.

(* ---------- M ---------- *)
Section WithQ.
  Variable Q : tev -> Prop.

  Definition Mok {A} (m : M A) : Prop := forall n,
    safe (fst (m n))
    /\ (length (n_udp (snd (m n))) <= length (n_udp n))%nat
    /\ exists evs, n_trace (snd (m n)) = evs ++ n_trace n /\ Forall Q evs.

  Lemma Mok_ret : forall A (a : A), Mok (mret a).
  Proof. intros A a n. cbn. split; [exact I|split; [lia|exists []; split; [reflexivity|constructor]]]. Qed.
  Lemma Mok_fail : forall A e, Mok (@mfail A e).
  Proof. intros A e n. cbn. split; [exact I|split; [lia|exists []; split; [reflexivity|constructor]]]. Qed.
  Lemma Mok_lift : forall A (o : outcome A), safe o -> Mok (mlift o).
  Proof. intros A o Ho n. cbn. split; [exact Ho|split; [lia|exists []; split; [reflexivity|constructor]]]. Qed.
  Lemma Mok_bind : forall A B (m : M A) (f : A -> M B), Mok m -> (forall a, Mok (f a)) -> Mok (mbind m f).
  Proof.
    intros A B m f Hm Hf n. unfold mbind. destruct (Hm n) as [H1 [H2 [evs [H3 H4]]]].
    destruct (m n) as [[a|e| | |] n1]; cbn [fst snd] in *; try contradiction.
    - destruct (Hf a n1) as [G1 [G2 [evs2 [G3 G4]]]]. split; [exact G1|split; [lia|]].
      exists (evs2 ++ evs). split; [rewrite G3, H3, app_assoc; reflexivity|apply Forall_app; split; assumption].
    - split; [exact I|split; [exact H2|exists evs; split; assumption]].
  Qed.
  Lemma Mok_if : forall A (c : bool) (m1 m2 : M A), Mok m1 -> Mok m2 -> Mok (if c then m1 else m2).
  Proof. intros A [] m1 m2 H1 H2; assumption. Qed.
  Lemma Mok_log : forall e, Q e -> Mok (log e).
  Proof.
    intros e He n. cbn. split; [exact I|split; [lia|exists [e]; split; [reflexivity|constructor; [exact He|constructor]]]].
  Qed.
  Lemma Mok_send : forall port d, Q (SendEv port d) -> Mok (send port d).
  Proof.
    intros port d He n. unfold send. destruct (existsb _ _); cbn [fst snd n_udp n_trace];
      (split; [exact I|split; [lia|exists [SendEv port d]; split; [reflexivity|constructor; [exact He|constructor]]]]).
  Qed.
  Lemma Mok_udp_recv : forall s, Q (RecvEv s) -> Mok (udp_recv s).
  Proof.
    intros s He n. unfold udp_recv. destruct (n_udp n) as [|[d|] r] eqn:E; cbn [fst snd n_udp n_trace length];
      (split; [exact I|split; [lia|exists [RecvEv s]; split; [reflexivity|constructor; [exact He|constructor]]]]).
  Qed.
  (* a successful receive consumed an event *)
  Lemma udp_recv_consumes : forall s n d n', udp_recv s n = (Ok d, n') -> (length (n_udp n') < length (n_udp n))%nat.
  Proof.
    intros s n d n' H. unfold udp_recv in H. destruct (n_udp n) as [|[x|] r] eqn:E; inversion H; subst; cbn; lia.
  Qed.

  Lemma Mok_retry_loop : forall A k last (att : M A), Mok att -> Mok (retry_loop k last att).
  Proof.
    induction k as [|k IH]; intros last att Ha n; cbn [retry_loop].
    - cbn. split; [exact I|split; [lia|exists []; split; [reflexivity|constructor]]].
    - destruct (Ha n) as [H1 [H2 [evs [H3 H4]]]].
      destruct (att n) as [[a|e| | |] n1]; cbn [fst snd] in *; try contradiction.
      + split; [exact I|split; [exact H2|exists evs; split; assumption]].
      + destruct (timeout_class e).
        * destruct (IH e att Ha n1) as [G1 [G2 [evs2 [G3 G4]]]]. split; [exact G1|split; [lia|]].
          exists (evs2 ++ evs). split; [rewrite G3, H3, app_assoc; reflexivity|apply Forall_app; split; assumption].
        * cbn [fst snd]. split; [exact I|split; [exact H2|exists evs; split; assumption]].
  Qed.
  Lemma Mok_retry : forall A r (att : M A), Mok att -> Mok (retry_on_timeout r att).
  Proof. intros A r att Ha. unfold retry_on_timeout. apply Mok_retry_loop. exact Ha. Qed.
  Lemma Mok_gather : forall A t (m : M A), Mok m -> Mok (maybe_gather t m).
  Proof.
    intros A t m Hm n. destruct t; cbn [maybe_gather].
    - cbn. split; [exact I|split; [lia|exists []; split; [reflexivity|constructor]]].
    - destruct (Hm n) as [H1 [H2 [evs [H3 H4]]]].
      destruct (m n) as [[a|e| | |] n1]; cbn [fst snd] in *; try contradiction;
        (split; [exact I|split; [exact H2|exists evs; split; assumption]]).
    - apply Mok_bind; [exact Hm|intro a; apply Mok_ret].
  Qed.

  (* accepted timeout settings: no zero read/write duration (what
     TimeoutSettings::new guarantees) *)
  Definition settings_ok (t : option tsettings) : Prop :=
    let '(r, w) := ts_rw_or_default t in
    (forall d, r = Some d -> dur_zero d = false) /\ (forall d, w = Some d -> dur_zero d = false).
  (* kept for the statements that predate the retry fix: every retry count is fine *)
  Definition retries_ok (t : option tsettings) : Prop := True.

  Lemma Mok_apply_timeout : forall t, settings_ok t -> (forall r w, Q (ApplyTimeout r w)) -> Mok (apply_timeout t).
  Proof.
    intros t Hs HQ. unfold apply_timeout, settings_ok in *. destruct (ts_rw_or_default t) as [r w].
    destruct Hs as [Hr Hw]. apply Mok_bind; [apply Mok_log; apply HQ|]. intros _.
    assert (Z1 : match r with Some d => dur_zero d | None => false end = false) by (destruct r; [apply Hr; reflexivity|reflexivity]).
    assert (Z2 : match w with Some d => dur_zero d | None => false end = false) by (destruct w; [apply Hw; reflexivity|reflexivity]).
    rewrite Z1, Z2. apply Mok_ret.
  Qed.
  Lemma Mok_udp_new : forall port t, settings_ok t -> Q (NewUdp port) -> (forall r w, Q (ApplyTimeout r w)) -> Mok (udp_new port t).
  Proof. intros. unfold udp_new. apply Mok_bind; [apply Mok_log; assumption|intros _; apply Mok_apply_timeout; assumption]. Qed.
End WithQ.
