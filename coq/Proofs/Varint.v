(* Minecraft VarInt / string codecs: mutual inverse, length bound, over-long
   encodings rejected. *)
From GD Require Import Base.Prelude Model.Strings Model.Buffer Proofs.BufferLemmas.
From Coq Require Import ZifyBool ZifyNat ZifyN.
Ltac Zify.zify_post_hook ::= Z.div_mod_to_equations.

(* a < 2^k  ->  a | (b << k) = a + (b << k) *)
Lemma lor_add : forall a b k, a < 2 ^ k -> N.lor a (b * 2 ^ k) = a + b * 2 ^ k.
Proof.
  intros a b k Ha.
  assert (Hl : N.land a (b * 2 ^ k) = 0).
  { apply N.bits_inj. intro n. rewrite N.land_spec, N.bits_0.
    destruct (N.lt_ge_cases n k) as [Hn|Hn].
    - rewrite N.mul_pow2_bits_low by exact Hn. apply andb_false_r.
    - destruct (N.eq_dec a 0) as [->|Hz]; [rewrite N.bits_0; reflexivity|].
      rewrite (N.bits_above_log2 a n); [reflexivity|].
      apply N.log2_lt_pow2 in Ha; [|lia]. lia. }
  rewrite <- N.lxor_lor by exact Hl. symmetry. apply N.add_nocarry_lxor. exact Hl.
Qed.

(* finite facts about bytes, by enumeration *)
Lemma N_forall_lt : forall (P : N -> bool) k,
  forallb P (map N.of_nat (seq 0 k)) = true -> forall t, t < N.of_nat k -> P t = true.
Proof.
  intros P k H t Ht. rewrite forallb_forall in H. apply H.
  rewrite <- (N2Nat.id t). apply in_map. apply in_seq. lia.
Qed.

Lemma byte_facts_128 : forall t, t < 128 ->
  N.land t 128 = 0 /\ N.land (t + 128) 128 = 128 /\ (t + 128) mod 128 = t /\ t mod 128 = t.
Proof.
  intros t Ht.
  pose proof (N_forall_lt (fun t => (N.land t 128 =? 0) && (N.land (t + 128) 128 =? 128)
                                    && ((t + 128) mod 128 =? t) && (t mod 128 =? t)) 128 eq_refl t Ht) as H.
  cbv beta in H. lia.
Qed.
Lemma byte_facts_16 : forall t, t < 16 -> N.land t 240 = 0.
Proof.
  intros t Ht. pose proof (N_forall_lt (fun t => N.land t 240 =? 0) 16 eq_refl t Ht) as H. cbv beta in H. lia.
Qed.

Lemma read_u8_at : forall c pre r, read_u8 (at_ pre (c :: r)) = (Ok c, at_ (pre ++ [c]) r).
Proof.
  intros. pose proof (read_raw_at [c] pre r) as H. cbn [length app] in H.
  unfold read_u8, read_uint, bind. rewrite H. unfold ret, val_of. cbn [le_val].
  rewrite N.mul_0_r, N.add_0_r. reflexivity.
Qed.

Ltac norm_pow :=
  repeat match goal with
         | |- context [2 ^ ?e] => let v := eval vm_compute in (2 ^ e) in change (2 ^ e) with v
         | H : context [2 ^ ?e] |- _ => let v := eval vm_compute in (2 ^ e) in change (2 ^ e) with v in H
         end.

Lemma varint_loop_rt : forall n i acc v pre r,
  N.of_nat n + i = 5 -> acc < 2 ^ (7 * i) -> v < 2 ^ (32 - 7 * i) ->
  get_varint_loop n i acc (at_ pre (as_varint_loop n v ++ r))
  = (Ok (to_signed 32 (acc + v * 2 ^ (7 * i))), at_ (pre ++ as_varint_loop n v) r).
Proof.
  induction n as [|n IH]; intros i acc v pre r Hn Hacc Hv.
  - assert (i = 5) by lia. subst i. norm_pow. assert (v = 0) by lia. subst v.
    cbn [get_varint_loop as_varint_loop app]. unfold ret. rewrite app_nil_r, N.mul_0_l, N.add_0_r. reflexivity.
  - assert (Hi : i = 0 \/ i = 1 \/ i = 2 \/ i = 3 \/ i = 4) by lia.
    cbn [as_varint_loop get_varint_loop].
    assert (Ht : v mod 128 < 128) by (apply N.mod_lt; lia).
    destruct (byte_facts_128 (v mod 128) Ht) as [F1 [F2 [F3 F4]]].
    destruct (v / 128 =? 0) eqn:E.
    + (* last byte *)
      assert (Hv128 : v < 128) by lia.
      assert (Hvm : v mod 128 = v) by (apply N.mod_small; exact Hv128).
      cbn [app]. unfold bind at 1. rewrite read_u8_at. rewrite Hvm in *.
      rewrite F4, F1, N.eqb_refl.
      assert (C1 : (i =? 4) && negb (N.land v 240 =? 0) = false).
      { destruct (i =? 4) eqn:E4; [|reflexivity]. assert (i = 4) by lia. subst i. norm_pow.
        rewrite byte_facts_16 by lia. reflexivity. }
      rewrite C1. unfold ret. f_equal. f_equal. f_equal.
      destruct Hi as [->|[->|[->|[->| ->]]]]; norm_pow;
        (rewrite N.mod_small by lia);
        [ pose proof (lor_add acc v 0) as L | pose proof (lor_add acc v 7) as L
        | pose proof (lor_add acc v 14) as L | pose proof (lor_add acc v 21) as L
        | pose proof (lor_add acc v 28) as L ]; norm_pow; apply L; lia.
    + (* continuation byte *)
      assert (Hd : v / 128 <> 0) by lia.
      assert (Hi' : i = 0 \/ i = 1 \/ i = 2 \/ i = 3).
      { destruct Hi as [?|[?|[?|[?|?]]]]; auto. subst i. norm_pow. lia. }
      cbn [app]. unfold bind at 1. rewrite read_u8_at. rewrite F3, F2.
      assert (C1 : (i =? 4) = false) by lia. rewrite C1. cbn [andb].
      change (128 =? 0) with false. cbv iota.
      assert (Hacc' : N.lor acc ((v mod 128 * 2 ^ (7 * i)) mod 2 ^ 32) = acc + (v mod 128) * 2 ^ (7 * i)).
      { destruct Hi' as [->|[->|[->| ->]]]; norm_pow; (rewrite N.mod_small by lia);
        [ pose proof (lor_add acc (v mod 128) 0) as L | pose proof (lor_add acc (v mod 128) 7) as L
        | pose proof (lor_add acc (v mod 128) 14) as L | pose proof (lor_add acc (v mod 128) 21) as L ];
        norm_pow; apply L; lia. }
      rewrite Hacc'.
      rewrite (IH (i + 1) (acc + v mod 128 * 2 ^ (7 * i)) (v / 128) (pre ++ [v mod 128 + 128]) r).
      * rewrite <- app_assoc. cbn [app]. f_equal. f_equal. f_equal.
        destruct Hi' as [->|[->|[->| ->]]]; norm_pow; lia.
      * lia.
      * destruct Hi' as [->|[->|[->| ->]]]; norm_pow; lia.
      * destruct Hi' as [->|[->|[->| ->]]]; norm_pow; lia.
Qed.

Lemma signed32_rt : forall z, (- 2 ^ 31 <= z < 2 ^ 31)%Z -> to_signed 32 (of_signed 32 z) = z.
Proof.
  intros z Hz. unfold to_signed, of_signed. norm_pow.
  change (Z.of_N 4294967296) with 4294967296%Z.
  destruct (Z.to_N (z mod 4294967296) <? 2147483648) eqn:E; lia.
Qed.

Lemma of_signed32_lt : forall z, of_signed 32 z < 2 ^ 32.
Proof. intro z. unfold of_signed. norm_pow. change (Z.of_N 4294967296) with 4294967296%Z. lia. Qed.

Lemma varint_roundtrip : forall z pre r, (- 2 ^ 31 <= z < 2 ^ 31)%Z ->
  get_varint (at_ pre (as_varint z ++ r)) = (Ok z, at_ (pre ++ as_varint z) r).
Proof.
  intros z pre r Hz. unfold get_varint, as_varint.
  rewrite (varint_loop_rt 5 0 0 (of_signed 32 z) pre r); [| reflexivity | reflexivity | apply of_signed32_lt].
  change (2 ^ (7 * 0)) with 1. rewrite N.mul_1_r, N.add_0_l, signed32_rt by exact Hz. reflexivity.
Qed.

Lemma as_varint_loop_length : forall n v, (length (as_varint_loop (S n) v) <= S n)%nat /\ (1 <= length (as_varint_loop (S n) v))%nat.
Proof.
  induction n as [|n IH]; intro v; cbn [as_varint_loop]; destruct (v / 128 =? 0); cbn [length]; try lia.
  specialize (IH (v / 128)). cbn [as_varint_loop] in IH. lia.
Qed.
Lemma as_varint_length : forall z, (1 <= length (as_varint z) <= 5)%nat.
Proof. intro z. unfold as_varint. pose proof (as_varint_loop_length 4 (of_signed 32 z)). lia. Qed.

(* over-long encodings: five bytes of which the first four carry the
   continuation bit and the fifth has a bit outside its four value bits set
   (in particular a fifth continuation byte) are rejected *)
Lemma varint_overlong_rejected : forall c1 c2 c3 c4 c5 pre r,
  N.land c1 128 <> 0 -> N.land c2 128 <> 0 -> N.land c3 128 <> 0 -> N.land c4 128 <> 0 ->
  N.land c5 240 <> 0 ->
  fst (get_varint (at_ pre (c1 :: c2 :: c3 :: c4 :: c5 :: r))) = Err PacketBad.
Proof.
  intros c1 c2 c3 c4 c5 pre r H1 H2 H3 H4 H5. unfold get_varint.
  cbn [get_varint_loop]. unfold bind at 1. rewrite read_u8_at. cbn [N.eqb andb].
  apply N.eqb_neq in H1, H2, H3, H4, H5.
  change (0 =? 4) with false. cbn [andb]. rewrite H1.
  unfold bind at 1. rewrite read_u8_at. change (0 + 1 =? 4) with false. cbn [andb]. rewrite H2.
  unfold bind at 1. rewrite read_u8_at. change (0 + 1 + 1 =? 4) with false. cbn [andb]. rewrite H3.
  unfold bind at 1. rewrite read_u8_at. change (0 + 1 + 1 + 1 =? 4) with false. cbn [andb]. rewrite H4.
  unfold bind at 1. rewrite read_u8_at. change (0 + 1 + 1 + 1 + 1 =? 4) with true. rewrite H5. reflexivity.
Qed.

(* decoding never consumes more than five bytes *)
Lemma get_varint_loop_consumes : forall n i acc b, buf_inv b ->
  exists k, k <= N.of_nat n /\ cursor (snd (get_varint_loop n i acc b)) = cursor b + k.
Proof.
  induction n as [|n IH]; intros i acc b Hb; cbn [get_varint_loop]; [exists 0; unfold ret; cbn [snd]; lia|].
  unfold bind at 1. unfold read_u8, read_uint, bind at 1. rewrite read_raw_spec by exact Hb.
  destruct (1 <=? length (rest b))%nat eqn:E; [|exists 0; cbn [snd]; lia].
  unfold ret at 1.
  set (b' := mkbuf _ _ 0).
  assert (Hc : cursor b' = cursor b + 1).
  { subst b'. unfold cursor, lenN. cbn [pre_rev over]. rewrite Hb.
    destruct (rest b) as [|x tl]; [cbn in E; discriminate|]. cbn [firstn rev_append length]. lia. }
  destruct (_ && _); [exists 1; unfold fail; cbn [snd]; lia|].
  destruct (_ =? 0); [exists 1; unfold ret; cbn [snd]; lia|].
  destruct (IH (i + 1) (N.lor acc ((val_of false (firstn 1 (rest b)) mod 128 * 2 ^ (7 * i)) mod 2 ^ 32)) b' eq_refl) as [k [Hk1 Hk2]].
  exists (k + 1). split; [lia|]. rewrite Hk2. lia.
Qed.
Lemma get_varint_consumes : forall b, buf_inv b ->
  cursor b <= cursor (snd (get_varint b)) /\ cursor (snd (get_varint b)) <= cursor b + 5.
Proof. intros b Hb. destruct (get_varint_loop_consumes 5 0 0 b Hb) as [k [H1 H2]]. unfold get_varint. rewrite H2. lia. Qed.

(* strings *)
Lemma mc_string_roundtrip : forall s enc pre r,
  utf8_valid s = true -> as_string s = Ok enc ->
  get_string (at_ pre (enc ++ r)) = (Ok s, at_ (pre ++ enc) r).
Proof.
  intros s enc pre r Hu He. unfold as_string in He.
  destruct (lenN s <? 2 ^ 31) eqn:El; [|discriminate]. inversion He; subst enc; clear He.
  assert (Hl : lenN s < 2147483648) by (norm_pow; lia).
  unfold get_string, bind. rewrite <- app_assoc.
  rewrite varint_roundtrip by (norm_pow; lia).
  assert (Hof : of_signed 64 (Z.of_N (lenN s)) = lenN s).
  { unfold of_signed. norm_pow. change (Z.of_N 18446744073709551616) with 18446744073709551616%Z. lia. }
  rewrite Hof. unfold remaining_length, at_. cbn [over rest]. cbn [N.eqb].
  assert (Hlt : lenN (s ++ r) <? lenN s = false).
  { unfold lenN. rewrite app_length. lia. }
  rewrite Hlt. unfold lenN. rewrite Nat2N.id.
  pose proof (read_raw_at s (pre ++ as_varint (Z.of_N (N.of_nat (length s)))) r) as Hr.
  unfold at_ in Hr. rewrite Hr, Hu. rewrite <- app_assoc. reflexivity.
Qed.
