(* C05, the whole query: for every well-formed Quake 1 / 2 / 3 server state the
   query on the server's reply returns exactly the expected response: name, map,
   limits and version under either spelling, every player, and as unused entries
   exactly the variables that were not used. *)
From GD Require Import Base.Prelude Model.Strings Model.StrOps Model.Buffer Model.Net Model.Valve Model.Quake Spec.QuakeSpec.
From GD Require Import Proofs.BufferLemmas Proofs.ReadSpecs Proofs.Str Proofs.ValveRoundtrip Proofs.QuakeRoundtrip Proofs.GamesProofs Proofs.IdProofs.
From Coq Require Import ZifyBool ZifyNat ZifyN Lia.

(* ---------- variables: a list with distinct keys is its own map ---------- *)
Lemma fold_insert_nodup : forall (vars m : list (bytes * bytes)),
  nodup_keys vars = true -> forallb (fun kv => negb (existsb (fun x => bytes_eqb (fst x) (fst kv)) m)) vars = true ->
  fold_left (fun m kv => map_insert (fst kv) (snd kv) m) vars m = m ++ vars.
Proof.
  induction vars as [|[k v] vars IH]; intros m Hn Hm; cbn [fold_left]; [rewrite app_nil_r; reflexivity|].
  cbn [nodup_keys fst] in Hn. apply andb_prop in Hn. destruct Hn as [N1 N2]. apply negb_true_iff in N1.
  cbn [forallb fst] in Hm. apply andb_prop in Hm. destruct Hm as [M1 M2]. apply negb_true_iff in M1.
  cbn [fst snd]. rewrite (map_insert_fresh k v m M1). rewrite IH; [rewrite <- app_assoc; reflexivity|exact N2|].
  apply forallb_forall. intros [k2 v2] Hin. cbn [fst]. rewrite existsb_app. cbn [existsb fst]. rewrite orb_false_r.
  rewrite forallb_forall in M2. specialize (M2 _ Hin). cbn [fst] in M2. apply negb_true_iff in M2. rewrite M2. cbn [orb].
  apply negb_true_iff. destruct (bytes_eqb k k2) eqn:E; [|reflexivity]. apply bytes_eqb_eq in E. subst k2.
  assert (X : existsb (fun x => bytes_eqb (fst x) k) vars = true) by (apply existsb_exists; exists (k, v2); split; [exact Hin|apply bytes_eqb_refl]).
  rewrite X in N1. discriminate.
Qed.

(* ---------- take_var against the specification ---------- *)
Lemma bytes_eqb_sym a b : bytes_eqb a b = bytes_eqb b a.
Proof. revert b. induction a as [|x a IH]; intros [|y b]; cbn [bytes_eqb]; try reflexivity. rewrite N.eqb_sym, IH. reflexivity. Qed.
Lemma lookup_is_value k (m : rules_t) : map_lookup k m = var_value k m.
Proof.
  unfold var_value. induction m as [|[k' v'] m IH]; [reflexivity|]. cbn [map_lookup find fst]. rewrite (bytes_eqb_sym k' k).
  destruct (bytes_eqb k k'); [reflexivity|exact IH].
Qed.
Lemma remove_is_filter k (m : rules_t) : map_remove k m = filter (fun kv => negb (existsb (bytes_eqb (fst kv)) [k])) m.
Proof.
  unfold map_remove. apply filter_ext. intros [k' v']. cbn [existsb fst]. rewrite orb_false_r, bytes_eqb_sym. reflexivity.
Qed.
Lemma take_var_spec k1 k2 (m : rules_t) :
  take_var k1 k2 m = (either k1 k2 m, filter (fun kv => negb (existsb (bytes_eqb (fst kv)) (used_key k1 k2 m))) m).
Proof.
  unfold take_var, either, used_key. rewrite !lookup_is_value.
  destruct (var_value k1 m); [rewrite remove_is_filter; reflexivity|].
  destruct (var_value k2 m); [rewrite remove_is_filter; reflexivity|].
  f_equal. symmetry. induction m as [|x m IH]; [reflexivity|]. cbn [filter existsb negb]. f_equal. exact IH.
Qed.
(* a filter that keeps every entry of key k does not change what k means *)
Lemma value_filter k (p : bytes * bytes -> bool) (m : rules_t) :
  (forall kv, bytes_eqb (fst kv) k = true -> p kv = true) -> var_value k (filter p m) = var_value k m.
Proof.
  intros H. unfold var_value. induction m as [|x m IH]; [reflexivity|]. cbn [filter find].
  destruct (bytes_eqb (fst x) k) eqn:E.
  - rewrite (H x E). cbn [find]. rewrite E. reflexivity.
  - destruct (p x); [cbn [find]; rewrite E|]; exact IH.
Qed.

Lemma keeps k k1 k2 (vars : rules_t) : bytes_eqb k k1 = false -> bytes_eqb k k2 = false ->
  forall kv : bytes * bytes, bytes_eqb (fst kv) k = true -> negb (existsb (bytes_eqb (fst kv)) (used_key k1 k2 vars)) = true.
Proof.
  intros H1 H2 kv E. apply bytes_eqb_eq in E. rewrite E. unfold used_key.
  destruct (var_value k1 vars); [cbn [existsb]; rewrite H1; reflexivity|].
  destruct (var_value k2 vars); [cbn [existsb]; rewrite H2; reflexivity|reflexivity].
Qed.
Lemma either_filter k3 k4 (p : bytes * bytes -> bool) (m : rules_t) :
  (forall kv, bytes_eqb (fst kv) k3 = true -> p kv = true) -> (forall kv, bytes_eqb (fst kv) k4 = true -> p kv = true) ->
  either k3 k4 (filter p m) = either k3 k4 m /\ used_key k3 k4 (filter p m) = used_key k3 k4 m.
Proof. intros H3 H4. unfold either, used_key. rewrite !value_filter by assumption. split; reflexivity. Qed.
Lemma filter_filter {A} (p q : A -> bool) l : filter p (filter q l) = filter (fun x => q x && p x) l.
Proof. induction l as [|x l IH]; [reflexivity|]. cbn [filter]. destruct (q x); cbn [filter andb]; [destruct (p x)|]; rewrite ?IH; reflexivity. Qed.

Definition quake_body (st : qstate) : bytes :=
  concat (map kvb (qs_vars st)) ++ [10] ++ enc_lines (qs_quoted st) (qs_players st) ++ (if qs_trailing_nul st then [0] else []).
Definition wf_qstate (v : qver) (st : qstate) : bool :=
  forallb var_ok (qs_vars st) && nodup_keys (qs_vars st) && wf_lines v (qs_quoted st) (qs_players st).

Ltac ckeys := repeat match goal with
  | |- context [bytes_eqb (str ?a) (str ?b)] =>
      let r := eval vm_compute in (bytes_eqb (str a) (str b)) in change (bytes_eqb (str a) (str b)) with r
  end.

Theorem quake_body_decodes : forall v st r fuel, wf_qstate v st = true -> quake_expected st = Some r ->
  (length (quake_body st) < fuel)%nat ->
  fst ((let* vars := get_server_values in
        let* players := get_players fuel v [] in
        let '(name, vars) := take_var (str "hostname") (str "sv_hostname") vars in
        let* name := lift (need name) in
        let '(map, vars) := take_var (str "mapname") (str "map") vars in
        let* map := lift (need map) in
        let '(maxc, vars) := take_var (str "maxclients") (str "sv_maxclients") vars in
        let* maxc := lift (need maxc) in
        let* maxn := lift (parse_u 255 maxc) in
        let '(version, vars) := take_var (str "version") (str "*version") vars in
        ret (mk_qresp name map players (lenN players mod 256) maxn version vars)) (buf_new (quake_body st))) = Ok r.
Proof.
  intros v st r fuel Hwf Hexp Hf. unfold wf_qstate in Hwf. do 2 (apply andb_prop in Hwf; destruct Hwf as [Hwf ?]).
  rename Hwf into Hvars, H into Hlines, H0 into Hnd.
  unfold quake_body in *. change (buf_new ?d) with (at_ [] d). cbn [app].
  erewrite bind_ok by (apply vars_decode; exact Hvars).
  rewrite (fold_insert_nodup (qs_vars st) [] Hnd) by (apply forallb_forall; intros; reflexivity). cbn [app].
  pose proof (players_decode v (qs_players st) (qs_quoted st) [] ([] ++ concat (map kvb (qs_vars st)) ++ [10]) fuel (qs_trailing_nul st) Hlines) as Hp.
  unfold bind at 1.
  destruct (get_players fuel v [] _) as [o b] eqn:Eg. cbn [fst] in Hp. rewrite Hp by (rewrite !app_length in Hf; cbn [length] in Hf; lia). cbn [rev app].
  set (vars := qs_vars st) in *.
  rewrite take_var_spec. cbv beta iota.
  unfold quake_expected in Hexp. fold vars in Hexp.
  destruct (either (str "hostname") (str "sv_hostname") vars) as [name|]; [|discriminate]. cbn [need]. unfold lift at 1. unfold bind at 1. cbv beta iota.
  rewrite take_var_spec.
  destruct (either_filter (str "mapname") (str "map") _ vars
              (keeps (str "mapname") (str "hostname") (str "sv_hostname") vars eq_refl eq_refl)
              (keeps (str "map") (str "hostname") (str "sv_hostname") vars eq_refl eq_refl)) as [E1 U1].
  rewrite E1, U1. cbv beta iota.
  destruct (either (str "mapname") (str "map") vars) as [mapn|]; [|discriminate]. cbn [need]. unfold lift at 1. unfold bind at 1. cbv beta iota.
  rewrite take_var_spec. rewrite !filter_filter.
  match goal with |- context [either (str "maxclients") (str "sv_maxclients") (filter ?p vars)] =>
    destruct (either_filter (str "maxclients") (str "sv_maxclients") p vars) as [E2 U2] end.
  { intros kv E. rewrite (keeps (str "maxclients") (str "hostname") (str "sv_hostname") vars eq_refl eq_refl kv E),
                         (keeps (str "maxclients") (str "mapname") (str "map") vars eq_refl eq_refl kv E). reflexivity. }
  { intros kv E. rewrite (keeps (str "sv_maxclients") (str "hostname") (str "sv_hostname") vars eq_refl eq_refl kv E),
                         (keeps (str "sv_maxclients") (str "mapname") (str "map") vars eq_refl eq_refl kv E). reflexivity. }
  rewrite E2, U2. cbv beta iota.
  destruct (either (str "maxclients") (str "sv_maxclients") vars) as [maxc|]; [|discriminate]. cbn [need]. unfold lift at 1. unfold bind at 1. cbv beta iota.
  unfold parse_u. destruct (parse_unsigned 255 maxc) as [m|]; [|discriminate]. unfold lift at 1. unfold bind at 1. cbv beta iota.
  rewrite take_var_spec. rewrite !filter_filter.
  match goal with |- context [either (str "version") (str "*version") (filter ?p vars)] =>
    destruct (either_filter (str "version") (str "*version") p vars) as [E3 U3] end.
  { intros kv E. rewrite (keeps (str "version") (str "hostname") (str "sv_hostname") vars eq_refl eq_refl kv E),
                         (keeps (str "version") (str "mapname") (str "map") vars eq_refl eq_refl kv E),
                         (keeps (str "version") (str "maxclients") (str "sv_maxclients") vars eq_refl eq_refl kv E). reflexivity. }
  { intros kv E. rewrite (keeps (str "*version") (str "hostname") (str "sv_hostname") vars eq_refl eq_refl kv E),
                         (keeps (str "*version") (str "mapname") (str "map") vars eq_refl eq_refl kv E),
                         (keeps (str "*version") (str "maxclients") (str "sv_maxclients") vars eq_refl eq_refl kv E). reflexivity. }
  rewrite E3, U3. cbv beta iota. unfold ret. cbn [fst].
  inversion Hexp; subst r. f_equal. f_equal.
  apply filter_ext. intros kv. unfold consumed_of. rewrite !existsb_app, !negb_orb, !andb_assoc. reflexivity.
Qed.

Lemma starts_with_app p x : starts_with p (p ++ x) = true.
Proof. induction p as [|c p IH]; [reflexivity|]. cbn [app starts_with]. rewrite N.eqb_refl, IH. reflexivity. Qed.
Lemma quake_reply_shape v st : quake_reply v st = [255; 255; 255; 255] ++ response_header v ++ quake_body st.
Proof. unfold quake_reply, quake_body. rewrite <- ?app_assoc. reflexivity. Qed.
Lemma quake_header_ok v body :
  fst ((let* h := read_uint false 4 in
        if negb (h =? 4294967295) then fail PacketBad
        else
          let* rest := (fun b => (remaining_bytes b, b)) in
          if negb (starts_with (response_header v) rest) then fail PacketBad
          else
            let* _ := move_cursor (Z.of_nat (length (response_header v))) in
            fun b => (remaining_bytes b, b)) (buf_new ([255; 255; 255; 255] ++ response_header v ++ body))) = Ok body.
Proof.
  change (buf_new ?d) with (at_ [] d).
  erewrite bind_ok by (exact (read_uint_at false [255; 255; 255; 255] [] (response_header v ++ body))).
  change (val_of false [255; 255; 255; 255] =? 4294967295) with true. cbn [negb].
  unfold bind at 1. unfold remaining_bytes at 1, at_ at 1. cbn [over rest N.eqb].
  change (rest (at_ ?p ?x)) with x. rewrite starts_with_app. cbn [negb].
  erewrite bind_ok by apply move_at. reflexivity.
Qed.

Theorem quake_query_roundtrip : forall port v st r, wf_qstate v st = true -> quake_expected st = Some r ->
  (length (quake_reply v st) <= 1024)%nat ->
  fst (client_query port v None (net_init [Datagram (quake_reply v st)] [] [])) = Ok r.
Proof.
  intros port v st r Hwf Hexp Hlen.
  unfold client_query, net_init.
  unfold mbind at 1. unfold udp_new, mbind at 1. unfold log at 1. unfold apply_timeout. cbn [ts_rw_or_default].
  unfold mbind at 1. unfold log at 1. cbn [dur_zero fst snd N.eqb andb orb]. unfold mret at 1.
  unfold mbind at 1. unfold retry_on_timeout. cbn [ts_retries_or_default N.to_nat retry_loop].
  unfold get_data_impl at 1. unfold mbind at 1. unfold send at 1. cbn [n_fail existsb n_udp n_tcp n_sends n_cur n_trace].
  unfold mbind at 1. unfold udp_recv at 1. cbn [n_udp n_tcp n_fail n_sends n_cur n_trace default_packet_size].
  rewrite firstn_all2 by (change (N.to_nat 1024) with 1024%nat; exact Hlen).
  rewrite quake_reply_shape. rewrite quake_header_ok. unfold mlift. cbn [fst].
  apply quake_body_decodes; [exact Hwf|exact Hexp|lia].
Qed.
