(* C10: the retries run out inside the exchanges of several steps.  retries + 1 faulty attempts (GameSpy 3: lost
   handshake / lost data reply / part of the reply then silence; GameSpy 1: the first k parts then silence; JC2-MP: lost
   handshake / lost data reply): the query fails with a timeout-class error, having consumed exactly the events of
   those attempts - whatever follows in the script (even a valid reply) is not touched: there is no further attempt. *)
From GD Require Import Base.Prelude Model.Strings Model.StrOps Model.Buffer Model.Net Model.Valve Model.Gamespy Model.Games.
From GD Require Import Spec.ValveSpec Spec.QuakeSpec Spec.GamespySpec Spec.GamesSpec.
From GD Require Import Proofs.BufferLemmas Proofs.ReadSpecs Proofs.Str Proofs.Utf8 Proofs.ValveRoundtrip Proofs.QuakeRoundtrip Proofs.GamesProofs
  Proofs.GamespyProofs Proofs.IdProofs Proofs.GamespyOrder Proofs.ValveGamesRoundtrip Proofs.Gamespy2Roundtrip Proofs.Jc2mRoundtrip Proofs.Gamespy3Roundtrip Proofs.Gamespy3Reply Proofs.Gamespy3Query
  Proofs.Gamespy3Order Proofs.Jc2mQuery Proofs.Gamespy1Assembly Proofs.Gamespy1Players Proofs.Gamespy1Build Proofs.Gamespy1Response
  Proofs.Msafe Proofs.Retry Proofs.RetryProtocols Proofs.Gamespy3Retry Proofs.Jc2mRetry Proofs.Gamespy1Retry Proofs.Gamespy3Partial Proofs.Gamespy1Partial.
From Coq Require Import ZifyBool ZifyNat ZifyN Lia.

(* exactly retries + 1 attempts that time out: the helper gives up with the last timeout-class error, in the state the
   last attempt left *)
Lemma retry_loop_exhausted {A} (att : M A) : forall j n m, timeouts_then att j n m ->
  forall last_e, timeout_class last_e = true -> exists e, retry_loop j last_e att n = (Err e, m) /\ timeout_class e = true.
Proof.
  induction 1 as [n|j n e n' m Hatt Hcls Ht IH]; intros last_e Hl.
  - exists last_e. split; [reflexivity|exact Hl].
  - change (retry_loop (S j) last_e att n) with
      (match att n with
       | (Err e, n') => if timeout_class e then retry_loop j e att n' else (Err e, n')
       | r => r end).
    rewrite Hatt, Hcls. apply IH. exact Hcls.
Qed.
Theorem retry_exhausted {A} (att : M A) r n m : timeouts_then att (S (N.to_nat r)) n m ->
  exists e, retry_on_timeout r att n = (Err e, m) /\ timeout_class e = true.
Proof. intros H. unfold retry_on_timeout. apply (retry_loop_exhausted att _ _ _ H). reflexivity. Qed.

Section Gs3.
  Variable port : N.
  Variable s : s3_state.
  Hypothesis Hc : (- 2147483648 <= s3_challenge s < 2147483648)%Z.
  Hypothesis Hcl : (length (show_Z (s3_challenge s)) <= 10)%nat.
  Hypothesis Hn : (length (s3_payloads s) <= 128)%nat.
  Hypothesis Hsz : Forall (fun p => (length p + 17 <= 2048)%nat) (s3_payloads s).

  Theorem gs3_retries_exhausted : forall t v (rest : list udp_event),
    settings_ok t -> Forall (fault_ok s) v -> length v = S (N.to_nat (ts_retries_or_default t)) ->
    exists e n', gs3_query port t (net_init (flat_map (fault_events2 s) v ++ rest) [] []) = (Err e, n')
                 /\ timeout_class e = true /\ n_udp n' = rest.
  Proof.
    intros t v rest Hs Hok Hv. unfold gs3_query, gs3_packets, net_init.
    destruct (udp_new_same_script port t (mknet (flat_map (fault_events2 s) v ++ rest) [] [] 0 None []) Hs) as [n1 [E1 [U1 [F1 S1]]]].
    destruct n1 as [u1 t1 f1 sn1 cur1 tr1]. cbn [n_udp n_fail n_sends] in U1, F1, S1. subst u1 f1.
    unfold mbind at 1. unfold mbind at 1. rewrite E1.
    destruct (faults_are_timeouts_gs3' port s Hc Hcl Hn Hsz v rest t1 sn1 cur1 tr1 Hok) as [sn2 [tr2 T]].
    rewrite Hv in T. destruct (retry_exhausted _ _ _ _ T) as [e [E He]].
    rewrite E. exists e. eexists. split; [reflexivity|]. split; [exact He|reflexivity].
  Qed.
End Gs3.

Section Gs1.
  Variable port : N.
  Variable s : s1_state.
  Hypothesis Hok : Forall pair_ok (s1_vars s).
  Hypothesis Hq : s1_qid s <= usize_max'.
  Hypothesis Hsz : Forall (fun d => (length d <= 1024)%nat) (s1_script s).
  Hypothesis Hn : N.of_nat (length (s1_script s)) < 4294967296.

  Theorem gs1_retries_exhausted : forall t ks (rest : list udp_event),
    settings_ok t -> Forall (fun k => (k < length (s1_script s))%nat) ks -> length ks = S (N.to_nat (ts_retries_or_default t)) ->
    exists e n', gs1_query port t (net_init (flat_map (silent_after s) ks ++ rest) [] []) = (Err e, n')
                 /\ timeout_class e = true /\ n_udp n' = rest.
  Proof.
    intros t ks rest Hs Hks Hv. unfold gs1_query, gs1_query_vars, net_init.
    destruct (udp_new_same_script port t (mknet (flat_map (silent_after s) ks ++ rest) [] [] 0 None []) Hs) as [n1 [E1 [U1 [F1 S1]]]].
    destruct n1 as [u1 t1 f1 sn1 cur1 tr1]. cbn [n_udp n_fail n_sends] in U1, F1, S1. subst u1 f1.
    unfold mbind at 1. unfold mbind at 1. rewrite E1.
    destruct (gs1_cuts_are_timeouts port s Hok Hq Hsz Hn ks rest t1 sn1 cur1 tr1 Hks) as [sn2 [tr2 T]].
    rewrite Hv in T. destruct (retry_exhausted _ _ _ _ T) as [e [E He]].
    rewrite E. exists e. eexists. split; [reflexivity|]. split; [exact He|reflexivity].
  Qed.
End Gs1.

Section Jc2m.
  Variable port : N.
  Variable s : jc_state.
  Hypothesis Hc : (- 2147483648 <= js_challenge s < 2147483648)%Z.
  Hypothesis Hcl : (length (show_Z (js_challenge s)) <= 10)%nat.

  Theorem jc2m_retries_exhausted : forall t v (rest : list udp_event),
    settings_ok t -> length v = S (N.to_nat (ts_retries_or_default t)) ->
    exists e n', jc2m_query port t (net_init (flat_map (jc_fault_events s) v ++ rest) [] []) = (Err e, n')
                 /\ timeout_class e = true /\ n_udp n' = rest.
  Proof.
    intros t v rest Hs Hv. unfold jc2m_query, net_init.
    destruct (udp_new_same_script port t (mknet (flat_map (jc_fault_events s) v ++ rest) [] [] 0 None []) Hs) as [n1 [E1 [U1 [F1 S1]]]].
    destruct n1 as [u1 t1 f1 sn1 cur1 tr1]. cbn [n_udp n_fail n_sends] in U1, F1, S1. subst u1 f1.
    unfold mbind at 1. rewrite E1.
    destruct (jc_faults_are_timeouts port s Hc Hcl v rest t1 sn1 cur1 tr1) as [sn2 [tr2 T]].
    rewrite Hv in T. destruct (retry_exhausted _ _ _ _ T) as [e [E He]].
    unfold mbind at 1. rewrite E. exists e. eexists. split; [reflexivity|]. split; [exact He|reflexivity].
  Qed.
End Jc2m.
