(* Valve query, for every script: no panic/abort/fuel exhaustion (C01), every
   datagram sent is a request of the protocol addressed to the query's port
   (C09, per-event part), every field-driven reservation is bounded (C13). *)
From GD Require Import Base.Prelude Model.Strings Model.Buffer Model.Net Model.Valve.
From GD Require Import Proofs.BufferLemmas Proofs.BufInv Proofs.Msafe.
From Coq Require Import ZifyBool ZifyNat ZifyN.

Definition valve_kind (k : N) : Prop := k = 84 \/ k = 85 \/ k = 86.
(* the request language of A2S: header FF FF FF FF, the kind, and either the
   kind's default payload or (after a challenge) the challenge - preceded by
   the query string for A2S_INFO *)
Definition valve_request (d : bytes) : Prop :=
  exists kind, valve_kind kind /\
    (d = to_bytes kind (default_payload kind)
     \/ exists c, d = to_bytes kind (if kind =? 84 then info_payload ++ c else c)).
Definition Qv (port : N) (e : tev) : Prop :=
  match e with
  | SendEv p d => p = port /\ valve_request d
  | Reserve k => k <= max_decompressed_size
  | NewTcp _ _ => False
  | _ => True
  end.

Section WithBz.
  Variable bz : bytes -> N -> outcome bytes.
  Hypothesis bz_safe : forall p s, safe (bz p s).
  Variable port : N.
  Notation Mokv := (Mok (Qv port)).

  Lemma Rsafe_split_new : forall e protocol, Rsafe (split_new e protocol).
  Proof.
    intros e protocol. unfold split_new, read_u32, read_u16, rest_bytes.
    apply Rsafe_bind; [apply Rsafe_read_uint|intros header].
    apply Rsafe_bind; [apply Rsafe_read_uint|intros id].
    destruct e as [ids|f].
    - apply Rsafe_bind; [apply Rsafe_read_u8|intros total].
      apply Rsafe_bind; [apply Rsafe_read_u8|intros number].
      apply Rsafe_bind; [apply Rsafe_if; [apply Rsafe_ret|apply Rsafe_read_uint]|intros size].
      apply Rsafe_bind.
      + apply Rsafe_if; [|apply Rsafe_ret].
        apply Rsafe_bind; [apply Rsafe_read_uint|intros a]. apply Rsafe_bind; [apply Rsafe_read_uint|intros b]. apply Rsafe_ret.
      + intros dec. apply Rsafe_bind; [apply Rsafe_remaining|intros p; apply Rsafe_ret].
    - apply Rsafe_bind; [apply Rsafe_read_u8|intros x]. destruct (u8_lower_upper x) as [lo up].
      apply Rsafe_bind; [apply Rsafe_remaining|intros p; apply Rsafe_ret].
  Qed.

  Lemma packet_from_safe : forall d, safe (packet_from d).
  Proof.
    intro d. unfold packet_from. apply Rsafe_run.
    apply Rsafe_bind; [apply Rsafe_read_uint|intros _]. apply Rsafe_bind; [apply Rsafe_read_u8|intros k].
    apply Rsafe_bind; [apply Rsafe_remaining|intros p; apply Rsafe_ret].
  Qed.

  Lemma Mok_get_payload : forall p whole, Mokv (get_payload bz p whole).
  Proof.
    intros p whole. unfold get_payload. destruct (sp_decompressed p) as [[dsize crc]|]; [|apply Mok_ret].
    destruct (max_decompressed_size <? dsize) eqn:E; [apply Mok_fail|].
    apply Mok_bind; [apply Mok_log; cbn; lia|intros _].
    apply Mok_bind; [apply Mok_lift; apply bz_safe|intros d]. apply Mok_if; [apply Mok_ret|apply Mok_fail].
  Qed.

  Lemma Mok_reassemble : forall l, Mokv (reassemble bz l).
  Proof.
    intro l. unfold reassemble. destruct (negb _); [apply Mok_fail|].
    destruct (sort_splits l) as [|main rest]; [apply Mok_fail|].
    apply Mok_bind; [apply Mok_get_payload|intros payload; apply Mok_lift; apply packet_from_safe].
  Qed.

  Lemma Mok_recv_chunks : forall k e protocol first acc, Mokv (recv_chunks k e protocol first acc).
  Proof.
    induction k as [|k IH]; intros e protocol first acc; cbn [recv_chunks]; [apply Mok_ret|].
    apply Mok_bind; [apply Mok_udp_recv; exact I|intros d].
    apply Mok_bind; [apply Mok_lift; apply Rsafe_run; apply Rsafe_split_new|intros c].
    apply Mok_if; [apply Mok_fail|apply IH].
  Qed.

  Definition receive_rest (e : engine) (protocol : N) (data : bytes) : M (N * bytes) :=
    match data with
    | [] => mfail PacketUnderflow
    | header :: _ =>
        if header =? 254 then
          do* first := mlift (fst (split_new e protocol (buf_new data))) in
          do* others := recv_chunks (N.to_nat (sp_total first) - 1) e protocol first [] in
          reassemble bz (first :: others)
        else mlift (packet_from data)
    end.
  Lemma Mok_receive_rest : forall e protocol data, Mokv (receive_rest e protocol data).
  Proof.
    intros e protocol data. unfold receive_rest. destruct data as [|header tl]; [apply Mok_fail|].
    apply Mok_if; [|apply Mok_lift; apply packet_from_safe].
    apply Mok_bind; [apply Mok_lift; apply Rsafe_run; apply Rsafe_split_new|intros first].
    apply Mok_bind; [apply Mok_recv_chunks|intros others; apply Mok_reassemble].
  Qed.
  Lemma receive_unfold : forall e protocol, receive bz e protocol = mbind (udp_recv (Some packet_size)) (receive_rest e protocol).
  Proof. reflexivity. Qed.
  Lemma Mok_receive : forall e protocol, Mokv (receive bz e protocol).
  Proof. intros. rewrite receive_unfold. apply Mok_bind; [apply Mok_udp_recv; exact I|intro; apply Mok_receive_rest]. Qed.

  (* a successful receive consumed at least one script event *)
  Lemma receive_consumes : forall e protocol n pk n', receive bz e protocol n = (Ok pk, n') ->
    (length (n_udp n') < length (n_udp n))%nat.
  Proof.
    intros e protocol n pk n' H. rewrite receive_unfold in H. unfold mbind in H.
    destruct (udp_recv (Some packet_size) n) as [[d|x| | |] n1] eqn:E; try discriminate.
    apply udp_recv_consumes in E.
    pose proof (Mok_receive_rest e protocol d n1) as [_ [Hle _]]. rewrite H in Hle. cbn [snd] in Hle. lia.
  Qed.

  Lemma request_default : forall kind, valve_kind kind -> Qv port (SendEv port (to_bytes kind (default_payload kind))).
  Proof. intros kind Hk. split; [reflexivity|]. exists kind. split; [exact Hk|left; reflexivity]. Qed.
  Lemma request_challenge : forall kind c, valve_kind kind ->
    Qv port (SendEv port (to_bytes kind (if kind =? 84 then info_payload ++ c else c))).
  Proof. intros kind c Hk. split; [reflexivity|]. exists kind. split; [exact Hk|right; exists c; reflexivity]. Qed.

  Definition okr (n : net) {A} (r : outcome A * net) : Prop :=
    safe (fst r) /\ (length (n_udp (snd r)) <= length (n_udp n))%nat
    /\ exists evs, n_trace (snd r) = evs ++ n_trace n /\ Forall (Qv port) evs.

  Lemma challenge_loop_ok : forall fuel e protocol kind, valve_kind kind -> forall pk n,
    (length (n_udp n) < fuel)%nat -> okr n (challenge_loop bz fuel port e protocol kind pk n).
  Proof.
    induction fuel as [|f IH]; intros e protocol kind Hk pk n Hf; [lia|].
    cbn [challenge_loop]. destruct pk as [k payload]. destruct (k =? 65).
    - unfold mbind at 1.
      pose proof (Mok_send (Qv port) port (to_bytes kind (if kind =? 84 then info_payload ++ payload else payload))
                           (request_challenge kind payload Hk) n) as [S1 [S2 [ev1 [S3 S4]]]].
      destruct (send port _ n) as [[u|x| | |] n1]; cbn [fst snd] in *; try contradiction;
        [|unfold okr; cbn [fst snd]; split; [exact I|split; [exact S2|exists ev1; split; assumption]]].
      unfold mbind at 1.
      pose proof (Mok_receive e protocol n1) as [R1 [R2 [ev2 [R3 R4]]]].
      destruct (receive bz e protocol n1) as [[pk'|x| | |] n2] eqn:ER; cbn [fst snd] in *; try contradiction.
      + apply receive_consumes in ER.
        assert (Hf2 : (length (n_udp n2) < f)%nat) by lia.
        destruct (IH e protocol kind Hk pk' n2 Hf2) as [L1 [L2 [ev3 [L3 L4]]]].
        unfold okr. split; [exact L1|split; [lia|]]. exists (ev3 ++ ev2 ++ ev1).
        split; [rewrite L3, R3, S3, !app_assoc; reflexivity|repeat (apply Forall_app; split); assumption].
      + unfold okr; cbn [fst snd]. split; [exact I|split; [lia|]]. exists (ev2 ++ ev1).
        split; [rewrite R3, S3, app_assoc; reflexivity|apply Forall_app; split; assumption].
    - unfold okr, mret; cbn [fst snd]. split; [exact I|split; [lia|exists []; split; [reflexivity|constructor]]].
  Qed.

  Lemma Mok_request_impl : forall e protocol kind, valve_kind kind ->
    Mokv (get_request_data_impl bz port e protocol kind (default_payload kind)).
  Proof.
    intros e protocol kind Hk. unfold get_request_data_impl.
    apply Mok_bind; [apply Mok_send; apply request_default; exact Hk|intros _].
    apply Mok_bind; [apply Mok_receive|intros pk].
    intro n. apply (challenge_loop_ok (S (length (n_udp n))) e protocol kind Hk pk n). lia.
  Qed.
  Lemma Mok_request : forall retries e protocol kind, valve_kind kind ->
    Mokv (get_request_data bz port retries e protocol kind).
  Proof. intros. unfold get_request_data. apply Mok_retry. apply Mok_request_impl; assumption. Qed.

  (* ---- parsers ---- *)
  Lemma Rsafe_cstr : Rsafe read_cstr.
  Proof. apply Rsafe_dec_utf8. Qed.
  Lemma Rsafe_opt_read : forall A c (m : R A), Rsafe m -> Rsafe (opt_read c m).
  Proof. intros A c m H. unfold opt_read. destruct c; [apply Rsafe_bind; [exact H|intro; apply Rsafe_ret]|apply Rsafe_ret]. Qed.

  Ltac rs :=
    repeat first
      [ apply Rsafe_ret | apply Rsafe_fail | apply Rsafe_read_u8 | apply Rsafe_cstr | apply Rsafe_read_uint
      | apply Rsafe_read_int | apply Rsafe_move_cursor
      | apply Rsafe_bind; [|intro]
      | apply Rsafe_opt_read
      | apply Rsafe_if ].

  Lemma Rsafe_goldsrc_info : Rsafe parse_goldsrc_info.
  Proof.
    unfold parse_goldsrc_info, parse_mod_data, read_u32. rs.
    - apply Rsafe_lift. repeat match goal with |- safe (if ?c then _ else _) => destruct c end; exact I.
    - apply Rsafe_lift. repeat match goal with |- safe (if ?c then _ else _) => destruct c end; exact I.
  Qed.

  Lemma server_type_from_safe : forall v, safe (server_type_from v).
  Proof. intro v. unfold server_type_from. repeat match goal with |- safe (if ?c then _ else _) => destruct c end; exact I. Qed.
  Lemma environment_from_safe : forall v, safe (environment_from v).
  Proof. intro v. unfold environment_from. repeat match goal with |- safe (if ?c then _ else _) => destruct c end; exact I. Qed.

  Lemma Rsafe_source_info : forall e, Rsafe (parse_source_info e).
  Proof.
    intro e. unfold parse_source_info, read_u16, read_u64.
    do 10 (apply Rsafe_bind; [first [apply Rsafe_read_u8|apply Rsafe_cstr|apply Rsafe_read_uint]|intro]).
    apply Rsafe_bind; [apply Rsafe_lift, server_type_from_safe|intro].
    apply Rsafe_bind; [apply Rsafe_read_u8|intro].
    apply Rsafe_bind; [apply Rsafe_lift, environment_from_safe|intro].
    apply Rsafe_bind; [apply Rsafe_read_u8|intro].
    apply Rsafe_bind; [apply Rsafe_read_u8|intro].
    apply Rsafe_bind; [rs|intro].
    apply Rsafe_bind; [apply Rsafe_cstr|intro].
    intros b Hb.
    destruct (Rsafe_read_u8 b Hb) as [H1 H2].
    destruct (read_u8 b) as [[value|x| | |] b1]; cbn [fst snd] in *; try contradiction.
    - assert (G : Rsafe (let* ed := parse_edf value in
                         ret (mk_info a a0 a1 a2 a3 (match ed_game_id ed with Some gid => gid mod 16777216 | None => a4 end)
                                      a5 a6 a7 a9 a11 (a12 =? 1) (a13 =? 1) a14 a15 (Some ed) false None))).
      { unfold parse_edf, read_u16, read_u64. rs. }
      exact (G b1 H2).
    - split; [exact I|exact H2].
  Qed.

  Lemma Rsafe_parse_players : forall k acc, Rsafe (parse_players k acc).
  Proof. induction k as [|k IH]; intro acc; cbn [parse_players]; [apply Rsafe_ret|]. unfold read_i32, read_u32. rs. apply IH. Qed.
  Lemma Rsafe_ship_block : forall l, Rsafe (parse_ship_block l).
  Proof. induction l as [|p l IH]; cbn [parse_ship_block]; [apply Rsafe_ret|]. unfold read_u32. rs. apply IH. Qed.
  Lemma Rsafe_parse_rules : forall k acc, Rsafe (parse_rules k acc).
  Proof. induction k as [|k IH]; intro acc; cbn [parse_rules]; [apply Rsafe_ret|]. rs. apply IH. Qed.

  Lemma Mok_get_server_info : forall retries e, Mokv (get_server_info bz port retries e).
  Proof.
    intros retries e. unfold get_server_info.
    apply Mok_bind; [apply Mok_request; left; reflexivity|intro data].
    destruct e as [ids|[|]]; apply Mok_lift, Rsafe_run; first [apply Rsafe_source_info|apply Rsafe_goldsrc_info].
  Qed.
  Lemma Mok_get_server_players : forall retries e protocol, Mokv (get_server_players bz port retries e protocol).
  Proof.
    intros retries e protocol. unfold get_server_players.
    apply Mok_bind; [apply Mok_request; right; left; reflexivity|intro data].
    apply Mok_lift, Rsafe_run. apply Rsafe_bind; [apply Rsafe_read_u8|intro count].
    apply Rsafe_bind; [apply Rsafe_parse_players|intro ps]. apply Rsafe_if; [apply Rsafe_ship_block|apply Rsafe_ret].
  Qed.
  Lemma Mok_get_server_rules : forall retries e protocol, Mokv (get_server_rules bz port retries e protocol).
  Proof.
    intros retries e protocol. unfold get_server_rules.
    apply Mok_bind; [apply Mok_request; right; right; reflexivity|intro data].
    apply Mok_bind; [|intro; apply Mok_ret].
    apply Mok_lift, Rsafe_run. unfold read_u16. apply Rsafe_bind; [apply Rsafe_read_uint|intro count]. apply Rsafe_parse_rules.
  Qed.

  Theorem valve_query_ok : forall e g t, settings_ok t -> retries_ok t -> Mokv (Valve.query bz port e g t).
  Proof.
    intros e g t Hs Hr. unfold Valve.query, retries_ok in *.
    apply Mok_bind; [apply Mok_udp_new; [exact Hs|exact I|intros; exact I]|intros _].
    apply Mok_bind; [apply Mok_get_server_info|intro info].
    apply Mok_if; [apply Mok_fail|].
    apply Mok_bind; [apply Mok_gather, Mok_get_server_players|intro players].
    apply Mok_bind; [apply Mok_gather, Mok_get_server_rules|intro rules]. apply Mok_ret.
  Qed.
End WithBz.

(* ---- corollaries in the form the properties state them ---- *)
Section Corollaries.
  Variable bz : bytes -> N -> outcome bytes.
  Hypothesis bz_safe : forall p s, safe (bz p s).

  (* C01: for every script the query returns a response or an error *)
  Theorem valve_total : forall port e g t u tc sf, settings_ok t -> retries_ok t ->
    safe (fst (Valve.query bz port e g t (net_init u tc sf))).
  Proof. intros. exact (proj1 (valve_query_ok bz bz_safe port e g t H H0 (net_init u tc sf))). Qed.

  (* C13: every field-driven reservation is at most 1 MiB *)
  Lemma forall_reserves : forall port evs, Forall (Qv port) evs ->
    Forall (fun k => k <= max_decompressed_size) (flat_map (fun e => match e with Reserve k => [k] | _ => [] end) evs).
  Proof.
    intros port evs H. induction H as [|e evs He Hevs IH]; cbn [flat_map]; [constructor|].
    apply Forall_app. split; [|exact IH]. destruct e; try constructor; [exact He|constructor].
  Qed.
  Theorem valve_reserves_bounded : forall port e g t u tc sf, settings_ok t -> retries_ok t ->
    Forall (fun k => k <= max_decompressed_size) (reserves (snd (Valve.query bz port e g t (net_init u tc sf)))).
  Proof.
    intros port e g t u tc sf Hs Hr.
    destruct (valve_query_ok bz bz_safe port e g t Hs Hr (net_init u tc sf)) as [_ [_ [evs [H1 H2]]]].
    unfold reserves. rewrite H1. cbn [net_init n_trace]. rewrite app_nil_r. apply (forall_reserves port). exact H2.
  Qed.

  (* C09: every datagram the query emits is a request of the protocol, to the query's port *)
  Theorem valve_sends_are_requests : forall port e g t u tc sf, settings_ok t -> retries_ok t ->
    forall p d, In (SendEv p d) (n_trace (snd (Valve.query bz port e g t (net_init u tc sf)))) ->
    p = port /\ valve_request d.
  Proof.
    intros port e g t u tc sf Hs Hr p d Hin.
    destruct (valve_query_ok bz bz_safe port e g t Hs Hr (net_init u tc sf)) as [_ [_ [evs [H1 H2]]]].
    rewrite H1 in Hin. cbn [net_init n_trace] in Hin. rewrite app_nil_r in Hin.
    rewrite Forall_forall in H2. exact (H2 _ Hin).
  Qed.
  (* and it never opens a TCP connection *)
  Theorem valve_no_tcp : forall port e g t u tc sf, settings_ok t -> retries_ok t ->
    forall p c, ~ In (NewTcp p c) (n_trace (snd (Valve.query bz port e g t (net_init u tc sf)))).
  Proof.
    intros port e g t u tc sf Hs Hr p c Hin.
    destruct (valve_query_ok bz bz_safe port e g t Hs Hr (net_init u tc sf)) as [_ [_ [evs [H1 H2]]]].
    rewrite H1 in Hin. cbn [net_init n_trace] in Hin. rewrite app_nil_r in Hin.
    rewrite Forall_forall in H2. exact (H2 _ Hin).
  Qed.

  (* C09: whatever the challenge value, the next datagram sent carries exactly it *)
  Lemma trace_grows_send : forall port d n, n_trace (snd (send port d n)) = SendEv port d :: n_trace n.
  Proof. intros. unfold send. destruct (existsb _ _); reflexivity. Qed.
  Theorem valve_challenge_echoed : forall port f e protocol kind c n,
    exists evs, n_trace (snd (challenge_loop bz (S f) port e protocol kind (65, c) n))
                = evs ++ SendEv port (to_bytes kind (if kind =? 84 then info_payload ++ c else c)) :: n_trace n.
  Proof.
    intros port f e protocol kind c n. cbn [challenge_loop]. change (65 =? 65) with true. cbv iota.
    unfold mbind at 1. pose proof (trace_grows_send port (to_bytes kind (if kind =? 84 then info_payload ++ c else c)) n) as Hs.
    destruct (send port _ n) as [[u|x| | |] n1]; cbn [snd] in *; try (exists []; exact Hs).
    assert (G : forall fuel pk m, exists evs, n_trace (snd (challenge_loop bz fuel port e protocol kind pk m)) = evs ++ n_trace m).
    { induction fuel as [|fu IH]; intros pk m; [exists []; reflexivity|].
      cbn [challenge_loop]. destruct pk as [k pl]. destruct (k =? 65); [|exists []; reflexivity].
      unfold mbind at 1. pose proof (trace_grows_send port (to_bytes kind (if kind =? 84 then info_payload ++ pl else pl)) m) as Hs2.
      destruct (send port _ m) as [[u2|x| | |] m1]; cbn [snd] in *; try (eexists [_]; exact Hs2).
      unfold mbind at 1. destruct (Mok_receive bz bz_safe port e protocol m1) as [_ [_ [ev2 [R3 _]]]].
      destruct (receive bz e protocol m1) as [[pk'|x| | |] m2]; cbn [snd] in *;
        try (exists (ev2 ++ [SendEv port (to_bytes kind (if kind =? 84 then info_payload ++ pl else pl))]); rewrite R3, Hs2, <- app_assoc; reflexivity).
      destruct (IH pk' m2) as [ev3 L3]. exists (ev3 ++ ev2 ++ [SendEv port (to_bytes kind (if kind =? 84 then info_payload ++ pl else pl))]).
      rewrite L3, R3, Hs2, <- !app_assoc. reflexivity. }
    unfold mbind at 1. destruct (Mok_receive bz bz_safe port e protocol n1) as [_ [_ [ev2 [R3 _]]]].
    destruct (receive bz e protocol n1) as [[pk'|x| | |] n2]; cbn [snd] in *;
      try (exists ev2; rewrite R3, Hs; reflexivity).
    destruct (G f pk' n2) as [ev3 L3]. exists (ev3 ++ ev2). rewrite L3, R3, Hs, <- app_assoc. reflexivity.
  Qed.
End Corollaries.
