(* C14: definition-driven, per-game and protocol-level queries agree. *)
From GD Require Import Base.Prelude Model.Net Model.Valve Model.Quake Model.Unreal2 Model.Dispatch.
From GD Require Import Gen.ModulesTable Gen.GamesTable.
Require Import String.

(* the three generic entry points are one dispatch *)
Lemma entry_points_one_dispatch d port t :
  generic_query d port = dispatch d port None None /\
  generic_query_with_timeout d port t = dispatch d port t None.
Proof. split; reflexivity. Qed.

Lemma u2_gather_eqb_eq a b : u2_gather_eqb a b = true -> a = b.
Proof.
  destruct a as [p m], b as [p' m']; unfold u2_gather_eqb; cbn.
  destruct p, p', m, m'; cbn; intros H; try discriminate; reflexivity.
Qed.

(* where def_ok holds, the generic entry point is the protocol's own query
   function applied to the definition's parameters *)
Lemma generic_is_protocol_call hand d :
  def_ok hand d = true ->
  forall port t, resolve hand (dispatch d port t None) = resolve hand (proto_call d port t).
Proof.
  unfold def_ok, dispatch, proto_call. intros H port t.
  destruct (d_proto d) as [e|v|v|  |name sub]; try reflexivity.
  - apply u2_gather_eqb_eq in H. rewrite H. reflexivity.
  - destruct (String.eqb name "Minecraft") eqn:E; [reflexivity|].
    destruct port as [p|]; [reflexivity|].
    cbn [or_default resolve].
    destruct (sassoc (prop_module name) hand) as [p|]; [|discriminate].
    apply N.eqb_eq in H. subst p. reflexivity.
Qed.

Lemma toggle_eqb_eq a b : toggle_eqb a b = true -> a = b.
Proof. destruct a, b; cbn; intros H; try discriminate; reflexivity. Qed.
Lemma gather_eqb_eq a b : gather_eqb a b = true -> a = b.
Proof.
  destruct a as [p r c], b as [p' r' c']; unfold gather_eqb; cbn.
  intros H. apply andb_prop in H. destruct H as [H Hc]. apply andb_prop in H. destruct H as [Hp Hr].
  apply toggle_eqb_eq in Hp, Hr. apply Bool.eqb_prop in Hc. subst. reflexivity.
Qed.

(* a definition and a module row that agree make the same call (up to an
   unchecked, not special-cased app id) for every port *)
Lemma agree_sound d m :
  agree d m = true -> forall port, call_equiv (generic_query d port) (module_call m port).
Proof.
  unfold agree, generic_query, dispatch, module_call. intros H port.
  destruct (d_proto d) as [e|v|v|  |name sub], m as [i n e' dp g|i n v' dp|i n v' dp|i n dp]; try discriminate.
  - apply andb_prop in H. destruct H as [H He]. apply andb_prop in H. destruct H as [Hp Hg].
    apply N.eqb_eq in Hp. apply gather_eqb_eq in Hg. cbn [call_equiv]. rewrite Hp, Hg.
    repeat split; exact He.
  - apply andb_prop in H. destruct H as [Hv Hp]. apply N.eqb_eq in Hv, Hp. cbn. rewrite Hv, Hp. reflexivity.
  - apply andb_prop in H. destruct H as [Hv Hp]. apply N.eqb_eq in Hv, Hp. cbn. rewrite Hv, Hp. reflexivity.
  - apply N.eqb_eq in H. cbn. rewrite H. reflexivity.
Qed.

Lemma engine_eqb_eq a b : engine_eqb a b = true -> a = b.
Proof.
  destruct a as [[[x dx]|]|f], b as [[[y dy]|]|f']; cbn; intros H; try discriminate; try reflexivity.
  - apply andb_prop in H. destruct H as [H1 H2]. apply N.eqb_eq in H1. subst.
    destruct dx, dy; cbn in H2; try discriminate; [apply N.eqb_eq in H2; subst|]; reflexivity.
  - apply Bool.eqb_prop in H. subst. reflexivity.
Qed.

(* equal calls to modelled protocols run identically: nothing else reaches the
   protocol function (Valve.query, client_query, u2_query are functions of
   exactly these arguments and the script) *)
Lemma call_equiv_equal_engine a b :
  call_equiv a b ->
  match a, b with
  | CValve _ e (Some _) _, CValve _ e' (Some _) _ => engine_eqb e e' = true -> a = b
  | _, _ => a = b
  end.
Proof.
  destruct a as [p e [g|] t| | | |], b as [p' e' [g'|] t'| | | |]; cbn; try (intros H; exact H).
  intros [Hp [Hg [Ht _]]] He. subst.
  apply engine_eqb_eq in He. subst. reflexivity.
Qed.

(* ---- the tables of the current source ---- *)
Local Open Scope string_scope.
(* known findings (known_findings.json): the dispatch ignores the request
   settings of Unreal 2 definitions; Eco's definition and module disagree on the port *)
Definition known_c14 : list string :=
  ["devastation"; "dhe4445"; "killingfloor"; "redorchestra"; "unrealtournament2003"; "unrealtournament2004"; "eco"].
Definition is_known (d : gdef) : bool := existsb (String.eqb (d_id d)) known_c14.
Definition mods_ok (d : gdef) : bool := forallb (agree d) (mods_of modules d).
Definition row_ok (d : gdef) : bool := def_ok hand_ports d.

Lemma nothing_outside_the_grammar : module_translation_problems = [] /\ games_translation_problems = [].
Proof. split; reflexivity. Qed.

Lemma table_agrees : forallb (fun d => is_known d || def_ok hand_ports d) games = true.
Proof. vm_compute. reflexivity. Qed.
(* the module rows agree with every definition, the recorded ones included *)
Lemma modules_agree : forallb (fun d => forallb (agree d) (mods_of modules d)) games = true.
Proof. vm_compute. reflexivity. Qed.

Lemma known_are_refuted : forallb (fun d => negb (is_known d) || negb (row_ok d)) games = true.
Proof. vm_compute. reflexivity. Qed.

(* every module row belongs to a definition; the definitions without a
   generated module are the proprietary ones and Battalion 1944 (hand-written
   modules, compared by the correspondence check) *)
Lemma modules_have_definitions :
  forallb (fun m => existsb (fun d => existsb (fun m' => String.eqb (m_id m') (m_id m)) (mods_of modules d)) games) modules = true.
Proof. vm_compute. reflexivity. Qed.
Definition is_prop (d : gdef) : bool := match d_proto d with PProp _ _ => true | _ => false end.
Lemma definitions_without_module :
  map d_id (filter (fun d => negb (is_prop d) && match mods_of modules d with [] => true | _ => false end) games)
  = ["battalion1944"].
Proof. vm_compute. reflexivity. Qed.

Lemma every_game_agrees_gen (gs : list gdef) (ms : list mrow) (hand : list (string * N)) (known : gdef -> bool) :
  forallb (fun d => known d || def_ok hand d) gs = true ->
  forallb (fun d => forallb (agree d) (mods_of ms d)) gs = true ->
  forall d, In d gs ->
  (known d = false ->
   forall port t, resolve hand (dispatch d port t None) = resolve hand (proto_call d port t)) /\
  (forall m, In m (mods_of ms d) -> forall port, call_equiv (generic_query d port) (module_call m port)).
Proof.
  intros T1 T2 d Hin. rewrite forallb_forall in T1, T2. split.
  - intros Hk. specialize (T1 d Hin). rewrite Hk in T1. cbn [orb] in T1.
    apply generic_is_protocol_call, T1.
  - intros m Hm port. apply agree_sound. specialize (T2 d Hin). rewrite forallb_forall in T2. apply T2, Hm.
Qed.

Theorem every_game_agrees d :
  In d games ->
  (is_known d = false ->
   forall port t, resolve hand_ports (dispatch d port t None) = resolve hand_ports (proto_call d port t)) /\
  (forall m, In m (mods_of modules d) -> forall port, call_equiv (generic_query d port) (module_call m port)).
Proof. exact (every_game_agrees_gen games modules hand_ports is_known table_agrees modules_agree d). Qed.
