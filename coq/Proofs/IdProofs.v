(* C20: the game-id naming checker (Model/IdCheck.v). *)
From GD Require Import Base.Prelude Model.StrOps Model.IdCheck.
Require Import Lia.

Lemma bytes_eqb_refl a : bytes_eqb a a = true.
Proof. induction a as [|x a IH]; cbn; [reflexivity|]. rewrite N.eqb_refl, IH. reflexivity. Qed.
Lemma bytes_eqb_eq a b : bytes_eqb a b = true <-> a = b.
Proof.
  split; [|intros ->; apply bytes_eqb_refl].
  revert b; induction a as [|x a IH]; intros [|y b]; cbn; intros H; try discriminate; [reflexivity|].
  apply andb_prop in H. destruct H as [H1 H2]. apply N.eqb_eq in H1. apply IH in H2. subst. reflexivity.
Qed.
Lemma bytes_eqb_neq a b : bytes_eqb a b = false <-> a <> b.
Proof.
  split.
  - intros H E. apply bytes_eqb_eq in E. rewrite E in H. discriminate.
  - intros H. destruct (bytes_eqb a b) eqn:E; [|reflexivity]. apply bytes_eqb_eq in E. contradiction.
Qed.

Lemma lower_c_idem c : lower_c (lower_c c) = lower_c c.
Proof.
  unfold lower_c, is_upper.
  destruct ((65 <=? c) && (c <=? 90)) eqn:E; [|rewrite E; reflexivity].
  apply andb_prop in E. destruct E as [E1 E2]. apply N.leb_le in E1, E2.
  replace ((65 <=? c + 32) && (c + 32 <=? 90)) with false; [reflexivity|].
  symmetry. apply Bool.andb_false_iff. right. apply N.leb_gt. lia.
Qed.
Lemma lower_idem s : lower (lower s) = lower s.
Proof. unfold lower. rewrite map_map. apply map_ext. intros c. apply lower_c_idem. Qed.

Section Single.
  Variable n2w : bytes -> option bytes.

  (* with an empty table the expected id is lower-case *)
  Lemma expected_nil_lower g m e w st :
    expected_core n2w [] g m = Ok (e, w, st) -> lower e = e.
  Proof.
    unfold expected_core.
    destruct (romanise (pn_words g)) as [w1 s1].
    destruct (split_numbers w1) as [w2 s2].
    match goal with |- context [match ?x with Ok _ => _ | _ => _ end = _] => destruct x as [[w3 s3]| | | |] end; try discriminate.
    match goal with |- context [match ?x with (_, _) => _ end] => destruct x as [[w4 suffix] s4] end.
    match goal with |- context [match ?x with Ok _ => _ | _ => _ end = _] => destruct x as [[main s5]| | | |] end; try discriminate.
    cbn [seen_get]. intros H. inversion H; subst. apply lower_idem.
  Qed.

  (* the one-game run, unfolded *)
  Lemma single_unfold id name g :
    extract_parts name = Ok g ->
    test_single_game_rule n2w id name =
      match check_game n2w [] id g with
      | Ok (fs, _) => Ok (fs ++ [])
      | Panic s => Panic s | Err e => Err e | Abort s => Abort s | OutOfFuel => OutOfFuel
      end.
  Proof.
    intros H. unfold test_single_game_rule, test_game_name_rules. cbn [parse_all]. rewrite H.
    cbn [stable_sort fold_right insert_sorted check_all].
    destruct (check_game n2w [] id g) as [[fs s]| | | |]; reflexivity.
  Qed.

  (* the reminder that ids are lower-case *)
  Definition lc_fail (id nm : bytes) : list idfail :=
    if bytes_eqb (lower id) id then [] else [mkfail id nm (lower id) [IDsMustBeLowerCase]].

  (* a name without a mod part: accepted exactly when the id is the expected one;
     a rejected id is told the expected one, whatever it was *)
  Theorem single_plain id name g e w st :
    extract_parts name = Ok g ->
    expected_core n2w [] g false = Ok (e, w, st) ->
    split_once 45 (pn_name g) = None ->
    (test_single_game_rule n2w id name = Ok [] <-> id = e) /\
    (id <> e -> exists st', test_single_game_rule n2w id name
                          = Ok (lc_fail id (pn_name g) ++ [mkfail id (pn_name g) e st'])).
  Proof.
    intros Hp He Hs. rewrite (single_unfold id name g Hp).
    unfold check_game, check_core. rewrite He. cbn [negb andb].
    pose proof (expected_nil_lower g false e w st He) as Hl.
    destruct (bytes_eqb id e) eqn:E.
    - apply bytes_eqb_eq in E. subst id. cbn [negb]. cbn [seen_insert seen_get orb].
      rewrite Hl, bytes_eqb_refl. cbn. split; [split; [reflexivity|reflexivity]|]. intros C; contradiction.
    - apply bytes_eqb_neq in E. cbn [negb]. rewrite Hs. cbn [seen_insert seen_get orb].
      split.
      + split; [|intros C; contradiction].
        destruct (bytes_eqb (lower id) id); cbn; intros C; inversion C.
      + intros _. unfold lc_fail. destruct (bytes_eqb (lower id) id); cbn; eexists; reflexivity.
  Qed.

  (* a 'Game - Mod' name: accepted exactly when the id is the one expected for
     the full name or the one expected for the mod part *)
  Theorem single_mod id name g e w st x mn pm em wm stm :
    extract_parts name = Ok g ->
    expected_core n2w [] g false = Ok (e, w, st) ->
    split_once 45 (pn_name g) = Some (x, mn) ->
    extract_parts mn = Ok pm ->
    expected_core n2w [] pm true = Ok (em, wm, stm) ->
    (test_single_game_rule n2w id name = Ok [] <-> id = e \/ id = em) /\
    (id <> e -> id <> em -> exists stm' st', test_single_game_rule n2w id name
         = Ok (lc_fail id (pn_name g) ++ (lc_fail id (pn_name pm) ++ [mkfail id (pn_name pm) em stm'])
               ++ [mkfail id (pn_name g) e st'])).
  Proof.
    intros Hp He Hs Hpm Hem. rewrite (single_unfold id name g Hp).
    unfold check_game, check_core. rewrite He. cbn [negb andb].
    pose proof (expected_nil_lower g false e w st He) as Hl.
    pose proof (expected_nil_lower pm true em wm stm Hem) as Hlm.
    destruct (bytes_eqb id e) eqn:E.
    - apply bytes_eqb_eq in E. subst id. cbn [negb]. cbn [seen_insert seen_get orb].
      rewrite Hl, bytes_eqb_refl. cbn. split; [split; [intros _; left; reflexivity|reflexivity]|].
      intros C; contradiction.
    - apply bytes_eqb_neq in E. cbn [negb]. rewrite Hs, Hpm.
      unfold check_mod, check_core. rewrite Hem. cbn [negb andb seen_insert seen_get orb].
      destruct (bytes_eqb id em) eqn:Em.
      + apply bytes_eqb_eq in Em. subst id. rewrite Hlm, bytes_eqb_refl. cbn.
        split; [split; [intros _; right; reflexivity|reflexivity]|]. intros _ C; contradiction.
      + apply bytes_eqb_neq in Em. cbn [negb].
        split.
        * split; [|intros [C|C]; contradiction].
          destruct (bytes_eqb (lower id) id); cbn;
            destruct (seen_insert e w [(em, wm)]) as [s' d]; destruct d; cbn; intros C; inversion C.
        * intros _ _. unfold lc_fail.
          destruct (bytes_eqb (lower id) id); cbn;
            destruct (seen_insert e w [(em, wm)]) as [s' d]; destruct d; cbn; eexists; eexists; reflexivity.
  Qed.
End Single.

(* ---- totality ---- *)
From GD Require Import Proofs.QuakeRoundtrip.

Definition wordsok (ws : list bytes) : Prop := Forall (fun w => w <> []) ws.

Lemma show_N_nonempty n : show_N n <> [].
Proof. pose proof (show_N_hd_digit n) as H. destruct (show_N n); [contradiction|discriminate]. Qed.

Lemma strip_suffix_byte_spec c s m : strip_suffix_byte c s = Some m -> s = m ++ [c].
Proof.
  unfold strip_suffix_byte. destruct (rev s) as [|x r] eqn:E; [discriminate|].
  destruct (x =? c) eqn:Ex; [|discriminate]. intros H. inversion H; subst.
  apply N.eqb_eq in Ex. subst. rewrite <- (rev_involutive s), E. reflexivity.
Qed.

Lemma accumulate_wordsok ws : forall acc l,
  Forall (fun w => trim_dashes w <> []) ws ->
  match acc with Some a => a <> [] | None => True end ->
  accumulate acc ws = Ok l -> wordsok l.
Proof.
  induction ws as [|w r IH]; intros acc l Hws Hacc H.
  - destruct acc; cbn in H; inversion H; constructor.
  - inversion Hws as [|? ? Hw Hr]; subst.
    assert (Hne : w <> []) by (intros ->; apply Hw; reflexivity).
    assert (Hm : forall m, strip_suffix_byte 45 w = Some m -> m <> []).
    { intros m Hm ->. apply strip_suffix_byte_spec in Hm. subst w. apply Hw. reflexivity. }
    cbn [accumulate] in H. destruct acc as [a|].
    + destruct (strip_suffix_byte 45 w) as [m|] eqn:Es.
      * destruct (all_digits m); [|discriminate].
        apply (IH (Some (a ++ m)) l Hr); [|exact H]. intros C. apply app_eq_nil in C. destruct C as [C _]. contradiction.
      * destruct (all_digits w); [|discriminate].
        destruct (accumulate None r) as [l'| | | |] eqn:Er; try discriminate. inversion H; subst.
        constructor; [intros C; apply app_eq_nil in C; destruct C as [C _]; contradiction|].
        apply (IH None l' Hr I Er).
    + destruct (strip_suffix_byte 45 w) as [m|] eqn:Es.
      * destruct (all_digits m).
        -- apply (IH (Some m) l Hr); [apply Hm; reflexivity|exact H].
        -- destruct (accumulate None r) as [l'| | | |] eqn:Er; try discriminate. inversion H; subst.
           constructor; [exact Hne|]. apply (IH None l' Hr I Er).
      * destruct (accumulate None r) as [l'| | | |] eqn:Er; try discriminate. inversion H; subst.
        constructor; [exact Hne|]. apply (IH None l' Hr I Er).
Qed.

(* the parser either succeeds or raises its documented "Text after number-" panic *)
Lemma accumulate_ok_or_panic ws : forall acc,
  (exists l, accumulate acc ws = Ok l) \/ accumulate acc ws = Panic site_explicit_panic.
Proof.
  induction ws as [|w r IH]; intros acc.
  - left. destruct acc; cbn; eexists; reflexivity.
  - cbn [accumulate]. destruct acc as [a|].
    + destruct (strip_suffix_byte 45 w) as [m|].
      * destruct (all_digits m); [apply IH | right; reflexivity].
      * destruct (all_digits w); [|right; reflexivity].
        destruct (IH None) as [[l E]|E]; rewrite E; [left; eexists; reflexivity|right; reflexivity].
    + destruct (strip_suffix_byte 45 w) as [m|].
      * destruct (all_digits m); [apply IH|].
        destruct (IH None) as [[l E]|E]; rewrite E; [left; eexists; reflexivity|right; reflexivity].
      * destruct (IH None) as [[l E]|E]; rewrite E; [left; eexists; reflexivity|right; reflexivity].
Qed.

Lemma extract_parts_ok_or_panic name :
  (exists g, extract_parts name = Ok g) \/ extract_parts name = Panic site_explicit_panic.
Proof.
  unfold extract_parts. destruct (extract_bracketed_suffix name) as [g paren].
  match goal with |- context [accumulate None ?ws] => destruct (accumulate_ok_or_panic ws None) as [[l E]|E]; rewrite E end;
    [left; eexists; reflexivity | right; reflexivity].
Qed.

Lemma extract_parts_wordsok name g : extract_parts name = Ok g -> wordsok (pn_words g).
Proof.
  unfold extract_parts. destruct (extract_bracketed_suffix name) as [g0 paren].
  match goal with |- context [accumulate None ?ws] => destruct (accumulate None ws) as [l| | | |] eqn:E end; try discriminate.
  intros H. inversion H; subst. cbn [pn_words].
  refine (accumulate_wordsok _ None l _ I E).
  apply Forall_forall. intros w Hw. apply filter_In in Hw. destruct Hw as [_ Hw].
  destruct (trim_dashes w); [discriminate|discriminate].
Qed.

(* a name none of whose pieces is "<digits>-" is parsed without a panic *)
Lemma accumulate_plain ws :
  (forall w m, In w ws -> strip_suffix_byte 45 w = Some m -> all_digits m = false) ->
  accumulate None ws = Ok ws.
Proof.
  induction ws as [|w r IH]; intros H; [reflexivity|].
  cbn [accumulate]. rewrite IH by (intros w' m Hin; apply H; right; exact Hin).
  destruct (strip_suffix_byte 45 w) as [m|] eqn:E; [|reflexivity].
  rewrite (H w m (or_introl eq_refl) E). reflexivity.
Qed.

Lemma split_switch_go_wordsok s : forall cur b, cur <> [] -> wordsok (split_switch_go cur b s).
Proof.
  induction s as [|c r IH]; intros cur b Hc; cbn [split_switch_go].
  - constructor; [|constructor]. intros C. apply (f_equal (@rev N)) in C. rewrite rev_involutive in C. contradiction.
  - destruct (Bool.eqb (is_digit c) b).
    + apply IH. discriminate.
    + constructor; [intros C; apply (f_equal (@rev N)) in C; rewrite rev_involutive in C; contradiction|].
      apply IH. discriminate.
Qed.
Lemma split_switch_wordsok w : wordsok (split_switch w).
Proof. destruct w as [|c r]; [constructor|]. apply split_switch_go_wordsok. discriminate. Qed.
Lemma flat_map_wordsok (f : bytes -> list bytes) ws : (forall w, wordsok (f w)) -> wordsok (flat_map f ws).
Proof.
  intros H. induction ws as [|w r IH]; cbn; [constructor|]. apply Forall_app. split; [apply H|exact IH].
Qed.

Lemma firsts_total ws : wordsok ws -> exists a, firsts ws = Ok a.
Proof.
  induction ws as [|w r IH]; intros H; [eexists; reflexivity|].
  inversion H as [|? ? Hw Hr]; subst. destruct (IH Hr) as [a E]. cbn [firsts]. rewrite E.
  destruct w as [|c t]; [contradiction|]. cbn. eexists. reflexivity.
Qed.

Section Total.
  Variable n2w : bytes -> option bytes.
  (* the oracle answers every non-empty digit string with a non-empty text *)
  Hypothesis n2w_total : forall c r, is_digit c = true -> exists t, n2w (c :: r) = Some t /\ t <> [].

  Definition opt_ok (g : parsed) : Prop :=
    match pn_opt g with p :: _ => exists pp, extract_parts p = Ok pp | [] => True end.

  Lemma expected_core_total seen g m :
    wordsok (pn_words g) -> opt_ok g -> exists r, expected_core n2w seen g m = Ok r.
  Proof.
    intros Hw Ho. unfold expected_core.
    destruct (romanise (pn_words g)) as [w1 s1] eqn:Er.
    assert (H1 : wordsok w1).
    { unfold romanise in Er. destruct (pn_words g) as [|w r]; inversion Er; subst; [constructor|].
      inversion Hw as [|? ? Hw0 Hr]; subst. constructor; [exact Hw0|].
      apply Forall_forall. intros x Hx. apply in_map_iff in Hx. destruct Hx as [y [Hy Hin]].
      rewrite Forall_forall in Hr. specialize (Hr y Hin).
      destruct (roman_parse y); subst; [apply show_N_nonempty|exact Hr]. }
    destruct (split_numbers w1) as [w2 s2] eqn:Es.
    assert (H2 : wordsok w2).
    { unfold split_numbers in Es. inversion Es; subst. apply flat_map_wordsok. apply split_switch_wordsok. }
    assert (H3 : exists w3 s3, (match w2 with
      | w :: r => match first_byte w with
                  | Ok c => if is_digit c then match n2w w with Some t => Ok (t :: r, [IfFirstWordNumberNoDigits]) | None => Panic 99 end
                            else Ok (w2, [])
                  | Panic s => Panic s | Err e => Err e | Abort s => Abort s | OutOfFuel => OutOfFuel
                  end
      | [] => Ok (w2, []) end) = Ok (w3, s3) /\ wordsok w3).
    { destruct w2 as [|w r]; [eexists; eexists; split; [reflexivity|constructor]|].
      inversion H2 as [|? ? Hw0 Hr]; subst. destruct w as [|c t]; [contradiction|]. cbn [first_byte].
      destruct (is_digit c) eqn:Ed.
      - destruct (n2w_total c t Ed) as [tx [E Hne]]. rewrite E. eexists; eexists; split; [reflexivity|].
        constructor; assumption.
      - eexists; eexists; split; [reflexivity|exact H2]. }
    destruct H3 as [w3 [s3 [E3 H3]]]. rewrite E3.
    match goal with |- context [match ?x with (_, _) => _ end] => destruct x as [[w4 suffix] s4] eqn:E4 end.
    assert (H4 : wordsok w4).
    { destruct (rev w3) as [|l r] eqn:Erev; [inversion E4; subst; exact H3|].
      destruct (all_digits l); inversion E4; subst; [|exact H3].
      assert (Hr : wordsok (rev w3)) by (apply Forall_rev; exact H3).
      rewrite Erev in Hr. inversion Hr; subst. apply Forall_rev. assumption. }
    destruct (firsts_total w4 H4) as [a Ea]. rewrite Ea.
    assert (Hmain : exists main s5, (if (length w4 <=? 2)%nat then Ok (join_trimmed w4, [TwoWordsOrLessUseFullWords])
                                    else Ok (a, [MoreThanTwoWordsMakeAcronym])) = Ok (main, s5)).
    { destruct (length w4 <=? 2)%nat; eexists; eexists; reflexivity. }
    destruct Hmain as [main [s5 Em]]. rewrite Em.
    destruct (seen_get (lower (main ++ suffix)) seen) as [other|].
    - destruct (words_same w4 other).
      + destruct (pn_year g).
        * match goal with |- context [seen_get ?k seen] => destruct (seen_get k seen) end; eexists; reflexivity.
        * unfold opt_ok in Ho. destruct (pn_opt g) as [|p ?].
          -- match goal with |- context [seen_get ?k seen] => destruct (seen_get k seen) end; eexists; reflexivity.
          -- destruct Ho as [pp Ep]. rewrite Ep.
             match goal with |- context [seen_get ?k seen] => destruct (seen_get k seen) end; eexists; reflexivity.
      + match goal with |- context [seen_get ?k seen] => destruct (seen_get k seen) end; eexists; reflexivity.
    - match goal with |- context [seen_get ?k seen] => destruct (seen_get k seen) end; eexists; reflexivity.
  Qed.

  Definition name_ok (g : parsed) : Prop :=
    wordsok (pn_words g) /\ opt_ok g /\
    match split_once 45 (pn_name g) with
    | Some (_, mn) => exists pm, extract_parts mn = Ok pm /\ opt_ok pm
    | None => True
    end.

  Lemma check_game_total seen id g : name_ok g -> exists r, check_game n2w seen id g = Ok r.
  Proof.
    intros [Hw [Ho Hm]]. unfold check_game, check_core.
    destruct (expected_core_total seen g false Hw Ho) as [[[e w] st] E]. rewrite E.
    destruct (negb false && negb (bytes_eqb id e)).
    - destruct (split_once 45 (pn_name g)) as [[x mn]|].
      + destruct Hm as [pm [Ep Hop]]. rewrite Ep.
        unfold check_mod, check_core.
        destruct (expected_core_total seen pm true (extract_parts_wordsok mn pm Ep) Hop) as [[[em wm] stm] Em]. rewrite Em.
        cbn [negb andb].
        destruct (seen_insert em wm seen) as [s1 d1].
        match goal with |- context [match ?res with [] => _ | _ :: _ => _ end] => destruct res end;
          [eexists; reflexivity|].
        destruct (seen_insert e w s1) as [s2 d2]. eexists; reflexivity.
      + destruct (seen_insert e w seen) as [s2 d2]. eexists; reflexivity.
    - destruct (seen_insert e w seen) as [s2 d2]. eexists; reflexivity.
  Qed.

  Lemma check_all_total l : forall seen,
    Forall (fun ig => name_ok (snd ig)) l -> exists fs, check_all n2w seen l = Ok fs.
  Proof.
    induction l as [|[id g] r IH]; intros seen H; [eexists; reflexivity|].
    inversion H as [|? ? Hg Hr]; subst. cbn [check_all].
    destruct (check_game_total seen id g Hg) as [[fs seen'] E]. rewrite E.
    destruct (IH seen' Hr) as [fs' E']. rewrite E'. eexists; reflexivity.
  Qed.

  Lemma insert_sorted_forall (P : bytes * parsed -> Prop) x l : P x -> Forall P l -> Forall P (insert_sorted x l).
  Proof.
    intros Hx Hl. induction l as [|y r IH]; cbn; [constructor; [exact Hx|constructor]|].
    inversion Hl; subst. destruct (game_lt y x); constructor; auto.
  Qed.
  Lemma stable_sort_forall (P : bytes * parsed -> Prop) l : Forall P l -> Forall P (stable_sort l).
  Proof.
    induction l as [|x r IH]; intros H; [constructor|]. inversion H; subst. cbn. apply insert_sorted_forall; auto.
  Qed.

  (* a name is well-formed for the checker when it, its mod part and its first
     bracketed part are outside the documented "Text after number-" class *)
  Definition name_parses (name : bytes) : Prop :=
    exists g, extract_parts name = Ok g /\ opt_ok g /\
      match split_once 45 (pn_name g) with
      | Some (_, mn) => exists pm, extract_parts mn = Ok pm /\ opt_ok pm
      | None => True
      end.

  Theorem checker_total games :
    Forall (fun ig => name_parses (snd ig)) games ->
    exists fs, test_game_name_rules n2w games = Ok fs.
  Proof.
    intros H. unfold test_game_name_rules.
    assert (Hp : exists l, parse_all games = Ok l /\ Forall (fun ig => name_ok (snd ig)) l).
    { induction games as [|[id name] r IH]; [eexists; split; [reflexivity|constructor]|].
      inversion H as [|? ? Hn Hr]; subst. destruct (IH Hr) as [l [El Hl]].
      destruct Hn as [g [Eg [Ho Hm]]]. cbn [parse_all snd] in *. rewrite Eg, El.
      eexists; split; [reflexivity|]. constructor; [|exact Hl].
      split; [apply (extract_parts_wordsok name g Eg)|split; assumption]. }
    destruct Hp as [l [El Hl]]. rewrite El. apply check_all_total. apply stable_sort_forall. exact Hl.
  Qed.
End Total.
