(* C01 rows for GameSpy 1 / 2 / 3 and Just Cause 2: Multiplayer: whatever the
   datagrams, the queries return a value or an error - no panic, no abort, and
   the fuel of every loop of the model suffices (each round consumes a byte or
   a datagram). *)
From GD Require Import Base.Prelude Model.Strings Model.StrOps Model.Buffer Model.Net Model.Valve Model.Gamespy Model.Games.
From GD Require Import Proofs.BufferLemmas Proofs.BufInv Proofs.Msafe Proofs.QuakeTotal Proofs.GamesTotal.
From Coq Require Import ZifyBool ZifyNat ZifyN Lia.

(* ---------- a Hoare-style postcondition for readers ---------- *)
Definition post {A} (r : outcome A * buf) (P : A -> buf -> Prop) : Prop :=
  match r with (Ok a, b') => P a b' | (Err _, _) => True | _ => False end.
Lemma post_safe {A} (r : outcome A * buf) P : post r P -> safe (fst r).
Proof. destruct r as [[a|e| | |] b]; cbn; trivial. Qed.
Lemma post_weaken {A} (r : outcome A * buf) (P P' : A -> buf -> Prop) :
  post r P -> (forall a b', P a b' -> P' a b') -> post r P'.
Proof. destruct r as [[a|e| | |] b]; cbn; auto. Qed.
Lemma post_bind {A B} (m : R A) (f : A -> R B) b (P1 : A -> buf -> Prop) (P2 : B -> buf -> Prop) :
  post (m b) P1 -> (forall a b', P1 a b' -> post (f a b') P2) -> post (bind m f b) P2.
Proof. unfold bind. destruct (m b) as [[a|e| | |] b']; cbn; auto. Qed.
Lemma post_ret {A} (a : A) b (P : A -> buf -> Prop) : P a b -> post (ret a b) P.
Proof. exact (fun H => H). Qed.
Lemma post_fail {A} e b (P : A -> buf -> Prop) : post (@fail A e b) P.
Proof. exact I. Qed.
Lemma post_lift {A} (o : outcome A) b (P : A -> buf -> Prop) : safe o -> (forall a, o = Ok a -> P a b) -> post (lift o b) P.
Proof. destruct o; cbn; auto. Qed.

Definition len (b : buf) : nat := length (rest b).

Lemma post_cstr b : buf_inv b ->
  post (read_cstr b) (fun s b' => buf_inv b' /\ (len b' <= len b)%nat /\ (rest b <> [] -> (len b' < len b)%nat) /\ (rest b = [] -> s = [])).
Proof.
  intros Hb. unfold read_cstr. pose proof (proj1 (Rsafe_dec_utf8 0 b Hb)) as Hs.
  destruct (dec_utf8 0 b) as [[s|e| | |] b'] eqn:E; cbn in Hs |- *; try contradiction; [|exact I].
  destruct (rest b) as [|x r] eqn:Er.
  - unfold dec_utf8, with_slice in E. rewrite Hb, Er in E. cbn in E. inversion E; subst.
    unfold len, advance. rewrite Er. cbn. repeat split; auto; try lia. intro X; contradiction.
  - destruct (dec_utf8_consumes 0 b s b' Hb ltac:(rewrite Er; discriminate) E) as [H1 H2].
    unfold len. rewrite Er in *. repeat split; auto; try lia. discriminate.
Qed.
Lemma post_uint be w b : buf_inv b -> post (read_uint be w b) (fun _ b' => buf_inv b' /\ (len b' + w = len b)%nat).
Proof.
  intros Hb. unfold read_uint, bind. rewrite read_raw_spec by exact Hb.
  destruct (w <=? length (rest b))%nat eqn:E; cbn; [|exact I]. split; [reflexivity|]. unfold len. cbn [rest]. rewrite skipn_length. lia.
Qed.
Lemma post_u8 b : buf_inv b -> post (read_u8 b) (fun _ b' => buf_inv b' /\ (len b' + 1 = len b)%nat).
Proof. apply post_uint. Qed.
Lemma post_move b off : buf_inv b -> post (move_cursor off b) (fun _ b' => buf_inv b').
Proof.
  intros Hb. destruct (Rsafe_move_cursor off b Hb) as [H1 H2].
  destruct (move_cursor off b) as [[u|e| | |] b']; cbn in *; try contradiction; trivial.
Qed.
(* moving forward never lengthens what is left *)
Lemma post_move_fwd b off : buf_inv b -> (0 <= off)%Z -> post (move_cursor off b) (fun _ b' => buf_inv b' /\ (len b' <= len b)%nat).
Proof.
  intros Hb Ho. unfold move_cursor. destruct (_ || _); [exact I|]. rewrite Hb.
  replace (0 <=? off + Z.of_N 0)%Z with true by lia.
  destruct (take_n (Z.to_nat (off + Z.of_N 0)) (rest b)) as [[x r]|] eqn:E; [|exact I]. cbn. split; [reflexivity|].
  apply take_n_rest_length in E. unfold len. cbn [rest]. lia.
Qed.
(* one byte read and given back *)
Lemma post_u8_back b : buf_inv b ->
  post (read_u8 b) (fun _ b1 => post (move_cursor (-1) b1) (fun _ b' => buf_inv b' /\ len b' = len b /\ rest b <> [])).
Proof.
  intros Hb. unfold read_u8, read_uint, bind. rewrite read_raw_spec by exact Hb.
  destruct (rest b) as [|c r] eqn:Er; [exact I|]. cbn [length Nat.leb firstn skipn fst snd ret post rev_append].
  unfold move_cursor, cursor, data_length. cbn [pre_rev rest over length].
  assert (H1 : ((Z.of_N (lenN (c :: pre_rev b) + 0) + -1 <? 0)%Z || (Z.of_N (lenN (c :: pre_rev b) + lenN r) <? Z.of_N (lenN (c :: pre_rev b) + 0) + -1)%Z) = false).
  { unfold lenN. cbn [length]. lia. }
  rewrite H1. cbn [Z.add Z.of_N Z.leb Z.compare Z.opp Z.to_nat Pos.to_nat Pos.iter_op Nat.add retreat post].
  split; [reflexivity|]. unfold len. cbn [rest length]. rewrite Er. split; [reflexivity|discriminate].
Qed.

(* ---------- pure helpers never panic ---------- *)
Ltac osafe :=
  repeat first
    [ exact I
    | apply safe_need
    | apply safe_obind; [|intros ?]
    | match goal with
      | |- safe (let '(_, _) := ?x in _) => destruct x
      | |- safe (match ?x with _ => _ end) => destruct x
      end ].
Lemma safe_take_req k m : safe (take_req k m).
Proof. unfold take_req, vm_remove. osafe. Qed.
Lemma safe_opt_parse {A} o (p : bytes -> option A) : safe (opt_parse o p).
Proof. unfold opt_parse. osafe. Qed.
Lemma safe_online_of vars n : safe (online_of vars n).
Proof. unfold online_of, vm_remove. osafe. Qed.
Lemma safe_has_password m : safe (has_password m).
Proof. unfold has_password, vm_remove. osafe. Qed.
Lemma safe_tournament m : safe (tournament_of m).
Proof. unfold tournament_of, vm_remove. osafe. Qed.
Lemma safe_cell t name i : safe (cell t name i).
Proof. unfold cell. osafe. Qed.
Lemma safe_cell_u16 t name i : safe (cell_u16 t name i).
Proof. unfold cell_u16. apply safe_obind; [apply safe_cell|intro; apply safe_need]. Qed.
Lemma safe_gs2_players t n : safe (gs2_players t n).
Proof.
  unfold gs2_players. apply omap_list_safe. intro i.
  repeat (apply safe_obind; [first [apply safe_cell | apply safe_cell_u16]|intros ?]). exact I.
Qed.
Lemma safe_gs2_teams t n : safe (gs2_teams t n).
Proof.
  unfold gs2_teams. apply omap_list_safe. intro i.
  repeat (apply safe_obind; [first [apply safe_cell | apply safe_cell_u16]|intros ?]). exact I.
Qed.
Lemma safe_gs1_make_player d : safe (gs1_make_player d).
Proof. unfold gs1_make_player. repeat (apply safe_obind; [first [apply safe_need | apply safe_opt_parse]|intros ?]). exact I. Qed.
Lemma safe_gs3_make_player d : safe (gs3_make_player d).
Proof. unfold gs3_make_player. repeat (apply safe_obind; [apply safe_need|intros ?]). exact I. Qed.
Lemma safe_gs3_make_team d : safe (gs3_make_team d).
Proof. unfold gs3_make_team. repeat (apply safe_obind; [apply safe_need|intros ?]). exact I. Qed.

Lemma safe_gs1_build vars : safe (gs1_build vars).
Proof.
  unfold gs1_build.
  apply safe_obind; [apply safe_take_req|intros [maxs vars1]].
  apply safe_obind; [apply safe_need|intros maxp].
  destruct (vm_remove (str "minplayers") vars1) as [mins vars2].
  apply safe_obind; [apply safe_opt_parse|intros minp].
  destruct (gs1_split_players (lenN vars2) vars2 []) as [vars3 pd].
  apply safe_obind; [apply omap_list_safe; intro; apply safe_gs1_make_player|intros players].
  apply safe_obind; [apply safe_take_req|intros [name vars4]].
  apply safe_obind; [apply safe_take_req|intros [mapn vars5]].
  destruct (vm_remove (str "maptitle") vars5) as [title vars6].
  destruct (vm_remove (str "AdminEMail") vars6) as [mail vars7].
  destruct (vm_remove (str "AdminName") vars7) as [an vars8].
  destruct (match an with Some a => (Some a, vars8) | None => vm_remove (str "admin") vars8 end) as [admin vars9].
  apply safe_obind; [apply safe_has_password|intros [pw vars10]].
  apply safe_obind; [apply safe_take_req|intros [mode vars11]].
  apply safe_obind; [apply safe_take_req|intros [ver vars12]].
  apply safe_obind; [apply safe_tournament|intros [tour vars13]]. exact I.
Qed.

(* ---------- the loops of the GameSpy 2 reader ---------- *)
Lemma gs2_vars_loop_post : forall fuel m b, buf_inv b -> (len b < fuel)%nat ->
  post (gs2_vars_loop fuel m b) (fun _ b' => buf_inv b').
Proof.
  induction fuel as [|f IH]; intros m b Hb Hf; [lia|]. cbn [gs2_vars_loop]. unfold remaining_length. rewrite Hb. cbn [N.eqb].
  destruct (lenN (rest b)) eqn:El; [exact Hb|].
  assert (Hne : rest b <> []) by (intro X; rewrite X in El; discriminate).
  eapply post_bind; [apply post_cstr; exact Hb|]. intros k b1 [Hb1 [L1 [S1 _]]]. specialize (S1 Hne).
  eapply post_bind; [apply post_cstr; exact Hb1|]. intros v b2 [Hb2 [L2 _]].
  destruct k as [|k0 k]; [destruct v as [|v0 v]|].
  - eapply post_bind; [apply post_move; exact Hb2|]. intros u3 b3 Hb3. exact Hb3.
  - apply IH; [exact Hb2|lia].
  - apply IH; [exact Hb2|lia].
Qed.
Lemma read_heads_post : forall fuel b, buf_inv b -> (len b < fuel)%nat ->
  post (read_heads fuel b) (fun _ b' => buf_inv b' /\ (len b' <= len b)%nat).
Proof.
  induction fuel as [|f IH]; intros b Hb Hf; [lia|]. cbn [read_heads].
  eapply post_bind; [apply post_cstr; exact Hb|]. intros h b1 [Hb1 [L1 [S1 E1]]].
  destruct h as [|h0 h]; [split; [exact Hb1|exact L1]|].
  assert (Hne : rest b <> []) by (intro X; specialize (E1 X); discriminate). specialize (S1 Hne).
  eapply post_bind; [apply IH; [exact Hb1|lia]|]. intros r b2 [Hb2 L2]. split; [exact Hb2|lia].
Qed.
Lemma read_row_post : forall heads t b, buf_inv b -> post (read_row heads t b) (fun _ b' => buf_inv b').
Proof.
  induction heads as [|h r IH]; intros t b Hb; cbn [read_row]; [exact Hb|].
  eapply post_bind; [apply post_cstr; exact Hb|]. intros v b1 [Hb1 _].
  destruct (tm_push h v t); [apply IH; exact Hb1|exact I].
Qed.
Lemma read_rows_post : forall n heads t b, buf_inv b -> post (read_rows n heads t b) (fun _ b' => buf_inv b').
Proof.
  induction n as [|n IH]; intros heads t b Hb; cbn [read_rows]; [exact Hb|].
  eapply post_bind; [apply read_row_post; exact Hb|]. intros t' b1 Hb1. apply IH. exact Hb1.
Qed.
Lemma data_as_table_post b : buf_inv b -> post (data_as_table b) (fun _ b' => buf_inv b').
Proof.
  intros Hb. unfold data_as_table.
  eapply post_bind; [apply post_u8; exact Hb|]. intros z b1 [Hb1 L1].
  destruct (negb (z =? 0)); [exact I|].
  eapply post_bind; [apply post_u8; exact Hb1|]. intros rows b2 [Hb2 L2].
  eapply post_bind; [apply read_heads_post; [exact Hb2|unfold len in *; lia]|]. intros heads b3 [Hb3 _].
  destruct (rows =? 0); [exact Hb3|].
  eapply post_bind; [apply read_rows_post; exact Hb3|]. intros t b4 Hb4. exact Hb4.
Qed.

Lemma safe_gs2_parse d : safe (gs2_parse d).
Proof.
  unfold gs2_parse, run_r. apply post_safe with (P := fun _ _ => True).
  eapply post_bind; [apply post_move; reflexivity|]. intros u0 b Hb.
  eapply post_bind; [apply gs2_vars_loop_post; [exact Hb|unfold len; lia]|]. intros vars b1 Hb1.
  eapply post_bind; [apply data_as_table_post; exact Hb1|]. intros [pt pn] b2 Hb2.
  eapply post_bind; [apply post_lift with (P := fun _ b' => buf_inv b'); [apply safe_gs2_players|intros; exact Hb2]|]. intros players b3 Hb3.
  eapply post_bind; [apply post_lift with (P := fun _ b' => buf_inv b'); [apply safe_online_of|intros; exact Hb3]|]. intros [online vars1] b4 Hb4.
  destruct (vm_remove (str "minplayers") vars1) as [mins vars2].
  eapply post_bind; [apply post_lift with (P := fun _ b' => buf_inv b'); [apply safe_opt_parse|intros; exact Hb4]|]. intros minp b5 Hb5.
  eapply post_bind; [apply post_lift with (P := fun _ b' => buf_inv b'); [apply safe_take_req|intros; exact Hb5]|]. intros [name vars3] b6 Hb6.
  eapply post_bind; [apply post_lift with (P := fun _ b' => buf_inv b'); [apply safe_take_req|intros; exact Hb6]|]. intros [mapn vars4] b7 Hb7.
  eapply post_bind; [apply post_lift with (P := fun _ b' => buf_inv b'); [apply safe_take_req|intros; exact Hb7]|]. intros [pw vars5] b8 Hb8.
  eapply post_bind; [apply data_as_table_post; exact Hb8|]. intros [ttab tn] b9 Hb9.
  eapply post_bind; [apply post_lift with (P := fun _ _ => True); [apply safe_gs2_teams|trivial]|]. intros teams b10 _.
  eapply post_bind; [apply post_lift with (P := fun _ _ => True); [apply safe_take_req|trivial]|]. intros [maxs vars6] b11 _.
  eapply post_bind; [apply post_lift with (P := fun _ _ => True); [apply safe_need|trivial]|]. intros maxp b12 _.
  exact I.
Qed.

(* ---------- the loops of the GameSpy 3 reader ---------- *)
Lemma data_to_map_loop_post : forall fuel m b, buf_inv b -> (len b < fuel)%nat ->
  post (data_to_map_loop fuel m b) (fun _ b' => buf_inv b').
Proof.
  induction fuel as [|f IH]; intros m b Hb Hf; [lia|]. cbn [data_to_map_loop]. unfold remaining_length. rewrite Hb. cbn [N.eqb].
  destruct (lenN (rest b)) eqn:El; [exact Hb|].
  assert (Hne : rest b <> []) by (intro X; rewrite X in El; discriminate).
  eapply post_bind; [apply post_cstr; exact Hb|]. intros k b1 [Hb1 [L1 [S1 _]]]. specialize (S1 Hne).
  destruct k as [|k0 k]; [exact Hb1|].
  eapply post_bind; [apply post_cstr; exact Hb1|]. intros v b2 [Hb2 [L2 _]].
  apply IH; [exact Hb2|lia].
Qed.
Lemma safe_data_to_map p m0 : safe (data_to_map p m0).
Proof.
  unfold data_to_map. pose proof (data_to_map_loop_post (S (length p)) m0 (buf_new p) eq_refl ltac:(unfold len; cbn; lia)) as H.
  destruct (data_to_map_loop (S (length p)) m0 (buf_new p)) as [[m|e| | |] b]; cbn in H |- *; try contradiction; [|exact I].
  unfold remaining_bytes. rewrite H. exact I.
Qed.

Lemma gs3_items_post : forall fuel name offset data b, buf_inv b -> (len b < fuel)%nat ->
  post (gs3_items fuel name offset data b) (fun _ b' => buf_inv b' /\ (len b' <= len b)%nat).
Proof.
  induction fuel as [|f IH]; intros name offset data b Hb Hf; [lia|]. cbn [gs3_items]. unfold remaining_length. rewrite Hb. cbn [N.eqb].
  destruct (lenN (rest b)) eqn:El; [split; [exact Hb|lia]|].
  assert (Hne : rest b <> []) by (intro X; rewrite X in El; discriminate).
  eapply post_bind; [apply post_cstr; exact Hb|]. intros item b1 [Hb1 [L1 [S1 _]]]. specialize (S1 Hne).
  destruct item as [|i0 item]; [split; [exact Hb1|exact L1]|].
  eapply post_weaken; [apply IH; [exact Hb1|lia]|]. intros a b2 [Hb2 L2]. split; [exact Hb2|lia].
Qed.

Lemma gs3_sections_post : forall fuel pd td b, buf_inv b -> (len b < fuel)%nat ->
  post (gs3_sections fuel pd td b) (fun _ _ => True).
Proof.
  induction fuel as [|f IH]; intros pd td b Hb Hf; [lia|]. cbn [gs3_sections]. unfold remaining_length. rewrite Hb. cbn [N.eqb].
  destruct (lenN (rest b)) eqn:El; [exact I|].
  pose proof (post_u8_back b Hb) as Hback. pose proof (post_u8 b Hb) as Hu8.
  unfold bind at 1. destruct (read_u8 b) as [[c|e| | |] b1]; cbn [post] in Hback, Hu8 |- *; try contradiction; [|exact I].
  destruct Hu8 as [Hb1 L1].
  destruct (c <? 3); [apply IH; [exact Hb1|lia]|].
  unfold bind at 1. destruct (move_cursor (-1) b1) as [[u|e| | |] b2]; cbn [post] in Hback |- *; try contradiction; [|exact I].
  destruct Hback as [Hb2 [L2 Hne]].
  eapply post_bind; [apply post_cstr; exact Hb2|]. intros field b3 [Hb3 [L3 [S3 _]]].
  assert (Hne2 : rest b2 <> []). { intro X. unfold len in L2. rewrite X in L2. destruct (rest b); [contradiction|cbn in L2; lia]. }
  specialize (S3 Hne2).
  destruct field as [|f0 field]; [apply IH; [exact Hb3|lia]|].
  destruct (negb (existsb (bytes_eqb (hd [] (split 95 (f0 :: field)))) gs3_fields)); [apply IH; [exact Hb3|lia]|].
  match goal with |- post (match ?ty with _ => _ end _) _ => destruct ty as [is_team|e| | |] eqn:Ety end.
  - eapply post_bind; [apply post_u8; exact Hb3|]. intros off b4 [Hb4 L4].
    destruct is_team.
    + eapply post_bind; [apply gs3_items_post; [exact Hb4|unfold len; lia]|]. intros td' b5 [Hb5 L5]. apply IH; [exact Hb5|lia].
    + eapply post_bind; [apply gs3_items_post; [exact Hb4|unfold len; lia]|]. intros pd' b5 [Hb5 L5]. apply IH; [exact Hb5|lia].
  - exact I.
  - exfalso. revert Ety. destruct (split 95 (f0 :: field)) as [|x [|v r]]; try discriminate. destruct v; [discriminate|]. destruct (bytes_eqb _ _); discriminate.
  - exfalso. revert Ety. destruct (split 95 (f0 :: field)) as [|x [|v r]]; try discriminate. destruct v; [discriminate|]. destruct (bytes_eqb _ _); discriminate.
  - exfalso. revert Ety. destruct (split 95 (f0 :: field)) as [|x [|v r]]; try discriminate. destruct v; [discriminate|]. destruct (bytes_eqb _ _); discriminate.
Qed.
Lemma safe_gs3_all_sections : forall ps pd td, safe (gs3_all_sections ps pd td).
Proof.
  induction ps as [|p r IH]; intros pd td; cbn [gs3_all_sections]; [exact I|].
  apply safe_obind; [|intros [pd' td']; apply IH].
  eapply post_safe. apply gs3_sections_post; [reflexivity|unfold len; cbn; lia].
Qed.
Lemma safe_gs3_build packets : safe (gs3_build packets).
Proof.
  unfold gs3_build.
  apply safe_obind; [apply safe_need|intros first].
  apply safe_obind; [apply safe_data_to_map|intros [vars remaining]].
  apply safe_obind; [apply safe_gs3_all_sections|intros [pd td]].
  apply safe_obind; [apply omap_list_safe; intro; apply safe_gs3_make_player|intros players].
  apply safe_obind; [apply omap_list_safe; intro; apply safe_gs3_make_team|intros teams].
  apply safe_obind; [apply safe_take_req|intros [maxs vars1]].
  apply safe_obind; [apply safe_need|intros maxp].
  destruct (vm_remove (str "minplayers") vars1) as [mins vars2].
  apply safe_obind; [apply safe_opt_parse|intros minp].
  apply safe_obind; [apply safe_online_of|intros [online vars3]].
  apply safe_obind; [apply safe_take_req|intros [name vars4]].
  apply safe_obind; [apply safe_take_req|intros [mapn vars5]].
  apply safe_obind; [apply safe_has_password|intros [pw vars6]].
  apply safe_obind; [apply safe_take_req|intros [mode vars7]].
  apply safe_obind; [apply safe_take_req|intros [ver vars8]].
  apply safe_obind; [apply safe_tournament|intros [tour vars9]]. exact I.
Qed.

(* ---------- Just Cause 2: Multiplayer ---------- *)
Lemma jc2m_players_post : forall fuel acc b, buf_inv b -> (len b < fuel)%nat ->
  post (jc2m_players fuel acc b) (fun _ _ => True).
Proof.
  induction fuel as [|f IH]; intros acc b Hb Hf; [lia|]. cbn [jc2m_players]. unfold remaining_length. rewrite Hb. cbn [N.eqb].
  destruct (lenN (rest b)) eqn:El; [exact I|].
  assert (Hne : rest b <> []) by (intro X; rewrite X in El; discriminate).
  eapply post_bind; [apply post_cstr; exact Hb|]. intros name b1 [Hb1 [L1 [S1 _]]]. specialize (S1 Hne).
  eapply post_bind; [apply post_cstr; exact Hb1|]. intros sid b2 [Hb2 [L2 _]].
  eapply post_bind; [apply post_uint; exact Hb2|]. intros ping b3 [Hb3 L3].
  apply IH; [exact Hb3|lia].
Qed.
Lemma safe_jc2m_build data : safe (jc2m_build data).
Proof.
  unfold jc2m_build.
  apply safe_obind; [apply safe_data_to_map|intros [vars remaining]].
  apply safe_obind.
  { unfold run_r. eapply post_safe. eapply post_bind; [apply post_uint; reflexivity|]. intros x b1 [Hb1 L1].
    apply jc2m_players_post; [exact Hb1|unfold len in *; cbn in L1; lia]. }
  intros players.
  apply safe_obind; [apply safe_take_req|intros [maxs vars1]].
  apply safe_obind; [apply safe_need|intros maxp].
  apply safe_obind; [apply safe_online_of|intros [online vars2]].
  apply safe_obind; [apply safe_take_req|intros [ver vars3]].
  apply safe_obind; [apply safe_take_req|intros [desc vars4]].
  apply safe_obind; [apply safe_take_req|intros [name vars5]].
  apply safe_obind; [apply safe_has_password|intros [pw vars6]]. exact I.
Qed.

(* ---------- the network side ---------- *)
(* what a query of a one-socket UDP protocol may write to the trace: requests of the protocol's
   language to the query's port, receives, the socket and its timeouts - no reservation, no TCP *)
Definition Qreq (port : N) (reqs : bytes -> Prop) (e : tev) : Prop :=
  match e with
  | SendEv p d => p = port /\ reqs d
  | Reserve _ => False
  | NewTcp _ _ => False
  | _ => True
  end.
Lemma Qreq_QT port reqs e : Qreq port reqs e -> QT e.
Proof. intros _. exact I. Qed.

Section At.
  Variable Q : tev -> Prop.
  Definition MokAt {A} (m : M A) (n : net) : Prop :=
    safe (fst (m n)) /\ (length (n_udp (snd (m n))) <= length (n_udp n))%nat
    /\ exists evs, n_trace (snd (m n)) = evs ++ n_trace n /\ Forall Q evs.
  Lemma Mok_of_at {A} (m : M A) : (forall n, MokAt m n) -> Mok Q m.
  Proof. intros H n. exact (H n). Qed.
  Lemma MokAt_of {A} (m : M A) n : Mok Q m -> MokAt m n.
  Proof. intros H. exact (H n). Qed.
  Lemma MokAt_bind {A B} (m : M A) (f : A -> M B) n :
    MokAt m n -> (forall a n', m n = (Ok a, n') -> MokAt (f a) n') -> MokAt (mbind m f) n.
  Proof.
    intros [H1 [H2 [evs [H3 H4]]]] Hf. unfold MokAt, mbind.
    destruct (m n) as [[a|e| | |] n1]; cbn [fst snd] in *; try contradiction.
    - destruct (Hf a n1 eq_refl) as [G1 [G2 [evs2 [G3 G4]]]]. split; [exact G1|split; [lia|]].
      exists (evs2 ++ evs). split; [rewrite G3, H3, app_assoc; reflexivity|apply Forall_app; split; assumption].
    - split; [exact I|split; [exact H2|exists evs; split; assumption]].
  Qed.
  Lemma MokAt_fail {A} e n : MokAt (@mfail A e) n.
  Proof. apply MokAt_of, Mok_fail. Qed.
  Lemma MokAt_ret {A} (a : A) n : MokAt (mret a) n.
  Proof. apply MokAt_of, Mok_ret. Qed.
End At.

Lemma safe_idpart (qd : option bytes) (dp : N) :
  safe (match qd with
        | None => Ok (None, dp)
        | Some q =>
            let sp := split 46 q in
            ob* qid := need (parse_unsigned usize_max' (hd [] sp)) TypeParse in
            match sp with
            | [_] => Ok (Some qid, dp)
            | [_; p] => ob* pn := need (parse_unsigned usize_max' p) TypeParse in Ok (Some qid, pn)
            | _ => Err PacketBad
            end
        end).
Proof.
  destruct qd as [q|]; [|exact I]. cbn zeta. apply safe_obind; [apply safe_need|intros qid].
  destruct (split 46 q) as [|a [|p [|x r]]]; try exact I. apply safe_obind; [apply safe_need|intro; exact I].
Qed.
Lemma send_keeps_udp port d n u n' : send port d n = (Ok u, n') -> n_udp n' = n_udp n.
Proof. unfold send. destruct (existsb _ _); intro E; inversion E; reflexivity. Qed.

Section Protocols.
  Variable port : N.
  Variable reqs : bytes -> Prop.
  Notation Q := (Qreq port reqs).
  Notation Mokq := (Mok Q).
  Lemma Mokq_recv s : Mokq (udp_recv s).
  Proof. apply Mok_udp_recv. exact I. Qed.
  Lemma Mokq_send d : reqs d -> Mokq (send port d).
  Proof. intros H. apply Mok_send. split; [reflexivity|exact H]. Qed.
  Lemma Mokq_udp_new t : settings_ok t -> Mokq (udp_new port t).
  Proof. intros H. apply Mok_udp_new; [exact H|exact I|intros; exact I]. Qed.

  (* GameSpy 1 *)
  Lemma gs1_loop_at : forall fuel received parts expected vals n, (length (n_udp n) < fuel)%nat ->
    MokAt Q (gs1_loop fuel received parts expected vals) n.
  Proof.
    induction fuel as [|f IH]; intros received parts expected vals n Hf; [lia|]. cbn [gs1_loop].
    apply MokAt_bind; [apply MokAt_of, Mokq_recv|]. intros data n1 E1.
    pose proof (udp_recv_consumes None n data n1 E1) as Hc.
    pose proof (Rsafe_run _ read_cstr data Rsafe_cstr) as Hs. unfold run_r.
    destruct (fst (read_cstr (buf_new data))) as [s|e| | |]; cbn in Hs; try contradiction; [|apply MokAt_fail].
    destruct s as [|c s]; [apply MokAt_fail|].
    destruct (vm_remove (str "final") (insert_pairs (split 92 (remove_first_char (c :: s))) vals)) as [fin vals1].
    pose proof (safe_idpart (vm_get (str "queryid") vals1) (lenN parts)) as Hid.
    match goal with |- MokAt _ (match ?ip with _ => _ end) _ => destruct ip as [[qid part]|e| | |] end; cbn in Hid; try contradiction; [|apply MokAt_fail].
    match goal with |- MokAt _ (if ?c then _ else _) _ => destruct c end; [apply MokAt_fail|].
    match goal with |- MokAt _ (if ?c then _ else _) _ => destruct c end; [apply MokAt_fail|].
    match goal with |- MokAt _ (if ?c then _ else _) _ => destruct c end; [apply MokAt_ret|].
    apply IH. lia.
  Qed.
  Lemma gs1_values_ok : reqs gs1_request -> Mokq (gs1_values_impl port).
  Proof.
    intros Hr. apply Mok_of_at. intros n. unfold gs1_values_impl.
    apply MokAt_bind; [apply MokAt_of, Mokq_send, Hr|]. intros u n1 E.
    apply gs1_loop_at. apply send_keeps_udp in E. rewrite E. lia.
  Qed.
  Theorem gs1_query_okq t : reqs gs1_request -> settings_ok t -> Mokq (gs1_query port t).
  Proof.
    intros Hr Hs. unfold gs1_query, gs1_query_vars.
    apply Mok_bind; [|intros vars; apply Mok_lift, safe_gs1_build].
    apply Mok_bind; [apply Mokq_udp_new; exact Hs|intros _]. apply Mok_retry, gs1_values_ok, Hr.
  Qed.

  (* GameSpy 2 *)
  Theorem gs2_query_okq t : reqs gs2_request -> settings_ok t -> Mokq (gs2_query port t).
  Proof.
    intros Hr Hs. unfold gs2_query, gs2_request_impl.
    apply Mok_bind; [apply Mokq_udp_new; exact Hs|intros _].
    apply Mok_bind; [|intros d; apply Mok_lift, safe_gs2_parse].
    apply Mok_retry. apply Mok_bind; [apply Mokq_send, Hr|intros _]. apply Mok_bind; [apply Mokq_recv|intros d].
    apply Mok_lift. unfold run_r. eapply post_safe with (P := fun _ _ => True).
    eapply post_bind; [apply post_u8; reflexivity|]. intros k b1 [Hb1 _]. destruct (negb (k =? 0)); [exact I|].
    eapply post_bind; [apply post_uint; exact Hb1|]. intros sid b2 _. destruct (negb (sid =? 1)); exact I.
  Qed.

  (* GameSpy 3 *)
  Lemma gs3_receive_at size kind n :
    MokAt Q (gs3_receive size kind) n
    /\ forall d n', gs3_receive size kind n = (Ok d, n') -> (length (n_udp n') < length (n_udp n))%nat.
  Proof.
    unfold gs3_receive. split.
    - apply MokAt_bind; [apply MokAt_of, Mokq_recv|]. intros d n1 E. apply MokAt_of, Mok_lift.
      unfold run_r. eapply post_safe with (P := fun _ _ => True).
      eapply post_bind; [apply post_u8; reflexivity|]. intros k b1 [Hb1 _]. destruct (negb (k =? kind)); [exact I|].
      eapply post_bind; [apply post_uint; exact Hb1|]. intros sid b2 [Hb2 _]. destruct (negb (sid =? 1)); [exact I|].
      cbn. unfold remaining_bytes. rewrite Hb2. exact I.
    - intros d n' E. unfold mbind in E.
      destruct (udp_recv _ n) as [[x|e| | |] n1] eqn:E1; try discriminate.
      apply udp_recv_consumes in E1. unfold mlift in E. inversion E; subst. exact E1.
  Qed.
  Definition gs3_handshake_request : bytes := [254; 253; 9; 0; 0; 0; 1].
  Definition gs3_data_request_bytes (payload : bytes) (c : option Z) : bytes :=
    [254; 253; 0; 0; 0; 0; 1] ++ (match c with Some z => be_bytes 4 (of_signed 32 z) | None => [] end) ++ payload.
  Lemma gs3_handshake_ok : reqs gs3_handshake_request -> Mokq (gs3_handshake port).
  Proof.
    intros Hr. unfold gs3_handshake. apply Mok_bind; [apply Mokq_send, Hr|intros _].
    apply Mok_bind; [apply Mok_of_at; intro n; apply gs3_receive_at|intros d].
    apply Mok_bind; [apply Mok_lift, Rsafe_run, Rsafe_cstr|intros s].
    apply Mok_bind; [apply Mok_lift, safe_need|intros c]. apply Mok_ret.
  Qed.
  Lemma gs3_packets_loop_at : forall fuel values expected n, (length (n_udp n) < fuel)%nat ->
    MokAt Q (gs3_packets_loop fuel values expected) n.
  Proof.
    induction fuel as [|f IH]; intros values expected n Hf; [lia|]. cbn [gs3_packets_loop].
    apply MokAt_bind; [apply gs3_receive_at|]. intros d n1 E1.
    pose proof (proj2 (gs3_receive_at None 0 n) d n1 E1) as Hc.
    match goal with |- MokAt _ (match ?x with _ => _ end) _ => assert (Hs : safe x) end.
    { unfold run_r. eapply post_safe with (P := fun _ _ => True).
      eapply post_bind; [apply post_cstr; reflexivity|]. intros s b1 [Hb1 _]. destruct (negb (bytes_eqb s (str "splitnum"))); [exact I|].
      eapply post_bind; [apply post_u8; exact Hb1|]. intros id b2 [Hb2 _].
      eapply post_bind; [apply post_move; exact Hb2|]. intros u b3 Hb3. unfold remaining_bytes. rewrite Hb3. exact I. }
    match goal with |- MokAt _ (match ?x with _ => _ end) _ => destruct x as [[id body]|e| | |] end; cbn in Hs; try contradiction; [|apply MokAt_fail].
    match goal with |- MokAt _ (if ?c then _ else _) _ => destruct c end; [apply MokAt_ret|]. apply IH. lia.
  Qed.
  (* the request language of GameSpy 3 with a given payload: the handshake, or the data request
     carrying some challenge *)
  Definition gs3_language (payload : bytes) (d : bytes) : Prop :=
    d = gs3_handshake_request \/ exists c, d = gs3_data_request_bytes payload c.
  Lemma gs3_packets_impl_ok : (forall d, gs3_language [255; 255; 255; 1] d -> reqs d) -> Mokq (gs3_packets_impl port).
  Proof.
    intros Hr. apply Mok_of_at. intros n. unfold gs3_packets_impl.
    assert (Hh : Mokq (gs3_handshake port)) by (apply gs3_handshake_ok, Hr; left; reflexivity).
    apply MokAt_bind; [apply MokAt_of, Hh|]. intros c n1 E1.
    pose proof (Hh n) as [_ [L1 _]]. rewrite E1 in L1. cbn [snd] in L1.
    apply MokAt_bind; [apply MokAt_of; unfold gs3_data_request; apply Mokq_send, Hr; right; exists c; reflexivity|]. intros u n2 E2.
    apply send_keeps_udp in E2.
    apply MokAt_bind; [apply gs3_packets_loop_at; rewrite E2; lia|]. intros vs n3 _.
    match goal with |- MokAt _ (if ?c then _ else _) _ => destruct c end; [apply MokAt_fail|apply MokAt_ret].
  Qed.
  Theorem gs3_query_okq t : (forall d, gs3_language [255; 255; 255; 1] d -> reqs d) -> settings_ok t -> Mokq (gs3_query port t).
  Proof.
    intros Hr Hs. unfold gs3_query, gs3_packets.
    apply Mok_bind; [|intros ps; apply Mok_lift, safe_gs3_build].
    apply Mok_bind; [apply Mokq_udp_new; exact Hs|intros _]. apply Mok_retry, gs3_packets_impl_ok, Hr.
  Qed.
  Theorem gs3_query_vars_okq t : (forall d, gs3_language [255; 255; 255; 1] d -> reqs d) -> settings_ok t -> Mokq (gs3_query_vars port t).
  Proof.
    intros Hr Hs. unfold gs3_query_vars, gs3_packets.
    apply Mok_bind; [apply Mok_bind; [apply Mokq_udp_new; exact Hs|intros _; apply Mok_retry, gs3_packets_impl_ok, Hr]|intros ps].
    apply Mok_lift. apply safe_obind; [apply safe_need|intros first].
    apply safe_obind; [apply safe_data_to_map|intros [m r]]. exact I.
  Qed.

  Theorem jc2m_query_okq t : (forall d, gs3_language [255; 255; 255; 2] d -> reqs d) -> settings_ok t -> Mokq (jc2m_query port t).
  Proof.
    intros Hr Hs. unfold jc2m_query, jc2m_packets_impl.
    apply Mok_bind; [apply Mokq_udp_new; exact Hs|intros _].
    apply Mok_bind; [|intros d; apply Mok_lift, safe_jc2m_build].
    apply Mok_retry. apply Mok_bind; [apply gs3_handshake_ok, Hr; left; reflexivity|intros c].
    apply Mok_bind; [unfold gs3_data_request; apply Mokq_send, Hr; right; exists c; reflexivity|intros _].
    apply Mok_bind; [apply Mok_of_at; intro n; apply gs3_receive_at|intros d].
    apply Mok_lift. unfold run_r. eapply post_safe with (P := fun _ _ => True).
    eapply post_bind; [apply post_move; reflexivity|]. intros u b1 Hb1. cbn. unfold remaining_bytes. rewrite Hb1. exact I.
  Qed.
End Protocols.

(* the trace of a query that only writes Qreq events *)
Lemma Qreq_sends port reqs evs : Forall (Qreq port reqs) evs -> forall p d, In (SendEv p d) evs -> p = port /\ reqs d.
Proof. intros H p d Hin. rewrite Forall_forall in H. exact (H _ Hin). Qed.
Lemma Qreq_no_reserve port reqs evs : Forall (Qreq port reqs) evs ->
  flat_map (fun e => match e with Reserve k => [k] | _ => [] end) evs = [] /\ (forall p c, ~ In (NewTcp p c) evs).
Proof.
  intros H. split.
  - induction H as [|e evs He Hevs IH]; [reflexivity|]. cbn [flat_map]. rewrite IH. destruct e; cbn in He |- *; first [reflexivity|contradiction].
  - intros p c Hin. rewrite Forall_forall in H. exact (H _ Hin).
Qed.
(* what a query over Qreq guarantees from the initial state: totality, the request language, no reservation, no TCP *)
Definition udp_query_contract {A} (q : M A) (port : N) (reqs : bytes -> Prop) : Prop :=
  forall u tc sf,
    safe (fst (q (net_init u tc sf)))
    /\ (forall p d, In (SendEv p d) (n_trace (snd (q (net_init u tc sf)))) -> p = port /\ reqs d)
    /\ reserves (snd (q (net_init u tc sf))) = []
    /\ (forall p c, ~ In (NewTcp p c) (n_trace (snd (q (net_init u tc sf))))).
Lemma contract_of_mok {A} (q : M A) port reqs : Mok (Qreq port reqs) q -> udp_query_contract q port reqs.
Proof.
  intros H u tc sf. destruct (H (net_init u tc sf)) as [H1 [_ [evs [H3 H4]]]].
  cbn [net_init n_trace] in H3. rewrite app_nil_r in H3.
  split; [exact H1|]. unfold reserves. rewrite H3. split; [exact (Qreq_sends port reqs evs H4)|exact (Qreq_no_reserve port reqs evs H4)].
Qed.

Theorem gamespy1_contract port t : settings_ok t -> udp_query_contract (gs1_query port t) port (fun d => d = gs1_request).
Proof. intros H. apply contract_of_mok, gs1_query_okq; [reflexivity|exact H]. Qed.
Theorem gamespy2_contract port t : settings_ok t -> udp_query_contract (gs2_query port t) port (fun d => d = gs2_request).
Proof. intros H. apply contract_of_mok, gs2_query_okq; [reflexivity|exact H]. Qed.
Theorem gamespy3_contract port t : settings_ok t -> udp_query_contract (gs3_query port t) port (gs3_language [255; 255; 255; 1]).
Proof. intros H. apply contract_of_mok, gs3_query_okq; [auto|exact H]. Qed.
Theorem gamespy3_vars_contract port t : settings_ok t -> udp_query_contract (gs3_query_vars port t) port (gs3_language [255; 255; 255; 1]).
Proof. intros H. apply contract_of_mok, gs3_query_vars_okq; [auto|exact H]. Qed.
Theorem jc2m_contract port t : settings_ok t -> udp_query_contract (jc2m_query port t) port (gs3_language [255; 255; 255; 2]).
Proof. intros H. apply contract_of_mok, jc2m_query_okq; [auto|exact H]. Qed.

(* ---------- the C01 rows ---------- *)
Theorem gamespy1_total port t u tc sf : settings_ok t -> safe (fst (gs1_query port t (net_init u tc sf))).
Proof. intros H. exact (proj1 (gamespy1_contract port t H u tc sf)). Qed.
Theorem gamespy2_total port t u tc sf : settings_ok t -> safe (fst (gs2_query port t (net_init u tc sf))).
Proof. intros H. exact (proj1 (gamespy2_contract port t H u tc sf)). Qed.
Theorem gamespy3_total port t u tc sf : settings_ok t -> safe (fst (gs3_query port t (net_init u tc sf))).
Proof. intros H. exact (proj1 (gamespy3_contract port t H u tc sf)). Qed.
Theorem gamespy3_vars_total port t u tc sf : settings_ok t -> safe (fst (gs3_query_vars port t (net_init u tc sf))).
Proof. intros H. exact (proj1 (gamespy3_vars_contract port t H u tc sf)). Qed.
Theorem jc2m_total port t u tc sf : settings_ok t -> safe (fst (jc2m_query port t (net_init u tc sf))).
Proof. intros H. exact (proj1 (jc2m_contract port t H u tc sf)). Qed.
