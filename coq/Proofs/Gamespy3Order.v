(* C08, GameSpy 3: the packets of a reply may arrive in any order (each once): the client collects the same payloads
   and returns the same response as when they arrive in the order sent. *)
From GD Require Import Base.Prelude Model.Strings Model.StrOps Model.Buffer Model.Net Model.Valve Model.Gamespy.
From GD Require Import Spec.ValveSpec Spec.QuakeSpec Spec.GamespySpec.
From GD Require Import Proofs.BufferLemmas Proofs.ReadSpecs Proofs.Str Proofs.Utf8 Proofs.ValveRoundtrip Proofs.QuakeRoundtrip Proofs.GamesProofs
  Proofs.GamespyProofs Proofs.IdProofs Proofs.GamespyOrder Proofs.Gamespy2Roundtrip Proofs.Jc2mRoundtrip Proofs.Gamespy3Roundtrip Proofs.Gamespy3Reply Proofs.Gamespy3Query.
From Coq Require Import Permutation ZifyBool ZifyNat ZifyN Lia.

Definition item := (nat * bytes)%type.
Definition dg (n : nat) (p : item) : bytes := pk n (N.of_nat (fst p), snd p).
Fixpoint items_from (j : nat) (l : list bytes) : list item :=
  match l with [] => [] | x :: r => (j, x) :: items_from (S j) r end.
Definition reached (vs : list bytes) (e : option nat) : bool :=
  match e with
  | Some n => (n <=? length vs)%nat && forallb (fun v : list N => match v with [] => false | _ => true end) (firstn n vs)
  | None => false
  end.

(* one packet *)
Lemma loop_step n f values expected i body (u : list udp_event) t sn cur tr :
  (i < n)%nat -> (n <= 128)%nat -> (length body + 17 <= 2048)%nat ->
  gs3_packets_loop (S f) values expected (mknet (Datagram (dg n (i, body)) :: u) t [] sn cur tr)
  = let values' := put i body values in
    let expected' := if Nat.eqb (S i) n then Some n else expected in
    (if reached values' expected' then mret values' else gs3_packets_loop f values' expected') (mknet u t [] sn cur (RecvEv (Some 2048) :: tr)).
Proof.
  intros Hi Hn Hl. cbn [gs3_packets_loop]. unfold dg, pk at 1. cbn [fst snd]. unfold mbind at 1.
  rewrite gs3_receive_ok by (unfold cstr, nul; rewrite !app_length; change (length (str "splitnum")) with 8%nat; cbn [length]; lia).
  rewrite splitnum_parse. rewrite Nat2N.id.
  destruct (Nat.eqb_spec (S i) n) as [E|E].
  - replace (128 <=? N.of_nat i + 128) with true by lia.
    replace (N.to_nat ((N.of_nat i + 128) mod 128)) with i.
    2:{ replace (N.of_nat i + 128) with (N.of_nat i + 1 * 128) by lia. rewrite N.mod_add by lia. rewrite N.mod_small by lia. lia. }
    cbv zeta. replace (i + 1)%nat with n by lia. unfold reached, put. replace (i + 1)%nat with n by lia. reflexivity.
  - rewrite N.add_0_r. replace (128 <=? N.of_nat i) with false by lia.
    replace (N.to_nat (N.of_nat i mod 128)) with i by (rewrite N.mod_small by lia; lia).
    cbv zeta. unfold reached, put. reflexivity.
Qed.

(* ---------- what has been collected ---------- *)
Lemma collect_app a b vs : collect (a ++ b) vs = collect b (collect a vs).
Proof. unfold collect. apply fold_left_app. Qed.
Lemma collect_in_order : forall l vs, collect (items_from (length vs) l) vs = vs ++ l.
Proof.
  induction l as [|x l IH]; intros vs; [cbn; rewrite app_nil_r; reflexivity|]. cbn [items_from]. unfold collect in *. cbn [fold_left fst snd].
  change (put (length vs) x vs) with (set_nth (length vs) (fun _ => x) [] (pad_to (length vs + 1) [] vs)). rewrite set_nth_append.
  replace (S (length vs)) with (length (vs ++ [x])) by (rewrite app_length; cbn [length]; lia). rewrite IH, <- app_assoc. reflexivity.
Qed.
(* a slot nobody has written yet is empty or beyond the end *)
Lemma collect_absent j : forall l vs, ~ In j (map fst l) -> (nth_error vs j = Some [] \/ nth_error vs j = None) ->
  nth_error (collect l vs) j = Some [] \/ nth_error (collect l vs) j = None.
Proof.
  induction l as [|[i x] l IH]; intros vs Hn Hv; [exact Hv|]. unfold collect in *. cbn [fold_left fst snd map] in *.
  apply IH; [intros H; apply Hn; right; exact H|]. rewrite put_nth.
  destruct (Nat.eqb_spec j i) as [->|Hne]; [exfalso; apply Hn; left; reflexivity|].
  match goal with |- context [if ?c then nth_error vs j else _] => destruct c eqn:E1 end.
  - apply Nat.ltb_lt in E1. destruct Hv as [Hv|Hv]; [left; exact Hv|]. apply nth_error_None in Hv. unfold bytes in *. lia.
  - destruct (j <? i + 1)%nat; [left|right]; reflexivity.
Qed.
Lemma forallb_firstn_slot (f : bytes -> bool) n : forall (l : list bytes) j, (j < n)%nat -> nth_error l j = Some [] -> f [] = false -> forallb f (firstn n l) = false.
Proof.
  induction n as [|n IH]; intros l j Hj Hl Hf; [lia|]. destruct l as [|x l]; [destruct j; discriminate|]. cbn [firstn forallb].
  destruct j as [|j]; [cbn in Hl; inversion Hl; subst; rewrite Hf; reflexivity|].
  rewrite (IH l j ltac:(lia) Hl Hf). apply andb_false_r.
Qed.
Lemma not_reached vs n j : (j < n)%nat -> (nth_error vs j = Some [] \/ nth_error vs j = None) -> reached vs (Some n) = false.
Proof.
  intros Hj [H|H]; unfold reached.
  - rewrite (forallb_firstn_slot _ n vs j Hj H eq_refl). apply andb_false_r.
  - apply nth_error_None in H. match goal with |- (?c && _) = false => destruct c eqn:E end; [apply Nat.leb_le in E; unfold bytes in *; lia|reflexivity].
Qed.

Lemma collect_keeps j b : forall l vs, ~ In j (map fst l) -> nth_error vs j = Some b -> nth_error (collect l vs) j = Some b.
Proof.
  induction l as [|[i x] l IH]; intros vs Hn Hv; [exact Hv|]. unfold collect in *. cbn [fold_left fst snd map] in *.
  apply IH; [intros H; apply Hn; right; exact H|]. rewrite put_nth.
  destruct (Nat.eqb_spec j i) as [->|Hne]; [exfalso; apply Hn; left; reflexivity|].
  match goal with |- context [if ?c then nth_error vs j else _] => destruct c eqn:E1 end; [exact Hv|].
  apply Nat.ltb_ge in E1. assert (X : nth_error vs j <> None) by (rewrite Hv; discriminate). apply nth_error_Some in X. unfold bytes in *. lia.
Qed.
Lemma collect_present j b : forall l vs, NoDup (map fst l) -> In (j, b) l -> nth_error (collect l vs) j = Some b.
Proof.
  induction l as [|[i x] l IH]; intros vs Hnd Hin; [contradiction|]. cbn [map fst] in Hnd. inversion Hnd as [|? ? Hni Hnd']; subst.
  change (collect ((i, x) :: l) vs) with (collect l (put i x vs)). destruct Hin as [E|Hin].
  - inversion E; subst. apply collect_keeps; [exact Hni|]. rewrite put_nth, Nat.eqb_refl. reflexivity.
  - apply IH; assumption.
Qed.
Lemma forallb_firstn_all (f : bytes -> bool) n : forall (l : list bytes),
  (forall j, (j < n)%nat -> exists b, nth_error l j = Some b /\ f b = true) -> forallb f (firstn n l) = true.
Proof.
  induction n as [|n IH]; intros l H; [reflexivity|]. destruct (H 0%nat ltac:(lia)) as [b0 [H0 F0]].
  destruct l as [|x l]; [discriminate|]. cbn in H0. inversion H0; subst. cbn [firstn forallb]. rewrite F0. cbn [andb].
  apply IH. intros j Hj. destruct (H (S j) ltac:(lia)) as [b [Hb Fb]]. exists b. split; [exact Hb|exact Fb].
Qed.

(* ---------- any arrival order ---------- *)
Definition has_last (n : nat) (l : list item) : bool := existsb (fun p => Nat.eqb (S (fst p)) n) l.
Theorem packets_any_order : forall (todo done : list item) n fuel t sn cur tr,
  todo <> [] -> (n <= 128)%nat -> (length todo <= fuel)%nat ->
  NoDup (map fst (done ++ todo)) -> (forall p, In p (done ++ todo) -> (fst p < n)%nat /\ snd p <> [] /\ (length (snd p) + 17 <= 2048)%nat) ->
  length (done ++ todo) = n ->
  exists tr',
    gs3_packets_loop fuel (collect done []) (if has_last n done then Some n else None)
      (mknet (map Datagram (map (dg n) todo)) t [] sn cur tr)
    = (Ok (collect (done ++ todo) []), mknet [] t [] sn cur tr').
Proof.
  induction todo as [|[i body] rest IH]; intros done n fuel t sn cur tr Hne Hn Hf Hnd Hall Hlen; [contradiction|].
  destruct fuel as [|fu]; [cbn in Hf; lia|].
  destruct (Hall (i, body) ltac:(apply in_or_app; right; left; reflexivity)) as [Hi [Hb Hs]]. cbn [fst snd] in Hi, Hb, Hs.
  cbn [map]. rewrite (loop_step n fu _ _ i body _ t sn cur tr Hi Hn Hs). cbv zeta.
  assert (Hc : put i body (collect done []) = collect (done ++ [(i, body)]) []) by (rewrite collect_app; reflexivity).
  assert (He : (if Nat.eqb (S i) n then Some n else if has_last n done then Some n else None) = (if has_last n (done ++ [(i, body)]) then Some n else None)).
  { unfold has_last. rewrite existsb_app. cbn [existsb fst]. destruct (Nat.eqb (S i) n); cbn [orb]; [rewrite orb_true_r|rewrite orb_false_r]; reflexivity. }
  rewrite Hc, He.
  assert (Hnd' : NoDup (map fst ((done ++ [(i, body)]) ++ rest))) by (rewrite <- app_assoc; exact Hnd).
  assert (Hall' : forall p, In p ((done ++ [(i, body)]) ++ rest) -> (fst p < n)%nat /\ snd p <> [] /\ (length (snd p) + 17 <= 2048)%nat)
    by (intros p Hp; apply Hall; rewrite <- app_assoc in Hp; exact Hp).
  assert (Hlen' : length ((done ++ [(i, body)]) ++ rest) = n) by (rewrite <- app_assoc; exact Hlen).
  clear Hnd Hall Hlen. rename Hnd' into Hnd, Hall' into Hall, Hlen' into Hlen.
  destruct rest as [|p2 rest].
  - (* everything has arrived *)
    rewrite app_nil_r in Hnd, Hall, Hlen.
    assert (Hl : has_last n (done ++ [(i, body)]) = true).
    { (* the indices are n distinct numbers below n, so n-1 is among them *)
      unfold has_last. apply existsb_exists.
      assert (Hin : In (n - 1)%nat (map fst (done ++ [(i, body)]))).
      { assert (Hincl : incl (map fst (done ++ [(i, body)])) (seq 0 n)).
        { intros y Hy. apply in_map_iff in Hy. destruct Hy as [q [<- Hq]]. apply in_seq. destruct (Hall q Hq) as [H1 _]. lia. }
        apply (NoDup_length_incl (l' := seq 0 n) Hnd); [rewrite seq_length, map_length; unfold item in *; lia|exact Hincl|apply in_seq; lia]. }
      apply in_map_iff in Hin. destruct Hin as [q [Eq Hq]]. exists q. split; [exact Hq|]. rewrite Eq. apply Nat.eqb_eq. lia. }
    rewrite Hl.
    (* the collected list is the one collected in order: all slots filled *)
    assert (Hincl : incl (seq 0 n) (map fst (done ++ [(i, body)]))).
    { apply (NoDup_length_incl Hnd); [rewrite seq_length, map_length; unfold item in *; lia|].
      intros y Hy. apply in_map_iff in Hy. destruct Hy as [q [<- Hq]]. apply in_seq. destruct (Hall q Hq) as [H1 _]. lia. }
    assert (Hslot : forall j, (j < n)%nat -> exists b, nth_error (collect (done ++ [(i, body)]) []) j = Some b /\ (match b with [] => false | _ => true end) = true).
    { intros j Hj. assert (Hin : In j (map fst (done ++ [(i, body)]))) by (apply Hincl; apply in_seq; lia).
      apply in_map_iff in Hin. destruct Hin as [[j' b] [Ej Hq]]. cbn [fst] in Ej. subst j'. exists b. split; [apply collect_present; assumption|].
      destruct (Hall (j, b) Hq) as [_ [Hb' _]]. cbn [snd] in Hb'. destruct b; [contradiction|reflexivity]. }
    assert (Hreach : reached (collect (done ++ [(i, body)]) []) (Some n) = true).
    { unfold reached. apply andb_true_intro. split; [|exact (forallb_firstn_all _ n _ Hslot)]. apply Nat.leb_le.
      destruct n as [|n']; [lia|]. destruct (Hslot n' ltac:(lia)) as [b [Hb' _]].
      assert (X : nth_error (collect (done ++ [(i, body)]) []) n' <> None) by (rewrite Hb'; discriminate). apply nth_error_Some in X. unfold bytes in *. lia. }
    rewrite Hreach. eexists. reflexivity.
  - (* something is still missing: go on *)
    assert (Hnr : reached (collect (done ++ [(i, body)]) []) (if has_last n (done ++ [(i, body)]) then Some n else None) = false).
    { destruct (has_last n (done ++ [(i, body)])); [|reflexivity].
      destruct p2 as [j b2]. apply (not_reached _ n j).
      - destruct (Hall (j, b2) ltac:(apply in_or_app; right; left; reflexivity)) as [Hj _]. exact Hj.
      - apply collect_absent; [|right; destruct j; reflexivity].
        rewrite map_app in Hnd. cbn [map fst] in Hnd. apply NoDup_remove_2 in Hnd. intros Hin. apply Hnd. apply in_or_app. left. exact Hin. }
    rewrite Hnr.
    destruct (IH (done ++ [(i, body)]) n fu t sn cur (RecvEv (Some 2048) :: tr) ltac:(discriminate) Hn ltac:(cbn [length] in *; lia) Hnd Hall Hlen) as [tr' E].
    exists tr'. rewrite E. rewrite <- app_assoc. reflexivity.
Qed.

(* ---------- the whole query, the packets in any order ---------- *)
Definition item_of (ib : N * bytes) : item := (N.to_nat (fst ib), snd ib).
Lemma items_of_indexed : forall l j, map item_of (indexed (N.of_nat j) l) = items_from j l.
Proof.
  induction l as [|x l IH]; intros j; [reflexivity|]. cbn [indexed map items_from]. unfold item_of at 1. cbn [fst snd]. rewrite Nat2N.id.
  replace (N.of_nat j + 1) with (N.of_nat (S j)) by lia. rewrite IH. reflexivity.
Qed.
Lemma items_from_fst : forall l j, map fst (items_from j l) = seq j (length l).
Proof. induction l as [|x l IH]; intros j; [reflexivity|]. cbn [items_from map fst length seq]. rewrite IH. reflexivity. Qed.
Lemma items_from_in : forall l j p, In p (items_from j l) -> (j <= fst p < j + length l)%nat /\ In (snd p) l.
Proof.
  induction l as [|x l IH]; intros j p H; [contradiction|]. cbn [items_from length] in *. destruct H as [<-|H]; [cbn; split; [lia|left; reflexivity]|].
  destruct (IH (S j) p H) as [H1 H2]. split; [lia|right; exact H2].
Qed.
Lemma dg_item n ib : fst ib < 4294967296 -> dg n (item_of ib) = pk n ib.
Proof. intros _. unfold dg, item_of. cbn [fst snd]. rewrite N2Nat.id. destruct ib; reflexivity. Qed.

Theorem gs3_query_any_order : forall port s dgs, wf_s3 s = true ->
  (- 2147483648 <= s3_challenge s < 2147483648)%Z -> (length (show_Z (s3_challenge s)) <= 10)%nat ->
  (length (s3_payloads s) <= 128)%nat -> Forall (fun p => (length p + 17 <= 2048)%nat) (s3_payloads s) ->
  Permutation dgs (s3_packets s) ->
  fst (gs3_query port None (script_net (s3_handshake s :: dgs))) = Ok (s3_expected s).
Proof.
  intros port s dgs Hwf Hc Hcl Hn Hsz Hperm.
  rewrite s3_packets_payloads in Hperm. apply Permutation_map_inv in Hperm. destruct Hperm as [l3 [Edgs Hp3]].
  set (n := length (s3_payloads s)) in *.
  set (items := map item_of l3).
  assert (Hdg : dgs = map (dg n) items).
  { rewrite Edgs. unfold items. rewrite map_map. apply map_ext. intros ib. symmetry. unfold dg, item_of, pk. cbn [fst snd]. rewrite N2Nat.id. reflexivity. }
  assert (Hpi : Permutation (items_from 0 (s3_payloads s)) items).
  { unfold items. rewrite <- (items_of_indexed (s3_payloads s) 0). apply Permutation_map. exact Hp3. }
  destruct (payloads_nonempty s) as [Hne Hnn].
  assert (Hnd : NoDup (map fst ([] ++ items))).
  { cbn [app]. eapply Permutation_NoDup; [apply Permutation_map; exact Hpi|]. rewrite items_from_fst. apply seq_NoDup. }
  assert (Hall : forall p, In p ([] ++ items) -> (fst p < n)%nat /\ snd p <> [] /\ (length (snd p) + 17 <= 2048)%nat).
  { cbn [app]. intros p Hin. apply (Permutation_in _ (Permutation_sym Hpi)) in Hin. destruct (items_from_in _ _ _ Hin) as [H1 H2].
    split; [unfold n; lia|]. split.
    - rewrite forallb_forall in Hnn. specialize (Hnn _ H2). destruct (snd p); [discriminate|discriminate].
    - rewrite Forall_forall in Hsz. apply Hsz. exact H2. }
  assert (Hlen : length ([] ++ items) = n).
  { cbn [app]. rewrite <- (Permutation_length Hpi). clear. generalize 0%nat. induction (s3_payloads s) as [|x l IH]; intros j; [reflexivity|]. cbn [items_from length]. rewrite IH. reflexivity. }
  assert (Hine : items <> []).
  { intros E. rewrite E in Hlen. cbn in Hlen. unfold n in Hlen. destruct (s3_payloads s); [contradiction|discriminate]. }
  assert (Hatt : exists n', gs3_packets_impl port (mknet (Datagram (s3_handshake s) :: map Datagram dgs) [] [] 0 None
                                              [ApplyTimeout (Some (4, 0)) (Some (4, 0)); NewUdp port]) = (Ok (s3_payloads s), n')).
  { unfold gs3_packets_impl. cbn [n_udp length].
    erewrite mbind_ok by (apply gs3_handshake_ok; assumption).
    unfold gs3_data_request. erewrite mbind_ok by apply send_ok.
    rewrite Hdg.
    match goal with |- context [mknet (map Datagram (map (dg n) items)) ?t [] ?sn ?cur ?tr] =>
      destruct (packets_any_order items [] n (S (S (length (map Datagram (map (dg n) items))))) t sn cur tr Hine Hn ltac:(rewrite !map_length; lia) Hnd Hall Hlen) as [tr' E] end.
    change (collect [] []) with (@nil bytes) in E. change (has_last n []) with false in E. cbv iota in E.
    erewrite mbind_ok by exact E.
    cbn [app]. rewrite <- (collect_order_independent _ _ [] Hpi) by (rewrite items_from_fst; apply seq_NoDup).
    pose proof (collect_in_order (s3_payloads s) []) as Hco. cbn [length app] in Hco. rewrite Hco.
    match goal with |- context [if ?c then _ else _] => replace c with false by (symmetry; exact (no_empty _ Hnn)) end.
    eexists. reflexivity. }
  destruct Hatt as [n' E].
  unfold gs3_query, gs3_packets, script_net, net_init. cbn [map].
  assert (Hnew : forall u t f sn cur tr, udp_new port None (mknet u t f sn cur tr)
                 = (Ok tt, mknet u t f sn cur (ApplyTimeout (Some (4, 0)) (Some (4, 0)) :: NewUdp port :: tr))) by reflexivity.
  erewrite mbind_ok.
  2:{ erewrite mbind_ok by apply Hnew. unfold retry_on_timeout. cbn [ts_retries_or_default N.to_nat retry_loop]. rewrite E. reflexivity. }
  unfold mlift. cbn [fst]. apply gs3_roundtrip. exact Hwf.
Qed.
