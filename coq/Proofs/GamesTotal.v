(* C01 rows: totality of the single-game, Minecraft and GameSpy 2 reply parsers
   and queries: whatever the datagrams / streams, no panic, abort or fuel
   exhaustion. *)
From GD Require Import Base.Prelude Model.Strings Model.StrOps Model.Buffer Model.Net Model.Valve Model.Gamespy Model.Games Model.View Model.Minecraft.
From GD Require Import Proofs.BufferLemmas Proofs.BufInv Proofs.Msafe Proofs.QuakeTotal.
From Coq Require Import ZifyBool ZifyNat ZifyN Lia.

Lemma Rsafe_of {A} (m : R A) : preserves m -> (forall b, buf_inv b -> safe (fst (m b))) -> Rsafe m.
Proof. intros Hp Hs b Hb. split; [apply Hs; exact Hb|]. exact (proj1 (Hp (buf_data b) b (conj Hb eq_refl))). Qed.

Lemma Rsafe_dec_utf8_lp d : Rsafe (dec_utf8_lp d).
Proof.
  apply Rsafe_of; [apply preserves_dec_utf8_lp|]. intros b Hb. unfold dec_utf8_lp, with_slice. rewrite Hb. cbn.
  destruct (rest b) as [|len tl]; [exact I|]. destruct (span_until _ _) as [s after].
  destruct (take_n _ tl) as [[s' r]|]; [destruct (utf8_valid s')|]; exact I.
Qed.
Lemma Rsafe_dec_utf16 be d0 d1 : Rsafe (dec_utf16 be d0 d1).
Proof.
  apply Rsafe_of; [apply preserves_dec_utf16|]. intros b Hb. unfold dec_utf16, with_slice. rewrite Hb. cbn.
  match goal with |- context [utf16_scalars ?u] => destruct (utf16_scalars u) end; exact I.
Qed.
Lemma Rsafe_switch n : forall b, buf_inv b ->
  match switch_endian_chunk n b with
  | (Ok c, b') => buf_inv c /\ buf_inv b'
  | (Err _, b') => buf_inv b'
  | _ => False
  end.
Proof.
  intros b Hb. unfold switch_endian_chunk.
  pose proof (Rsafe_move_cursor (Z.of_nat n) b Hb) as [Hs Hi].
  destruct (move_cursor (Z.of_nat n) b) as [[u|e| | |] b'] eqn:E; cbn [fst snd] in *; try contradiction; [|exact Hi].
  (* the cursor moved forward by n inside the data: the chunk exists *)
  unfold move_cursor in E. rewrite Hb in E.
  destruct ((Z.of_N (cursor b) + Z.of_nat n <? 0)%Z || (Z.of_N (data_length b) <? Z.of_N (cursor b) + Z.of_nat n)%Z); [discriminate|].
  replace (Z.of_nat n + Z.of_N 0)%Z with (Z.of_nat n) in E by lia.
  replace (0 <=? Z.of_nat n)%Z with true in E by lia. rewrite Nat2Z.id in E.
  destruct (take_n n (rest b)) as [[x r]|]; [|discriminate]. split; [reflexivity|exact Hi].
Qed.
Lemma Rsafe_get_varint_loop n : forall i acc, Rsafe (get_varint_loop n i acc).
Proof.
  induction n as [|n IH]; intros i acc; cbn [get_varint_loop]; [apply Rsafe_ret|].
  apply Rsafe_bind; [apply Rsafe_read_u8|]. intros c.
  destruct ((i =? 4) && negb (N.land c 240 =? 0)); [apply Rsafe_fail|].
  destruct (N.land c 128 =? 0); [apply Rsafe_ret|apply IH].
Qed.
Lemma Rsafe_get_varint : Rsafe get_varint.
Proof. apply Rsafe_get_varint_loop. Qed.
Lemma Rsafe_get_string : Rsafe get_string.
Proof.
  unfold get_string. apply Rsafe_bind; [apply Rsafe_get_varint|]. intros len b Hb.
  unfold remaining_length. rewrite Hb. cbn [N.eqb].
  destruct (lenN (rest b) <? of_signed 64 len); [split; [exact I|exact Hb]|].
  pose proof (Rsafe_read_raw (N.to_nat (of_signed 64 len)) b Hb) as [Hs Hi].
  destruct (read_raw _ b) as [[s|e| | |] b']; cbn [fst snd] in *; try contradiction.
  - destruct (utf8_valid s); split; try exact I; exact Hi.
  - split; [exact I|exact Hi].
Qed.
Definition Rsafe_cstr : Rsafe read_cstr := Rsafe_dec_utf8 0.

Ltac rsafe :=
  repeat first
    [ apply Rsafe_ret | apply Rsafe_fail | apply Rsafe_read_u8 | apply Rsafe_read_uint | apply Rsafe_read_int
    | apply Rsafe_move_cursor | apply Rsafe_cstr | apply Rsafe_dec_utf8 | apply Rsafe_dec_utf8_lp | apply Rsafe_dec_utf16
    | apply Rsafe_get_varint | apply Rsafe_get_string
    | apply Rsafe_bind; [|intros ?]
    | apply Rsafe_if ].

Lemma safe_server_type v : safe (server_type_from v).
Proof. unfold server_type_from. repeat destruct (_ =? _); exact I. Qed.
Lemma safe_environment v : safe (environment_from v).
Proof. unfold environment_from. repeat (destruct (_ =? _) || destruct (_ || _)); exact I. Qed.

(* ---- Savage 2, FFOW, Mindustry ---- *)
Lemma savage2_parse_safe : Rsafe savage2_parse.
Proof. unfold savage2_parse. rsafe. Qed.
Lemma ffow_parse_safe : Rsafe ffow_parse.
Proof.
  unfold ffow_parse, read_u16le. rsafe; try (apply Rsafe_lift; first [apply safe_server_type | apply safe_environment]).
Qed.
Lemma mindustry_parse_safe : Rsafe mindustry_parse.
Proof.
  unfold mindustry_parse, read_lp, read_i32be. rsafe.
  - apply Rsafe_lift. repeat destruct (_ =? _); exact I.
  - intros b Hb. pose proof (Rsafe_dec_utf8_lp 0 b Hb) as [Hs Hi].
    destruct (dec_utf8_lp 0 b) as [[mn|e| | |] b']; cbn [fst snd] in *; try contradiction; split; try exact I; exact Hi.
Qed.

(* ---- Minecraft: Bedrock pong, legacy kick packets, Java framing ---- *)
Lemma safe_need {A} (o : option A) e : safe (need o e).
Proof. destruct o; exact I. Qed.
Lemma safe_obind {A B} (o : outcome A) (f : A -> outcome B) : safe o -> (forall a, safe (f a)) -> safe (obind o f).
Proof. destruct o; cbn; intros H Hf; try contradiction; [apply Hf|exact I]. Qed.
Lemma safe_gamemode v : safe (gamemode_of v).
Proof. unfold gamemode_of. repeat destruct (bytes_eqb _ _); exact I. Qed.
Lemma safe_expected_size a b : safe (error_by_expected_size a b).
Proof. unfold error_by_expected_size. repeat destruct (_ <? _); exact I. Qed.

(* a step whose result satisfies P *)
Definition RsafeP {A} (m : R A) (P : A -> Prop) : Prop :=
  forall b, buf_inv b -> match m b with
                         | (Ok a, b') => P a /\ buf_inv b'
                         | (Err _, b') => buf_inv b'
                         | _ => False
                         end.
Lemma Rsafe_bindP {A B} (m : R A) (P : A -> Prop) (f : A -> R B) :
  RsafeP m P -> (forall a, P a -> Rsafe (f a)) -> Rsafe (bind m f).
Proof.
  intros Hm Hf b Hb. unfold bind. specialize (Hm b Hb).
  destruct (m b) as [[a|e| | |] b']; try contradiction.
  - destruct Hm as [Hp Hi]. apply (Hf a Hp b' Hi).
  - split; [exact I|exact Hm].
Qed.

Lemma bedrock_parse_safe : Rsafe bedrock_parse.
Proof.
  unfold bedrock_parse.
  apply Rsafe_bind; [rsafe|intros id]. apply Rsafe_if; [rsafe|].
  apply Rsafe_bind; [rsafe|intros nonce]. apply Rsafe_if; [rsafe|].
  apply Rsafe_bind; [rsafe|intros u]. apply Rsafe_bind; [rsafe|intros m1]. apply Rsafe_if; [rsafe|].
  apply Rsafe_bind; [rsafe|intros m2]. apply Rsafe_if; [rsafe|].
  apply (Rsafe_bindP _ buf_inv); [exact (Rsafe_switch 2)|]. intros chunk Hc.
  apply Rsafe_bind; [apply Rsafe_lift; exact (proj1 (Rsafe_read_uint true 2 chunk Hc))|]. intros len b Hb.
  unfold remaining_length. rewrite Hb. cbn [N.eqb].
  assert (R : Rsafe (let* _ := lift (error_by_expected_size len (lenN (rest b))) in
                     let* s := read_cstr in
                     let st := split 59 s in
                     if (List.length st <? 6)%nat then fail PacketBad
                     else
                       let g i := nth i st [] in
                       let* maxp := lift (need (parse_unsigned u32_max (g 5%nat)) TypeParse) in
                       let* online := lift (need (parse_unsigned u32_max (g 4%nat)) TypeParse) in
                       let* gm := lift (match nth_error st 8 with
                                        | None => Ok None
                                        | Some v => ob* m := gamemode_of v in Ok (Some m)
                                        end) in
                       ret (mk_bedrock (g 0%nat) (g 1%nat) (g 3%nat) (g 2%nat) maxp online (nth_error st 6) (nth_error st 7) gm McBedrock))).
  { rsafe; try (apply Rsafe_lift; first [apply safe_need | apply safe_expected_size]).
    apply Rsafe_lift. destruct (nth_error _ 8); [|exact I]. apply safe_obind; [apply safe_gamemode|intros; exact I]. }
  apply R. exact Hb.
Qed.

(* ---- legacy kick packets and the Java framing ---- *)
Lemma legacy_parse_safe g data : safe (legacy_parse g data).
Proof.
  unfold legacy_parse, run_r. apply Rsafe_run.
  assert (Hh : Rsafe (legacy_header data)).
  { unfold legacy_header. rsafe. apply Rsafe_lift. apply safe_expected_size. }
  assert (Hv : Rsafe v16_response).
  { unfold v16_response, read_u16s. rsafe; apply Rsafe_lift; apply safe_need. }
  assert (Ho : forall ver gg, Rsafe (old_response ver gg)).
  { intros ver gg. unfold old_response, read_u16s. rsafe; apply Rsafe_lift; first [apply safe_need | apply safe_expected_size]. }
  assert (Hi : Rsafe is_v16).
  { intros b Hb. unfold is_v16, remaining_bytes. rewrite Hb. cbn [N.eqb].
    destruct (starts_with _ (rest b)); [|split; [exact I|exact Hb]].
    apply (Rsafe_bind _ _ (move_cursor 6) (fun _ => ret true)); [apply Rsafe_move_cursor|intros; apply Rsafe_ret|exact Hb]. }
  apply Rsafe_bind; [exact Hh|intros _].
  destruct g; [apply Rsafe_bind; [exact Hi|intros []; [exact Hv|apply Rsafe_fail]]
              |apply Rsafe_bind; [exact Hi|intros []; [exact Hv|apply Ho]]
              |apply Ho].
Qed.
Lemma omap_list_safe {A B} (f : A -> outcome B) l : (forall a, safe (f a)) -> safe (omap_list f l).
Proof.
  intros Hf. induction l as [|x l IH]; [exact I|]. cbn [omap_list].
  apply safe_obind; [apply Hf|intros y]. apply safe_obind; [exact IH|intros; exact I].
Qed.
Lemma java_of_value_safe v : safe (java_of_value v).
Proof.
  unfold java_of_value.
  repeat (apply safe_obind; [apply safe_need|intros ?]).
  apply safe_obind; [|intros; exact I].
  destruct (is_null _); [exact I|]. destruct (jidx _ (jidx _ v)); try exact I.
  apply safe_obind; [|intros; exact I]. apply omap_list_safe. intros p.
  repeat (apply safe_obind; [apply safe_need|intros ?]). exact I.
Qed.

(* ---- queries: no panic, abort or fuel exhaustion for any script ---- *)
Definition QT (_ : tev) : Prop := True.
Definition MokT {A} (m : M A) : Prop := Mok QT m.
Lemma MokT_tcp_new port t : settings_ok t -> MokT (tcp_new port t).
Proof.
  intros Hs n. unfold tcp_new.
  destruct (n_tcp n) as [|[|d stall] r].
  - cbn. split; [exact I|split; [lia|]]. eexists [_]. split; [reflexivity|repeat constructor].
  - cbn. split; [exact I|split; [lia|]]. eexists [_]. split; [reflexivity|repeat constructor].
  - set (n1 := mknet (n_udp n) r (n_fail n) (n_sends n) (Some (d, stall)) (NewTcp port (ts_connect_or_default t) :: n_trace n)).
    destruct (Mok_apply_timeout QT t Hs (fun _ _ => I) n1) as [H1 [H2 [evs [H3 H4]]]].
    split; [exact H1|split; [exact H2|]].
    exists (evs ++ [NewTcp port (ts_connect_or_default t)]). split.
    + rewrite H3. unfold n1. cbn [n_trace]. rewrite <- app_assoc. reflexivity.
    + apply Forall_app. split; [exact H4|repeat constructor].
Qed.
Lemma MokT_tcp_recv size : MokT (tcp_recv size).
Proof.
  intros n. unfold tcp_recv. destruct (n_cur n) as [[d [|]]|]; cbn;
    (split; [exact I|split; [lia|]]; eexists [_]; split; [reflexivity|repeat constructor]).
Qed.
Lemma MokT_send port d : MokT (send port d).
Proof. apply Mok_send. exact I. Qed.
Lemma MokT_udp_recv s : MokT (udp_recv s).
Proof. apply Mok_udp_recv. exact I. Qed.
Lemma MokT_udp_new port t : settings_ok t -> MokT (udp_new port t).
Proof. intros H. apply Mok_udp_new; [exact H|exact I|intros; exact I]. Qed.

Ltac mok :=
  repeat first
    [ apply Mok_ret | apply Mok_fail | apply MokT_send | apply MokT_udp_recv | apply MokT_tcp_recv
    | apply Mok_retry | apply Mok_bind; [|intros ?] | apply Mok_if ].

Lemma savage2_query_ok port t : settings_ok t -> MokT (savage2_query port t).
Proof.
  intros H. unfold savage2_query, MokT. apply Mok_bind; [apply MokT_udp_new; exact H|intros _]. mok.
  apply Mok_lift. apply Rsafe_run, savage2_parse_safe.
Qed.
Lemma mindustry_query_ok port t : settings_ok t -> MokT (mindustry_query port t).
Proof.
  intros H. unfold mindustry_query, mindustry_attempt, MokT. apply Mok_retry.
  apply Mok_bind; [apply MokT_udp_new; exact H|intros _]. mok.
  apply Mok_lift. apply Rsafe_run, mindustry_parse_safe.
Qed.
Lemma bedrock_query_ok port t : settings_ok t -> MokT (query_bedrock port t).
Proof.
  intros H. unfold query_bedrock, bedrock_info_impl, MokT. apply Mok_bind; [apply MokT_udp_new; exact H|intros _]. mok.
  apply Mok_lift. apply Rsafe_run, bedrock_parse_safe.
Qed.
Lemma legacy_query_ok g port t : settings_ok t -> MokT (query_legacy_specific g port t).
Proof.
  intros H. unfold query_legacy_specific, legacy_info_impl, MokT. apply Mok_bind; [apply MokT_tcp_new; exact H|intros _]. mok.
  apply Mok_lift. apply legacy_parse_safe.
Qed.

Lemma as_string_safe s : safe (as_string s).
Proof. unfold as_string. destruct (_ <? _); exact I. Qed.

Section Java.
  Variable json : bytes -> option (option jv).
  (* the JSON parser answers every text (with a value or with "invalid") *)
  Hypothesis json_total : forall t, json t <> None.

  Lemma java_query_ok port t rs : settings_ok t -> MokT (query_java json port t rs).
  Proof.
    intros H. unfold query_java, java_info_impl, mc_send, MokT.
    apply Mok_bind; [apply MokT_tcp_new; exact H|intros _]. apply Mok_retry.
    apply Mok_bind; [apply Mok_lift, as_string_safe|intros hs].
    mok.
    - apply Mok_lift. apply Rsafe_run. rsafe. apply Rsafe_remaining.
    - apply Mok_lift. apply Rsafe_run. rsafe.
    - destruct (json _) as [[v|]|] eqn:E; [apply Mok_lift, java_of_value_safe|apply Mok_fail|exfalso; exact (json_total _ E)].
  Qed.

  Lemma MokT_or_else {A} (a b : M A) : MokT a -> MokT b -> MokT (or_else a b).
  Proof.
    intros Ha Hb n. unfold or_else. destruct (Ha n) as [H1 [H2 [evs [H3 H4]]]].
    destruct (a n) as [[r|e| | |] n1]; cbn [fst snd] in *; try contradiction.
    - split; [exact I|split; [exact H2|exists evs; split; assumption]].
    - destruct (Hb n1) as [G1 [G2 [evs2 [G3 G4]]]]. split; [exact G1|split; [lia|]].
      exists (evs2 ++ evs). split; [rewrite G3, H3, app_assoc; reflexivity|apply Forall_app; split; assumption].
  Qed.

  Lemma legacy_auto_ok port t : settings_ok t -> MokT (query_legacy port t).
  Proof.
    intros H. unfold query_legacy. repeat (apply MokT_or_else; [apply legacy_query_ok; exact H|]). apply Mok_fail.
  Qed.
  Lemma auto_query_ok port t rs : settings_ok t -> MokT (query_auto json port t rs).
  Proof.
    intros H. unfold query_auto.
    apply MokT_or_else; [apply java_query_ok; exact H|].
    apply MokT_or_else; [apply Mok_bind; [apply bedrock_query_ok; exact H|intros; apply Mok_ret]|].
    apply MokT_or_else; [apply legacy_auto_ok; exact H|apply Mok_fail].
  Qed.
End Java.

(* ---- statements over every script ---- *)
Theorem savage2_total port t u tc sf : settings_ok t -> safe (fst (savage2_query port t (net_init u tc sf))).
Proof. intros H. exact (proj1 (savage2_query_ok port t H _)). Qed.
Theorem mindustry_total port t u tc sf : settings_ok t -> safe (fst (mindustry_query port t (net_init u tc sf))).
Proof. intros H. exact (proj1 (mindustry_query_ok port t H _)). Qed.
Theorem minecraft_total json port t rs u tc sf :
  (forall x, json x <> None) -> settings_ok t ->
  safe (fst (query_auto json port t rs (net_init u tc sf))) /\
  safe (fst (query_java json port t rs (net_init u tc sf))) /\
  safe (fst (query_bedrock port t (net_init u tc sf))) /\
  safe (fst (query_legacy port t (net_init u tc sf))) /\
  (forall g, safe (fst (query_legacy_specific g port t (net_init u tc sf)))).
Proof.
  intros Hj H. repeat split.
  - exact (proj1 (auto_query_ok json Hj port t rs H _)).
  - exact (proj1 (java_query_ok json Hj port t rs H _)).
  - exact (proj1 (bedrock_query_ok port t H _)).
  - exact (proj1 (legacy_auto_ok port t H _)).
  - intros g. exact (proj1 (legacy_query_ok g port t H _)).
Qed.
