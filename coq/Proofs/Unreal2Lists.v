(* C06: the lists of an Unreal 2 reply. One datagram of mutators / rules and one
   datagram of players, for every list of well-formed wire strings: every pair and
   every player comes back, in order, nothing added or dropped. *)
From GD Require Import Base.Prelude Model.Strings Model.StrOps Model.Buffer Model.Unreal2Str Model.Net Model.Valve Model.Unreal2 Spec.Unreal2Spec.
From GD Require Import Proofs.BufferLemmas Proofs.ReadSpecs Proofs.Varint Proofs.ValveRoundtrip Proofs.GamesProofs Proofs.Unreal2StrProofs.
From Coq Require Import ZifyBool ZifyNat ZifyN Lia.

(* a wire string whose decoding does not depend on what follows it *)
Definition ws_ok (w : wire_string) : Prop :=
  match ws_enc w with
  | Latin1 => forallb seg_ok8 (ws_segs w) = true /\ lenN (raw_of (ws_segs w) ++ (if ws_nul w then [0] else [])) < 128
  | Ucs2 =>
      let raw := raw_of (ws_segs w) ++ (if ws_nul w then [0] else []) in
      let units := flat_map utf16_units1 raw in
      forallb seg_ok (ws_segs w) = true /\ forallb scalar_ok raw = true /\ lenN units < 128
      /\ (match utf16le units with [] => False | 1 :: _ => False | _ => True end)
  end.
Lemma string_at w pre r : ws_ok w ->
  u2_string (at_ pre (enc_ustring w ++ r)) = (Ok (expected_ustring w), at_ (pre ++ enc_ustring w) r).
Proof.
  destruct w as [[|] segs nul]; unfold ws_ok, u2_string; cbn [ws_enc ws_segs ws_nul].
  - intros [H1 H2]. apply u2_latin1_string; assumption.
  - intros [H1 [H2 [H3 H4]]]. apply u2_ucs2_string; try assumption.
    destruct (utf16le _) as [|x tl]; [contradiction|]. cbn [app]. exact H4.
Qed.

Lemma remaining_nonempty pre c r : remaining_length (at_ pre (c :: r)) = Ok (N.pos (Pos.of_succ_nat (length r))).
Proof. reflexivity. Qed.
Lemma enc_nonempty w : exists c tl, enc_ustring w = c :: tl.
Proof. unfold enc_ustring. destruct (ws_enc w); cbn [app]; eexists; eexists; reflexivity. Qed.

(* ---------- mutators and rules ---------- *)
Definition enc_pair (kv : wire_string * wire_string) : bytes := enc_ustring (fst kv) ++ enc_ustring (snd kv).
Theorem parse_mr_at : forall l fuel acc pre, Forall (fun kv => ws_ok (fst kv) /\ ws_ok (snd kv)) l ->
  (length (flat_map enc_pair l) < fuel)%nat ->
  parse_mr fuel acc (at_ pre (flat_map enc_pair l)) = (Ok (expected_pairs l acc), at_ (pre ++ flat_map enc_pair l) []).
Proof.
  induction l as [|[k v] l IH]; intros fuel acc pre Hok Hf; (destruct fuel as [|f]; [lia|]); cbn [parse_mr].
  - cbn [flat_map]. rewrite app_nil_r. reflexivity.
  - inversion Hok as [|? ? [Hk Hv] Hl]; subst. cbn [fst snd] in *.
    cbn [flat_map]. change (enc_pair (k, v)) with (enc_ustring k ++ enc_ustring v). rewrite <- !app_assoc.
    destruct (enc_nonempty k) as [c [tl E]].
    change (remaining_length (at_ pre ?x)) with (Ok (lenN x) : outcome N). unfold lenN. rewrite app_length, E. cbn [length].
    destruct (N.of_nat _) eqn:En; [lia|]. clear En. rewrite <- E. cbv beta iota.
    rewrite (string_at k pre _ Hk). rewrite (string_at v _ _ Hv). cbv beta iota.
    cbn [expected_pairs fold_left fst snd].
    destruct (eq_ignore_ascii_case (expected_ustring k) (str "mutator")).
    + rewrite IH; [|exact Hl|].
      * rewrite <- !app_assoc. reflexivity.
      * cbn [flat_map] in Hf. change (enc_pair (k, v)) with (enc_ustring k ++ enc_ustring v) in Hf. rewrite !app_length in Hf. rewrite E in Hf. cbn [length] in Hf. lia.
    + rewrite IH; [|exact Hl|].
      * rewrite <- !app_assoc. reflexivity.
      * cbn [flat_map] in Hf. change (enc_pair (k, v)) with (enc_ustring k ++ enc_ustring v) in Hf. rewrite !app_length in Hf. rewrite E in Hf. cbn [length] in Hf. lia.
Qed.

(* ---------- players ---------- *)
Definition player_ok (p : N * wire_string * N * Z * N) : Prop :=
  let '(id, name, ping, score, sid) := p in
  id < 4294967296 /\ ws_ok name /\ ping < 4294967296 /\ (- 2147483648 <= score < 2147483648)%Z /\ sid < 4294967296.
Definition add_player (acc : u2_players) (p : u2_player) : u2_players :=
  if up_ping p =? 0 then mk_u2ps (ups_players acc) (ups_bots acc ++ [p]) else mk_u2ps (ups_players acc ++ [p]) (ups_bots acc).
Lemma read_le32_at v pre r : v < 4294967296 -> read_u32l (at_ pre (le32 v ++ r)) = (Ok v, at_ (pre ++ le32 v) r).
Proof. intros H. apply (read_le_at 4). cbn. lia. Qed.
Lemma read_i32_at z pre r : (- 2147483648 <= z < 2147483648)%Z ->
  read_int false 4 (at_ pre (le32 (of_signed 32 z) ++ r)) = (Ok z, at_ (pre ++ le32 (of_signed 32 z)) r).
Proof.
  intros H. pose proof (read_int_at false (le32 (of_signed 32 z)) pre r) as E.
  unfold le32 in *. rewrite le_bytes_length in E. rewrite E. change (8 * N.of_nat 4) with 32.
  rewrite val_of_le by (pose proof (of_signed32_lt z); cbn in *; lia).
  rewrite signed32_rt by lia. reflexivity.
Qed.
Theorem parse_players_at : forall l fuel acc pre, Forall player_ok l ->
  (length (flat_map enc_u2_player l) < fuel)%nat ->
  parse_u2_players fuel acc (at_ pre (flat_map enc_u2_player l))
  = (Ok (fold_left add_player (map expected_player l) acc), at_ (pre ++ flat_map enc_u2_player l) []).
Proof.
  induction l as [|p l IH]; intros fuel acc pre Hok Hf; (destruct fuel as [|f]; [lia|]); cbn [parse_u2_players].
  - cbn [flat_map]. rewrite app_nil_r. reflexivity.
  - inversion Hok as [|? ? Hp Hl]; subst. destruct p as [[[[id name] ping] score] sid]. destruct Hp as [H1 [H2 [H3 [H4 H5]]]].
    cbn [flat_map]. change (enc_u2_player (id, name, ping, score, sid))
      with (le32 id ++ enc_ustring name ++ le32 ping ++ le32 (of_signed 32 score) ++ le32 sid). rewrite <- !app_assoc.
    assert (E : exists c tl, le32 id = c :: tl) by (unfold le32, le_bytes; eexists; eexists; reflexivity). destruct E as [c [tl E]].
    change (remaining_length (at_ pre ?x)) with (Ok (lenN x) : outcome N). unfold lenN. rewrite app_length, E. cbn [length].
    destruct (N.of_nat _) eqn:En; [lia|]. clear En. rewrite <- E. cbv beta iota.
    erewrite bind_ok by (apply read_le32_at; exact H1). erewrite bind_ok by (apply string_at; exact H2).
    erewrite bind_ok by (apply read_le32_at; exact H3). erewrite bind_ok by (apply read_i32_at; exact H4).
    erewrite bind_ok by (apply read_le32_at; exact H5).
    cbn [map fold_left expected_player]. unfold add_player at 2. cbn [up_ping].
    rewrite IH; [|exact Hl|].
    + rewrite <- !app_assoc. reflexivity.
    + cbn [flat_map] in Hf. change (enc_u2_player (id, name, ping, score, sid)) with (le32 id ++ enc_ustring name ++ le32 ping ++ le32 (of_signed 32 score) ++ le32 sid) in Hf. rewrite !app_length in Hf. rewrite E in Hf. cbn [length] in Hf. lia.
Qed.
(* the players of a datagram, split into players and bots (ping 0), each in the order sent *)
Lemma fold_add_player l : forall acc,
  fold_left add_player l acc
  = mk_u2ps (ups_players acc ++ filter (fun p => negb (up_ping p =? 0)) l) (ups_bots acc ++ filter (fun p => up_ping p =? 0) l).
Proof.
  induction l as [|p l IH]; intros acc; cbn [fold_left filter]; [rewrite !app_nil_r; destruct acc; reflexivity|].
  rewrite IH. unfold add_player. destruct (up_ping p =? 0); cbn [negb ups_players ups_bots]; rewrite <- ?app_assoc; reflexivity.
Qed.

(* ---------- a whole datagram, header included ---------- *)
Lemma headers_at kind body : kind <= 2 ->
  consume_headers kind (buf_new (u2_header kind ++ body)) = (Ok tt, at_ (u2_header kind) body).
Proof.
  intros Hk. unfold consume_headers. change (buf_new ?d) with (at_ [] d). unfold u2_header.
  change 4%Z with (Z.of_nat (length [128; 0; 0; 0])).
  change ([128; 0; 0; 0; kind] ++ body) with ([128; 0; 0; 0] ++ kind :: body).
  erewrite bind_ok by apply move_at. erewrite bind_ok by apply read_u8_lt.
  replace (2 <? kind) with false by lia. rewrite N.eqb_refl. reflexivity.
Qed.
Theorem rules_datagram_decodes : forall l acc, Forall (fun kv => ws_ok (fst kv) /\ ws_ok (snd kv)) l ->
  with_headers 1 (enc_u2_pairs l) (parse_mr (S (length (enc_u2_pairs l))) acc) = Ok (expected_pairs l acc).
Proof.
  intros l acc H. unfold with_headers, enc_u2_pairs. erewrite bind_ok by (apply headers_at; lia).
  change (flat_map (fun kv => enc_ustring (fst kv) ++ enc_ustring (snd kv)) l) with (flat_map enc_pair l).
  rewrite parse_mr_at; [reflexivity|exact H|]. rewrite app_length. cbn [length u2_header]. lia.
Qed.
Theorem players_datagram_decodes : forall l acc, Forall player_ok l ->
  with_headers 2 (enc_u2_players l) (parse_u2_players (S (length (enc_u2_players l))) acc)
  = Ok (mk_u2ps (ups_players acc ++ filter (fun p => negb (up_ping p =? 0)) (map expected_player l))
                (ups_bots acc ++ filter (fun p => up_ping p =? 0) (map expected_player l))).
Proof.
  intros l acc H. unfold with_headers, enc_u2_players. erewrite bind_ok by (apply headers_at; lia).
  rewrite parse_players_at; [cbn [fst]; rewrite fold_add_player; reflexivity|exact H|]. rewrite app_length. cbn [length u2_header]. lia.
Qed.
