(* C03: Minecraft. *)
From GD Require Import Base.Prelude Model.Strings Model.StrOps Model.Buffer Model.Net Model.Valve Model.Gamespy Model.View Model.Minecraft.
From GD Require Import Spec.MinecraftSpec Proofs.Varint.
From Coq Require Import ZifyBool ZifyNat ZifyN Lia.
Require Import String.

(* ---- the auto-detecting query ---- *)
(* or_else a b: the result of a unless a fails with an error, then the result
   of b on the network state a left *)
Lemma or_else_ok {A} (a b : M A) n r n' : a n = (Ok r, n') -> or_else a b n = (Ok r, n').
Proof. intros H. unfold or_else. rewrite H. reflexivity. Qed.
Lemma or_else_err {A} (a b : M A) n e n' : a n = (Err e, n') -> or_else a b n = b n'.
Proof. intros H. unfold or_else. rewrite H. reflexivity. Qed.
Section Auto.
  Variable json : bytes -> option (option jv).
  Variables (port : N) (t : option tsettings) (rs : option request_settings).

  (* the order Java, Bedrock, legacy 1.6, 1.4, beta 1.8: the first variant that
     answers decides; an attempt is made only when all earlier ones failed *)
  Theorem auto_java_first n r n1 :
    query_java json port t rs n = (Ok r, n1) -> query_auto json port t rs n = (Ok r, n1).
  Proof. intros H. unfold query_auto. apply or_else_ok, H. Qed.

  Theorem auto_bedrock_second n e n1 b n2 :
    query_java json port t rs n = (Err e, n1) -> query_bedrock port t n1 = (Ok b, n2) ->
    query_auto json port t rs n = (Ok (java_of_bedrock b), n2).
  Proof.
    intros H1 H2. unfold query_auto. rewrite (or_else_err _ _ _ _ _ H1).
    apply or_else_ok. unfold mbind. rewrite H2. reflexivity.
  Qed.

  Theorem auto_legacy_third n e1 n1 e2 n2 :
    query_java json port t rs n = (Err e1, n1) -> query_bedrock port t n1 = (Err e2, n2) ->
    query_auto json port t rs n =
      match query_legacy port t n2 with
      | (Err _, n3) => (Err AutoQuery, n3)
      | r => r
      end.
  Proof.
    intros H1 H2. unfold query_auto. rewrite (or_else_err _ _ _ _ _ H1).
    assert (E : (do* b := query_bedrock port t in mret (java_of_bedrock b)) n1 = (Err e2, n2))
      by (unfold mbind; rewrite H2; reflexivity).
    rewrite (or_else_err _ _ _ _ _ E). unfold or_else, mfail.
    destruct (query_legacy port t n2) as [[r|e| | |] n3]; reflexivity.
  Qed.

  Theorem legacy_order n :
    query_legacy port t n =
      match query_legacy_specific V1_6 port t n with
      | (Err _, n1) =>
          match query_legacy_specific V1_4 port t n1 with
          | (Err _, n2) =>
              match query_legacy_specific VB1_8 port t n2 with
              | (Err _, n3) => (Err AutoQuery, n3)
              | r => r
              end
          | r => r
          end
      | r => r
      end.
  Proof.
    unfold query_legacy, or_else, mfail.
    destruct (query_legacy_specific V1_6 port t n) as [[r|e| | |] n1]; reflexivity.
  Qed.

  (* it fails only with AutoQuery, and only when every variant failed *)
  Theorem auto_fails_only_if_all_fail n e n' :
    query_auto json port t rs n = (Err e, n') -> e = AutoQuery.
  Proof.
    unfold query_auto, query_legacy, or_else, mfail.
    destruct (query_java json port t rs n) as [[r|e1| | |] n1]; try discriminate.
    unfold mbind at 1. destruct (query_bedrock port t n1) as [[b|e2| | |] n2]; try discriminate.
    destruct (query_legacy_specific V1_6 port t n2) as [[r|e3| | |] n3]; try discriminate.
    destruct (query_legacy_specific V1_4 port t n3) as [[r|e4| | |] n4]; try discriminate.
    destruct (query_legacy_specific VB1_8 port t n4) as [[r|e5| | |] n5]; try discriminate.
    intros H. inversion H. reflexivity.
  Qed.
End Auto.

(* ---- the Java status value ---- *)
Lemma to_i32_id z : (- 2147483648 <= z < 2147483648)%Z -> to_i32 z = z.
Proof.
  intros H. unfold to_i32.
  replace (Z.to_N (z mod 4294967296)) with (of_signed 32 z) by reflexivity.
  apply signed32_rt. lia.
Qed.

Lemma sample_players (l : list (list N * list N)) :
  omap_list (fun p => ob* n := need (as_str (jidx "name" p)) PacketBad in
                      ob* i := need (as_str (jidx "id" p)) PacketBad in Ok (mk_mcp n i))
    (map (fun p => JObj [("name"%string, jstr' (fst p)); ("id"%string, jstr' (snd p))]) l)
  = Ok (map (fun p => mk_mcp (u8s (fst p)) (u8s (snd p))) l).
Proof.
  induction l as [|p l IH]; [reflexivity|]. cbn [map omap_list]. rewrite IH. reflexivity.
Qed.

Theorem java_status_decodes : forall s, wf_java_status s = true ->
  java_of_value (status_value s) = Ok (java_expected s).
Proof.
  intros [ver proto mx on sample snull desc fav pv sc ord pong] H.
  unfold wf_java_status in H. cbn [st_protocol st_max st_online] in H.
  apply andb_prop in H. destruct H as [H Hon]. apply andb_prop in H. destruct H as [Hp Hmx].
  assert (Ei : as_i64 (JNum proto) = Some proto) by (unfold as_i64; replace ((- 9223372036854775808 <=? proto)%Z && (proto <? 9223372036854775808)%Z) with true by lia; reflexivity).
  assert (Em : as_u64 (JNum (Z.of_N mx)) = Some mx) by (unfold as_u64; replace ((0 <=? Z.of_N mx)%Z && (Z.of_N mx <? 18446744073709551616)%Z) with true by lia; rewrite N2Z.id; reflexivity).
  assert (Eo : as_u64 (JNum (Z.of_N on)) = Some on) by (unfold as_u64; replace ((0 <=? Z.of_N on)%Z && (Z.of_N on <? 18446744073709551616)%Z) with true by lia; rewrite N2Z.id; reflexivity).
  assert (Mm : mx mod 2 ^ 32 = mx) by (apply N.mod_small; lia).
  assert (Mo : on mod 2 ^ 32 = on) by (apply N.mod_small; lia).
  assert (Ti : to_i32 proto = proto) by (apply to_i32_id; lia).
  unfold java_of_value, status_value, java_expected.
  cbn [st_version st_protocol st_max st_online st_sample st_sample_null st_desc st_favicon st_previews st_secure st_order st_pong].
  destruct (ord =? 0) eqn:O0; [|destruct (ord =? 1) eqn:O1];
    destruct sample as [l|]; [| destruct snull | | destruct snull | | destruct snull];
    destruct desc as [dt|dt|]; destruct fav as [f|]; destruct pv as [b1|]; destruct sc as [b2|];
    cbn [app jidx jfield assoc String.eqb Ascii.eqb Bool.eqb andb fst snd];
    rewrite ?Ei, ?Em, ?Eo; cbn [need obind is_null];
    rewrite ?sample_players; cbn [obind];
    rewrite ?Mm, ?Mo, ?Ti; reflexivity.
Qed.
