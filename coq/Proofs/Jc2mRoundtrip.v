(* C07, Just Cause 2: Multiplayer: for every well-formed server state the data
   packet is decoded to exactly that state - every variable, every player. *)
From GD Require Import Base.Prelude Model.Strings Model.StrOps Model.Buffer Model.Net Model.Valve Model.Gamespy Model.Games.
From GD Require Import Spec.ValveSpec Spec.QuakeSpec Spec.GamespySpec Spec.GamesSpec.
From GD Require Import Proofs.BufferLemmas Proofs.ReadSpecs Proofs.Str Proofs.Utf8 Proofs.ValveRoundtrip Proofs.QuakeRoundtrip Proofs.GamesProofs
  Proofs.GamespyProofs Proofs.IdProofs Proofs.Gamespy2Roundtrip.
From Coq Require Import ZifyBool ZifyNat ZifyN Lia.

(* key/value pairs up to an empty key *)
Lemma d2m_loop_at : forall kvs fuel m pre r, forallb kv_ok kvs = true ->
  (length (flat_map enc_kv kvs) + 1 + length r < fuel)%nat ->
  data_to_map_loop fuel m (at_ pre (flat_map enc_kv kvs ++ 0 :: r))
  = (Ok (fold_left ins kvs m), at_ (pre ++ flat_map enc_kv kvs ++ [0]) r).
Proof.
  induction kvs as [|[k v] kvs IH]; intros fuel m pre r Hok Hf; (destruct fuel as [|f]; [lia|]); cbn [data_to_map_loop].
  - cbn [flat_map app fold_left]. rewrite remaining_at. unfold lenN. cbn [length]. rewrite Nat2N.inj_succ.
    destruct (N.succ _) eqn:E; [lia|]. clear E. cbv beta iota.
    erewrite bind_ok by apply cstr_at_nil. reflexivity.
  - cbn [forallb] in Hok. apply andb_prop in Hok. destruct Hok as [Hkv Hok]. unfold kv_ok in Hkv. cbn [fst snd] in Hkv.
    apply andb_prop in Hkv. destruct Hkv as [Hkv Hne]. apply andb_prop in Hkv. destruct Hkv as [Hk Hv].
    cbn [flat_map fold_left]. change (enc_kv (k, v)) with ((k ++ [0]) ++ (v ++ [0])). rewrite <- !app_assoc. cbn [app].
    rewrite remaining_at. unfold lenN. rewrite app_length. cbn [length].
    destruct (N.of_nat _) eqn:E; [lia|]. clear E. cbv beta iota.
    erewrite bind_ok by (apply cstr_at; exact Hk). destruct k as [|k0 k]; [discriminate|].
    erewrite bind_ok by (apply cstr_at; exact Hv).
    rewrite (IH f (vm_insert (k0 :: k) v m) _ r Hok).
    + unfold ins. cbn [fst snd]. rewrite <- !app_assoc. cbn [app]. rewrite <- ?app_assoc. reflexivity.
    + cbn [flat_map] in Hf. change (enc_kv (k0 :: k, v)) with (((k0 :: k) ++ [0]) ++ (v ++ [0])) in Hf. rewrite !app_length in Hf. cbn [length] in Hf. lia.
Qed.
Lemma data_to_map_at kvs r : forallb kv_ok kvs = true ->
  data_to_map (flat_map enc_kv kvs ++ 0 :: r) [] = Ok (fold_left ins kvs [], r).
Proof.
  intros H. unfold data_to_map. change (buf_new ?d) with (at_ [] d).
  rewrite d2m_loop_at by (try exact H; rewrite !app_length; cbn [length]; lia). reflexivity.
Qed.

(* the player list *)
Definition jp_ok (p : jc2m_player) : bool := no_nul (jp_name p) && no_nul (jp_steam_id p) && (jp_ping p <? 65536).
Definition enc_jp (p : jc2m_player) : bytes := gcstr (jp_name p) ++ gcstr (jp_steam_id p) ++ be16' (jp_ping p).
Lemma be16_length v : length (be16' v) = 2%nat.
Proof. unfold be16', be_bytes. rewrite rev_length. apply le_bytes_length. Qed.
Lemma read_be16_at v pre r : v < 65536 -> read_uint true 2 (at_ pre (be16' v ++ r)) = (Ok v, at_ (pre ++ be16' v) r).
Proof.
  intros H. pose proof (read_uint_at true (be16' v) pre r) as E. rewrite be16_length in E. rewrite E.
  unfold be16'. rewrite val_of_be by (cbn; lia). reflexivity.
Qed.
Lemma jc2m_players_at : forall ps fuel acc pre, forallb jp_ok ps = true -> (length (flat_map enc_jp ps) < fuel)%nat ->
  jc2m_players fuel acc (at_ pre (flat_map enc_jp ps)) = (Ok (rev acc ++ ps), at_ (pre ++ flat_map enc_jp ps) []).
Proof.
  induction ps as [|p ps IH]; intros fuel acc pre Hok Hf; (destruct fuel as [|f]; [lia|]); cbn [jc2m_players].
  - cbn [flat_map]. rewrite remaining_at. cbn [lenN length N.of_nat]. rewrite !app_nil_r. reflexivity.
  - cbn [forallb] in Hok. apply andb_prop in Hok. destruct Hok as [Hp Hok]. unfold jp_ok in Hp.
    do 2 (apply andb_prop in Hp; destruct Hp as [Hp ?]).
    cbn [flat_map]. change (enc_jp p) with ((jp_name p ++ [0]) ++ (jp_steam_id p ++ [0]) ++ be16' (jp_ping p)). rewrite <- !app_assoc. cbn [app].
    rewrite remaining_at. unfold lenN. rewrite app_length. cbn [length].
    destruct (N.of_nat _) eqn:E; [lia|]. clear E. cbv beta iota.
    erewrite bind_ok by (apply cstr_at; exact Hp). erewrite bind_ok by (apply cstr_at; assumption).
    erewrite bind_ok by (apply read_be16_at; lia).
    rewrite IH.
    + assert (Ep : mk_jcp (jp_name p) (jp_steam_id p) (jp_ping p) = p) by (destruct p; reflexivity). rewrite Ep.
      cbn [rev]. rewrite <- !app_assoc. cbn [app]. rewrite <- ?app_assoc. reflexivity.
    + exact Hok.
    + cbn [flat_map] in Hf. change (enc_jp p) with ((jp_name p ++ [0]) ++ (jp_steam_id p ++ [0]) ++ be16' (jp_ping p)) in Hf. rewrite !app_length in Hf. cbn [length] in Hf. lia.
Qed.

(* the variables *)
Definition jc_keys : list bytes := map str ["hostname"; "version"; "description"; "maxplayers"; "password"; "numplayers"]%string.
Definition jc_std (s : jc_state) : list (bytes * bytes) :=
  [(str "hostname", js_name s); (str "version", js_version s); (str "description", js_description s);
   (str "maxplayers", show_N (js_max s)); (str "password", snd (js_password s))]
  ++ opt_list (js_num s) (fun v => [(str "numplayers", show_N v)]).
Lemma jc_vars_split s : jc_vars s = jc_std s ++ js_extras s.
Proof. unfold jc_vars, jc_std. rewrite <- !app_assoc. reflexivity. Qed.
Lemma jc_std_keys s x : In x (jc_std s) -> In (fst x) jc_keys.
Proof.
  unfold jc_std, jc_keys. destruct (js_num s); cbn [opt_list app In map];
    intros H; repeat (destruct H as [H|H]; [subst x; cbn [fst]; auto 10|]); contradiction.
Qed.
Lemma jc_std_map s : fold_left ins (jc_std s) [] = jc_std s.
Proof.
  unfold jc_std. destruct (js_num s); cbn [opt_list app fold_left]; unfold ins, vm_insert; cbn [fst snd map_insert];
    repeat (rewrite map_insert_cons;
            match goal with |- context [bytes_eqb (str ?a) (str ?b)] =>
              let r := eval vm_compute in (bytes_eqb (str a) (str b)) in change (bytes_eqb (str a) (str b)) with r end; cbv beta iota);
    reflexivity.
Qed.

(* what the password text means (has_password of protocols/gamespy/common.rs) *)
Definition password_means (t : bytes) : option bool :=
  match parse_bool (lower_ascii t) with
  | Some b => Some b
  | None => match parse_unsigned u8_max (lower_ascii t) with Some n => Some (negb (n =? 0)) | None => None end
  end.

Definition wf_jc (s : jc_state) : bool :=
  no_nul (js_version s) && no_nul (js_description s) && no_nul (js_name s) && no_nul (snd (js_password s))
  && (js_max s <? 4294967296) && optb (fun n => n <? 4294967296) (js_num s)
  && extras_ok_for jc_keys (js_extras s)
  && forallb jp_ok (js_players s) && (lenN (js_players s) <? 4294967296) && (js_count s <? 65536)
  && match password_means (snd (js_password s)) with Some b => Bool.eqb b (fst (js_password s)) | None => false end.

Definition jc_data (s : jc_state) : bytes :=
  flat_map enc_kv (jc_vars s) ++ nul ++ be16' (js_count s) ++ flat_map enc_jp (js_players s).

Theorem jc2m_roundtrip : forall s, wf_jc s = true -> jc2m_build (jc_data s) = Ok (jc_expected s).
Proof.
  intros s H. unfold wf_jc in H. do 10 (apply andb_prop in H; destruct H as [H ?]).
  rename H into Hver, H0 into Hpwm, H1 into Hcnt, H2 into Hpl, H3 into Hps, H4 into Hext, H5 into Hnum, H6 into Hmax, H7 into Hpw, H8 into Hname, H9 into Hdesc.
  pose proof Hext as Hext0. unfold extras_ok_for in Hext. do 2 (apply andb_prop in Hext; destruct Hext as [Hext ?]).
  rename Hext into Hekv, H into Hend, H0 into Hestd.
  assert (Hkv : forallb kv_ok (jc_vars s) = true).
  { rewrite jc_vars_split, forallb_app, Hekv, andb_true_r. unfold jc_std, kv_ok.
    destruct (js_num s); cbn [opt_list app forallb fst snd]; rewrite ?Hver, ?Hdesc, ?Hname, ?Hpw, ?no_nul_show_N; reflexivity. }
  unfold jc2m_build, jc_data, nul. cbn [app]. rewrite (data_to_map_at _ _ Hkv). cbn [obind].
  assert (Hplayers : run_r (let* _ := read_uint true 2 in jc2m_players (S (length (be16' (js_count s) ++ flat_map enc_jp (js_players s)))) [])
                       (be16' (js_count s) ++ flat_map enc_jp (js_players s)) = Ok (js_players s)).
  { unfold run_r. change (buf_new ?d) with (at_ [] d).
    erewrite bind_ok by (apply read_be16_at; apply N.ltb_lt; exact Hcnt).
    rewrite <- (app_nil_r (flat_map enc_jp (js_players s))) at 2.
    pose proof (jc2m_players_at (js_players s) (S (length (be16' (js_count s) ++ flat_map enc_jp (js_players s)))) [] ([] ++ be16' (js_count s)) Hps) as E.
    rewrite app_nil_r. rewrite E by (rewrite app_length; lia). reflexivity. }
  rewrite Hplayers. cbn [obind].
  assert (Hmap : fold_left ins (jc_vars s) [] = jc_vars s).
  { rewrite jc_vars_split, fold_left_app, jc_std_map. apply (fold_ins_std_ext jc_keys); [apply jc_std_keys|exact Hext0]. }
  rewrite Hmap, jc_vars_split. unfold jc_std.
  assert (Xg : forall k, existsb (bytes_eqb (str k)) jc_keys = true -> vm_get (str k) (js_extras s) = None)
    by (intros k Hk; exact (proj1 (ext_get_for jc_keys _ _ (key_in _ _ Hk) Hestd))).
  assert (Xr : forall k, existsb (bytes_eqb (str k)) jc_keys = true -> map_remove (str k) (js_extras s) = js_extras s)
    by (intros k Hk; exact (proj2 (ext_get_for jc_keys _ _ (key_in _ _ Hk) Hestd))).
  unfold jc_expected, online_of, take_req, has_password, vm_remove.
  apply N.ltb_lt in Hmax. apply N.ltb_lt in Hpl.
  unfold password_means in Hpwm.
  destruct (js_num s) as [num|]; cbn [opt_list app optb] in *;
    repeat first
      [ progress keys | rewrite Xg by reflexivity | rewrite Xr by reflexivity
      | rewrite parse_unsigned_show by (unfold usize_max', u32_max; lia)
      | progress cbn [need obind] ].
  all: destruct (parse_bool (lower_ascii (snd (js_password s)))) as [b|];
    [|destruct (parse_unsigned u8_max (lower_ascii (snd (js_password s)))) as [n|]; [|discriminate]];
    cbn [need obind]; apply Bool.eqb_prop in Hpwm; rewrite Hpwm; change (2 ^ 32) with 4294967296;
    (rewrite N.mod_small; [reflexivity|]); try (apply N.ltb_lt in Hnum; destruct (num <? _)); lia.
Qed.
