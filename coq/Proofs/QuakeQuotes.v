(* C05 / C01: remove_wrapping_quotes on every field: a field wrapped in quotes loses exactly the two, anything else -
   a lone quote character included - is left as it is. *)
From GD Require Import Base.Prelude Model.Strings Model.StrOps Model.Quake.
From Coq Require Import ZifyBool ZifyNat ZifyN Lia.

Lemma ends_with_snoc c : forall l x, ends_with_byte c (l ++ [x]) = (x =? c).
Proof.
  induction l as [|a l IH]; intros x; [reflexivity|]. cbn [app]. destruct (l ++ [x]) as [|b r] eqn:E.
  - destruct l; discriminate.
  - change (ends_with_byte c (a :: b :: r)) with (ends_with_byte c (b :: r)). rewrite <- E. apply IH.
Qed.
Lemma ends_with_last c : forall l, ends_with_byte c l = true -> exists l', l = l' ++ [c].
Proof.
  induction l as [|a l IH]; intros H; [discriminate|]. destruct l as [|b r].
  - cbn in H. exists []. cbn. f_equal. lia.
  - destruct (IH H) as [l' E]. exists (a :: l'). rewrite E. reflexivity.
Qed.

Theorem quotes_wrapped : forall s, remove_wrapping_quotes ([34] ++ s ++ [34]) = s.
Proof.
  intros s. cbn [app remove_wrapping_quotes].
  assert (H1 : (2 <=? lenN (34 :: s ++ [34])) = true) by (unfold lenN; cbn [length]; rewrite app_length; cbn [length]; lia).
  rewrite H1. change (34 :: s ++ [34]) with ((34 :: s) ++ [34]). rewrite ends_with_snoc. cbn [andb N.eqb Pos.eqb]. apply removelast_last.
Qed.
Theorem quotes_lone : remove_wrapping_quotes [34] = [34].
Proof. reflexivity. Qed.
Theorem quotes_not_wrapped : forall s,
  (forall r, s <> 34 :: r) \/ ends_with_byte 34 s = false -> remove_wrapping_quotes s = s.
Proof.
  intros s [H|H]; unfold remove_wrapping_quotes.
  - destruct s as [|c r]; [reflexivity|]. destruct (N.eq_dec c 34) as [->|Hc]; [exfalso; exact (H r eq_refl)|].
    destruct c as [|p]; [reflexivity|]. repeat (destruct p as [p|p|]; try reflexivity). contradiction.
  - destruct s as [|c r]; [reflexivity|]. rewrite H, andb_false_r. destruct c as [|p]; [reflexivity|]. repeat (destruct p as [p|p|]; try reflexivity).
Qed.
(* hence, for every field: either it is "..." of at least two characters and loses both quotes, or it is unchanged *)
Theorem quotes_spec : forall s,
  (exists inner, s = [34] ++ inner ++ [34] /\ remove_wrapping_quotes s = inner) \/ remove_wrapping_quotes s = s.
Proof.
  intros s. destruct s as [|c r]; [right; reflexivity|]. destruct (N.eq_dec c 34) as [->|Hc].
  - destruct (ends_with_byte 34 r) eqn:E.
    + destruct (ends_with_last 34 r E) as [inner ->]. left. exists inner. split; [reflexivity|]. apply (quotes_wrapped inner).
    + right. destruct r as [|b r']; [reflexivity|]. apply quotes_not_wrapped. right. exact E.
  - right. apply quotes_not_wrapped. left. intros r' E. inversion E. contradiction.
Qed.
