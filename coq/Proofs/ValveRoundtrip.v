(* C02: decoding the replies a conforming A2S server sends yields the server's
   state (parser level). *)
From GD Require Import Base.Prelude Model.Strings Model.Buffer Model.Net Model.Valve Spec.ValveSpec.
From GD Require Import Proofs.BufferLemmas Proofs.ReadSpecs Proofs.Varint.
From Coq Require Import ZifyBool ZifyNat ZifyN.
Ltac Zify.zify_post_hook ::= Z.div_mod_to_equations.

(* ---- one-step read lemmas in the [at_] view ---- *)
Lemma bind_ok : forall A B (m : R A) (f : A -> R B) b a b', m b = (Ok a, b') -> bind m f b = f a b'.
Proof. intros A B m f b a b' H. unfold bind. rewrite H. reflexivity. Qed.

Lemma read_le_at : forall n v pre r, v < 256 ^ N.of_nat n ->
  read_uint false n (at_ pre (le_bytes n v ++ r)) = (Ok v, at_ (pre ++ le_bytes n v) r).
Proof.
  intros n v pre r Hv. pose proof (read_uint_at false (le_bytes n v) pre r) as H.
  rewrite le_bytes_length in H. rewrite H. rewrite val_of_le by exact Hv. reflexivity.
Qed.
Lemma read_u8_at' : forall c pre r, read_u8 (at_ pre (c :: r)) = (Ok c, at_ (pre ++ [c]) r).
Proof. exact read_u8_at. Qed.

Lemma no_nul_spec : forall s, no_nul s = true -> ~ In 0 s /\ utf8_valid s = true.
Proof.
  intros s H. unfold no_nul in H. apply andb_prop in H. destruct H as [H _]. apply andb_prop in H. destruct H as [Hv Hn].
  split; [|exact Hv]. intro Hin. rewrite forallb_forall in Hn. specialize (Hn 0 Hin). discriminate.
Qed.
Lemma read_cstr_at : forall s pre r, no_nul s = true ->
  read_cstr (at_ pre (cstr s ++ r)) = (Ok s, at_ (pre ++ cstr s) r).
Proof.
  intros s pre r H. apply no_nul_spec in H. destruct H as [Hn Hv]. unfold read_cstr, cstr.
  rewrite <- app_assoc. cbn [app]. rewrite dec_utf8_terminated by assumption. reflexivity.
Qed.

Lemma read_i32_at : forall z pre r, (- 2147483648 <= z < 2147483648)%Z ->
  read_i32 (at_ pre (le32 (of_signed 32 z) ++ r)) = (Ok z, at_ (pre ++ le32 (of_signed 32 z)) r).
Proof.
  intros z pre r Hz. unfold read_i32, read_int, bind, le32.
  pose proof (read_raw_at (le_bytes 4 (of_signed 32 z)) pre r) as H. rewrite le_bytes_length in H. rewrite H.
  unfold ret. f_equal. f_equal. change (8 * N.of_nat 4) with 32.
  rewrite val_of_le by (pose proof (of_signed32_lt z); cbn in *; lia).
  apply signed32_rt. cbn. lia.
Qed.

Lemma move1_at : forall c pre r, move_cursor 1 (at_ pre (c :: r)) = (Ok tt, at_ (pre ++ [c]) r).
Proof.
  intros c pre r. unfold move_cursor, at_, cursor, data_length. cbn [pre_rev rest over].
  assert (H : ((Z.of_N (lenN (rev pre) + 0) + 1 <? 0)%Z
               || (Z.of_N (lenN (rev pre) + lenN (c :: r)) <? Z.of_N (lenN (rev pre) + 0) + 1)%Z) = false).
  { unfold lenN. cbn [length]. lia. }
  rewrite H. change (1 + Z.of_N 0)%Z with 1%Z. change (0 <=? 1)%Z with true. cbv iota.
  change (Z.to_nat 1) with 1%nat. cbn [take_n]. rewrite rev_append_at. reflexivity.
Qed.

(* ---- players ---- *)
Definition basic (p : player_state) : server_player := mk_player (ps_name p) (ps_score p) (ps_duration p) None None.

Lemma parse_players_roundtrip : forall l acc pre r, forallb wf_basic_player l = true ->
  parse_players (length l) acc (at_ pre (flat_map enc_player l ++ r))
  = (Ok (rev acc ++ map basic l), at_ (pre ++ flat_map enc_player l) r).
Proof.
  induction l as [|p l IH]; intros acc pre r Hwf.
  - cbn [length parse_players flat_map app map]. unfold ret. rewrite !app_nil_r. reflexivity.
  - cbn [forallb] in Hwf. apply andb_prop in Hwf. destruct Hwf as [Hp Hl].
    unfold wf_basic_player in Hp. repeat (apply andb_prop in Hp; destruct Hp as [Hp ?]).
    cbn [length parse_players flat_map]. unfold enc_player at 1. rewrite <- !app_assoc. cbn [app].
    erewrite bind_ok by apply move1_at.
    erewrite bind_ok by (apply read_cstr_at; assumption).
    erewrite bind_ok by (apply read_i32_at; lia).
    erewrite bind_ok by (apply (read_le_at 4); unfold u32b in *; cbn; lia).
    rewrite (IH (basic p :: acc)) by exact Hl.
    f_equal.
    + f_equal. cbn [rev map]. rewrite <- app_assoc. reflexivity.
    + f_equal. unfold enc_player. repeat (rewrite <- app_assoc; cbn [app]). reflexivity.
Qed.

Lemma ship_block_roundtrip : forall l pre r,
  forallb (fun p => match ps_ship p with Some (d, m) => u32b d && u32b m | None => false end) l = true ->
  parse_ship_block (map basic l) (at_ pre (flat_map enc_ship_block l ++ r))
  = (Ok (map expected_player l), at_ (pre ++ flat_map enc_ship_block l) r).
Proof.
  induction l as [|p l IH]; intros pre r Hwf.
  - cbn. unfold ret. rewrite app_nil_r. reflexivity.
  - cbn [forallb] in Hwf. apply andb_prop in Hwf. destruct Hwf as [Hp Hl].
    destruct (ps_ship p) as [[d m]|] eqn:Es; [|discriminate]. apply andb_prop in Hp. destruct Hp as [Hd Hm].
    cbn [map parse_ship_block flat_map]. unfold enc_ship_block at 1. rewrite Es. rewrite <- !app_assoc.
    erewrite bind_ok by (apply (read_le_at 4); unfold u32b in *; cbn; lia).
    erewrite bind_ok by (apply (read_le_at 4); unfold u32b in *; cbn; lia).
    erewrite bind_ok by (apply IH; exact Hl).
    unfold ret. f_equal.
    + f_equal. f_equal. unfold expected_player, basic. rewrite Es. reflexivity.
    + assert (Ep : enc_ship_block p = le32 d ++ le32 m) by (unfold enc_ship_block; rewrite Es; reflexivity).
      rewrite Ep. unfold le32. repeat rewrite <- app_assoc. reflexivity.
Qed.

(* ---- rules ---- *)
Lemma parse_rules_roundtrip : forall l acc pre r,
  forallb (fun kv => no_nul (fst kv) && no_nul (snd kv)) l = true ->
  parse_rules (length l) acc (at_ pre (flat_map (fun kv => cstr (fst kv) ++ cstr (snd kv)) l ++ r))
  = (Ok (fold_left (fun m kv => map_insert (fst kv) (snd kv) m) l acc),
     at_ (pre ++ flat_map (fun kv => cstr (fst kv) ++ cstr (snd kv)) l) r).
Proof.
  induction l as [|[k v] l IH]; intros acc pre r Hwf.
  - cbn. unfold ret. rewrite app_nil_r. reflexivity.
  - cbn [forallb fst snd] in Hwf. apply andb_prop in Hwf. destruct Hwf as [Hp Hl]. apply andb_prop in Hp. destruct Hp as [Hk Hv].
    cbn [length parse_rules flat_map fst snd fold_left]. rewrite <- !app_assoc.
    erewrite bind_ok by (apply read_cstr_at; assumption).
    erewrite bind_ok by (apply read_cstr_at; assumption).
    rewrite IH by exact Hl. f_equal. f_equal. rewrite <- !app_assoc. reflexivity.
Qed.

(* ---- info ---- *)
Lemma stype_decode : forall v, v < 256 -> stype_ok v = true -> server_type_from v = Ok (expected_stype v).
Proof.
  intros v Hv.
  pose proof (N_forall_lt (fun v => implb (stype_ok v)
     (match server_type_from v with Ok Dedicated => (match expected_stype v with Dedicated => true | _ => false end)
                                 | Ok NonDedicated => (match expected_stype v with NonDedicated => true | _ => false end)
                                 | Ok TV => (match expected_stype v with TV => true | _ => false end)
                                 | _ => false end)) 256 eq_refl v Hv) as H.
  cbv beta in H. intro Hs. rewrite Hs in H. cbn [implb] in H.
  destruct (server_type_from v) as [[| |]| | | |]; try discriminate; destruct (expected_stype v); try discriminate; reflexivity.
Qed.
Lemma env_decode : forall v, v < 256 -> env_ok v = true -> environment_from v = Ok (expected_env v).
Proof.
  intros v Hv.
  pose proof (N_forall_lt (fun v => implb (env_ok v)
     (match environment_from v with Ok Linux => (match expected_env v with Linux => true | _ => false end)
                                 | Ok Windows => (match expected_env v with Windows => true | _ => false end)
                                 | Ok Mac => (match expected_env v with Mac => true | _ => false end)
                                 | _ => false end)) 256 eq_refl v Hv) as H.
  cbv beta in H. intro Hs. rewrite Hs in H. cbn [implb] in H.
  destruct (environment_from v) as [[| |]| | | |]; try discriminate; destruct (expected_env v); try discriminate; reflexivity.
Qed.

Lemma stype_ok_lt : forall v, stype_ok v = true -> v < 256.
Proof.
  intros v H. unfold stype_ok, lower, in_rng in H. cbn [existsb] in H.
  destruct ((65 <=? v) && (v <=? 90)) eqn:E; lia.
Qed.
Lemma env_ok_lt : forall v, env_ok v = true -> v < 256.
Proof.
  intros v H. unfold env_ok, lower, in_rng in H. cbn [existsb] in H.
  destruct ((65 <=? v) && (v <=? 90)) eqn:E; lia.
Qed.

Lemma opt_read_none : forall A (m : R A) b, opt_read false m b = (Ok None, b).
Proof. reflexivity. Qed.
Lemma opt_read_some : forall A (m : R A) b a b', m b = (Ok a, b') -> opt_read true m b = (Ok (Some a), b').
Proof. intros A m b a b' H. unfold opt_read, bind. rewrite H. reflexivity. Qed.

Lemma edf_bits : forall e,
  N.testbit (edf_flags e) 7 = (match e_port e with Some _ => true | None => false end) /\
  N.testbit (edf_flags e) 4 = (match e_steamid e with Some _ => true | None => false end) /\
  N.testbit (edf_flags e) 6 = (match e_tv e with Some _ => true | None => false end) /\
  N.testbit (edf_flags e) 5 = (match e_keywords e with Some _ => true | None => false end) /\
  N.testbit (edf_flags e) 0 = (match e_gameid e with Some _ => true | None => false end).
Proof.
  intros [p s t k g]. unfold edf_flags. cbn [e_port e_steamid e_tv e_keywords e_gameid].
  destruct p, s, t, k, g; repeat split; reflexivity.
Qed.

Lemma parse_edf_roundtrip : forall e pre r, wf_edf e = true ->
  parse_edf (edf_flags e) (at_ pre (tl (enc_edf e) ++ r)) = (Ok (expected_extra e), at_ (pre ++ tl (enc_edf e)) r).
Proof.
  intros e pre r Hwf. destruct (edf_bits e) as [B7 [B4 [B6 [B5 B0]]]].
  unfold parse_edf, read_u16, read_u64. rewrite B7, B4, B6, B5, B0.
  destruct e as [p s t k g]. unfold wf_edf in Hwf. cbn [e_port e_steamid e_tv e_keywords e_gameid] in *.
  repeat (apply andb_prop in Hwf; destruct Hwf as [Hwf ?]).
  unfold enc_edf, expected_extra. cbn [e_port e_steamid e_tv e_keywords e_gameid tl app].
  (* port *)
  assert (S1 : forall pre r, opt_read (match p with Some _ => true | None => false end) (read_uint false 2)
                 (at_ pre ((match p with Some x => le16 x | None => [] end) ++ r))
               = (Ok p, at_ (pre ++ (match p with Some x => le16 x | None => [] end)) r)).
  { intros pre0 r0. destruct p as [x|]; [|rewrite app_nil_r; reflexivity].
    apply opt_read_some. apply (read_le_at 2). cbn [optb] in Hwf. unfold u16b in Hwf. cbn. lia. }
  assert (S2 : forall pre r, opt_read (match s with Some _ => true | None => false end) (read_uint false 8)
                 (at_ pre ((match s with Some x => le64 x | None => [] end) ++ r))
               = (Ok s, at_ (pre ++ (match s with Some x => le64 x | None => [] end)) r)).
  { intros pre0 r0. destruct s as [x|]; [|rewrite app_nil_r; reflexivity].
    apply opt_read_some. apply (read_le_at 8). cbn [optb] in *. unfold u64b in *. cbn. lia. }
  assert (S5 : forall pre r, opt_read (match k with Some _ => true | None => false end) read_cstr
                 (at_ pre ((match k with Some x => cstr x | None => [] end) ++ r))
               = (Ok k, at_ (pre ++ (match k with Some x => cstr x | None => [] end)) r)).
  { intros pre0 r0. destruct k as [x|]; [|rewrite app_nil_r; reflexivity].
    apply opt_read_some. apply read_cstr_at. cbn [optb] in *. assumption. }
  assert (S6 : forall pre r, opt_read (match g with Some _ => true | None => false end) (read_uint false 8)
                 (at_ pre ((match g with Some x => le64 x | None => [] end) ++ r))
               = (Ok g, at_ (pre ++ (match g with Some x => le64 x | None => [] end)) r)).
  { intros pre0 r0. destruct g as [x|]; [|rewrite app_nil_r; reflexivity].
    apply opt_read_some. apply (read_le_at 8). cbn [optb] in *. unfold u64b in *. cbn. lia. }
  repeat rewrite <- app_assoc.
  erewrite bind_ok by apply S1.
  erewrite bind_ok by apply S2.
  destruct t as [[tp tn]|].
  - cbn [optb fst snd] in *.
    match goal with H : u16b tp && no_nul tn = true |- _ => apply andb_prop in H; destruct H as [Ht1 Ht2] end.
    repeat rewrite <- app_assoc.
    erewrite bind_ok by (apply opt_read_some; apply (read_le_at 2); unfold u16b in Ht1; cbn; lia).
    erewrite bind_ok by (apply opt_read_some; apply read_cstr_at; exact Ht2).
    erewrite bind_ok by apply S5.
    erewrite bind_ok by apply S6.
    unfold ret. cbn [option_map fst snd]. f_equal. f_equal. repeat rewrite <- app_assoc. reflexivity.
  - cbn [app].
    erewrite bind_ok by apply opt_read_none.
    erewrite bind_ok by apply opt_read_none.
    erewrite bind_ok by apply S5.
    erewrite bind_ok by apply S6.
    unfold ret. cbn [option_map]. f_equal. f_equal. repeat rewrite <- app_assoc. reflexivity.
Qed.

Lemma read_u8_empty : forall pre, read_u8 (at_ pre []) = (Err PacketUnderflow, at_ pre []).
Proof. intros. unfold read_u8. rewrite read_uint_short; [reflexivity|reflexivity|cbn; lia]. Qed.

Lemma lift_ok : forall A (a : A) b, lift (Ok a) b = (Ok a, b).
Proof. reflexivity. Qed.

Lemma enc_edf_cons : forall e, enc_edf e = edf_flags e :: tl (enc_edf e).
Proof. intro e. unfold enc_edf. reflexivity. Qed.

Theorem src_info_roundtrip : forall e s, wf_info e (SrcInfo s) = true ->
  fst (parse_source_info e (buf_new (tl (enc_src_info s)))) = Ok (expected_info (SrcInfo s)).
Proof.
  intros e s Hwf.
  assert (Hwf' : u8b (i_protocol s) && no_nul (i_name s) && no_nul (i_map s) && no_nul (i_folder s) && no_nul (i_game s)
      && u16b (i_id s) && u8b (i_players s) && u8b (i_max s) && u8b (i_bots s)
      && stype_ok (i_stype s) && env_ok (i_env s) && u8b (i_visibility s) && u8b (i_vac s)
      && optb wf_ship (i_ship s) && Bool.eqb (engine_is e 2400) (match i_ship s with Some _ => true | None => false end)
      && no_nul (i_version s) && optb wf_edf (i_edf s) = true).
  { unfold wf_info in Hwf. destruct e as [ids|[|]]; [exact Hwf|discriminate|exact Hwf]. }
  clear Hwf. repeat (apply andb_prop in Hwf'; destruct Hwf' as [Hwf' ?]).
  change (buf_new (tl (enc_src_info s))) with (at_ [] (tl (enc_src_info s))).
  unfold enc_src_info. cbn [app tl]. unfold parse_source_info, read_u16.
  erewrite bind_ok by apply read_u8_at'.
  erewrite bind_ok by (apply read_cstr_at; assumption).
  erewrite bind_ok by (apply read_cstr_at; assumption).
  erewrite bind_ok by (apply read_cstr_at; assumption).
  erewrite bind_ok by (apply read_cstr_at; assumption).
  erewrite bind_ok by (apply (read_le_at 2); unfold u16b in *; cbn; lia).
  cbn [app].
  erewrite bind_ok by apply read_u8_at'.
  erewrite bind_ok by apply read_u8_at'.
  erewrite bind_ok by apply read_u8_at'.
  erewrite bind_ok by apply read_u8_at'.
  rewrite stype_decode by (first [apply stype_ok_lt; assumption | assumption]).
  erewrite bind_ok by apply lift_ok.
  erewrite bind_ok by apply read_u8_at'.
  rewrite env_decode by (first [apply env_ok_lt; assumption | assumption]).
  erewrite bind_ok by apply lift_ok.
  erewrite bind_ok by apply read_u8_at'.
  erewrite bind_ok by apply read_u8_at'.
  (* The Ship fields, present iff the engine is The Ship's *)
  assert (Hship : forall pre r,
    opt_read (engine_is e 2400)
      (let* m := read_u8 in let* w := read_u8 in let* d := read_u8 in ret (mk_ship m w d))
      (at_ pre ((match i_ship s with Some sh => [ship_mode sh; ship_witnesses sh; ship_duration sh] | None => [] end) ++ r))
    = (Ok (i_ship s), at_ (pre ++ (match i_ship s with Some sh => [ship_mode sh; ship_witnesses sh; ship_duration sh] | None => [] end)) r)).
  { intros pre r. destruct (i_ship s) as [[m w d]|]; destruct (engine_is e 2400); try discriminate.
    - apply opt_read_some. cbn [app ship_mode ship_witnesses ship_duration].
      erewrite bind_ok by apply read_u8_at'. erewrite bind_ok by apply read_u8_at'. erewrite bind_ok by apply read_u8_at'.
      unfold ret. repeat rewrite <- app_assoc. reflexivity.
    - rewrite app_nil_r. reflexivity. }
  erewrite bind_ok by apply Hship.
  erewrite bind_ok by (apply read_cstr_at; assumption).
  destruct (i_edf s) as [ed|] eqn:Eedf.
  - rewrite enc_edf_cons. rewrite read_u8_at'.
    rewrite <- (app_nil_r (tl (enc_edf ed))).
    erewrite bind_ok by (apply parse_edf_roundtrip; assumption).
    unfold ret. cbn [fst]. unfold expected_info. rewrite Eedf. cbn [option_map].
    reflexivity.
  - rewrite read_u8_empty. cbn [fst]. unfold expected_info. rewrite Eedf. reflexivity.
Qed.

Theorem gold_info_roundtrip : forall g, wf_info (GoldSrc true) (GoldInfo g) = true ->
  fst (parse_goldsrc_info (buf_new (tl (enc_gold_info g)))) = Ok (expected_info (GoldInfo g)).
Proof.
  intros g Hwf. unfold wf_info in Hwf. repeat (apply andb_prop in Hwf; destruct Hwf as [Hwf ?]).
  assert (Ha : no_nul (gi_address g) = true) by (unfold no_nul; repeat (apply andb_true_intro; split); assumption).
  change (buf_new (tl (enc_gold_info g))) with (at_ [] (tl (enc_gold_info g))).
  unfold enc_gold_info. cbn [app tl]. unfold parse_goldsrc_info, read_u32.
  erewrite bind_ok by (apply read_cstr_at; assumption).
  erewrite bind_ok by (apply read_cstr_at; assumption).
  erewrite bind_ok by (apply read_cstr_at; assumption).
  erewrite bind_ok by (apply read_cstr_at; assumption).
  erewrite bind_ok by (apply read_cstr_at; assumption).
  cbn [app].
  erewrite bind_ok by apply read_u8_at'.
  erewrite bind_ok by apply read_u8_at'.
  erewrite bind_ok by apply read_u8_at'.
  erewrite bind_ok by apply read_u8_at'.
  assert (Hst : (if gi_stype g =? 68 then Ok Dedicated else if gi_stype g =? 76 then Ok NonDedicated
                 else if gi_stype g =? 80 then Ok TV else Err UnknownEnumCast) = Ok (expected_stype (gi_stype g))).
  { match goal with H : existsb (N.eqb (gi_stype g)) _ = true |- _ => cbn [existsb] in H end.
    destruct (gi_stype g =? 68) eqn:E1; [assert (gi_stype g = 68) as -> by lia; reflexivity|].
    destruct (gi_stype g =? 76) eqn:E2; [assert (gi_stype g = 76) as -> by lia; reflexivity|].
    destruct (gi_stype g =? 80) eqn:E3; [assert (gi_stype g = 80) as -> by lia; reflexivity|]. lia. }
  rewrite Hst. erewrite bind_ok by apply lift_ok.
  erewrite bind_ok by apply read_u8_at'.
  assert (Hen : (if gi_env g =? 76 then Ok Linux else if gi_env g =? 87 then Ok Windows else Err UnknownEnumCast)
                = Ok (expected_env (gi_env g))).
  { match goal with H : existsb (N.eqb (gi_env g)) _ = true |- _ => cbn [existsb] in H end.
    destruct (gi_env g =? 76) eqn:E1; [assert (gi_env g = 76) as -> by lia; reflexivity|].
    destruct (gi_env g =? 87) eqn:E2; [assert (gi_env g = 87) as -> by lia; reflexivity|]. lia. }
  rewrite Hen. erewrite bind_ok by apply lift_ok.
  erewrite bind_ok by apply read_u8_at'.
  destruct (gi_mod g) as [m|] eqn:Em.
  - cbn [optb] in *.
    match goal with H : _ && u32b (md_size m) = true |- _ =>
      apply andb_prop in H; destruct H as [H Hsz]; apply andb_prop in H; destruct H as [H Hver];
      apply andb_prop in H; destruct H as [Hlink Hdl] end.
    cbn [app]. erewrite bind_ok by apply read_u8_at'. change (1 =? 1) with true. cbv iota.
    assert (Hmod : forall pre r,
      parse_mod_data (at_ pre ((cstr (md_link m) ++ cstr (md_download_link m) ++ [0] ++ le32 (md_version m)
                                ++ le32 (md_size m) ++ [b2n (md_multiplayer_only m); b2n (md_has_own_dll m)]) ++ r))
      = (Ok m, at_ (pre ++ (cstr (md_link m) ++ cstr (md_download_link m) ++ [0] ++ le32 (md_version m)
                                ++ le32 (md_size m) ++ [b2n (md_multiplayer_only m); b2n (md_has_own_dll m)])) r)).
    { intros pre r. unfold parse_mod_data, read_u32. repeat rewrite <- app_assoc.
      erewrite bind_ok by (apply read_cstr_at; assumption).
      erewrite bind_ok by (apply read_cstr_at; assumption).
      cbn [app]. erewrite bind_ok by apply read_u8_at'.
      erewrite bind_ok by (apply (read_le_at 4); unfold u32b in *; cbn; lia).
      erewrite bind_ok by (apply (read_le_at 4); unfold u32b in *; cbn; lia).
      cbn [app]. erewrite bind_ok by apply read_u8_at'. erewrite bind_ok by apply read_u8_at'.
      unfold ret. f_equal.
      - f_equal. destruct m as [l d v sz mp dll]. cbn. destruct mp, dll; reflexivity.
      - f_equal. repeat (rewrite <- app_assoc; cbn [app]). reflexivity. }
    erewrite bind_ok by (erewrite bind_ok by apply Hmod; reflexivity).
    erewrite bind_ok by apply read_u8_at'. erewrite bind_ok by apply read_u8_at'.
    unfold ret. cbn [fst]. unfold expected_info. rewrite Em. reflexivity.
  - cbn [app]. erewrite bind_ok by apply read_u8_at'. change (0 =? 1) with false. cbv iota.
    erewrite bind_ok by reflexivity.
    erewrite bind_ok by apply read_u8_at'. erewrite bind_ok by apply read_u8_at'.
    unfold ret. cbn [fst]. unfold expected_info. rewrite Em. reflexivity.
Qed.

(* ---- reply payloads (the bytes after the packet's kind byte) ---- *)
Definition players_parser (e : engine) : R (list server_player) :=
  let* count := read_u8 in
  let* ps := parse_players (N.to_nat count) [] in
  if engine_is e 2400 then parse_ship_block ps else ret ps.

Lemma wf_player_parts : forall e p, wf_player e p = true ->
  wf_basic_player p = true
  /\ Bool.eqb (engine_is e 2400) (match ps_ship p with Some _ => true | None => false end) = true
  /\ optb (fun dm => u32b (fst dm) && u32b (snd dm)) (ps_ship p) = true.
Proof.
  intros e p H. unfold wf_player in H. apply andb_prop in H. destruct H as [H H3]. apply andb_prop in H. destruct H as [H1 H2].
  repeat split; assumption.
Qed.

Theorem players_roundtrip : forall e l, forallb (wf_player e) l = true -> lenN l < 256 ->
  fst (players_parser e (buf_new (tl (enc_players l)))) = Ok (map expected_player l).
Proof.
  intros e l Hwf Hlen. change (buf_new (tl (enc_players l))) with (at_ [] (tl (enc_players l))).
  unfold enc_players. cbn [app tl]. unfold players_parser.
  erewrite bind_ok by apply read_u8_at'.
  unfold lenN. rewrite Nat2N.id.
  assert (Hb : forallb wf_basic_player l = true).
  { rewrite forallb_forall in *. intros p Hp. exact (proj1 (wf_player_parts e p (Hwf p Hp))). }
  erewrite bind_ok by (apply parse_players_roundtrip; exact Hb).
  cbn [rev app].
  destruct (engine_is e 2400) eqn:Es.
  - rewrite <- (app_nil_r (flat_map enc_ship_block l)).
    rewrite ship_block_roundtrip; [reflexivity|].
    rewrite forallb_forall in *. intros p Hp. destruct (wf_player_parts e p (Hwf p Hp)) as [_ [H2 H3]].
    rewrite Es in H2. destruct (ps_ship p) as [[d m]|]; [exact H3|discriminate].
  - unfold ret. cbn [fst]. f_equal. apply map_ext_in. intros p Hp.
    rewrite forallb_forall in Hwf. destruct (wf_player_parts e p (Hwf p Hp)) as [_ [H2 _]].
    rewrite Es in H2. unfold basic, expected_player. destruct (ps_ship p); [discriminate|reflexivity].
Qed.

Theorem rules_roundtrip : forall l,
  forallb (fun kv => no_nul (fst kv) && no_nul (snd kv)) l = true -> lenN l < 65536 ->
  fst ((let* count := read_u16 in parse_rules (N.to_nat count) []) (buf_new (tl (enc_rules l))))
  = Ok (fold_left (fun m kv => map_insert (fst kv) (snd kv) m) l []).
Proof.
  intros l Hwf Hlen. change (buf_new (tl (enc_rules l))) with (at_ [] (tl (enc_rules l))).
  unfold enc_rules. cbn [app tl]. unfold read_u16.
  erewrite bind_ok by (apply (read_le_at 2); cbn; lia).
  unfold lenN. rewrite Nat2N.id.
  rewrite <- (app_nil_r (flat_map _ l)).
  rewrite parse_rules_roundtrip by exact Hwf. reflexivity.
Qed.
