(* C07, Eco: every member of the Info object arrives in the response field the table names,
   whatever the order of the members and whatever other members the document has. *)
From GD Require Import Base.Prelude Model.Strings Model.Net Model.View Model.Eco Spec.EcoSpec.
Require Import String.
From Coq Require Import ZifyBool ZifyNat ZifyN Lia.

Lemma str_string_of_bytes k : bytesb k = true -> str (string_of_bytes k) = k.
Proof.
  induction k as [|c k IH]; intros H; [reflexivity|]. cbn [bytesb forallb] in H. apply andb_prop in H. destruct H as [Hc Hk].
  cbn [string_of_bytes str]. rewrite IH by exact Hk. unfold ascii_of_byte. rewrite N_ascii_embedding by (unfold byteb in Hc; lia). reflexivity.
Qed.

Lemma all_strs_map l : all_strs (map JStr l) = Some l.
Proof. induction l as [|x l IH]; [reflexivity|]. cbn [map all_strs]. rewrite IH. reflexivity. Qed.
Lemma all_members_map l : forallb (fun kv : bytes * bytes => bytesb (fst kv)) l = true ->
  all_str_members (map (fun kv => (string_of_bytes (fst kv), JStr (snd kv))) l) = Some l.
Proof.
  induction l as [|[k v] l IH]; intros H; [reflexivity|]. cbn [forallb fst] in H. apply andb_prop in H. destruct H as [Hk Hl].
  cbn [map all_str_members fst snd]. rewrite IH by exact Hl. rewrite str_string_of_bytes by exact Hk. reflexivity.
Qed.

Lemma dedup_last_id l : nodup_keys (map fst l) = true -> dedup_last l = l.
Proof.
  induction l as [|[k v] l IH]; intros H; [reflexivity|]. cbn [map fst nodup_keys] in H. apply andb_prop in H. destruct H as [Hk Hl].
  unfold dedup_last in *. cbn [fold_right]. rewrite (IH Hl). cbn [fst].
  replace (existsb (fun q : bytes * bytes => bytes_eqb k (fst q)) l) with (existsb (bytes_eqb k) (map fst l)); [apply negb_true_iff in Hk; rewrite Hk; reflexivity|].
  clear. induction l as [|q l IH]; [reflexivity|]. cbn [map existsb]. rewrite IH. reflexivity.
Qed.

(* what the server writes for a value is read back as that value *)
Lemma decode_enc ibits fint v : wf_val v = true -> decode (ty_of v) (enc_val ibits fint v) = Some v.
Proof.
  intros H. destruct v as [b|n|s|bits|l|l]; cbn [ty_of enc_val decode wf_val] in *.
  - reflexivity.
  - unfold jnum, num_parts. change (String.eqb "$num" "$num") with true. cbv iota.
    replace ((0 <=? Z.of_N n) && (Z.of_N n <? 4294967296))%Z with true by lia. rewrite N2Z.id. reflexivity.
  - reflexivity.
  - unfold jnum, num_parts. change (String.eqb "$num" "$num") with true. cbv iota. destruct (fint bits); rewrite N2Z.id; reflexivity.
  - rewrite all_strs_map. reflexivity.
  - apply andb_prop in H. destruct H as [Hb Hn]. rewrite all_members_map by exact Hb. cbn [option_map]. rewrite dedup_last_id by exact Hn. reflexivity.
Qed.

Lemma ety_eqb_eq a b : ety_eqb a b = true -> a = b.
Proof. destruct a, b; try discriminate; reflexivity. Qed.

(* the table walk *)
Lemma eco_fields_ok : forall tbl s info, typed tbl s = true ->
  (forall key t name v, In ((key, t, name), v) (combine tbl s) -> exists j, member1 key info = Some j /\ decode t j = Some v) ->
  eco_fields tbl info = Ok (combine (map snd tbl) s).
Proof.
  induction tbl as [|[[key t] name] tbl IH]; intros s info Ht H; destruct s as [|v s]; try discriminate; [reflexivity|].
  cbn [typed] in Ht. apply andb_prop in Ht. destruct Ht as [_ Ht].
  destruct (H key t name v (or_introl eq_refl)) as [j [Ha Hd]].
  cbn [eco_fields]. rewrite Ha, Hd. rewrite (IH s info Ht) by (intros k' t' n' v' Hin'; apply (H k' t' n' v'); right; exact Hin'). reflexivity.
Qed.

(* looking members up *)
Lemma assoc_app {A} k (a b : list (string * A)) : assoc k (a ++ b) = match assoc k a with Some v => Some v | None => assoc k b end.
Proof. induction a as [|[k' v] a IH]; [reflexivity|]. cbn [app assoc]. destruct (String.eqb k k'); [reflexivity|exact IH]. Qed.
Lemma assoc_absent {A} k (a : list (string * A)) : ~ In k (map fst a) -> assoc k a = None.
Proof.
  induction a as [|[k' v] a IH]; intros H; [reflexivity|]. cbn [assoc]. destruct (String.eqb_spec k k') as [->|Hne].
  - exfalso. apply H. left. reflexivity.
  - apply IH. intros X. apply H. right. exact X.
Qed.
Lemma assoc_in {A} k (v : A) (a : list (string * A)) : NoDup (map fst a) -> In (k, v) a -> assoc k a = Some v.
Proof.
  induction a as [|[k' v'] a IH]; intros Hn Hin; [contradiction|]. cbn [map fst] in Hn. inversion Hn as [|? ? Hk Hn']; subst.
  cbn [assoc]. destruct Hin as [E|Hin].
  - inversion E; subst. rewrite String.eqb_refl. reflexivity.
  - destruct (String.eqb_spec k k') as [->|Hne]; [|apply IH; assumption].
    exfalso. apply Hk. apply (in_map fst) in Hin. exact Hin.
Qed.

Lemma filter_absent k (a : list (string * jv)) : ~ In k (map fst a) -> filter (fun kv => String.eqb k (fst kv)) a = [].
Proof.
  induction a as [|[k' v] a IH]; intros H; [reflexivity|]. cbn [filter fst]. destruct (String.eqb_spec k k') as [->|Hne].
  - exfalso. apply H. left. reflexivity.
  - apply IH. intros X. apply H. right. exact X.
Qed.
Lemma filter_in k v (a : list (string * jv)) : NoDup (map fst a) -> In (k, v) a -> filter (fun kv => String.eqb k (fst kv)) a = [(k, v)].
Proof.
  induction a as [|[k' v'] a IH]; intros Hn Hin; [contradiction|]. cbn [map fst] in Hn. inversion Hn as [|? ? Hk Hn']; subst.
  cbn [filter fst]. destruct Hin as [E|Hin].
  - inversion E; subst. rewrite String.eqb_refl. rewrite filter_absent by exact Hk. reflexivity.
  - destruct (String.eqb_spec k k') as [->|Hne]; [|apply IH; assumption].
    exfalso. apply Hk. apply (in_map fst) in Hin. exact Hin.
Qed.

Fixpoint nodup_str (l : list string) : bool :=
  match l with [] => true | x :: r => negb (existsb (String.eqb x) r) && nodup_str r end.
Lemma nodup_str_ok l : nodup_str l = true -> NoDup l.
Proof.
  induction l as [|x l IH]; intros H; [constructor|]. cbn [nodup_str] in H. apply andb_prop in H. destruct H as [Hx Hl]. constructor; [|apply IH; exact Hl].
  intros Hin. apply negb_true_iff in Hx. assert (X : existsb (String.eqb x) l = true) by (apply existsb_exists; exists x; split; [exact Hin|apply String.eqb_refl]).
  rewrite X in Hx. discriminate.
Qed.
Lemma table_keys_nodup : NoDup table_keys.
Proof. apply nodup_str_ok. vm_compute. reflexivity. Qed.

Lemma typed_length : forall tbl s, typed tbl s = true -> List.length s = List.length tbl.
Proof. induction tbl as [|[[k t] n] tbl IH]; intros [|v s] H; try discriminate; [reflexivity|]. cbn [typed] in H. apply andb_prop in H. destruct H as [_ H]. cbn [List.length]. rewrite (IH s H). reflexivity. Qed.

(* rows of the table next to the values, and the members written for them *)
Lemma row_member ibits fint : forall tbl s key t name v, typed tbl s = true -> In ((key, t, name), v) (combine tbl s) ->
  In (key, enc_val ibits fint v) (combine (map (fun r => fst (fst r)) tbl) (map (enc_val ibits fint) s)) /\ t = ty_of v /\ wf_val v = true.
Proof.
  induction tbl as [|[[k0 t0] n0] tbl IH]; intros s key t name v Ht Hin; destruct s as [|v0 s]; try discriminate; [contradiction|].
  cbn [typed] in Ht. apply andb_prop in Ht. destruct Ht as [Ht0 Ht]. apply andb_prop in Ht0. destruct Ht0 as [Hty Hwf].
  cbn [combine map fst] in *. destruct Hin as [E|Hin].
  - inversion E; subst. split; [left; reflexivity|]. split; [apply ety_eqb_eq; exact Hty|exact Hwf].
  - destruct (IH s key t name v Ht Hin) as [I1 I2]. split; [right; exact I1|exact I2].
Qed.

Theorem eco_roundtrip : forall ibits fint s before after top,
  wf_eco s = true ->
  (forall k, In k (map fst before) \/ In k (map fst after) -> ~ In k table_keys) ->     (* members the client does not know *)
  ~ In "Info"%string (map fst top) ->
  eco_map (eco_doc ibits fint s before after top) = Ok (eco_expected s).
Proof.
  intros ibits fint s before after top Hwf Hb Ht. unfold eco_map, eco_doc.
  unfold member1 at 1. rewrite filter_app, (filter_absent _ _ Ht). cbn [filter fst app]. rewrite String.eqb_refl.
  unfold eco_expected. apply eco_fields_ok; [exact Hwf|].
  intros key t name v Hin. destruct (row_member ibits fint eco_table s key t name v Hwf Hin) as [Hm [-> Hv]].
  exists (enc_val ibits fint v). split; [|apply decode_enc; exact Hv].
  assert (Hk : In key table_keys) by (apply in_combine_l in Hm; exact Hm).
  unfold member1. rewrite !filter_app.
  rewrite (filter_absent key before) by (intros X; exact (Hb key (or_introl X) Hk)).
  rewrite (filter_absent key after) by (intros X; exact (Hb key (or_intror X) Hk)).
  rewrite (filter_in key (enc_val ibits fint v)); [reflexivity| |exact Hm].
  assert (Hl : List.length (map (enc_val ibits fint) s) = List.length table_keys) by (rewrite map_length; unfold table_keys; rewrite map_length; apply typed_length; exact Hwf).
  clear - Hl. pose proof table_keys_nodup as Hn. revert Hl Hn. generalize (map (enc_val ibits fint) s). generalize table_keys.
  induction l as [|k l IH]; intros [|j js] Hl Hn; try discriminate; [constructor|]. cbn [combine map fst]. inversion Hn; subst. constructor.
  - intros X. apply H1. clear - X. revert js X. induction l as [|k' l IH]; intros [|j' js] X; cbn in *; try contradiction. destruct X as [->|X]; [left; reflexivity|right; eapply IH; exact X].
  - apply IH; [cbn in Hl; lia|assumption].
Qed.

(* a member missing fails the query: nothing is made up *)
Lemma eco_member_missing : forall info key t name, In (key, t, name) eco_table -> ~ In key (map fst info) ->
  exists e, eco_map (JObj [("Info"%string, JObj info)]) = Err e.
Proof.
  intros info key t name Hin Hnone. unfold eco_map, member1 at 1. cbn [filter fst]. rewrite String.eqb_refl.
  revert Hin. generalize eco_table. induction l as [|[[k0 t0] n0] l IH]; intros Hin; [contradiction|].
  cbn [eco_fields]. destruct Hin as [E|Hin].
  - inversion E; subst. unfold member1. rewrite (filter_absent _ _ Hnone). eexists. reflexivity.
  - destruct (member1 k0 info) as [v|]; [|eexists; reflexivity]. destruct (decode t0 v) as [dv|]; [|eexists; reflexivity].
    destruct (IH Hin) as [e0 He]. rewrite He. eexists. reflexivity.
Qed.
(* ... and so does a member that occurs twice *)
Lemma eco_member_twice : forall key t name v1 v2 a b c, In (key, t, name) eco_table ->
  exists e, eco_map (JObj [("Info"%string, JObj (a ++ (key, v1) :: b ++ (key, v2) :: c))]) = Err e.
Proof.
  intros key t name v1 v2 a b c Hin. unfold eco_map, member1 at 1. cbn [filter fst]. rewrite String.eqb_refl.
  set (info := a ++ (key, v1) :: b ++ (key, v2) :: c).
  assert (Hm : member1 key info = None).
  { unfold member1, info. rewrite filter_app. cbn [filter fst]. rewrite String.eqb_refl, filter_app. cbn [filter fst]. rewrite String.eqb_refl.
    destruct (filter (fun kv : string * jv => String.eqb key (fst kv)) a) as [|[xk xv] [|y r]]; cbn [app]; try reflexivity;
      destruct (filter (fun kv : string * jv => String.eqb key (fst kv)) b); reflexivity. }
  revert Hin. generalize eco_table. induction l as [|[[k0 t0] n0] l IH]; intros Hin; [contradiction|].
  cbn [eco_fields]. destruct Hin as [E|Hin].
  - inversion E; subst. rewrite Hm. eexists. reflexivity.
  - destruct (member1 k0 info) as [v|]; [|eexists; reflexivity]. destruct (decode t0 v) as [dv|]; [|eexists; reflexivity].
    destruct (IH Hin) as [e0 He]. rewrite He. eexists. reflexivity.
Qed.
