(* C18: every public construction path validates; what it accepts cannot make
   socket setup panic. *)
From GD Require Import Base.Prelude Model.StrOps Model.Net Model.Settings Proofs.Msafe.
From Coq Require Import ZifyBool ZifyNat ZifyN.

Lemma ts_new_spec : forall r w c n,
  ts_new r w c n = if nonzero r && nonzero w && nonzero c then Ok (mkts c r w n) else Err InvalidInput.
Proof.
  intros r w c n. unfold ts_new, nonzero.
  destruct r as [dr|], w as [dw|], c as [dc|]; cbn [negb andb orb];
    repeat match goal with |- context [dur_zero ?d] => destruct (dur_zero d) end; reflexivity.
Qed.

Lemma parse_duration_nonzero : forall s d, parse_duration_secs s = Some d -> dur_zero d = false.
Proof.
  intros s d H. unfold parse_duration_secs in H. destruct (parse_unsigned u64_max s) as [[|p]|]; try discriminate.
  inversion H; subst. reflexivity.
Qed.
Lemma clap_flag_nonzero : forall o d x, dur_zero d = false -> clap_flag o d = Ok x -> nonzero x = true.
Proof.
  intros o d x Hd H. unfold clap_flag in H. destruct o as [s|].
  - destruct (parse_duration_secs s) as [d'|] eqn:E; [|discriminate]. inversion H; subst. cbn [nonzero].
    rewrite (parse_duration_nonzero s d' E). reflexivity.
  - inversion H; subst. cbn [nonzero]. rewrite Hd. reflexivity.
Qed.

Definition clap_inner (c r w retries : option bytes) : outcome (option tsettings) :=
  obind (clap_flag c (4, 0)) (fun c' =>
  obind (clap_flag r (4, 0)) (fun r' =>
  obind (clap_flag w (4, 0)) (fun w' =>
  match retries with
  | None => Ok (Some (mkts c' r' w' 0))
  | Some s => match parse_unsigned u64_max s with
              | Some n => Ok (Some (mkts c' r' w' n))
              | None => Err InvalidInput
              end
  end))).
Lemma clap_cases : forall c r w n t, clap_construct c r w n = Ok t -> t = None \/ clap_inner c r w n = Ok t.
Proof.
  intros c r w n t H. unfold clap_construct in H.
  destruct c, r, w, n; try (right; exact H). left. inversion H. reflexivity.
Qed.
Lemma clap_inner_nonzero : forall c r w n t, clap_inner c r w n = Ok t -> ts_nonzero t = true.
Proof.
  intros c r w n t H. unfold clap_inner in H.
  destruct (clap_flag c (4, 0)) as [c'| | | |] eqn:E1; cbn [obind] in H; try discriminate.
  destruct (clap_flag r (4, 0)) as [r'| | | |] eqn:E2; cbn [obind] in H; try discriminate.
  destruct (clap_flag w (4, 0)) as [w'| | | |] eqn:E3; cbn [obind] in H; try discriminate.
  assert (G : forall n', ts_nonzero (Some (mkts c' r' w' n')) = true).
  { intro n'. cbn [ts_nonzero ts_connect ts_read ts_write].
    rewrite (clap_flag_nonzero c (4, 0) c' eq_refl E1), (clap_flag_nonzero r (4, 0) r' eq_refl E2), (clap_flag_nonzero w (4, 0) w' eq_refl E3). reflexivity. }
  destruct n as [ns|]; [destruct (parse_unsigned u64_max ns) as [nn|]; [|discriminate]|]; inversion H; subst; apply G.
Qed.

(* whatever the path and its arguments, an accepted setting has no zero duration *)
Theorem accepted_nonzero : forall p t, construct p = Ok t -> ts_nonzero t = true.
Proof.
  intros p t H. destruct p as [r w c n| |c r w n|c r w n]; cbn [construct] in H.
  - rewrite ts_new_spec in H. destruct (nonzero r && nonzero w && nonzero c) eqn:E; [|discriminate].
    inversion H; subst. cbn [ts_nonzero ts_connect ts_read ts_write]. lia.
  - inversion H; subst. reflexivity.
  - destruct (clap_cases c r w n t H) as [->|Hi]; [reflexivity|]. exact (clap_inner_nonzero c r w n t Hi).
  - unfold serde_construct in H. rewrite ts_new_spec in H. destruct (nonzero r && nonzero w && nonzero c) eqn:E; [|discriminate].
    inversion H; subst. cbn [ts_nonzero ts_connect ts_read ts_write]. lia.
Qed.

(* a zero duration is refused by the constructor and by deserialisation *)
Theorem zero_rejected : forall r w c n, (nonzero r && nonzero w && nonzero c) = false ->
  construct (PNew r w c n) = Err InvalidInput /\ construct (PSerde c r w n) = Err InvalidInput.
Proof.
  intros r w c n H. cbn [construct]. unfold serde_construct. rewrite ts_new_spec, H. split; reflexivity.
Qed.
(* and by every command-line flag *)
Theorem zero_flag_rejected : forall s, parse_unsigned u64_max s = Some 0 -> parse_duration_secs s = None.
Proof. intros s H. unfold parse_duration_secs. rewrite H. reflexivity. Qed.

(* accepted settings satisfy the hypothesis of every totality theorem (C01) *)
Theorem accepted_settings_ok : forall p t, construct p = Ok t -> settings_ok t /\ retries_ok t.
Proof.
  intros p t H. pose proof (accepted_nonzero p t H) as Hn. split; [|exact I].
  unfold settings_ok, ts_rw_or_default. destruct t as [s|].
  - cbn [ts_nonzero] in Hn. apply andb_prop in Hn. destruct Hn as [Hn Hw]. apply andb_prop in Hn. destruct Hn as [Hc Hr].
    split; intros d Hd.
    + rewrite Hd in Hr. cbn [nonzero] in Hr. destruct (dur_zero d); [discriminate|reflexivity].
    + rewrite Hd in Hw. cbn [nonzero] in Hw. destruct (dur_zero d); [discriminate|reflexivity].
  - split; intros d Hd; inversion Hd; reflexivity.
Qed.
