(* C09 / C13, Minecraft: for every script, everything a Minecraft query sends goes to the
   query's port and is a request of the variant's protocol - the Java handshake with the
   configured host name, protocol version and port, the status request and the ping; the
   Bedrock unconnected ping; the legacy ping of the group - every connection is opened to
   that port, and no reservation is driven by a field of a reply. *)
From GD Require Import Base.Prelude Model.Strings Model.StrOps Model.Buffer Model.Net Model.Valve Model.Gamespy Model.Games Model.View Model.Minecraft.
From GD Require Import Proofs.BufferLemmas Proofs.BufInv Proofs.Msafe Proofs.QuakeTotal Proofs.GamesTotal.
From Coq Require Import ZifyBool ZifyNat ZifyN Lia.

(* what may appear in the trace of a query to [port] whose requests are in [reqs] *)
Definition Qnet (port : N) (reqs : bytes -> Prop) (e : tev) : Prop :=
  match e with
  | SendEv p d => p = port /\ reqs d
  | NewTcp p _ => p = port
  | NewUdp p => p = port
  | Reserve _ => False
  | _ => True
  end.

Section Q.
  Variable port : N.
  Variable reqs : bytes -> Prop.
  Notation Q := (Qnet port reqs).
  Lemma Mokn_tcp_new t : settings_ok t -> Mok Q (tcp_new port t).
  Proof.
    intros Hs n. unfold tcp_new.
    destruct (n_tcp n) as [|[|d stall] r].
    - cbn. split; [exact I|split; [lia|]]. eexists [_]. split; [reflexivity|repeat constructor].
    - cbn. split; [exact I|split; [lia|]]. eexists [_]. split; [reflexivity|repeat constructor].
    - set (n1 := mknet (n_udp n) r (n_fail n) (n_sends n) (Some (d, stall)) (NewTcp port (ts_connect_or_default t) :: n_trace n)).
      destruct (Mok_apply_timeout Q t Hs (fun _ _ => I) n1) as [H1 [H2 [evs [H3 H4]]]].
      split; [exact H1|split; [exact H2|]].
      exists (evs ++ [NewTcp port (ts_connect_or_default t)]). split.
      + rewrite H3. unfold n1. cbn [n_trace]. rewrite <- app_assoc. reflexivity.
      + apply Forall_app. split; [exact H4|repeat constructor].
  Qed.
  Lemma Mokn_tcp_recv size : Mok Q (tcp_recv size).
  Proof.
    intros n. unfold tcp_recv. destruct (n_cur n) as [[d [|]]|]; cbn;
      (split; [exact I|split; [lia|]]; eexists [_]; split; [reflexivity|repeat constructor]).
  Qed.
  Lemma Mokn_send d : reqs d -> Mok Q (send port d).
  Proof. intros H. apply Mok_send. split; [reflexivity|exact H]. Qed.
  Lemma Mokn_udp_recv s : Mok Q (udp_recv s).
  Proof. apply Mok_udp_recv. exact I. Qed.
  Lemma Mokn_udp_new t : settings_ok t -> Mok Q (udp_new port t).
  Proof. intros H. apply Mok_udp_new; [exact H|reflexivity|intros; exact I]. Qed.
  Lemma Mokn_or_else {A} (a b : M A) : Mok Q a -> Mok Q b -> Mok Q (or_else a b).
  Proof.
    intros Ha Hb n. unfold or_else. destruct (Ha n) as [H1 [H2 [evs [H3 H4]]]].
    destruct (a n) as [[r|e| | |] n1]; cbn [fst snd] in *; try contradiction.
    - split; [exact I|split; [exact H2|exists evs; split; assumption]].
    - destruct (Hb n1) as [G1 [G2 [evs2 [G3 G4]]]]. split; [exact G1|split; [lia|]].
      exists (evs2 ++ evs). split; [rewrite G3, H3, app_assoc; reflexivity|apply Forall_app; split; assumption].
  Qed.
End Q.

(* the framing of a Java packet: length as a VarInt, then the packet *)
Definition mc_frame (data : bytes) : bytes := as_varint (Z.of_N (lenN data mod 2 ^ 32)) ++ data.
(* the three packets of a status exchange, for the settings [rs] *)
Definition java_requests (port : N) (rs : request_settings) (d : bytes) : Prop :=
  (exists hs, as_string (rs_hostname rs) = Ok hs
              /\ d = mc_frame ([0] ++ as_varint (rs_protocol_version rs) ++ hs ++ le_bytes 2 port ++ [1]))
  \/ d = mc_frame [0] \/ d = mc_frame [1].
Definition legacy_requests (g : legacy_group) (d : bytes) : Prop := d = legacy_request g.
Definition any_legacy (d : bytes) : Prop := exists g, d = legacy_request g.
Definition bedrock_requests (d : bytes) : Prop := d = bedrock_ping.
Definition auto_requests (port : N) (rs : request_settings) (d : bytes) : Prop :=
  java_requests port rs d \/ bedrock_requests d \/ any_legacy d.

Lemma Mok_weaken (P Q : tev -> Prop) {A} (m : M A) : (forall e, P e -> Q e) -> Mok P m -> Mok Q m.
Proof.
  intros HPQ H n. destruct (H n) as [H1 [H2 [evs [H3 H4]]]]. split; [exact H1|split; [exact H2|]].
  exists evs. split; [exact H3|]. eapply Forall_impl; [|exact H4]. exact HPQ.
Qed.
Lemma Qnet_mono port (r1 r2 : bytes -> Prop) e : (forall d, r1 d -> r2 d) -> Qnet port r1 e -> Qnet port r2 e.
Proof. intros H. destruct e; cbn; try exact (fun x => x). intros [E R]. split; [exact E|apply H; exact R]. Qed.

Lemma Mok_bind_lift (Q : tev -> Prop) {A B} (o : outcome A) (f : A -> M B) :
  safe o -> (forall a, o = Ok a -> Mok Q (f a)) -> Mok Q (mbind (mlift o) f).
Proof.
  intros Hs Hf n. unfold mbind, mlift. destruct o as [a|e|s|s|]; cbn [safe] in Hs; try contradiction.
  - exact (Hf a eq_refl n).
  - cbn [fst snd]. split; [exact I|split; [lia|exists []; split; [reflexivity|constructor]]].
Qed.

Section Java.
  Variable json : bytes -> option (option jv).
  Hypothesis json_total : forall t, json t <> None.

  Theorem java_requests_ok port t rs : settings_ok t ->
    Mok (Qnet port (java_requests port (match rs with Some r => r | None => rs_default end))) (query_java json port t rs).
  Proof.
    intros H. unfold query_java, java_info_impl, mc_send.
    set (r := match rs with Some r => r | None => rs_default end).
    apply Mok_bind; [apply Mokn_tcp_new; exact H|intros _]. apply Mok_retry.
    apply Mok_bind_lift; [apply as_string_safe|]. intros hs Ehs.
    change (as_varint (Z.of_N (lenN ?d mod 2 ^ 32)) ++ ?d) with (mc_frame d).
    apply Mok_bind; [apply Mokn_send; left; exists hs; split; [exact Ehs|reflexivity]|intros _].
    apply Mok_bind; [apply Mokn_send; right; left; reflexivity|intros _].
    apply Mok_bind; [apply Mokn_send; right; right; reflexivity|intros _].
    apply Mok_bind; [apply Mokn_tcp_recv|intros data].
    apply Mok_bind; [apply Mok_lift; apply Rsafe_run; rsafe; apply Rsafe_remaining|intros body].
    apply Mok_bind; [apply Mok_lift; apply Rsafe_run; rsafe|intros js].
    destruct (json js) as [[v|]|] eqn:E; [apply Mok_lift, java_of_value_safe|apply Mok_fail|exfalso; exact (json_total _ E)].
  Qed.

  Theorem legacy_requests_ok g port t : settings_ok t -> Mok (Qnet port (legacy_requests g)) (query_legacy_specific g port t).
  Proof.
    intros H. unfold query_legacy_specific, legacy_info_impl.
    apply Mok_bind; [apply Mokn_tcp_new; exact H|intros _]. apply Mok_retry.
    apply Mok_bind; [apply Mokn_send; reflexivity|intros _].
    apply Mok_bind; [apply Mokn_tcp_recv|intros d]. apply Mok_lift. apply legacy_parse_safe.
  Qed.
  Theorem bedrock_requests_ok port t : settings_ok t -> Mok (Qnet port bedrock_requests) (query_bedrock port t).
  Proof.
    intros H. unfold query_bedrock, bedrock_info_impl.
    apply Mok_bind; [apply Mokn_udp_new; exact H|intros _]. apply Mok_retry.
    apply Mok_bind; [apply Mokn_send; reflexivity|intros _].
    apply Mok_bind; [apply Mokn_udp_recv|intros d]. apply Mok_lift. apply Rsafe_run, bedrock_parse_safe.
  Qed.
  Theorem legacy_auto_requests_ok port t : settings_ok t -> Mok (Qnet port any_legacy) (query_legacy port t).
  Proof.
    intros H. unfold query_legacy.
    repeat (apply Mokn_or_else; [eapply Mok_weaken; [|apply legacy_requests_ok; exact H]; intros e; apply Qnet_mono; intros d Hd; eexists; exact Hd|]).
    apply Mok_fail.
  Qed.
  (* the auto-detecting query sends nothing but the requests of the variants it tries, all to the one port *)
  Theorem auto_requests_ok port t rs : settings_ok t ->
    Mok (Qnet port (auto_requests port (match rs with Some r => r | None => rs_default end))) (query_auto json port t rs).
  Proof.
    intros H. unfold query_auto.
    apply Mokn_or_else; [eapply Mok_weaken; [|apply java_requests_ok; exact H]; intros e; apply Qnet_mono; intros d Hd; left; exact Hd|].
    apply Mokn_or_else.
    - apply Mok_bind; [|intros b; apply Mok_ret].
      eapply Mok_weaken; [|apply bedrock_requests_ok; exact H]. intros e. apply Qnet_mono. intros d Hd. right. left. exact Hd.
    - apply Mokn_or_else; [|apply Mok_fail].
      eapply Mok_weaken; [|apply legacy_auto_requests_ok; exact H]. intros e. apply Qnet_mono. intros d Hd. right. right. exact Hd.
  Qed.
End Java.
