(* C08, GameSpy 1: the parts of a reply in any arrival order.  Every part carries "queryid\<id>.<n>", the last one also
   "final": whatever the order in which the parts arrive, the receive loop consumes all of them, and the variables it
   returns are those of the in-order reply as a finite map (a permutation of the association list, the names being
   distinct) - the public query_vars returns exactly this map. *)
From GD Require Import Base.Prelude Model.Strings Model.StrOps Model.Buffer Model.Net Model.Valve Model.Gamespy.
From GD Require Import Spec.ValveSpec Spec.QuakeSpec Spec.GamespySpec.
From GD Require Import Proofs.BufferLemmas Proofs.ReadSpecs Proofs.Str Proofs.Utf8 Proofs.ValveRoundtrip Proofs.QuakeRoundtrip Proofs.GamesProofs
  Proofs.GamespyProofs Proofs.IdProofs Proofs.GamespyOrder Proofs.Gamespy2Roundtrip Proofs.Gamespy3Query Proofs.Gamespy1Assembly.
From Coq Require Import ZifyBool ZifyNat ZifyN Lia Permutation.

(* one part, in any state of the loop *)
Lemma gs1_step : forall (g : list (bytes * bytes)) qid ff i (last : bool) recvd ps ex vals fu (u : list udp_event) t f sn cur tr,
  g <> [] -> Forall pair_ok g -> (length (part_text g qid i last ff) <= 1024)%nat ->
  qid <= usize_max' -> 0 < i < 4294967296 -> nokey fin vals -> nokey qidk vals ->
  (recvd = None \/ recvd = Some qid) -> existsb (N.eqb i) ps = false ->
  gs1_loop (S fu) recvd ps ex vals (mknet (Datagram (part_text g qid i last ff) :: u) t f sn cur tr)
  = (if (match (if last then Some i else ex) with Some n => n <=? lenN (ps ++ [i]) | None => false end)
     then (Ok (fold_left ins g vals), mknet u t f sn cur (RecvEv None :: tr))
     else gs1_loop fu (Some qid) (ps ++ [i]) (if last then Some i else ex) (fold_left ins g vals) (mknet u t f sn cur (RecvEv None :: tr))).
Proof.
  intros g qid ff i last recvd ps ex vals fu u t f sn cur tr Hgne Hg Hs1 Hq Hi Hf Hk Hrecvd Hfresh.
  destruct (pair_ok_parts g Hg) as [Gc [Gd [Gf Gq]]].
  set (text := part_text g qid i last ff) in *.
  assert (Hclean : no_nul text = true).
  { unfold text, part_text. apply clean_chunks. apply Forall_app. split; [exact Gc|].
    eapply Forall_impl; [|apply labels_ok]. intros kv [H _]. exact H. }
  destruct g as [|[k v] l]; [contradiction|].
  assert (Htxt : text = 92 :: k ++ [92] ++ v ++ concat (map (chunk 92) (l ++ labels qid i last ff))).
  { unfold text, part_text. cbn [app map concat]. unfold chunk at 1. cbn [fst snd app]. rewrite <- !app_assoc. reflexivity. }
  cbn [gs1_loop]. unfold mbind at 1. unfold udp_recv. cbn [n_udp n_tcp n_fail n_sends n_cur n_trace].
  rewrite firstn_all2 by (change (N.to_nat default_packet_size) with 1024%nat; exact Hs1).
  assert (Hread : run_r Gamespy.read_cstr text = Ok text).
  { unfold run_r, Gamespy.read_cstr. change (buf_new text) with (at_ [] text). apply no_nul_spec in Hclean. destruct Hclean as [Hn Hv].
    rewrite dec_utf8_unterminated by assumption. reflexivity. }
  rewrite Hread. rewrite (match_nonempty text) by (rewrite Htxt; discriminate).
  assert (Hins : insert_pairs (split 92 (remove_first_char text)) vals = fold_left ins (labels qid i last ff) (fold_left ins ((k, v) :: l) vals)).
  { unfold text, part_text. cbn [app]. rewrite gs1_part_decodes.
    - change ((k, v) :: l ++ labels qid i last ff) with (((k, v) :: l) ++ labels qid i last ff). rewrite fold_left_app. reflexivity.
    - change ((k, v) :: l ++ labels qid i last ff) with (((k, v) :: l) ++ labels qid i last ff). apply Forall_app. split; [exact Gd|].
      eapply Forall_impl; [|apply labels_ok]. intros kv [_ H]. exact H. }
  rewrite Hins. set (M := fold_left ins ((k, v) :: l) vals).
  assert (HMf : nokey fin M) by (apply nokey_fold; assumption).
  assert (HMq : nokey qidk M) by (apply nokey_fold; assumption).
  destruct (labels_effect M qid i last ff HMf HMq) as [Lg Lr].
  unfold vm_remove. change (str "final") with fin. rewrite Lg, Lr.
  change (str "queryid") with qidk. rewrite (get_app_last qidk _ M HMq). rewrite (remove_app_last qidk _ M HMq).
  rewrite qid_text_split. cbn [hd]. rewrite (parse_unsigned_show usize_max' qid Hq). cbn [need obind].
  rewrite (parse_unsigned_show usize_max' i) by (unfold usize_max'; lia). cbn [need obind].
  rewrite Hfresh.
  assert (Hwrong : match recvd with Some r0 => negb (qid =? r0) | None => false end = false)
    by (destruct Hrecvd as [->| ->]; [reflexivity|rewrite N.eqb_refl; reflexivity]).
  rewrite Hwrong.
  destruct last; cbv iota; cbn [andb].
  - replace (0 <? i) with true by lia. destruct (i <=? lenN (ps ++ [i])); reflexivity.
  - destruct ex as [m|]; [destruct (m <=? lenN (ps ++ [i]))|]; reflexivity.
Qed.

(* ---------- the parts as items: number, pairs, last? ---------- *)
Definition part1 := (N * list (bytes * bytes) * bool)%type.
Definition p_idx (p : part1) : N := fst (fst p).
Definition p_grp (p : part1) : list (bytes * bytes) := snd (fst p).
Definition p_last (p : part1) : bool := snd p.
Definition p_text (qid : N) (ff : bool) (p : part1) : bytes := part_text (p_grp p) qid (p_idx p) (p_last p) ff.
Definition seen_last (l : list part1) : bool := existsb p_last l.
Definition vals_of (l : list part1) : vmap := fold_left ins (concat (map p_grp l)) [].

Lemma vals_of_snoc l p : vals_of (l ++ [p]) = fold_left ins (p_grp p) (vals_of l).
Proof. unfold vals_of. rewrite map_app, concat_app, fold_left_app. cbn [map concat]. rewrite app_nil_r. reflexivity. Qed.
Lemma vals_of_nokey k l : (forall p, In p l -> Forall (fun kv => fst kv <> k) (p_grp p)) -> nokey k (vals_of l).
Proof.
  intros H. unfold vals_of. apply nokey_fold; [reflexivity|]. induction l as [|p l IH]; [constructor|]. cbn [map concat].
  apply Forall_app. split; [apply H; left; reflexivity|apply IH; intros q Hq; apply H; right; exact Hq].
Qed.

Theorem gs1_parts_any_order : forall (todo done : list part1) qid ff n fuel t f sn cur tr,
  todo <> [] -> (length todo <= fuel)%nat ->
  NoDup (map p_idx (done ++ todo)) ->
  (forall p, In p (done ++ todo) -> 0 < p_idx p <= N.of_nat n /\ p_grp p <> [] /\ Forall pair_ok (p_grp p)
                                    /\ (length (p_text qid ff p) <= 1024)%nat /\ (p_last p = true <-> p_idx p = N.of_nat n)) ->
  length (done ++ todo) = n -> qid <= usize_max' -> N.of_nat n < 4294967296 ->
  exists tr',
    gs1_loop fuel (match done with [] => None | _ => Some qid end) (map p_idx done)
             (if seen_last done then Some (N.of_nat n) else None) (vals_of done)
             (mknet (map Datagram (map (p_text qid ff) todo)) t f sn cur tr)
    = (Ok (vals_of (done ++ todo)), mknet [] t f sn cur tr').
Proof.
  induction todo as [|p rest IH]; intros done qid ff n fuel t f sn cur tr Hne Hfu Hnd Hall Hlen Hq Hn; [contradiction|].
  destruct fuel as [|fu]; [cbn in Hfu; lia|].
  destruct (Hall p ltac:(apply in_or_app; right; left; reflexivity)) as [Hi [Hg [Hok [Hsz Hl]]]].
  assert (Hkeys : forall k, (k = fin \/ k = qidk) -> nokey k (vals_of done)).
  { intros k Hk. apply vals_of_nokey. intros q Hq'. destruct (Hall q ltac:(apply in_or_app; left; exact Hq')) as [_ [_ [Hokq _]]].
    destruct (pair_ok_parts _ Hokq) as [_ [_ [Gf Gq]]]. destruct Hk as [->| ->]; assumption. }
  assert (Hfresh : existsb (N.eqb (p_idx p)) (map p_idx done) = false).
  { destruct (existsb _ _) eqn:E; [|reflexivity]. apply existsb_exists in E. destruct E as [x [Hx Ex]]. apply N.eqb_eq in Ex. subst x.
    rewrite map_app in Hnd. cbn [map] in Hnd. apply NoDup_remove_2 in Hnd. exfalso. apply Hnd. apply in_or_app. left. exact Hx. }
  cbn [map]. unfold p_text at 1.
  rewrite (gs1_step (p_grp p) qid ff (p_idx p) (p_last p) (match done with [] => None | _ => Some qid end) (map p_idx done) _ (vals_of done) fu _ t f sn cur tr Hg Hok Hsz Hq ltac:(lia)
             (Hkeys fin (or_introl eq_refl)) (Hkeys qidk (or_intror eq_refl)) ltac:(destruct done; [left|right]; reflexivity) Hfresh).
  rewrite <- vals_of_snoc.
  assert (Hex : (if p_last p then Some (p_idx p) else if seen_last done then Some (N.of_nat n) else None)
                = (if seen_last (done ++ [p]) then Some (N.of_nat n) else None)).
  { unfold seen_last. rewrite existsb_app. cbn [existsb]. rewrite orb_false_r. destruct (p_last p) eqn:El.
    - rewrite orb_true_r. f_equal. apply Hl. reflexivity.
    - rewrite orb_false_r. reflexivity. }
  rewrite Hex.
  assert (Hps : map p_idx done ++ [p_idx p] = map p_idx (done ++ [p])) by (rewrite map_app; reflexivity).
  rewrite Hps.
  assert (Hnd' : NoDup (map p_idx ((done ++ [p]) ++ rest))) by (rewrite <- app_assoc; exact Hnd).
  assert (Hall' : forall q, In q ((done ++ [p]) ++ rest) -> 0 < p_idx q <= N.of_nat n /\ p_grp q <> [] /\ Forall pair_ok (p_grp q)
                                    /\ (length (p_text qid ff q) <= 1024)%nat /\ (p_last q = true <-> p_idx q = N.of_nat n))
    by (intros q Hq'; apply Hall; rewrite <- app_assoc in Hq'; exact Hq').
  assert (Hlen' : length ((done ++ [p]) ++ rest) = n) by (rewrite <- app_assoc; exact Hlen).
  clear Hnd Hall Hlen. rename Hnd' into Hnd, Hall' into Hall, Hlen' into Hlen.
  assert (HlenN : lenN (map p_idx (done ++ [p])) = N.of_nat (length (done ++ [p]))) by (unfold lenN; rewrite map_length; reflexivity).
  destruct rest as [|p2 rest].
  - (* everything has arrived *)
    rewrite app_nil_r in Hnd, Hall, Hlen.
    assert (Hsl : seen_last (done ++ [p]) = true).
    { unfold seen_last. apply existsb_exists.
      assert (Hin : In (N.of_nat n) (map p_idx (done ++ [p]))).
      { assert (Hincl : incl (map p_idx (done ++ [p])) (map (fun x => N.of_nat (S x)) (seq 0 n))).
        { intros y Hy. apply in_map_iff in Hy. destruct Hy as [q [<- Hq']]. destruct (Hall q Hq') as [H1 _]. apply in_map_iff.
          exists (N.to_nat (p_idx q) - 1)%nat. split; [lia|apply in_seq; lia]. }
        apply (NoDup_length_incl (l' := map (fun x => N.of_nat (S x)) (seq 0 n)) Hnd); [rewrite !map_length, seq_length; unfold part1 in *; lia|exact Hincl|].
        apply in_map_iff. exists (n - 1)%nat. split; [destruct n; [cbn in Hlen; rewrite app_length in Hlen; cbn in Hlen|]; lia|apply in_seq].
        destruct n; [rewrite app_length in Hlen; cbn in Hlen|]; lia. }
      apply in_map_iff in Hin. destruct Hin as [q [Eq Hq']]. exists q. split; [exact Hq'|]. apply (proj2 (proj2 (proj2 (proj2 (Hall q Hq'))))). exact Eq. }
    rewrite Hsl, HlenN, Hlen, N.leb_refl. eexists. reflexivity.
  - (* something is still missing *)
    assert (Hnot : (match (if seen_last (done ++ [p]) then Some (N.of_nat n) else None) with
                    | Some m => m <=? lenN (map p_idx (done ++ [p])) | None => false end) = false).
    { destruct (seen_last (done ++ [p])); [|reflexivity]. rewrite HlenN. rewrite !app_length in Hlen. cbn [length] in Hlen.
      apply N.leb_gt. rewrite app_length. cbn [length]. lia. }
    rewrite Hnot.
    destruct (IH (done ++ [p]) qid ff n fu t f sn cur (RecvEv None :: tr) ltac:(discriminate) ltac:(cbn [length] in *; lia) Hnd Hall Hlen Hq Hn) as [tr' E].
    exists tr'. assert (Hd : match done ++ [p] with [] => None | _ :: _ => Some qid end = Some qid) by (destruct done; reflexivity).
    rewrite Hd in E. rewrite E, <- app_assoc. reflexivity.
Qed.

(* ---------- the whole variables query, the parts in any order ---------- *)
Fixpoint parts_from (j : nat) (groups : list (list (bytes * bytes))) : list part1 :=
  match groups with
  | [] => []
  | [g] => [(N.of_nat (S j), g, true)]
  | g :: r => (N.of_nat (S j), g, false) :: parts_from (S j) r
  end.
Lemma parts_from_texts qid ff : forall groups j, map (p_text qid ff) (parts_from j groups) = texts_from qid ff j groups.
Proof.
  induction groups as [|g r IH]; intros j; [reflexivity|]. destruct r as [|g2 r]; [reflexivity|].
  change (parts_from j (g :: g2 :: r)) with ((N.of_nat (S j), g, false) :: parts_from (S j) (g2 :: r)).
  change (texts_from qid ff j (g :: g2 :: r)) with (part_text g qid (N.of_nat (S j)) false ff :: texts_from qid ff (S j) (g2 :: r)).
  cbn [map]. rewrite IH. reflexivity.
Qed.
Lemma parts_from_spec : forall groups j p, In p (parts_from j groups) ->
  N.of_nat j < p_idx p <= N.of_nat (j + length groups) /\ In (p_grp p) groups /\ (p_last p = true <-> p_idx p = N.of_nat (j + length groups)).
Proof.
  induction groups as [|g r IH]; intros j p Hp; [contradiction|]. destruct r as [|g2 r].
  - destruct Hp as [<-|[]]. cbn [p_idx p_grp p_last fst snd length]. split; [lia|]. split; [left; reflexivity|]. split; intros _; [f_equal; lia|reflexivity].
  - change (parts_from j (g :: g2 :: r)) with ((N.of_nat (S j), g, false) :: parts_from (S j) (g2 :: r)) in Hp. destruct Hp as [<-|Hp].
    + cbn [p_idx p_grp p_last fst snd length]. split; [lia|]. split; [left; reflexivity|]. split; [discriminate|]. intros H. lia.
    + destruct (IH (S j) p Hp) as [H1 [H2 H3]]. cbn [length] in *. split; [lia|]. split; [right; exact H2|].
      replace (j + S (S (length r)))%nat with (S j + S (length r))%nat by lia. exact H3.
Qed.
Lemma parts_from_idx : forall groups j, map p_idx (parts_from j groups) = map (fun x => N.of_nat (S x)) (seq j (length groups)).
Proof.
  induction groups as [|g r IH]; intros j; [reflexivity|]. destruct r as [|g2 r]; [reflexivity|].
  change (parts_from j (g :: g2 :: r)) with ((N.of_nat (S j), g, false) :: parts_from (S j) (g2 :: r)).
  cbn [map length seq]. rewrite IH. reflexivity.
Qed.
Lemma parts_from_grps : forall groups j, map p_grp (parts_from j groups) = groups.
Proof.
  induction groups as [|g r IH]; intros j; [reflexivity|]. destruct r as [|g2 r]; [reflexivity|].
  change (parts_from j (g :: g2 :: r)) with ((N.of_nat (S j), g, false) :: parts_from (S j) (g2 :: r)).
  cbn [map]. rewrite IH. reflexivity.
Qed.
Lemma Permutation_concat {A} (l l' : list (list A)) : Permutation l l' -> Permutation (concat l) (concat l').
Proof.
  induction 1 as [|x l l' _ IH|x y l|l l' l'' _ IH1 _ IH2]; cbn [concat].
  - constructor.
  - apply Permutation_app_head. exact IH.
  - rewrite !app_assoc. apply Permutation_app_tail. apply Permutation_app_comm.
  - eapply Permutation_trans; eassumption.
Qed.
Lemma NoDup_nodupb (l : list bytes) : NoDup l -> nodupb l = true.
Proof.
  induction 1 as [|x l Hx _ IH]; [reflexivity|]. cbn [nodupb]. rewrite IH, andb_true_r. apply negb_true_iff.
  destruct (existsb _ _) eqn:E; [|reflexivity]. apply existsb_exists in E. destruct E as [y [Hy Ey]]. apply bytes_eqb_eq in Ey. subst y. contradiction.
Qed.

Theorem gs1_vars_any_order : forall port s dgs,
  Forall pair_ok (s1_vars s) -> s1_qid s <= usize_max' ->
  Forall (fun d => (length d <= 1024)%nat) (s1_script s) -> N.of_nat (length (s1_script s)) < 4294967296 ->
  NoDup (map fst (s1_vars s)) ->
  Permutation dgs (s1_script s) ->
  exists vals, fst (gs1_query_vars port None (script_net dgs)) = Ok vals /\ Permutation vals (s1_vars s) /\ NoDup (map fst vals).
Proof.
  intros port s dgs Hok Hq Hsz Hn Hnd Hperm. unfold s1_script in *.
  assert (Hne : [] ++ s1_vars s <> []) by (unfold s1_vars; discriminate).
  destruct (chunk_pairs_groups (s1_limit s) (s1_vars s) [] Hne) as [groups [G1 [G2 G3]]].
  change (part_of []) with (@nil N) in G1. cbn [app] in G2. rewrite G1 in *.
  change 1 with (N.of_nat 1) in *. rewrite (s1_label_texts (s1_qid s) (s1_final_first s) groups 0) in *.
  assert (Hgok : Forall (fun g => g <> [] /\ Forall pair_ok g) groups).
  { rewrite <- G2 in Hok. clear - Hok G3. induction groups as [|g r IH]; [constructor|]. inversion G3; subst. cbn [concat] in Hok.
    apply Forall_app in Hok. destruct Hok as [Ha Hb]. constructor; [split; assumption|apply IH; assumption]. }
  set (qid := s1_qid s) in *. set (ff := s1_final_first s) in *.
  rewrite <- (parts_from_texts qid ff groups 0) in Hperm, Hsz, Hn.
  apply Permutation_map_inv in Hperm. destruct Hperm as [items [Edgs Hpi]].
  set (n := length groups).
  assert (Hlen0 : length (parts_from 0 groups) = n).
  { pose proof (f_equal (@length _) (parts_from_grps groups 0)) as X. rewrite map_length in X. exact X. }
  rewrite map_length, Hlen0 in Hn.
  assert (Hnd' : NoDup (map p_idx ([] ++ items))).
  { cbn [app]. eapply Permutation_NoDup; [apply Permutation_map; exact Hpi|]. rewrite parts_from_idx.
    apply FinFun.Injective_map_NoDup; [intros a b Hab; lia|apply seq_NoDup]. }
  assert (Hall : forall p, In p ([] ++ items) -> 0 < p_idx p <= N.of_nat n /\ p_grp p <> [] /\ Forall pair_ok (p_grp p)
                                    /\ (length (p_text qid ff p) <= 1024)%nat /\ (p_last p = true <-> p_idx p = N.of_nat n)).
  { cbn [app]. intros p Hin. apply (Permutation_in _ (Permutation_sym Hpi)) in Hin.
    destruct (parts_from_spec groups 0 p Hin) as [H1 [H2 H3]]. cbn [Nat.add] in *. fold n in H1, H3.
    rewrite Forall_forall in Hgok. destruct (Hgok _ H2) as [Hg1 Hg2].
    split; [lia|]. split; [exact Hg1|]. split; [exact Hg2|]. split; [|exact H3].
    rewrite Forall_forall in Hsz. apply Hsz. apply in_map. exact Hin. }
  assert (Hlen : length ([] ++ items) = n) by (cbn [app]; rewrite <- (Permutation_length Hpi); exact Hlen0).
  assert (Hine : items <> []).
  { intros E. rewrite E in Hlen. cbn in Hlen. assert (groups = []) by (destruct groups; [reflexivity|discriminate]). subst groups.
    cbn [concat] in G2. apply Hne. cbn [app]. symmetry. exact G2. }
  assert (Hatt : exists n', gs1_values_impl port (mknet (map Datagram dgs) [] [] 0 None
                                              [ApplyTimeout (Some (4, 0)) (Some (4, 0)); NewUdp port]) = (Ok (vals_of items), n')).
  { unfold gs1_values_impl. erewrite mbind_ok by apply send_ok. cbn [n_udp]. rewrite Edgs.
    match goal with |- context [gs1_loop ?fu None [] None [] (mknet _ ?t ?f ?sn ?cur ?tr)] =>
      destruct (gs1_parts_any_order items [] qid ff n fu t f sn cur tr Hine ltac:(rewrite !map_length; lia) Hnd' Hall Hlen Hq Hn) as [tr' E] end.
    cbn [map app] in E. change (seen_last []) with false in E. change (vals_of []) with (@nil (bytes * bytes)) in E. cbv iota in E.
    rewrite E. eexists. reflexivity. }
  destruct Hatt as [n' E].
  assert (Hpv : Permutation (concat (map p_grp items)) (s1_vars s)).
  { rewrite <- G2, <- (parts_from_grps groups 0). apply Permutation_concat, Permutation_map, Permutation_sym. exact Hpi. }
  assert (Hndv : NoDup (map fst (concat (map p_grp items)))).
  { eapply Permutation_NoDup; [apply Permutation_map, Permutation_sym; exact Hpv|exact Hnd]. }
  assert (Hvals : vals_of items = concat (map p_grp items)).
  { unfold vals_of. rewrite fold_ins_fresh; [reflexivity|apply forallb_forall; intros; reflexivity|apply NoDup_nodupb; exact Hndv]. }
  exists (vals_of items). split; [|rewrite Hvals; split; assumption].
  unfold gs1_query_vars, script_net, net_init.
  assert (Hnew : forall u t f sn cur tr, udp_new port None (mknet u t f sn cur tr)
                 = (Ok tt, mknet u t f sn cur (ApplyTimeout (Some (4, 0)) (Some (4, 0)) :: NewUdp port :: tr))) by reflexivity.
  erewrite mbind_ok by apply Hnew. unfold retry_on_timeout. cbn [ts_retries_or_default N.to_nat retry_loop]. rewrite E. reflexivity.
Qed.
