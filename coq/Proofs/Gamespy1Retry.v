(* C10, GameSpy 1: a request that gets no answer, any number of times up to the retry count, then a valid exchange:
   the query returns what it returns without faults. *)
From GD Require Import Base.Prelude Model.Strings Model.StrOps Model.Buffer Model.Net Model.Valve Model.Gamespy.
From GD Require Import Spec.ValveSpec Spec.QuakeSpec Spec.GamespySpec.
From GD Require Import Proofs.BufferLemmas Proofs.ReadSpecs Proofs.Str Proofs.Utf8 Proofs.ValveRoundtrip Proofs.QuakeRoundtrip Proofs.GamesProofs
  Proofs.GamespyProofs Proofs.IdProofs Proofs.ValveGamesRoundtrip Proofs.Gamespy2Roundtrip Proofs.Jc2mRoundtrip Proofs.Gamespy3Roundtrip Proofs.Gamespy3Reply Proofs.Gamespy3Query
  Proofs.Gamespy1Assembly Proofs.Gamespy1Players Proofs.Gamespy1Build Proofs.Gamespy1Response Proofs.Msafe Proofs.Retry Proofs.RetryProtocols.
From Coq Require Import ZifyBool ZifyNat ZifyN Lia.

Section Faults.
  Variable port : N.
  Variable s : s1_state.
  Hypothesis Hok : Forall pair_ok (s1_vars s).
  Hypothesis Hq : s1_qid s <= usize_max'.
  Hypothesis Hsz : Forall (fun d => (length d <= 1024)%nat) (s1_script s).
  Hypothesis Hn : N.of_nat (length (s1_script s)) < 4294967296.

  Lemma gs1_attempt_ok t sn cur tr : exists n',
    gs1_values_impl port (mknet (map Datagram (s1_script s)) t [] sn cur tr) = (Ok (fold_left ins (s1_vars s) []), n').
  Proof.
    unfold s1_script in *.
    assert (Hne : [] ++ s1_vars s <> []) by (unfold s1_vars; discriminate).
    destruct (chunk_pairs_groups (s1_limit s) (s1_vars s) [] Hne) as [groups [G1 [G2 G3]]].
    change (part_of []) with (@nil N) in G1. cbn [app] in G2. rewrite G1 in *.
    change 1 with (N.of_nat 1) in *. rewrite (s1_label_texts (s1_qid s) (s1_final_first s) groups 0) in *.
    assert (Hg : groups <> []) by (intros ->; cbn [concat] in G2; apply Hne; cbn [app]; symmetry; exact G2).
    assert (Hgok : Forall (fun g => g <> [] /\ Forall pair_ok g) groups).
    { rewrite <- G2 in Hok. clear - Hok G3. induction groups as [|g r IH]; [constructor|]. inversion G3; subst. cbn [concat] in Hok.
      apply Forall_app in Hok. destruct Hok as [Ha Hb]. constructor; [split; assumption|apply IH; assumption]. }
    assert (Hlen : length (texts_from (s1_qid s) (s1_final_first s) 0 groups) = length groups).
    { clear. generalize 0%nat. induction groups as [|g r IH]; intros j; [reflexivity|]. destruct r; [reflexivity|].
      change (texts_from (s1_qid s) (s1_final_first s) j (g :: l :: r)) with (part_text g (s1_qid s) (N.of_nat (S j)) false (s1_final_first s) :: texts_from (s1_qid s) (s1_final_first s) (S j) (l :: r)).
      cbn [length]. rewrite IH. reflexivity. }
    unfold gs1_values_impl. erewrite mbind_ok by apply send_ok. cbn [n_udp].
    destruct (gs1_parts_assemble groups (s1_qid s) (s1_final_first s) 0 [] (S (length (map Datagram (texts_from (s1_qid s) (s1_final_first s) 0 groups))))
                t [] (sn + 1) cur (SendEv port gs1_request :: tr) Hg Hgok Hsz Hq) as [tr' E]; try reflexivity.
    - rewrite Hlen in Hn. cbn [Nat.add]. exact Hn.
    - rewrite map_length, Hlen. lia.
    - cbn [part_numbers seq map] in E. rewrite E. rewrite G2. eexists. reflexivity.
  Qed.
  Lemma gs1_attempt_silent (u : list udp_event) t sn cur tr : exists sn' tr',
    gs1_values_impl port (mknet (Timeout :: u) t [] sn cur tr) = (Err PacketReceive, mknet u t [] sn' cur tr').
  Proof. do 2 eexists. reflexivity. Qed.
  Lemma gs1_silence_is_timeouts : forall k (u : list udp_event) t sn cur tr, exists sn' tr',
    timeouts_then (gs1_values_impl port) k (mknet (repeat Timeout k ++ u) t [] sn cur tr) (mknet u t [] sn' cur tr').
  Proof.
    induction k as [|k IH]; intros u t sn cur tr; [do 2 eexists; constructor|]. cbn [repeat app].
    destruct (gs1_attempt_silent (repeat Timeout k ++ u) t sn cur tr) as [sn1 [tr1 E1]].
    destruct (IH u t sn1 cur tr1) as [sn2 [tr2 T]]. exists sn2, tr2. eapply tt_step; [exact E1|reflexivity|exact T].
  Qed.

  Theorem gs1_unanswered_requests_retried : forall t k,
    settings_ok t -> (k <= N.to_nat (ts_retries_or_default t))%nat ->
    wf_s1 s = true -> nodupb (map fst (s1_vars s)) = true ->
    fst (gs1_query port t (net_init (repeat Timeout k ++ map Datagram (s1_script s)) [] [])) = Ok (s1_expected s).
  Proof.
    intros t k Hs Hk Hwf Hnd. unfold gs1_query, gs1_query_vars, net_init.
    destruct (udp_new_same_script port t (mknet (repeat Timeout k ++ map Datagram (s1_script s)) [] [] 0 None []) Hs) as [n1 [E1 [U1 [F1 S1]]]].
    destruct n1 as [u1 t1 f1 sn1 cur1 tr1]. cbn [n_udp n_fail n_sends] in U1, F1, S1. subst u1 f1.
    unfold mbind at 1. unfold mbind at 1. rewrite E1.
    destruct (gs1_silence_is_timeouts k (map Datagram (s1_script s)) t1 sn1 cur1 tr1) as [sn2 [tr2 T]].
    destruct (gs1_attempt_ok t1 sn2 cur1 tr2) as [n' E].
    rewrite (retry_first_reply_wins _ _ _ _ _ _ Hk T) by (unfold is_timeout; rewrite E; reflexivity).
    rewrite E. unfold mlift. cbn [fst].
    rewrite fold_ins_fresh; [|apply forallb_forall; intros; reflexivity|exact Hnd]. cbn [app]. apply gs1_build_ok. exact Hwf.
  Qed.
End Faults.
