(* C10, GameSpy 3: lost replies at either position of the exchange (the handshake reply, the data reply), any number of
   times up to the retry count, followed by a valid exchange: the query returns what it returns without faults. *)
From GD Require Import Base.Prelude Model.Strings Model.StrOps Model.Buffer Model.Net Model.Valve Model.Gamespy.
From GD Require Import Spec.ValveSpec Spec.QuakeSpec Spec.GamespySpec.
From GD Require Import Proofs.BufferLemmas Proofs.ReadSpecs Proofs.Str Proofs.Utf8 Proofs.ValveRoundtrip Proofs.QuakeRoundtrip Proofs.GamesProofs
  Proofs.GamespyProofs Proofs.IdProofs Proofs.GamespyOrder Proofs.Gamespy2Roundtrip Proofs.Jc2mRoundtrip Proofs.Gamespy3Roundtrip Proofs.Gamespy3Reply Proofs.Gamespy3Query
  Proofs.Msafe Proofs.Retry Proofs.RetryProtocols.
From Coq Require Import ZifyBool ZifyNat ZifyN Lia.

Inductive gs3_fault := LostHandshake | LostData.
Definition fault_events (s : s3_state) (f : gs3_fault) : list udp_event :=
  match f with LostHandshake => [Timeout] | LostData => [Datagram (s3_handshake s); Timeout] end.

Section Faults.
  Variable port : N.
  Variable s : s3_state.
  Hypothesis Hc : (- 2147483648 <= s3_challenge s < 2147483648)%Z.
  Hypothesis Hcl : (length (show_Z (s3_challenge s)) <= 10)%nat.

  Lemma attempt_fault f (u : list udp_event) t sn cur tr : exists sn' tr',
    gs3_packets_impl port (mknet (fault_events s f ++ u) t [] sn cur tr) = (Err PacketReceive, mknet u t [] sn' cur tr').
  Proof.
    destruct f; cbn [fault_events app].
    - do 2 eexists. reflexivity.
    - unfold gs3_packets_impl. erewrite mbind_ok by (apply gs3_handshake_ok; assumption).
      unfold gs3_data_request. erewrite mbind_ok by apply send_ok. do 2 eexists. reflexivity.
  Qed.

  Lemma faults_are_timeouts_gs3 : forall v (u : list udp_event) t sn cur tr, exists sn' tr',
    timeouts_then (gs3_packets_impl port) (length v) (mknet (flat_map (fault_events s) v ++ u) t [] sn cur tr) (mknet u t [] sn' cur tr').
  Proof.
    induction v as [|f v IH]; intros u t sn cur tr; [do 2 eexists; constructor|].
    cbn [flat_map length]. rewrite <- app_assoc.
    destruct (attempt_fault f (flat_map (fault_events s) v ++ u) t sn cur tr) as [sn1 [tr1 E1]].
    destruct (IH u t sn1 cur tr1) as [sn2 [tr2 T]].
    exists sn2, tr2. eapply tt_step; [exact E1|reflexivity|exact T].
  Qed.

  Theorem gs3_lost_replies_retried : forall t v,
    settings_ok t -> (length v <= N.to_nat (ts_retries_or_default t))%nat ->
    wf_s3 s = true -> (length (s3_payloads s) <= 128)%nat -> Forall (fun p => (length p + 17 <= 2048)%nat) (s3_payloads s) ->
    fst (gs3_query port t (net_init (flat_map (fault_events s) v ++ map Datagram (s3_script s)) [] [])) = Ok (s3_expected s).
  Proof.
    intros t v Hs Hv Hwf Hn Hsz. unfold gs3_query, gs3_packets, net_init.
    destruct (udp_new_same_script port t (mknet (flat_map (fault_events s) v ++ map Datagram (s3_script s)) [] [] 0 None []) Hs) as [n1 [E1 [U1 [F1 S1]]]].
    destruct n1 as [u1 t1 f1 sn1 cur1 tr1]. cbn [n_udp n_fail n_sends] in U1, F1, S1. subst u1 f1.
    unfold mbind at 1. unfold mbind at 1. rewrite E1.
    destruct (faults_are_timeouts_gs3 v (map Datagram (s3_script s)) t1 sn1 cur1 tr1) as [sn2 [tr2 T]].
    destruct (gs3_packets_impl_ok port s t1 sn2 cur1 tr2 Hc Hcl Hn Hsz) as [n' E].
    rewrite (retry_first_reply_wins _ _ _ _ _ _ Hv T) by (unfold is_timeout; rewrite E; reflexivity).
    rewrite E. unfold mlift. cbn [fst]. apply gs3_roundtrip. exact Hwf.
  Qed.
End Faults.
