(* C18: an accepted configuration can be used with every modelled protocol entry point, on every script, without panicking. *)
From GD Require Import Base.Prelude Model.Strings Model.StrOps Model.Buffer Model.Net Model.Valve Model.Settings Model.Quake Model.Unreal2
  Model.Gamespy Model.Games Model.Minecraft.
From GD Require Import Proofs.Msafe Proofs.ValveTotal Proofs.SettingsProofs Proofs.QuakeTotal Proofs.Unreal2Total Proofs.GamesTotal Proofs.GamespyTotal.

Theorem accepted_usable_everywhere : forall path t, construct path = Ok t ->
  forall port u tc sf,
    (forall v, safe (fst (client_query port v t (net_init u tc sf))))
    /\ (forall g, safe (fst (u2_query port g t (net_init u tc sf))))
    /\ safe (fst (gs1_query port t (net_init u tc sf)))
    /\ safe (fst (gs2_query port t (net_init u tc sf)))
    /\ safe (fst (gs3_query port t (net_init u tc sf)))
    /\ safe (fst (gs3_query_vars port t (net_init u tc sf)))
    /\ safe (fst (jc2m_query port t (net_init u tc sf)))
    /\ safe (fst (savage2_query port t (net_init u tc sf)))
    /\ safe (fst (mindustry_query port t (net_init u tc sf)))
    /\ (forall json rs, (forall x, json x <> None) ->
          safe (fst (query_auto json port t rs (net_init u tc sf))) /\
          safe (fst (query_java json port t rs (net_init u tc sf))) /\
          safe (fst (query_bedrock port t (net_init u tc sf))) /\
          safe (fst (query_legacy port t (net_init u tc sf))) /\
          (forall g, safe (fst (query_legacy_specific g port t (net_init u tc sf))))).
Proof.
  intros path t H port u tc sf. destruct (accepted_settings_ok path t H) as [Hs _].
  repeat match goal with |- _ /\ _ => split end.
  - intros v. apply quake_total. exact Hs.
  - intros g. apply u2_total. exact Hs.
  - apply gamespy1_total. exact Hs.
  - apply gamespy2_total. exact Hs.
  - apply gamespy3_total. exact Hs.
  - apply gamespy3_vars_total. exact Hs.
  - apply jc2m_total. exact Hs.
  - apply savage2_total. exact Hs.
  - apply mindustry_total. exact Hs.
  - intros json rs Hj. apply minecraft_total; assumption.
Qed.
