(* C04, GameSpy 3: the whole reply (all packets) decodes to exactly the server state *)
From GD Require Import Base.Prelude Model.Strings Model.StrOps Model.Buffer Model.Net Model.Valve Model.Gamespy.
From GD Require Import Spec.ValveSpec Spec.QuakeSpec Spec.GamespySpec.
From GD Require Import Proofs.BufferLemmas Proofs.ReadSpecs Proofs.Str Proofs.Utf8 Proofs.ValveRoundtrip Proofs.QuakeRoundtrip Proofs.GamesProofs
  Proofs.GamespyProofs Proofs.IdProofs Proofs.GamespyOrder Proofs.Gamespy2Roundtrip Proofs.Jc2mRoundtrip Proofs.Gamespy3Roundtrip.
From Coq Require Import ZifyBool ZifyNat ZifyN Lia.

(* ---------- every item the server writes is a proper item ---------- *)
Lemma ascii_no_nul l : (forall c, In c l -> 1 <= c < 128) -> no_nul l = true.
Proof.
  intros H. unfold no_nul.
  assert (H1 : forallb (fun c => c <? 128) l = true) by (apply forallb_forall; intros c Hc; specialize (H c Hc); lia).
  assert (H2 : forallb (fun c => negb (c =? 0)) l = true) by (apply forallb_forall; intros c Hc; specialize (H c Hc); lia).
  assert (H3 : bytesb l = true) by (apply forallb_forall; intros c Hc; specialize (H c Hc); unfold byteb; lia).
  rewrite (utf8_valid_ascii _ H1), H2, H3. reflexivity.
Qed.
Lemma item_ok_show_N n : item_ok (show_N n) = true.
Proof. unfold item_ok. rewrite no_nul_show_N. pose proof (show_N_nonempty n). destruct (show_N n); [contradiction|reflexivity]. Qed.
Lemma item_ok_show_Z z : item_ok (show_Z z) = true.
Proof.
  destruct z as [|p|p]; cbn [show_Z]; [reflexivity|apply item_ok_show_N|].
  unfold item_ok. cbn [nonempty]. rewrite andb_true_r. apply ascii_no_nul. intros c [<-|Hc]; [lia|]. pose proof (show_N_digits _ _ Hc). lia.
Qed.
Lemma forallb_map_all {A} (g : A -> bytes) (l : list A) : (forall x, item_ok (g x) = true) -> forallb item_ok (map g l) = true.
Proof. intros H. apply forallb_forall. intros y Hy. apply in_map_iff in Hy. destruct Hy as [x [<- _]]. apply H. Qed.

Lemma utf8_first_char a r : utf8_valid (a :: r) = true -> utf8_valid (firstn (utf8_first_len a) (a :: r)) = true.
Proof.
  intros H. cbn [utf8_valid] in H. unfold utf8_first_len, in_rng in *.
  destruct (a <? 128) eqn:E1; [cbn [firstn utf8_valid]; rewrite E1; reflexivity|].
  destruct ((194 <=? a) && (a <=? 223)) eqn:E2.
  { replace (a <? 224) with true by lia. destruct r as [|b r']; [discriminate|]. cbn [firstn utf8_valid]. rewrite E1. unfold in_rng. rewrite E2.
    apply andb_prop in H. destruct H as [H _]. rewrite H. reflexivity. }
  destruct ((224 <=? a) && (a <=? 239)) eqn:E3.
  { replace (a <? 224) with false by lia. replace (a <? 240) with true by lia. destruct r as [|b [|c r']]; try discriminate.
    cbn [firstn utf8_valid]. rewrite E1. unfold in_rng. rewrite E2, E3.
    do 2 (apply andb_prop in H; destruct H as [H ?]). rewrite H, H1. reflexivity. }
  destruct ((240 <=? a) && (a <=? 244)) eqn:E4; [|discriminate].
  replace (a <? 224) with false by lia. replace (a <? 240) with false by lia. destruct r as [|b [|c [|e r']]]; try discriminate.
  cbn [firstn utf8_valid]. rewrite E1. unfold in_rng. rewrite E2, E3, E4.
  do 3 (apply andb_prop in H; destruct H as [H ?]). rewrite H, H2, H1. reflexivity.
Qed.
Lemma forallb_firstn {A} (f : A -> bool) n : forall l, forallb f l = true -> forallb f (firstn n l) = true.
Proof. induction n as [|n IH]; intros [|x l] H; cbn [firstn forallb] in *; try reflexivity. apply andb_prop in H. destruct H as [-> H]. rewrite IH by exact H. reflexivity. Qed.
Lemma first_char_ok s : item_ok s = true -> item_ok (match s with c :: _ => firstn (utf8_first_len c) s | [] => [] end) = true.
Proof.
  intros H. destruct s as [|c r]; [exact H|]. unfold item_ok in *. apply andb_prop in H. destruct H as [H _].
  unfold no_nul in *. do 2 (apply andb_prop in H; destruct H as [H ?]).
  rewrite (utf8_first_char _ _ H). unfold bytesb in *. rewrite !forallb_firstn by assumption.
  unfold utf8_first_len. destruct (c <? 128); [reflexivity|]. destruct (c <? 224); [reflexivity|]. destruct (c <? 240); reflexivity.
Qed.
Lemma cut_last_ok names : forallb item_ok names = true -> forallb item_ok (cut_last names) = true.
Proof.
  intros H. unfold cut_last. destruct (rev names) as [|l r] eqn:E; [reflexivity|].
  assert (Hr : forallb item_ok (l :: r) = true).
  { rewrite <- E. apply forallb_forall. intros x Hx. apply in_rev in Hx. rewrite forallb_forall in H. apply H. exact Hx. }
  cbn [forallb] in Hr. apply andb_prop in Hr. destruct Hr as [Hl Hr].
  apply forallb_forall. intros x Hx. apply in_rev in Hx. destruct Hx as [<-|Hx].
  - apply first_char_ok. exact Hl.
  - rewrite forallb_forall in Hr. apply Hr. exact Hx.
Qed.

Lemma p3_name_ok p : p3_ok p = true -> item_ok (p3_name p) = true.
Proof. intros H. unfold p3_ok in H. do 6 (apply andb_prop in H; destruct H as [H ?]). exact H. Qed.

Lemma ptoks_ok pid off names items : forallb item_ok names = true -> forallb tok_ok (ptoks pid off names items) = true.
Proof.
  intros Hn. assert (Ho : (off mod 256 <? 256) = true) by (pose proof (N.mod_lt off 256); lia).
  unfold ptoks. destruct pid; cbn [app forallb tok_ok]; rewrite Ho, Hn, !forallb_map_all by (intros; first [apply item_ok_show_N|apply item_ok_show_Z]);
    vm_compute; reflexivity.
Qed.
Lemma t3_name_ok t : t3_ok t = true -> item_ok (t3_name t) = true.
Proof. intros H. unfold t3_ok in H. do 2 (apply andb_prop in H; destruct H as [H ?]). exact H. Qed.
Lemma names_ok {A} (f : A -> bool) (nm : A -> bytes) l : (forall x, f x = true -> item_ok (nm x) = true) -> forallb f l = true ->
  forallb item_ok (map nm l) = true.
Proof. intros H Hl. apply forallb_forall. intros y Hy. apply in_map_iff in Hy. destruct Hy as [x [<- Hx]]. apply H. rewrite forallb_forall in Hl. apply Hl. exact Hx. Qed.
Lemma ttoks_ok ts : forallb t3_ok ts = true -> forallb tok_ok (ttoks ts) = true.
Proof.
  intros H. unfold ttoks. cbn [forallb tok_ok]. rewrite (names_ok t3_ok t3_name ts t3_name_ok H).
  rewrite forallb_map_all by (intros; apply item_ok_show_Z). vm_compute. reflexivity.
Qed.

Lemma bodies_toks_ok pid resend : forall gs offset prev, forallb (forallb p3_ok) gs = true -> optb p3_ok prev = true ->
  forallb (forallb tok_ok) (bodies_toks pid resend offset prev gs) = true.
Proof.
  induction gs as [|g r IH]; intros offset prev Hg Hp; [reflexivity|]. cbn [forallb] in Hg. apply andb_prop in Hg. destruct Hg as [Hg Hr].
  cbn [bodies_toks].
  assert (Hit : forall off items, (off, items) = match prev with Some p => if resend then (offset - 1, p :: g) else (offset, g) | None => (offset, g) end ->
                forallb p3_ok items = true).
  { intros off items E. destruct prev as [p|]; [destruct resend|]; inversion E; subst; try exact Hg. cbn [forallb optb] in *. rewrite Hp, Hg. reflexivity. }
  destruct (match prev with Some p => if resend then (offset - 1, p :: g) else (offset, g) | None => (offset, g) end) as [off items].
  specialize (Hit off items eq_refl). cbn [forallb]. rewrite IH.
  - rewrite andb_true_r. apply ptoks_ok. pose proof (names_ok p3_ok p3_name items p3_name_ok Hit) as Hn.
    destruct (resend && _); [apply cut_last_ok|]; exact Hn.
  - exact Hr.
  - destruct (rev g) as [|l r'] eqn:E; [exact Hp|]. cbn [optb]. rewrite forallb_forall in Hg. apply Hg. apply in_rev. rewrite E. left. reflexivity.
Qed.

(* ---------- the groups the players are sent in ---------- *)
Lemma groups_concat {A} k : forall fuel (l : list A), concat (groups fuel k l) = l.
Proof.
  induction fuel as [|f IH]; intros l; destruct l as [|x l]; try reflexivity.
  - cbn [groups concat]. apply app_nil_r.
  - change (groups (S f) k (x :: l)) with (firstn k (x :: l) :: groups f k (skipn k (x :: l))). cbn [concat]. rewrite IH. apply firstn_skipn.
Qed.
Lemma groups_nonempty {A} k : forall fuel (l : list A), Forall (fun g => g <> []) (groups fuel (S k) l).
Proof.
  induction fuel as [|f IH]; intros l; destruct l as [|x l].
  - constructor.
  - cbn [groups]. constructor; [discriminate|constructor].
  - constructor.
  - change (groups (S f) (S k) (x :: l)) with (firstn (S k) (x :: l) :: groups f (S k) (skipn (S k) (x :: l))). constructor; [discriminate|apply IH].
Qed.
Lemma forallb_concat {A} (f : A -> bool) (ls : list (list A)) : forallb f (concat ls) = forallb (forallb f) ls.
Proof. induction ls as [|l ls IH]; [reflexivity|]. cbn [concat forallb]. rewrite forallb_app, IH. reflexivity. Qed.

(* ---------- the packets: the last one also carries the teams ---------- *)
Fixpoint join_last (l : list (list tok)) (y : list tok) : list (list tok) :=
  match l with
  | [] => [y]
  | [x] => [x ++ y]
  | x :: r => x :: join_last r y
  end.
Lemma join_last_map y : forall l, l <> [] ->
  removelast (map (flat_map enc_tok) l) ++ [last (map (flat_map enc_tok) l) [] ++ flat_map enc_tok y] = map (flat_map enc_tok) (join_last l y).
Proof.
  induction l as [|x l IH]; intros Hne; [contradiction|]. destruct l as [|x2 l].
  - cbn [map removelast last app join_last]. rewrite flat_map_app. reflexivity.
  - change (join_last (x :: x2 :: l) y) with (x :: join_last (x2 :: l) y). cbn [map]. rewrite <- IH by discriminate. reflexivity.
Qed.
Lemma join_last_concat y : forall l, l <> [] -> concat (join_last l y) = concat l ++ y.
Proof.
  induction l as [|x l IH]; intros Hne; [contradiction|]. destruct l as [|x2 l].
  - cbn [join_last concat]. rewrite !app_nil_r. reflexivity.
  - change (join_last (x :: x2 :: l) y) with (x :: join_last (x2 :: l) y). cbn [concat]. rewrite IH by discriminate. cbn [concat]. rewrite <- !app_assoc. reflexivity.
Qed.
Lemma join_last_ok y : forall l, l <> [] -> forallb (forallb tok_ok) l = true -> forallb tok_ok y = true -> forallb (forallb tok_ok) (join_last l y) = true.
Proof.
  induction l as [|x l IH]; intros Hne Hl Hy; [contradiction|]. destruct l as [|x2 l].
  - cbn [join_last forallb] in *. rewrite forallb_app, Hy. apply andb_prop in Hl. destruct Hl as [-> _]. reflexivity.
  - change (join_last (x :: x2 :: l) y) with (x :: join_last (x2 :: l) y). cbn [forallb] in Hl |- *. apply andb_prop in Hl. destruct Hl as [-> Hl].
    rewrite IH; [reflexivity|discriminate|exact Hl|exact Hy].
Qed.

Definition s3_payloads (s : s3_state) : list bytes :=
  let k := S (N.to_nat (s3_group s)) in
  let gs := groups (length (s3_players s)) k (s3_players s) in
  let vars := flat_map (fun kv => cstr (fst kv) ++ cstr (snd kv)) (s3_vars s) ++ nul in
  let teams := [2] ++ s3_team_fields (s3_teams s) ++ nul in
  match s3_bodies_r (s3_pid s) (s3_resend s) 0 None gs with
  | [] => [vars ++ [1] ++ s3_player_fields (s3_pid s) 0 [] ++ nul ++ teams]
  | [b] => [vars ++ b ++ teams]
  | b :: r => (vars ++ b) :: (removelast r ++ [last r [] ++ teams])
  end.
(* what the server sends is these payloads, each behind the packet header (number, last-packet bit) *)
Lemma s3_packets_payloads s :
  s3_packets s = map (fun ib => [0; 0; 0; 0; 1] ++ cstr (str "splitnum")
                                ++ [(fst ib + (if Nat.eqb (S (N.to_nat (fst ib))) (length (s3_payloads s)) then 128 else 0)); 0] ++ snd ib)
                     (indexed 0 (s3_payloads s)).
Proof. reflexivity. Qed.

(* the token lists of the packets *)
Definition s3_toks (s : s3_state) : list (list tok) :=
  let gs := groups (length (s3_players s)) (S (N.to_nat (s3_group s))) (s3_players s) in
  join_last (match gs with [] => [ptoks (s3_pid s) 0 [] []] | _ => bodies_toks (s3_pid s) (s3_resend s) 0 None gs end) (ttoks (s3_teams s)).
Lemma bodies_toks_nonempty pid resend gs offset prev : gs <> [] -> bodies_toks pid resend offset prev gs <> [].
Proof. destruct gs as [|g r]; [contradiction|]. intros _. cbn [bodies_toks]. destruct (match prev with Some p => _ | None => _ end). discriminate. Qed.
Lemma s3_payloads_toks s : exists h t, map (flat_map enc_tok) (s3_toks s) = h :: t
  /\ s3_payloads s = (flat_map enc_kv (s3_vars s) ++ 0 :: h) :: t.
Proof.
  unfold s3_payloads, s3_toks. cbv zeta.
  set (gs := groups (length (s3_players s)) (S (N.to_nat (s3_group s))) (s3_players s)).
  rewrite <- bodies_enc. rewrite <- ttoks_enc.
  change (flat_map (fun kv : bytes * bytes => cstr (fst kv) ++ cstr (snd kv)) (s3_vars s)) with (flat_map enc_kv (s3_vars s)).
  destruct gs as [|g r] eqn:Eg.
  - cbn [bodies_toks map join_last]. eexists. eexists. split; [reflexivity|]. unfold nul.
    rewrite flat_map_app. unfold s3_player_fields. change (map p3_name []) with (@nil bytes).
    rewrite ptoks_enc. unfold nul. rewrite <- !app_assoc. reflexivity.
  - assert (Hne : bodies_toks (s3_pid s) (s3_resend s) 0 None (g :: r) <> []) by (apply bodies_toks_nonempty; discriminate).
    destruct (bodies_toks (s3_pid s) (s3_resend s) 0 None (g :: r)) as [|t [|t2 ts]] eqn:Eb; [contradiction| |].
    + cbn [map join_last]. eexists. eexists. split; [reflexivity|]. rewrite flat_map_app. unfold nul. rewrite <- !app_assoc. reflexivity.
    + change (join_last (t :: t2 :: ts) ?y) with (t :: join_last (t2 :: ts) y). cbn [map].
      eexists. eexists. split; [reflexivity|]. unfold nul. rewrite <- !app_assoc. cbn [app].
      f_equal. change (flat_map enc_tok t2 :: map (flat_map enc_tok) ts) with (map (flat_map enc_tok) (t2 :: ts)).
      apply join_last_map. discriminate.
Qed.

(* ---------- what all the sections leave in the per-index maps ---------- *)
Lemma s3_toks_ok s : forallb p3_ok (s3_players s) = true -> forallb t3_ok (s3_teams s) = true -> forallb (forallb tok_ok) (s3_toks s) = true.
Proof.
  intros Hp Ht. unfold s3_toks. cbv zeta. set (gs := groups _ _ _). apply join_last_ok.
  - destruct gs eqn:E; [discriminate|apply bodies_toks_nonempty; discriminate].
  - destruct gs eqn:E.
    + cbn [forallb]. rewrite ptoks_ok by reflexivity. reflexivity.
    + apply bodies_toks_ok; [|reflexivity]. rewrite <- E, <- forallb_concat. unfold gs. rewrite groups_concat. exact Hp.
  - apply ttoks_ok. exact Ht.
Qed.

Definition p3_default : gs3_player := mk_gs3p [] 0 0 0 0 0.
Definition t3_default : gs3_team := mk_gs3t [] 0.
Lemma s3_sections_effect s : (length (s3_players s) < 256)%nat ->
  fold_left apply_tok (concat (s3_toks s)) ([[]], [[]])
  = (match s3_players s with [] => [[]] | _ => map (fun p => pfields (s3_pid s) (p3_name p) p) (s3_players s) end,
     match s3_teams s with [] => [[]] | _ => map tfields (s3_teams s) end).
Proof.
  intros Hlen. unfold s3_toks. cbv zeta.
  pose proof (groups_concat (S (N.to_nat (s3_group s))) (length (s3_players s)) (s3_players s)) as Hc.
  pose proof (groups_nonempty (N.to_nat (s3_group s)) (length (s3_players s)) (s3_players s)) as Hne.
  set (gs := groups _ _ _) in *.
  destruct gs as [|g r] eqn:Eg.
  - cbn [concat] in Hc. rewrite <- Hc. cbn [join_last concat]. rewrite app_nil_r, fold_left_app.
    assert (E0 : fold_left apply_tok (ptoks (s3_pid s) 0 [] []) ([[]], [[]]) = ([[]], [[]])) by (destruct (s3_pid s); reflexivity).
    rewrite E0. destruct (teams_effect (s3_teams s) [[]] t3_default) as [td' [E1 E2]]. subst td'. exact E1.
  - rewrite join_last_concat by (apply bodies_toks_nonempty; discriminate). rewrite fold_left_app.
    assert (HD : Done (s3_pid s) (s3_resend s) p3_default [] [[]]).
    { split; [reflexivity|split]. - intros k _. unfold get. destruct k as [|[|k]]; reflexivity. - intros k Hk. cbn [length] in Hk. lia. }
    destruct (groups_effect (s3_pid s) (s3_resend s) p3_default (g :: r) [] [[]] [[]] Hne ltac:(rewrite Hc; cbn [length]; lia) HD) as [pd' [E1 [F1 _]]].
    change (N.of_nat (length (@nil gs3_player))) with 0 in E1. change (lastp []) with (@None gs3_player) in E1.
    match goal with |- fold_left _ _ ?x = _ => replace x with (pd', ([[]] : list vmap)) by (symmetry; exact E1) end.
    specialize (F1 ltac:(discriminate)). cbn [app] in F1. rewrite Hc in F1.
    assert (Hpl : s3_players s <> []).
    { rewrite <- Hc. inversion Hne as [|? ? Hg _]; subst. destruct g; [contradiction|discriminate]. }
    rewrite (full_list _ _ _ _ F1 Hpl).
    destruct (teams_effect (s3_teams s) (map (fun p => pfields (s3_pid s) (p3_name p) p) (s3_players s)) t3_default) as [td' [E2 E3]].
    destruct (s3_players s) as [|p0 ps0] eqn:Ep; [contradiction|]. subst td'. exact E2.
Qed.

(* ---------- the variables ---------- *)
Definition s3_keys : list bytes :=
  map str ["hostname"; "gamever"; "mapname"; "gametype"; "maxplayers"; "password"; "numplayers"; "minplayers"; "tournament"]%string.
Definition s3_std (s : s3_state) : list (bytes * bytes) :=
  [(str "hostname", s3_name s); (str "gamever", s3_ver s); (str "mapname", s3_map s); (str "gametype", s3_mode s);
   (str "maxplayers", show_N (s3_max s)); (str "password", snd (s3_password s))]
  ++ opt_list (s3_num s) (fun v => [(str "numplayers", show_N v)])
  ++ opt_list (s3_min s) (fun v => [(str "minplayers", show_N v)])
  ++ opt_list (s3_tournament s) (fun v => [(str "tournament", snd v)]).
Lemma s3_vars_split s : s3_vars s = s3_std s ++ s3_extras s.
Proof. unfold s3_vars, s3_std. rewrite <- !app_assoc. reflexivity. Qed.
Lemma s3_std_keys s x : In x (s3_std s) -> In (fst x) s3_keys.
Proof.
  unfold s3_std, s3_keys. destruct (s3_num s), (s3_min s), (s3_tournament s); cbn [opt_list app In map];
    intros H; repeat (destruct H as [H|H]; [subst x; cbn [fst]; auto 12|]); contradiction.
Qed.
Lemma s3_std_map s : fold_left ins (s3_std s) [] = s3_std s.
Proof.
  unfold s3_std. destruct (s3_num s), (s3_min s), (s3_tournament s); cbn [opt_list app fold_left]; unfold ins, vm_insert; cbn [fst snd map_insert];
    ckeys3; reflexivity.
Qed.

Definition tour_means (v : bool * bytes) : bool :=
  match parse_bool (lower_ascii (snd v)) with Some b => Bool.eqb b (fst v) | None => false end.
(* what a server may send: texts without NUL, numbers in the ranges of the response's integer types, at most 255 players
   (the index of a player in a section is one byte), and its own variables under names the client does not know *)
Definition wf_s3 (s : s3_state) : bool :=
  no_nul (s3_name s) && no_nul (s3_map s) && no_nul (s3_mode s) && no_nul (s3_ver s) && no_nul (snd (s3_password s))
  && (s3_max s <? 4294967296) && optb (fun n => n <? 256) (s3_min s) && optb (fun n => n <? 4294967296) (s3_num s)
  && optb (fun v => no_nul (snd v) && tour_means v) (s3_tournament s)
  && extras_ok_for s3_keys (s3_extras s)
  && forallb p3_ok (s3_players s) && (length (s3_players s) <? 256)%nat
  && forallb t3_ok (s3_teams s)
  && match password_means (snd (s3_password s)) with Some b => Bool.eqb b (fst (s3_password s)) | None => false end.

Lemma pfields_nonempty pid nm p : pfields pid nm p <> [].
Proof. unfold pfields. discriminate. Qed.

Lemma players_back pid ps : forallb p3_ok ps = true ->
  omap_list gs3_make_player (nonempty_maps (match ps with [] => [[]] | _ => map (fun p => pfields pid (p3_name p) p) ps end)) = Ok ps.
Proof.
  intros Hps. destruct ps as [|p0 ps0] eqn:Ep; [reflexivity|]. rewrite <- Ep in *.
  rewrite nonempty_map_keep by (intros x; apply pfields_nonempty). apply omap_list_map. intros x Hx. apply make_player_ok.
  rewrite forallb_forall in Hps. apply Hps. exact Hx.
Qed.
Lemma teams_back ts : forallb t3_ok ts = true ->
  omap_list gs3_make_team (nonempty_maps (match ts with [] => [[]] | _ => map tfields ts end)) = Ok ts.
Proof.
  intros Hts. destruct ts as [|t0 ts0] eqn:Et; [reflexivity|]. rewrite <- Et in *.
  rewrite nonempty_map_keep by (intros x; unfold tfields; discriminate). apply omap_list_map. intros x Hx. apply make_team_ok.
  rewrite forallb_forall in Hts. apply Hts. exact Hx.
Qed.

Lemma take_req_eq k (m : vmap) v m' : vm_get (str k) m = Some v -> map_remove (str k) m = m' -> take_req k m = Ok (v, m').
Proof. intros H1 H2. unfold take_req, vm_remove. rewrite H1, H2. reflexivity. Qed.
Lemma vm_remove_eq k (m : vmap) o m' : vm_get k m = o -> map_remove k m = m' -> vm_remove k m = (o, m').
Proof. intros H1 H2. unfold vm_remove. rewrite H1, H2. reflexivity. Qed.

Theorem gs3_roundtrip : forall s, wf_s3 s = true -> gs3_build (s3_payloads s) = Ok (s3_expected s).
Proof.
  intros s H. unfold wf_s3 in H. do 13 (apply andb_prop in H; destruct H as [H ?]).
  rename H into Hname, H0 into Hpwm, H1 into Hts, H2 into Hlen, H3 into Hps, H4 into Hext, H5 into Htour, H6 into Hnum, H7 into Hmin,
         H8 into Hmax, H9 into Hpw, H10 into Hver, H11 into Hmode, H12 into Hmap.
  pose proof Hext as Hext0. unfold extras_ok_for in Hext. do 2 (apply andb_prop in Hext; destruct Hext as [Hext ?]).
  rename Hext into Hekv, H into Hend, H0 into Hestd.
  assert (Hkv : forallb kv_ok (s3_vars s) = true).
  { rewrite s3_vars_split, forallb_app, Hekv, andb_true_r. unfold s3_std, kv_ok.
    destruct (s3_num s), (s3_min s), (s3_tournament s) as [tv|]; cbn [opt_list app forallb fst snd optb] in *;
      try (apply andb_prop in Htour; destruct Htour as [Htour _]; rewrite Htour);
      rewrite ?Hname, ?Hver, ?Hmap, ?Hmode, ?Hpw, ?no_nul_show_N; reflexivity. }
  destruct (s3_payloads_toks s) as [h [t [Etoks Epay]]].
  unfold gs3_build. rewrite Epay. cbn [hd_error need obind tl]. rewrite (data_to_map_at _ _ Hkv). cbn [obind].
  pose proof (all_sections_at (s3_toks s) [[]] [[]] (s3_toks_ok s Hps Hts)) as Ha.
  rewrite Etoks, s3_sections_effect in Ha by (apply Nat.ltb_lt; exact Hlen).
  match goal with |- obind ?e _ = _ => replace e with (Ok (match s3_players s with [] => [[]] | _ => map (fun p => pfields (s3_pid s) (p3_name p) p) (s3_players s) end,
     match s3_teams s with [] => [[]] | _ => map tfields (s3_teams s) end) : outcome (list vmap * list vmap)) by (symmetry; exact Ha) end.
  cbn [obind].
  match goal with |- obind ?e _ = _ => replace e with (Ok (s3_players s)) by (symmetry; apply players_back; exact Hps) end. cbn [obind].
  match goal with |- obind ?e _ = _ => replace e with (Ok (s3_teams s)) by (symmetry; apply teams_back; exact Hts) end. cbn [obind].
  assert (Hmapv : fold_left ins (s3_vars s) [] = s3_vars s).
  { rewrite s3_vars_split, fold_left_app, s3_std_map. apply (fold_ins_std_ext s3_keys); [apply s3_std_keys|exact Hext0]. }
  rewrite Hmapv, s3_vars_split. unfold s3_std.
  assert (Xg : forall k, existsb (bytes_eqb (str k)) s3_keys = true -> vm_get (str k) (s3_extras s) = None)
    by (intros k Hk; exact (proj1 (ext_get_for s3_keys _ _ (key_in _ _ Hk) Hestd))).
  assert (Xr : forall k, existsb (bytes_eqb (str k)) s3_keys = true -> map_remove (str k) (s3_extras s) = s3_extras s)
    by (intros k Hk; exact (proj2 (ext_get_for s3_keys _ _ (key_in _ _ Hk) Hestd))).
  unfold s3_expected.
  apply N.ltb_lt in Hmax. apply Nat.ltb_lt in Hlen.
  assert (Hl : lenN (s3_players s) < 256) by (clear - Hlen; unfold lenN; lia).
  unfold password_means in Hpwm. unfold tour_means in Htour.
  clear Ha Etoks Epay Hkv Hmapv Hekv Hend Hestd Hext0 Hps Hts Hname Hver Hmap Hmode Hpw h t.
  Ltac sget Xg := keys; rewrite ?Xg by reflexivity; reflexivity.
  Ltac treq Xg Xr k := erewrite (take_req_eq k); [|sget Xg|sget Xr]; cbn [obind].
  Ltac vrem Xg Xr k := erewrite (vm_remove_eq (str k)); [|sget Xg|sget Xr]; cbv beta iota.
  destruct (s3_num s) as [num|], (s3_min s) as [mn|], (s3_tournament s) as [tv|]; cbn [opt_list app optb] in *.
  all: treq Xg Xr "maxplayers"%string; rewrite parse_unsigned_show by (unfold u32_max; lia); cbn [need obind].
  all: vrem Xg Xr "minplayers"%string; unfold opt_parse; rewrite ?parse_unsigned_show by (unfold u8_max; lia); cbn [need obind].
  all: unfold online_of; vrem Xg Xr "numplayers"%string; rewrite ?parse_unsigned_show by (unfold usize_max'; lia); cbn [need obind].
  all: treq Xg Xr "hostname"%string; treq Xg Xr "mapname"%string.
  all: unfold has_password; vrem Xg Xr "password"%string; cbn [need obind].
  all: destruct (parse_bool (lower_ascii (snd (s3_password s)))) as [b|];
    [|destruct (parse_unsigned u8_max (lower_ascii (snd (s3_password s)))) as [n|]; [|discriminate]];
    cbn [need obind]; apply Bool.eqb_prop in Hpwm; rewrite Hpwm.
  all: treq Xg Xr "gametype"%string; treq Xg Xr "gamever"%string.
  all: unfold tournament_of; vrem Xg Xr "tournament"%string.
  all: try (apply andb_prop in Htour; destruct Htour as [_ Htour]; destruct (parse_bool (lower_ascii (snd tv))) as [tb|]; [|discriminate];
            apply Bool.eqb_prop in Htour; subst tb).
  all: try change (parse_bool (lower_ascii (str "true"))) with (Some true).
  all: cbn [need obind]; change (2 ^ 32) with 4294967296;
    (rewrite N.mod_small; [reflexivity|]); try (apply N.ltb_lt in Hnum; destruct (num <? _)); lia.
Qed.

(* the hypotheses can be met: a server with players in three packets, names cut and sent again, teams, its own variables *)
Example ex_s3 : s3_state :=
  mk_s3 (str "srv") (str "map1") (str "dm") (str "1.0") 16 (Some 2) (Some 1) (true, str "True") (Some (false, str "FALSE"))
        [(str "weather", str "rain")]
        [mk_gs3p (str "ann") 3 40 1 2 5; mk_gs3p [195; 169; 98] (-2) 50 2 0 7; mk_gs3p (str "cy") 0 60 1 9 1]
        [mk_gs3t (str "red") 4; mk_gs3t (str "blue") (-1)] 77 0 true true.
Example ex_s3_wf : wf_s3 ex_s3 = true /\ (length (s3_payloads ex_s3) = 3)%nat.
Proof. vm_compute. split; reflexivity. Qed.
